// C17 correspondence harness (a `go test -c` binary: testing/synctest needs a *testing.T).
//
// Streams:
//
//	A  ctpolicy group computation over generated log lists (operators, states, temporal
//	   intervals around NotAfter, root sets) and certificate lifetimes around every
//	   threshold: ll.SelectByStatus(usable).Compatible(cert, root, roots) then LogsByGroup.
//	B  submission.GetSCTs under VIRTUAL TIME (synctest bubble) with a scripted Submitter:
//	   per-log outcome SCT / error / hang, latency, context obedience, and the caller's
//	   context: none at all / a deadline (far away or mid-flight) / cancelled at an instant.
//	   Recorded: the order of SubmitToLog starts and returns (this fixes the linearisation
//	   the Coq side replays through the state machine), the returned set, the verdict, the
//	   per-log request counts, and TERMINATION: the call runs in a goroutine of its own and
//	   "has not returned once every goroutine of the bubble is blocked for good" is the
//	   observed outcome Hang; after the return (and after the harness has made every call
//	   still in flight return) the goroutines of the bubble are listed: none may be left.
//	   B-shared is the termination grid: a log reached by the races of two groups x its
//	   outcome (SCT, error, hang honouring / ignoring its context) x policy satisfiable /
//	   unsatisfiable without it x every kind of caller context.
//	C  Distributor.AddChain / AddPreChain end to end with a scripted LogClientBuilder
//	   (roots learnt through RefreshRoots, root checking on/off, pending-logs side submission).
//	D  (only in a -race build) concurrent use: weight changes against GetSubmissionSession,
//	   RefreshRoots against concurrent AddChain, Proxy log-list refresh against AddChain.
//	P  postInterval grid.
//	W  histories on the ctpolicy group API (weights_test.go): accepted and refused SetLogWeights /
//	   SetLogWeight calls interleaved with GetSubmissionSession and GetSCTs on the SAME groups,
//	   judged against a reference copy of the weights kept by hand.
//
// PropOK is the property's sentence evaluated directly on the observations.
//
// Build: go1.26 test -c -tags verif -o build/bin/c17 ./cmd/c17
// Run:   build/bin/c17 -test.run '^TestHarness$' -test.timeout 0 -test.count 1 -out DIR
//
// Determinism: every INPUT (log lists, groups, scripts, deadlines) is derived from the one
// harness PRNG, so a case id denotes the same scenario in every run.  The OBSERVED
// linearisation of a GetSCTs call can differ between runs, because the implementation itself
// randomises: GetSubmissionSession samples by ranging over a Go map, and goroutines that
// become runnable at the same virtual instant are scheduled in any order.  That is exactly
// the non-determinism the property quantifies over; the model side replays whichever
// linearisation was observed.
package main

import (
	"context"
	"encoding/json"
	"errors"
	"flag"
	"fmt"
	"io"
	"math/big"
	mrand "math/rand"
	"os"
	"os/exec"
	"path/filepath"
	"runtime"
	"sort"
	"strings"
	"sync"
	"testing"
	"testing/synctest"
	"time"

	ct "github.com/google/certificate-transparency-go"
	"github.com/google/certificate-transparency-go/client"
	"github.com/google/certificate-transparency-go/ctpolicy"
	"github.com/google/certificate-transparency-go/loglist3"
	"github.com/google/certificate-transparency-go/submission"
	"github.com/google/certificate-transparency-go/x509"
	"github.com/google/certificate-transparency-go/x509/pkix"
	"github.com/google/certificate-transparency-go/x509util"
	"k8s.io/klog/v2"

	"verif/harness/lib"
	"verif/harness/pki"
)

const header = `From Coq Require Import ZArith NArith List. Import ListNotations.
From V Require Import Submission.SubmitModel Submission.SubmitCase.
Local Open Scope Z_scope.
`

// ---------------------------------------------------------------- log lists

type logSpec struct {
	ID         int           `json:"id"`
	Status     string        `json:"status"`
	Interval   *[2]time.Time `json:"interval,omitempty"`
	RootsKnown bool          `json:"roots_known"`
	Roots      []int         `json:"roots,omitempty"`
}

type opSpec struct {
	Google bool      `json:"google"`
	Logs   []logSpec `json:"logs"`
}

var statuses = []string{"usable", "pending", "qualified", "readonly", "retired", "rejected", "undefined"}

var coqStatus = map[string]string{"usable": "StUsable", "pending": "StPending", "qualified": "StQualified",
	"readonly": "StReadOnly", "retired": "StRetired", "rejected": "StRejected", "undefined": "StUndefined"}

func logURL(id int) string { return fmt.Sprintf("https://log%d.example/", id) }

func idOf(url string) int {
	var id int
	if _, err := fmt.Sscanf(url, "https://log%d.example/", &id); err != nil {
		return -1
	}
	return id
}

func states(st string) *loglist3.LogStates {
	ts := loglist3.LogState{Timestamp: time.Date(2020, 1, 1, 0, 0, 0, 0, time.UTC)}
	switch st {
	case "usable":
		return &loglist3.LogStates{Usable: &ts}
	case "pending":
		return &loglist3.LogStates{Pending: &ts}
	case "qualified":
		return &loglist3.LogStates{Qualified: &ts}
	case "readonly":
		return &loglist3.LogStates{ReadOnly: &loglist3.ReadOnlyLogState{LogState: ts}}
	case "retired":
		return &loglist3.LogStates{Retired: &ts}
	case "rejected":
		return &loglist3.LogStates{Rejected: &ts}
	}
	return nil
}

func mkLogList(ops []opSpec) *loglist3.LogList {
	ll := &loglist3.LogList{}
	for i, o := range ops {
		op := &loglist3.Operator{Name: fmt.Sprintf("op%d", i), Email: []string{"ops@example.com"}}
		if o.Google {
			op.Email = []string{"someone@example.com", "google-ct-logs@googlegroups.com"}
		}
		for _, l := range o.Logs {
			lg := &loglist3.Log{Description: fmt.Sprintf("log %d", l.ID), URL: logURL(l.ID), Key: []byte{byte(l.ID)},
				LogID: []byte{byte(l.ID)}, State: states(l.Status)}
			if l.Interval != nil {
				lg.TemporalInterval = &loglist3.TemporalInterval{StartInclusive: l.Interval[0], EndExclusive: l.Interval[1]}
			}
			op.Logs = append(op.Logs, lg)
		}
		ll.Operators = append(ll.Operators, op)
	}
	return ll
}

func ns(t time.Time) *big.Int {
	v := new(big.Int).Mul(big.NewInt(t.Unix()), big.NewInt(1e9))
	return v.Add(v, big.NewInt(int64(t.Nanosecond())))
}

func coqLogList(ops []opSpec) string {
	var os []string
	for _, o := range ops {
		var ls []string
		for _, l := range o.Logs {
			iv := "None"
			if l.Interval != nil {
				iv = lib.Some(lib.Pair(lib.ZBig(ns(l.Interval[0])), lib.ZBig(ns(l.Interval[1]))))
			}
			ls = append(ls, fmt.Sprintf("mkLog %s %s %s", lib.Nn(uint64(l.ID)), coqStatus[l.Status], iv))
		}
		os = append(os, fmt.Sprintf("mkOp %s %s", lib.Bool(o.Google), lib.List(ls)))
	}
	return lib.List(os)
}

func coqRoots(ops []opSpec) string {
	var rs []string
	seen := map[int]bool{}
	for _, o := range ops {
		for _, l := range o.Logs {
			if l.RootsKnown && !seen[l.ID] {
				seen[l.ID] = true
				rs = append(rs, lib.Pair(lib.Nn(uint64(l.ID)), nlist(l.Roots)))
			}
		}
	}
	return lib.List(rs)
}

func nlist(xs []int) string {
	var s []string
	for _, x := range xs {
		s = append(s, lib.Nn(uint64(x)))
	}
	return lib.List(s)
}

func date3(t time.Time) string {
	y, m, d := t.Date()
	return lib.Pair(lib.Z(int64(y)), lib.Z(int64(m)), lib.Z(int64(d)))
}

func monthsOf(nb, na time.Time) int {
	sy, sm, sd := nb.Date()
	ey, em, ed := na.Date()
	m := (ey*12 + int(em)) - (sy*12 + int(sm))
	if ed < sd {
		m--
	}
	return m
}

func incFor(m int) int {
	switch {
	case m < 15:
		return 2
	case m <= 27:
		return 3
	case m <= 39:
		return 4
	}
	return 5
}

var offsets = []time.Duration{-time.Hour, -time.Second, -time.Nanosecond, 0, time.Nanosecond, time.Second, time.Hour}

// genOps generates operators / logs; intervals are placed around na.
func genOps(r *mrand.Rand, na time.Time, whole bool, usableBias int) []opSpec {
	nOps := 1 + r.Intn(4)
	var ops []opSpec
	next := 1
	for i := 0; i < nOps; i++ {
		o := opSpec{Google: r.Intn(2) == 0}
		if i == 0 {
			o.Google = true
		} else if i == 1 {
			o.Google = false
		}
		nl := 1 + r.Intn(4)
		for j := 0; j < nl; j++ {
			l := logSpec{ID: next, Status: "usable"}
			next++
			if r.Intn(100) >= usableBias {
				l.Status = statuses[r.Intn(len(statuses))]
			}
			if r.Intn(25) == 0 && next > 2 { // the same URL listed twice
				l.ID = 1 + r.Intn(next-2)
			}
			switch r.Intn(14) {
			case 0, 1, 2, 3, 10, 11, 12, 13:
			case 4: // far away
				s := na.Add(-1000 * time.Hour)
				e := na.Add(-500 * time.Hour)
				l.Interval = &[2]time.Time{s, e}
			default:
				var s, e time.Time
				if whole {
					s = na.Add([]time.Duration{-time.Hour, -time.Second, 0, time.Second}[r.Intn(4)])
					e = na.Add([]time.Duration{-time.Second, 0, time.Second, time.Hour}[r.Intn(4)])
				} else {
					s = na.Add(offsets[r.Intn(len(offsets))])
					e = na.Add(offsets[r.Intn(len(offsets))])
				}
				if r.Intn(3) == 0 {
					s = na.Add(-24 * time.Hour)
				}
				if r.Intn(3) == 0 {
					e = na.Add(24 * time.Hour)
				}
				l.Interval = &[2]time.Time{s, e}
			}
			if r.Intn(10) < 6 {
				l.RootsKnown = true
				for k := 0; k < 3; k++ {
					if r.Intn(5) != 0 {
						l.Roots = append(l.Roots, k)
					}
				}
			}
			o.Logs = append(o.Logs, l)
		}
		ops = append(ops, o)
	}
	return ops
}

// pickDates: NotBefore / NotAfter with a lifetime around every threshold.
func pickDates(r *mrand.Rand) (time.Time, time.Time) {
	y := 2018 + r.Intn(12)
	m := time.Month(1 + r.Intn(12))
	d := 1 + r.Intn(31)
	nb := time.Date(y, m, d, r.Intn(24), r.Intn(60), r.Intn(60), 0, time.UTC)
	targets := []int{0, 1, 12, 13, 14, 15, 16, 26, 27, 28, 29, 38, 39, 40, 41, 60}
	M := targets[r.Intn(len(targets))]
	if r.Intn(6) == 0 {
		M = r.Intn(70)
	}
	na := nb.AddDate(0, M, r.Intn(5)-2)
	if r.Intn(3) == 0 { // same day of month, other time of day
		na = time.Date(na.Year(), na.Month(), nb.Day(), r.Intn(24), r.Intn(60), r.Intn(60), 0, time.UTC)
	}
	if !na.After(nb) {
		na = nb.Add(time.Hour)
	}
	return nb, na
}

var (
	rootCAs  []*pki.Entity // ids 0..2
	nonCA    *pki.Entity   // id 9: a "root" that is not a CA
	leafKeyI = 5
)

func setupPKI() {
	for i := 0; i < 3; i++ {
		rootCAs = append(rootCAs, pki.Issue(pki.Opts{CN: fmt.Sprintf("verif root %d", i), IsCA: true, KeyIdx: i,
			NotBefore: time.Date(2000, 1, 1, 0, 0, 0, 0, time.UTC), NotAfter: time.Date(2090, 1, 1, 0, 0, 0, 0, time.UTC)}, nil))
	}
	nonCA = pki.Issue(pki.Opts{CN: "not a ca", IsCA: false, KeyIdx: 4}, nil)
}

func rootByID(id int) *x509.Certificate {
	if id == 9 {
		return nonCA.Cert
	}
	return rootCAs[id].Cert
}

func logRootsOf(ops []opSpec) loglist3.LogRoots {
	lr := loglist3.LogRoots{}
	for _, o := range ops {
		for _, l := range o.Logs {
			if l.RootsKnown {
				if _, dup := lr[logURL(l.ID)]; dup {
					continue
				}
				p := x509util.NewPEMCertPool()
				for _, k := range l.Roots {
					p.AddCert(rootByID(k))
				}
				lr[logURL(l.ID)] = p
			}
		}
	}
	return lr
}

// the root maps are keyed by URL: the first entry of an id that has root information decides
func rootInfo(ops []opSpec) map[int]logSpec {
	m := map[int]logSpec{}
	for _, o := range ops {
		for _, l := range o.Logs {
			if cur, ok := m[l.ID]; !ok || (!cur.RootsKnown && l.RootsKnown) {
				m[l.ID] = l
			}
		}
	}
	return m
}

func inside(t, s, e time.Time) bool { return ns(t).Cmp(ns(s)) >= 0 && ns(t).Cmp(ns(e)) < 0 }

type expGroups struct {
	goog, non, all []int
}

func dedupSorted(xs []int) []int {
	sort.Ints(xs)
	var out []int
	for i, x := range xs {
		if i == 0 || x != xs[i-1] {
			out = append(out, x)
		}
	}
	return out
}

// expected compatible usable logs, computed independently of the implementation
func expectCompat(ops []opSpec, na time.Time, root *int, rootIsCA bool) expGroups {
	var g expGroups
	info := rootInfo(ops)
	for _, o := range ops {
		for _, l := range o.Logs {
			if l.Status != "usable" {
				continue
			}
			if l.Interval != nil && !inside(na, l.Interval[0], l.Interval[1]) {
				continue
			}
			if root != nil {
				if !rootIsCA {
					continue
				}
				ri := info[l.ID]
				if ri.RootsKnown {
					found := false
					for _, k := range ri.Roots {
						if k == *root {
							found = true
						}
					}
					if !found {
						continue
					}
				}
			}
			g.all = append(g.all, l.ID)
			if o.Google {
				g.goog = append(g.goog, l.ID)
			} else {
				g.non = append(g.non, l.ID)
			}
		}
	}
	g.all, g.goog, g.non = dedupSorted(g.all), dedupSorted(g.goog), dedupSorted(g.non)
	return g
}

var groupIDs = map[string]int{ctpolicy.BaseName: 0, "Google-operated": 1, "Non-Google-operated": 2}

type obsGroup struct {
	Name int   `json:"name"`
	Logs []int `json:"logs"`
	Min  int   `json:"min"`
}

func observeGroups(g ctpolicy.LogPolicyData) []obsGroup {
	var out []obsGroup
	for name, gi := range g {
		id, ok := groupIDs[name]
		if !ok {
			id = 99
		}
		var ls []int
		for u := range gi.LogURLs {
			ls = append(ls, idOf(u))
		}
		sort.Ints(ls)
		out = append(out, obsGroup{id, ls, gi.MinInclusions})
	}
	sort.Slice(out, func(i, j int) bool { return out[i].Name < out[j].Name })
	return out
}

func coqObsGroups(gs []obsGroup) string {
	var xs []string
	for _, g := range gs {
		xs = append(xs, lib.Pair(lib.Nn(uint64(g.Name)), nlist(g.Logs), lib.Z(int64(g.Min))))
	}
	return lib.List(xs)
}

func eqInts(a, b []int) bool {
	if len(a) != len(b) {
		return false
	}
	for i := range a {
		if a[i] != b[i] {
			return false
		}
	}
	return true
}

func monthClass(m int) string {
	for _, b := range []int{14, 15, 27, 28, 39, 40} {
		if m == b {
			return fmt.Sprintf("months=%d(boundary)", m)
		}
	}
	switch {
	case m < 15:
		return "months<15"
	case m <= 27:
		return "months15..27"
	case m <= 39:
		return "months28..39"
	}
	return "months>=40"
}

func streamGroups(r *mrand.Rand, w adder, n int) {
	for i := 0; i < n; i++ {
		nb, na := pickDates(r)
		if r.Intn(4) == 0 {
			na = na.Add(time.Duration(r.Int63n(1e9)))
		}
		ops := genOps(r, na, false, 80)
		var root *int
		rootIsCA := true
		var rootCert *x509.Certificate
		switch r.Intn(10) {
		case 0, 1, 2:
		case 3:
			k := 9
			root, rootIsCA, rootCert = &k, false, nonCA.Cert
		default:
			k := r.Intn(3)
			root, rootCert = &k, rootCAs[k].Cert
		}
		chrome := r.Intn(3) != 0
		var pol ctpolicy.CTPolicy = ctpolicy.AppleCTPolicy{}
		cpol := "PApple"
		if chrome {
			pol, cpol = ctpolicy.ChromeCTPolicy{}, "PChrome"
		}
		ll := mkLogList(ops)
		cert := &x509.Certificate{NotBefore: nb, NotAfter: na}
		usable := ll.SelectByStatus([]loglist3.LogStatus{loglist3.UsableLogStatus})
		compat := usable.Compatible(cert, rootCert, logRootsOf(ops))
		groups, err := pol.LogsByGroup(cert, &compat)
		obs := "None"
		var og []obsGroup
		if err == nil {
			og = observeGroups(groups)
			obs = lib.Some(coqObsGroups(og))
		}
		// direct oracle
		exp := expectCompat(ops, na, root, rootIsCA)
		m := monthsOf(nb, na)
		inc := incFor(m)
		expErr := inc > len(exp.all)
		if chrome {
			expErr = expErr || len(exp.goog) < 1 || len(exp.non) < 1
		}
		ok := (err != nil) == expErr
		if ok && err == nil {
			for _, g := range og {
				switch g.Name {
				case 0:
					ok = ok && eqInts(g.Logs, exp.all) && g.Min == inc
				case 1:
					ok = ok && chrome && eqInts(g.Logs, exp.goog) && g.Min == 1
				case 2:
					ok = ok && chrome && eqInts(g.Logs, exp.non) && g.Min == 1
				default:
					ok = false
				}
			}
			ok = ok && ((chrome && len(og) == 3) || (!chrome && len(og) == 1))
		}
		rootC := "None"
		if root != nil {
			rootC = lib.Some(lib.Pair(lib.Nn(uint64(*root)), lib.Bool(rootIsCA)))
		}
		note := ""
		if !ok {
			note = fmt.Sprintf("groups policy=%s months=%d compat=%v err=%v", cpol, m, exp.all, err != nil)
		}
		tag2 := "groups:ok"
		if err != nil {
			tag2 = "groups:error"
		}
		w.Add(lib.Case{
			Coq: fmt.Sprintf("CGroups %s %s %s %s %s %s %s %s", cpol, coqLogList(ops), coqRoots(ops), rootC,
				lib.ZBig(ns(na)), date3(nb), date3(na), obs),
			Input:  map[string]interface{}{"kind": "groups", "policy": cpol, "ops": ops, "root": root, "root_is_ca": rootIsCA, "not_before": nb, "not_after": na},
			Impl:   map[string]interface{}{"error": err != nil, "groups": og},
			PropOK: ok, Note: note, Tags: []string{"A:" + cpol, "A:" + monthClass(m), "A:" + tag2},
		})
	}
}

// ---------------------------------------------------------------- scripted logs

const (
	oSCT = iota
	oErr
	oHang
)

type logScript struct {
	Outcome   int           `json:"outcome"` // 0 SCT, 1 error, 2 hang
	Latency   time.Duration `json:"latency_ns"`
	HonourCtx bool          `json:"honours_ctx"`
}

type evt struct {
	Kind   string        `json:"kind"` // start ret cancel done hang
	Log    int           `json:"log,omitempty"`
	SCT    bool          `json:"sct,omitempty"`
	CtxErr bool          `json:"ctx_err,omitempty"`
	At     time.Duration `json:"at_ns"`
}

type recorder struct {
	mu       sync.Mutex
	evs      []evt
	side     []evt // events of logs outside `main` (pending-logs side submission)
	stopped  bool
	start    time.Time
	parent   context.Context
	canceled bool
	counts   map[int]int
	release  chan struct{}
	mainLogs map[int]bool // nil = every log belongs to the observed submission
}

func newRecorder(parent context.Context) *recorder {
	return &recorder{start: time.Now(), parent: parent, counts: map[int]int{}, release: make(chan struct{})}
}

func (rc *recorder) add(e evt) {
	rc.mu.Lock()
	defer rc.mu.Unlock()
	if rc.stopped {
		return
	}
	e.At = time.Since(rc.start)
	if !rc.canceled && rc.parent.Err() != nil {
		rc.canceled = true
		rc.evs = append(rc.evs, evt{Kind: "cancel", At: e.At})
	}
	if e.Kind == "start" {
		rc.counts[e.Log]++
	}
	if rc.mainLogs != nil && (e.Kind == "start" || e.Kind == "ret") && !rc.mainLogs[e.Log] {
		rc.side = append(rc.side, e)
		return
	}
	rc.evs = append(rc.evs, e)
}

func (rc *recorder) stop() {
	rc.mu.Lock()
	rc.stopped = true
	rc.mu.Unlock()
}

var errScripted = errors.New("scripted log error")

// call plays one log's script.
func (rc *recorder) call(ctx context.Context, id int, sc logScript) (*ct.SignedCertificateTimestamp, error) {
	rc.add(evt{Kind: "start", Log: id})
	var timer <-chan time.Time
	if sc.Outcome != oHang {
		timer = time.After(sc.Latency)
	}
	var done <-chan struct{}
	if sc.HonourCtx {
		done = ctx.Done()
	}
	select {
	case <-timer:
		if sc.Outcome == oSCT {
			rc.add(evt{Kind: "ret", Log: id, SCT: true})
			return &ct.SignedCertificateTimestamp{SCTVersion: ct.V1, Timestamp: uint64(id)}, nil
		}
		rc.add(evt{Kind: "ret", Log: id})
		return nil, errScripted
	case <-done:
		rc.add(evt{Kind: "ret", Log: id, CtxErr: true})
		return nil, ctx.Err()
	case <-rc.release:
		return nil, errors.New("harness released the call")
	}
}

type scriptedSubmitter struct {
	rc      *recorder
	scripts map[int]logScript
}

func (s *scriptedSubmitter) SubmitToLog(ctx context.Context, url string, _ []ct.ASN1Cert, _ bool) (*ct.SignedCertificateTimestamp, error) {
	id := idOf(url)
	return s.rc.call(ctx, id, s.scripts[id])
}

func genScripts(r *mrand.Rand, ids []int, sctBias int) map[int]logScript {
	m := map[int]logScript{}
	for i, id := range ids {
		sc := logScript{HonourCtx: r.Intn(5) != 0}
		switch x := r.Intn(100); {
		case x < sctBias:
			sc.Outcome = oSCT
		case x < sctBias+(100-sctBias)*3/5:
			sc.Outcome = oErr
		default:
			sc.Outcome = oHang
		}
		secs := []int{0, 0, 1, 2, 3, 5, 7}[r.Intn(7)]
		// distinct sub-second offsets: two returns, a return and a stagger timer, or a return
		// and the deadline never share a virtual instant
		sc.Latency = time.Duration(secs)*time.Second + time.Duration(3+7*(i%120))*time.Millisecond
		m[id] = sc
	}
	return m
}

func coqEvs(evs []evt) string {
	var xs []string
	for _, e := range evs {
		switch e.Kind {
		case "start":
			xs = append(xs, "EStart "+lib.Nn(uint64(e.Log)))
		case "ret":
			xs = append(xs, fmt.Sprintf("ERet %s %s %s", lib.Nn(uint64(e.Log)), lib.Bool(e.SCT), lib.Bool(e.CtxErr)))
		case "cancel":
			xs = append(xs, "ECancel")
		case "done":
			xs = append(xs, "EDone")
		case "hang":
			xs = append(xs, "EHang")
		}
	}
	return lib.List(xs)
}

type groupSpec struct {
	Name   int   `json:"name"`
	Logs   []int `json:"logs"`
	Min    int   `json:"min"`
	IsBase bool  `json:"is_base"`
	Sess   []int `json:"positive_weight"`
}

func coqGroups(gs []groupSpec) string {
	var xs []string
	for _, g := range gs {
		xs = append(xs, lib.Pair(lib.Nn(uint64(g.Name)), nlist(g.Logs), lib.Z(int64(g.Min)), lib.Bool(g.IsBase), nlist(g.Sess)))
	}
	return lib.List(xs)
}

func groupName(id int) string {
	switch id {
	case 0:
		return ctpolicy.BaseName
	case 1:
		return "Google-operated"
	case 2:
		return "Non-Google-operated"
	}
	return fmt.Sprintf("group-%d", id)
}

func mkPolicyData(gs []groupSpec) ctpolicy.LogPolicyData {
	d := ctpolicy.LogPolicyData{}
	for _, g := range gs {
		gi := &ctpolicy.LogGroupInfo{Name: groupName(g.Name), LogURLs: map[string]bool{}, MinInclusions: g.Min,
			IsBase: g.IsBase, LogWeights: map[string]float32{}}
		pos := map[int]bool{}
		for _, l := range g.Sess {
			pos[l] = true
		}
		for _, l := range g.Logs {
			gi.LogURLs[logURL(l)] = true
			if pos[l] {
				gi.LogWeights[logURL(l)] = 1.0
			} else {
				gi.LogWeights[logURL(l)] = 0.0
			}
		}
		d[gi.Name] = gi
	}
	return d
}

func contains(xs []int, x int) bool {
	for _, y := range xs {
		if y == x {
			return true
		}
	}
	return false
}

// goodCfg: non-base groups pairwise disjoint, base contains every log.
func goodCfg(gs []groupSpec) bool {
	var base *groupSpec
	for i := range gs {
		if gs[i].Name == 0 {
			base = &gs[i]
		}
	}
	for i := range gs {
		if gs[i].Name == 0 {
			continue
		}
		for j := range gs {
			if j != i && gs[j].Name != 0 {
				for _, l := range gs[i].Logs {
					if contains(gs[j].Logs, l) {
						return false
					}
				}
			}
		}
		if base != nil {
			for _, l := range gs[i].Logs {
				if !contains(base.Logs, l) {
					return false
				}
			}
		}
	}
	return true
}

func enough(gs []groupSpec, sc map[int]logScript) bool {
	for _, g := range gs {
		n := 0
		for _, l := range g.Sess {
			if sc[l].Outcome == oSCT {
				n++
			}
		}
		if n < g.Min {
			return false
		}
	}
	return true
}

type runObs struct {
	Evs       []evt         `json:"events"`
	SCTs      []int         `json:"scts"`
	OK        bool          `json:"ok"`
	Counts    map[int]int   `json:"request_counts"`
	Cancelled bool          `json:"cancelled"`
	Returned  time.Duration `json:"returned_at_ns"`
	Panic     string        `json:"panic,omitempty"`
	Side      []evt         `json:"side_submission_events,omitempty"`
	// Termination observables (see runBubble).
	Hang             bool     `json:"hang,omitempty"`                    // the call had not returned at the horizon (every goroutine of the bubble blocked, no timer left before it)
	Inflight         []int    `json:"calls_in_flight_at_hang,omitempty"` // SubmitToLog calls (of the observed submission) started and not returned at that instant
	HangAfterRelease bool     `json:"hang_after_release,omitempty"`      // ... and still had not returned after every call in flight had been made to return
	Leaked           []string `json:"goroutines_left,omitempty"`         // goroutines of the call still alive after it returned and every call in flight returned, the caller's context not yet ended by the harness
	Stuck            []string `json:"goroutines_stuck,omitempty"`        // goroutines still alive after the caller's context was cancelled as well
}

// ctxSpec is the caller's context of one observed call.
//
//	none      no deadline, never cancelled while the call is observed
//	deadline  context.WithTimeout(At)
//	cancel    context.WithCancel, cancelled by the caller at the instant At
type ctxSpec struct {
	Kind string        `json:"kind"`
	At   time.Duration `json:"at_ns,omitempty"`
}

func ctxNone() ctxSpec                    { return ctxSpec{Kind: "none"} }
func ctxDeadline(d time.Duration) ctxSpec { return ctxSpec{Kind: "deadline", At: d} }
func ctxCancelAt(d time.Duration) ctxSpec { return ctxSpec{Kind: "cancel", At: d} }

// ends: the context ends by itself at At.
func (c ctxSpec) ends() bool { return c.Kind != "none" }

// make must be called inside the bubble.  The returned cancel function is the harness's own
// (clean-up after the observation), not part of the scenario.
func (c ctxSpec) make() (context.Context, context.CancelFunc) {
	switch c.Kind {
	case "deadline":
		return context.WithTimeout(context.Background(), c.At)
	case "cancel":
		ctx, cancel := context.WithCancel(context.Background())
		tm := time.AfterFunc(c.At, cancel)
		return ctx, func() { tm.Stop(); cancel() }
	}
	return context.WithCancel(context.Background())
}

// inflightAt: logs whose SubmitToLog call was started and had not returned strictly before
// the instant `before` (negative = at the end of the recorded events).
func inflightAt(evs []evt, before time.Duration) []int {
	in := map[int]bool{}
	for _, e := range evs {
		if before >= 0 && e.At >= before {
			continue
		}
		switch e.Kind {
		case "start":
			in[e.Log] = true
		case "ret":
			delete(in, e.Log)
		}
	}
	var out []int
	for l := range in {
		out = append(out, l)
	}
	sort.Ints(out)
	return out
}

// maxSession: the longest submission session of the policy; the stagger of groupRace issues
// the last request of a group at most that many PostBatchIntervals (1 s) after the start.
func maxSession(gs []groupSpec) int {
	n := 0
	for _, g := range gs {
		if len(g.Sess) > n {
			n = len(g.Sess)
		}
	}
	return n
}

// propTermination: "it always terminates, for every pattern of log latencies, failures and
// goroutine schedules", evaluated on what was observed of one call.  The only excuse for a
// call that has not returned is the fairness premise of the property: a SubmitToLog call is
// still in flight (the log hangs) while the caller's context has not ended.  The harness
// closes that premise itself (it makes every call in flight return), after which the call
// has to return and no goroutine of it may be left - all without the caller's context ending.
func propTermination(gs []groupSpec, sc map[int]logScript, o *runObs, cs ctxSpec) (bool, string) {
	if o.Hang {
		switch {
		case o.Cancelled:
			return false, "getscts never-returns although-context-ended ctx=" + cs.Kind
		case len(o.Inflight) == 0:
			return false, "getscts never-returns no-call-in-flight ctx=" + cs.Kind
		case goodCfg(gs) && enough(gs, sc):
			// told apart by whether every call still in flight belongs to a log that ignores the
			// cancellation of its context (a submitter outside the context contract)
			deaf := true
			for _, l := range o.Inflight {
				if sc[l].HonourCtx {
					deaf = false
				}
			}
			if deaf {
				return false, "getscts never-returns although-enough-logs-answered in-flight-ignores-cancellation ctx=" + cs.Kind
			}
			return false, "getscts never-returns although-enough-logs-answered ctx=" + cs.Kind
		case o.HangAfterRelease:
			return false, "getscts never-returns after-every-call-returned ctx=" + cs.Kind
		}
	}
	if len(o.Leaked) > 0 {
		return false, fmt.Sprintf("getscts goroutines-left-after-return n=%d ctx=%s", len(o.Leaked), cs.Kind)
	}
	if len(o.Stuck) > 0 {
		return false, fmt.Sprintf("getscts goroutines-left-after-context-end n=%d ctx=%s", len(o.Stuck), cs.Kind)
	}
	// A call that came back only because the caller's context ended, although every request
	// of every group had long been issued and none was outstanding, did not terminate by
	// itself: it was rescued by the caller's deadline.
	if !o.Hang && o.Cancelled && cs.ends() && cs.At > time.Duration(maxSession(gs)+1)*time.Second &&
		o.Returned >= cs.At && len(inflightAt(o.Evs, cs.At)) == 0 {
		return false, "getscts idle-until-context-end ctx=" + cs.Kind
	}
	return true, ""
}

// propRun: the property's sentences on one observed GetSCTs-like call.
func propRun(gs []groupSpec, sc map[int]logScript, o *runObs, allowed map[int]bool, cs ctxSpec) (bool, string) {
	if o.Panic != "" {
		return false, "getscts panic"
	}
	seen := map[int]bool{}
	for _, l := range o.SCTs {
		if seen[l] {
			return false, fmt.Sprintf("getscts duplicate-sct log=%d", l)
		}
		seen[l] = true
	}
	for l, n := range o.Counts {
		if n > 1 {
			return false, fmt.Sprintf("getscts log-requested-%d-times log=%d", n, l)
		}
		if n > 0 && allowed != nil && !allowed[l] {
			return false, fmt.Sprintf("getscts contacted-incompatible log=%d", l)
		}
	}
	for _, l := range o.SCTs {
		if sc[l].Outcome != oSCT {
			return false, fmt.Sprintf("getscts sct-from-log-that-gave-none log=%d", l)
		}
	}
	if o.OK && !o.Hang {
		for _, g := range gs {
			n := 0
			for _, l := range o.SCTs {
				if contains(g.Logs, l) {
					n++
				}
			}
			if n < g.Min {
				return false, fmt.Sprintf("getscts success-without-policy group=%d have=%d need=%d", g.Name, n, g.Min)
			}
		}
	}
	if ok, note := propTermination(gs, sc, o, cs); !ok {
		return false, note
	}
	if !o.Hang && !o.OK && !o.Cancelled && goodCfg(gs) && enough(gs, sc) {
		sat := true
		for _, g := range gs {
			n := 0
			for _, l := range o.SCTs {
				if contains(g.Logs, l) {
					n++
				}
			}
			if n < g.Min {
				sat = false
			}
		}
		return false, fmt.Sprintf("getscts enough-answers-but-failure returned-set-satisfies-policy=%v", sat)
	}
	return true, ""
}

// horizon: the virtual instant at which a call that has not returned is declared hung.  The
// bubble's clock only reaches it when every goroutine of the bubble is durably blocked and no
// earlier timer (latency, stagger, deadline: all below 11 minutes) is left, so "not returned at
// the horizon" is "will never return unless something outside the call happens".
const horizon = 3 * time.Hour

// bubbleGoroutines lists, by the innermost function of /repo (or of the harness) on their
// stack, the goroutines of the calling goroutine's bubble other than the caller and the
// synctest machinery.  Called after synctest.Wait, so each of them is durably blocked.
func bubbleGoroutines() []string {
	buf := make([]byte, 1<<20)
	for {
		n := runtime.Stack(buf, true)
		if n < len(buf) {
			buf = buf[:n]
			break
		}
		buf = make([]byte, 2*len(buf))
	}
	blocks := strings.Split(string(buf), "\n\n")
	bubbleOf := func(hdr string) string {
		i := strings.Index(hdr, "synctest bubble ")
		if i < 0 {
			return ""
		}
		rest := hdr[i+len("synctest bubble "):]
		j := strings.IndexAny(rest, "],")
		if j < 0 {
			return ""
		}
		return rest[:j]
	}
	mine := ""
	if len(blocks) > 0 {
		mine = bubbleOf(strings.SplitN(blocks[0], "\n", 2)[0]) // the first block is the caller
	}
	var out []string
	if mine == "" {
		return out
	}
	for _, b := range blocks[1:] {
		lines := strings.Split(b, "\n")
		if bubbleOf(lines[0]) != mine {
			continue
		}
		where, top := "", ""
		for _, ln := range lines[1:] {
			if strings.HasPrefix(ln, "\t") || strings.HasPrefix(ln, "created by ") {
				continue
			}
			fn := ln
			if k := strings.LastIndex(fn, "("); k > 0 {
				fn = fn[:k]
			}
			if top == "" {
				top = fn
			}
			if where == "" && (strings.Contains(fn, "certificate-transparency-go/") || strings.HasPrefix(fn, "verif/") || strings.HasPrefix(fn, "main.")) {
				where = fn
			}
		}
		if strings.HasPrefix(top, "internal/synctest.Run") || strings.Contains(b, "testing/synctest.testingSynctestTest(") {
			continue
		}
		if where == "" {
			where = top
		}
		if k := strings.Index(where, "certificate-transparency-go/"); k >= 0 {
			where = where[k+len("certificate-transparency-go/"):]
		}
		state := lines[0]
		if k := strings.Index(state, "["); k >= 0 {
			state = strings.TrimSuffix(strings.TrimSpace(state[k:]), ":")
			if c := strings.Index(state, ","); c >= 0 {
				state = state[:c] + "]"
			}
		}
		out = append(out, where+" "+state)
	}
	sort.Strings(out)
	return out
}

// runBubble executes f - one call of the code under test with the caller's context cs - inside
// a synctest bubble and observes, besides what f returns, whether and how it TERMINATES:
//
//  1. f runs in a goroutine of its own; the bubble's main goroutine waits for it up to the
//     horizon.  Not returned by then = Hang (an observed outcome, not a harness crash), with
//     the SubmitToLog calls in flight at that instant.
//  2. (returned) 90 virtual seconds pass so that calls still in flight finish by themselves.
//  3. Fairness closure: the harness makes every call still in flight return (an error), and
//     30 more seconds pass.  A hung call has to have returned by now, and of a returned call
//     no goroutine may be left - the caller's context has NOT been ended by the harness yet.
//  4. Clean-up: the harness cancels the context; whatever is left after that is Stuck (the
//     bubble then ends in synctest's deadlock panic, which is swallowed here).
func runBubble(t *testing.T, cs ctxSpec, f func(ctx context.Context, rc *recorder) (scts []int, ok bool)) *runObs {
	o := &runObs{}
	if raceEnabled {
		defer runtime.GOMAXPROCS(runtime.GOMAXPROCS(1))
	}
	type result struct {
		scts      []int
		ok        bool
		panic     string
		cancelled bool
		at        time.Duration
	}
	defer func() {
		if p := recover(); p != nil {
			if len(o.Stuck) > 0 && strings.Contains(fmt.Sprint(p), "deadlock") {
				return // goroutines that nothing releases: already recorded as an observation
			}
			panic(p)
		}
	}()
	synctest.Test(t, func(t *testing.T) {
		ctx, cancel := cs.make()
		defer cancel()
		rc := newRecorder(ctx)
		resCh := make(chan result, 1)
		go func() {
			var r result
			func() {
				defer func() {
					if p := recover(); p != nil {
						r.panic = fmt.Sprint(p)
					}
				}()
				r.scts, r.ok = f(ctx, rc)
			}()
			r.cancelled = ctx.Err() != nil
			rc.add(evt{Kind: "done"})
			r.at = time.Since(rc.start)
			resCh <- r
		}()
		returned := false
		take := func(r result) {
			returned = true
			o.SCTs, o.OK, o.Panic, o.Cancelled, o.Returned = r.scts, r.ok, r.panic, r.cancelled, r.at
		}
		// 1. return or hang
		tm := time.NewTimer(horizon)
		select {
		case r := <-resCh:
			tm.Stop()
			take(r)
			time.Sleep(90 * time.Second) // 2. in-flight calls finish (or are cut off by the deadline)
		case <-tm.C:
			o.Hang = true
			o.Cancelled = ctx.Err() != nil
			rc.add(evt{Kind: "hang"})
			o.Returned = time.Since(rc.start)
		}
		rc.stop()
		rc.mu.Lock()
		o.Evs, o.Side = rc.evs, rc.side
		o.Counts = map[int]int{}
		for k, v := range rc.counts {
			o.Counts[k] = v
		}
		rc.mu.Unlock()
		if o.Hang {
			o.Inflight = inflightAt(o.Evs, -1)
		}
		// 3. every call in flight returns; the caller's context is left alone
		close(rc.release)
		time.Sleep(30 * time.Second)
		synctest.Wait()
		if !returned {
			select {
			case r := <-resCh:
				returned = true
				_ = r // what a hung call returns once released is not part of the observation
			default:
				o.HangAfterRelease = true
			}
		}
		o.Leaked = bubbleGoroutines()
		// 4. clean-up
		cancel()
		time.Sleep(time.Second)
		synctest.Wait()
		if !returned {
			select {
			case <-resCh:
			default:
			}
		}
		o.Stuck = bubbleGoroutines()
	})
	sort.Ints(o.SCTs)
	return o
}

func sctIDs(res []*submission.AssignedSCT) []int {
	var out []int
	for _, a := range res {
		out = append(out, idOf(a.LogURL))
	}
	return out
}

func coqReqs(ids []int, counts map[int]int) string {
	var xs []string
	for _, id := range ids {
		xs = append(xs, lib.Pair(lib.Nn(uint64(id)), lib.Nn(uint64(counts[id]))))
	}
	return lib.List(xs)
}

// longDeadline: a deadline far beyond every latency and stagger of a scenario.
const longDeadline = 10*time.Minute + 500*time.Millisecond + time.Microsecond

// shortInstant: an instant in the middle of a scenario; the odd microsecond keeps it apart
// from every return (milliseconds) and stagger timer (whole seconds).
func shortInstant(r *mrand.Rand) time.Duration {
	return time.Duration(r.Intn(9))*time.Second + 500*time.Millisecond + time.Duration(1+2*r.Intn(50))*time.Microsecond
}

// pickCtx: the caller's context - none at all, a deadline (far away or mid-flight), or a
// cancellation by the caller at an instant mid-flight.
func pickCtx(r *mrand.Rand) ctxSpec {
	switch x := r.Intn(20); {
	case x < 7:
		return ctxNone()
	case x < 11:
		return ctxDeadline(longDeadline)
	case x < 16:
		return ctxDeadline(shortInstant(r))
	}
	return ctxCancelAt(shortInstant(r))
}

func genGroups(r *mrand.Rand) ([]groupSpec, []int, string) {
	var gs []groupSpec
	var ids []int
	kind := "chrome-like"
	switch x := r.Intn(100); {
	case x < 65:
		nG, nN := 1+r.Intn(4), 1+r.Intn(4)
		var g, n, all []int
		for i := 1; i <= nG; i++ {
			g, all = append(g, i), append(all, i)
		}
		for i := nG + 1; i <= nG+nN; i++ {
			n, all = append(n, i), append(all, i)
		}
		bm := 2 + r.Intn(4)
		if bm > len(all) && r.Intn(4) != 0 {
			bm = len(all)
		}
		gs = []groupSpec{{1, g, 1, false, nil}, {2, n, 1, false, nil}, {0, all, bm, true, nil}}
		ids = all
	case x < 80:
		kind = "apple-like"
		n := 1 + r.Intn(6)
		for i := 1; i <= n; i++ {
			ids = append(ids, i)
		}
		bm := 2 + r.Intn(4)
		if bm > n && r.Intn(4) != 0 {
			bm = n
		}
		gs = []groupSpec{{0, ids, bm, true, nil}}
	default:
		kind = "generic"
		n := 2 + r.Intn(6)
		for i := 1; i <= n; i++ {
			ids = append(ids, i)
		}
		ng := 1 + r.Intn(3)
		for k := 0; k < ng; k++ {
			var ls []int
			for _, id := range ids {
				if r.Intn(2) == 0 {
					ls = append(ls, id)
				}
			}
			gs = append(gs, groupSpec{3 + k, ls, r.Intn(3), false, nil})
		}
		if r.Intn(2) == 0 {
			var ls []int
			for _, id := range ids {
				if r.Intn(4) != 0 {
					ls = append(ls, id)
				}
			}
			gs = append(gs, groupSpec{0, ls, r.Intn(4), true, nil})
		}
	}
	for i := range gs {
		for _, l := range gs[i].Logs {
			if r.Intn(8) != 0 {
				gs[i].Sess = append(gs[i].Sess, l)
			}
		}
	}
	return gs, ids, kind
}

func outcomeTag(o *runObs) string {
	switch {
	case o.Panic != "":
		return "panic"
	case o.Hang:
		return "hang"
	case o.Cancelled && o.OK:
		return "cancelled+success"
	case o.Cancelled:
		return "cancelled"
	case o.OK:
		return "success"
	}
	return "failure"
}

// sharedFailing: a log that does not answer with an SCT and is in the session of two groups,
// i.e. one that two group races reach (the second one has to wait for the first one's outcome).
func sharedFailing(gs []groupSpec, sc map[int]logScript) (errShared, hangShared bool) {
	n := map[int]int{}
	for _, g := range gs {
		for _, l := range g.Sess {
			n[l]++
		}
	}
	for l, k := range n {
		if k >= 2 {
			switch sc[l].Outcome {
			case oErr:
				errShared = true
			case oHang:
				hangShared = true
			}
		}
	}
	return
}

// terminationTags: the classes of the termination grid a scenario falls in.
func terminationTags(prefix string, gs []groupSpec, sc map[int]logScript, cs ctxSpec, o *runObs) []string {
	tags := []string{prefix + ":ctx=" + cs.Kind}
	if cs.Kind == "deadline" && cs.At == longDeadline {
		tags[0] += "(far)"
	}
	sat := "unsatisfiable"
	if enough(gs, sc) {
		sat = "satisfiable"
	}
	tags = append(tags, prefix+":policy-"+sat)
	es, hs := sharedFailing(gs, sc)
	if es {
		tags = append(tags, prefix+":shared-log-error", prefix+":shared-log-error+"+sat+"+ctx="+cs.Kind)
	}
	if hs {
		tags = append(tags, prefix+":shared-log-hang", prefix+":shared-log-hang+"+sat+"+ctx="+cs.Kind)
	}
	if o.Hang {
		tags = append(tags, prefix+":hang-with-call-in-flight="+fmt.Sprint(len(o.Inflight) > 0))
	}
	return tags
}

// oneRun: one observed submission.GetSCTs call.
func oneRun(t *testing.T, w adder, gs []groupSpec, ids []int, kind string, sc map[int]logScript, cs ctxSpec, extra ...string) {
	groups := mkPolicyData(gs)
	o := runBubble(t, cs, func(ctx context.Context, rc *recorder) ([]int, bool) {
		res, err := submission.GetSCTs(ctx, &scriptedSubmitter{rc, sc}, []ct.ASN1Cert{{Data: []byte{1, 2, 3}}}, false, groups)
		return sctIDs(res), err == nil
	})
	ok, note := propRun(gs, sc, o, nil, cs)
	if ok {
		union := map[int]bool{}
		for _, g := range gs {
			for _, l := range g.Sess {
				union[l] = true
			}
		}
		for l, c := range o.Counts {
			if c > 0 && !union[l] {
				ok, note = false, fmt.Sprintf("getscts contacted-log-outside-sessions log=%d", l)
			}
		}
	}
	if ok && cs.ends() && o.Returned > cs.At+time.Second {
		ok, note = false, "getscts returned-after-deadline"
	}
	tags := append([]string{"B:" + kind, "B:" + outcomeTag(o), fmt.Sprintf("B:logs=%d", len(ids))}, terminationTags("B", gs, sc, cs, o)...)
	w.Add(lib.Case{
		Coq:    fmt.Sprintf("CRun %s %s %s %s %s", coqGroups(gs), coqEvs(o.Evs), nlist(o.SCTs), lib.Bool(o.OK), coqReqs(ids, o.Counts)),
		Input:  map[string]interface{}{"kind": "getscts", "groups": gs, "scripts": sc, "context": cs},
		Impl:   o,
		PropOK: ok, Note: note,
		Tags: append(tags, extra...),
	})
}

func streamRuns(t *testing.T, r *mrand.Rand, w adder, n int) {
	for i := 0; i < n; i++ {
		gs, ids, kind := genGroups(r)
		bias := []int{95, 75, 55}[r.Intn(3)]
		sc := genScripts(r, ids, bias)
		cs := pickCtx(r)
		if i < 2 { // the known pre-fix scenario: every log slower than the stagger interval
			gs = []groupSpec{{1, []int{1}, 1, false, []int{1}}, {2, []int{2}, 1, false, []int{2}}, {0, []int{1, 2}, 2, true, []int{1, 2}}}
			ids = []int{1, 2}
			sc = map[int]logScript{1: {oSCT, 5*time.Second + 3*time.Millisecond, true}, 2: {oSCT, 5*time.Second + 10*time.Millisecond, true}}
			cs, kind = ctxDeadline(10*time.Minute+time.Microsecond), "chrome-like"
			if i == 1 {
				cs = ctxNone()
			}
		}
		oneRun(t, w, gs, ids, kind, sc, cs)
	}
}

// streamShared is the termination grid: policies in which a log is reached by the races of
// TWO groups (Chrome-shaped: every log is in its operator group and in All-logs; or generic
// overlapping groups without a base group), that log answering with an SCT / an error /
// never (honouring or ignoring its context), the policy being satisfiable or unsatisfiable
// without it, under every kind of caller context.  The race of the second group does not
// submit again: it waits for the outcome obtained by the first one, so whatever that
// outcome is, it has to be made known - or the second race, and the call, never ends.
func streamShared(t *testing.T, r *mrand.Rand, w adder, rounds int) {
	type shape struct {
		name string
		gs   []groupSpec
		ids  []int
		fail []int // the logs that do not answer with an SCT
	}
	g := func(name int, min int, base bool, logs ...int) groupSpec {
		return groupSpec{name, logs, min, base, append([]int(nil), logs...)}
	}
	shapes := []shape{
		// the only log of a group fails: unsatisfiable
		{"only-log-of-group", []groupSpec{g(1, 1, false, 1), g(2, 1, false, 2), g(0, 2, true, 1, 2)}, []int{1, 2}, []int{1}},
		// every group can be met, the total cannot
		{"total-short", []groupSpec{g(1, 1, false, 1, 2), g(2, 1, false, 3), g(0, 3, true, 1, 2, 3)}, []int{1, 2, 3}, []int{2}},
		// a spare log of the same group answers: satisfiable
		{"spare-in-group", []groupSpec{g(1, 1, false, 1, 2), g(2, 1, false, 3), g(0, 2, true, 1, 2, 3)}, []int{1, 2, 3}, []int{1}},
		// the failing log is not needed at all
		{"not-needed", []groupSpec{g(1, 1, false, 1), g(2, 1, false, 2, 3), g(0, 2, true, 1, 2, 3)}, []int{1, 2, 3}, []int{3}},
		// several fail, one group left without any
		{"group-wiped-out", []groupSpec{g(1, 1, false, 1, 2), g(2, 1, false, 3, 4), g(0, 3, true, 1, 2, 3, 4)}, []int{1, 2, 3, 4}, []int{3, 4}},
		// overlapping groups, no base group; the shared log fails
		{"overlap-no-base-unsat", []groupSpec{g(3, 1, false, 1, 2), g(4, 2, false, 2, 3)}, []int{1, 2, 3}, []int{2}},
		{"overlap-no-base-sat", []groupSpec{g(3, 1, false, 1, 2), g(4, 1, false, 2, 3)}, []int{1, 2, 3}, []int{2}},
		// nothing fails (the reference point of the grid)
		{"all-answer", []groupSpec{g(1, 1, false, 1, 2), g(2, 1, false, 3), g(0, 3, true, 1, 2, 3)}, []int{1, 2, 3}, nil},
	}
	type failure struct {
		name   string
		script logScript
	}
	for round := 0; round < rounds; round++ {
		for _, sh := range shapes {
			for _, fl := range []failure{{"error", logScript{Outcome: oErr, HonourCtx: true}}, {"hang", logScript{Outcome: oHang, HonourCtx: true}},
				{"hang-ignoring-ctx", logScript{Outcome: oHang}}} {
				if sh.fail == nil && fl.name != "error" {
					continue
				}
				for _, cs := range []ctxSpec{ctxNone(), ctxDeadline(longDeadline), ctxDeadline(shortInstant(r)), ctxCancelAt(shortInstant(r))} {
					sc := map[int]logScript{}
					for i, id := range sh.ids {
						// answers before, between and after the stagger instants of the other races
						lat := time.Duration([]int{0, 0, 1, 2, 3}[r.Intn(5)])*time.Second + time.Duration(3+7*i)*time.Millisecond
						sc[id] = logScript{Outcome: oSCT, Latency: lat, HonourCtx: r.Intn(4) != 0}
						if contains(sh.fail, id) {
							f := fl.script
							f.Latency = lat
							sc[id] = f
						}
					}
					oneRun(t, w, sh.gs, sh.ids, "shared:"+sh.name, sc, cs, "B:shared-grid", "B:shared-grid:"+fl.name)
				}
			}
		}
	}
}

// ---------------------------------------------------------------- Distributor end to end

type scriptedClient struct {
	id    int
	rc    **recorder // the recorder of the call in progress
	sc    *map[int]logScript
	roots []int
	rerr  bool
}

func (c *scriptedClient) AddChain(ctx context.Context, _ []ct.ASN1Cert) (*ct.SignedCertificateTimestamp, error) {
	return (*c.rc).call(ctx, c.id, (*c.sc)[c.id])
}
func (c *scriptedClient) AddPreChain(ctx context.Context, _ []ct.ASN1Cert) (*ct.SignedCertificateTimestamp, error) {
	return (*c.rc).call(ctx, c.id, (*c.sc)[c.id])
}
func (c *scriptedClient) GetAcceptedRoots(ctx context.Context) ([]ct.ASN1Cert, error) {
	if c.rerr {
		return nil, errors.New("scripted get-roots failure")
	}
	var out []ct.ASN1Cert
	for _, k := range c.roots {
		out = append(out, ct.ASN1Cert{Data: rootByID(k).Raw})
	}
	return out, nil
}

func streamDist(t *testing.T, r *mrand.Rand, w adder, n int) {
	for i := 0; i < n; i++ {
		nb, na := pickDates(r)
		ops := genOps(r, na, true, 75)
		// URLs are unique here (the client map is keyed by URL)
		seen := map[int]bool{}
		for oi := range ops {
			var keep []logSpec
			for _, l := range ops[oi].Logs {
				if !seen[l.ID] {
					seen[l.ID] = true
					keep = append(keep, l)
				}
			}
			ops[oi].Logs = keep
		}
		if r.Intn(10) < 3 { // every log publishes its roots: an unknown chain root is refused
			drop := r.Intn(3)
			for oi := range ops {
				for li := range ops[oi].Logs {
					ops[oi].Logs[li].RootsKnown = true
					var rs []int
					for _, kk := range ops[oi].Logs[li].Roots {
						if kk != drop {
							rs = append(rs, kk)
						}
					}
					ops[oi].Logs[li].Roots = rs
				}
			}
		}
		chrome := r.Intn(3) != 0
		cpol := "PApple"
		var pol ctpolicy.CTPolicy = ctpolicy.AppleCTPolicy{}
		if chrome {
			cpol, pol = "PChrome", ctpolicy.ChromeCTPolicy{}
		}
		dis := r.Intn(5) == 0
		refresh := r.Intn(10) != 0
		k := r.Intn(3)
		withRoot := r.Intn(2) == 0
		pre := r.Intn(3) == 0
		loadPending := r.Intn(2) == 0
		lo := pki.Opts{CN: "leaf", KeyIdx: leafKeyI, NotBefore: nb, NotAfter: na}
		if pre {
			lo.ExtraExt = append(lo.ExtraExt, pki.PoisonExt())
		}
		leaf := pki.Issue(lo, rootCAs[k])
		rawChain := [][]byte{leaf.DER}
		if withRoot {
			rawChain = append(rawChain, rootCAs[k].DER)
		}
		// which logs have clients: usable, pending, qualified
		var clientIDs, usableIDs []int
		for _, o := range ops {
			for _, l := range o.Logs {
				if l.Status == "usable" || l.Status == "pending" || l.Status == "qualified" {
					clientIDs = append(clientIDs, l.ID)
				}
				if l.Status == "usable" {
					usableIDs = append(usableIDs, l.ID)
				}
			}
		}
		sort.Ints(clientIDs)
		sort.Ints(usableIDs)
		sc := genScripts(r, clientIDs, []int{95, 75}[r.Intn(2)])
		cs := pickCtx(r)
		info := rootInfo(ops)
		// what the distributor will have learnt about roots
		known := map[int]bool{}
		pool := map[int]bool{}
		if refresh && !dis {
			for _, id := range clientIDs {
				if info[id].RootsKnown {
					known[id] = true
					for _, kk := range info[id].Roots {
						pool[kk] = true
					}
				}
			}
		}
		// rootDataFull is only ever computed by RefreshRoots (zero value false before that)
		full := refresh && !dis && len(known) == len(clientIDs)
		verdict := "Unverified"
		var rootP *int
		if pool[k] {
			verdict = fmt.Sprintf("(Rooted %s true)", lib.Nn(uint64(k)))
			rootP = &k
		}
		// model input: only the learnt roots are known
		mops := make([]opSpec, len(ops))
		for oi := range ops {
			mops[oi] = opSpec{Google: ops[oi].Google}
			for _, l := range ops[oi].Logs {
				l2 := l
				if !known[l.ID] {
					l2.RootsKnown, l2.Roots = false, nil
				}
				mops[oi].Logs = append(mops[oi].Logs, l2)
			}
		}
		var rcur *recorder
		var class int
		var resNil bool
		mainLogs := map[int]bool{}
		for _, id := range usableIDs {
			mainLogs[id] = true
		}
		o := runBubble(t, cs, func(ctx context.Context, rc *recorder) ([]int, bool) {
			rc.mainLogs = mainLogs
			rcur = rc
			var opts []submission.DistributorOption
			if dis {
				opts = append(opts, submission.DisableRootCompatibilityCheckingDistributorOption{})
			}
			d, err := submission.NewDistributor(mkLogList(ops), pol, func(l *loglist3.Log) (client.AddLogClient, error) {
				id := idOf(l.URL)
				return &scriptedClient{id: id, rc: &rcur, sc: &sc, roots: info[id].Roots, rerr: !info[id].RootsKnown}, nil
			}, nil, opts...)
			if err != nil {
				panic(err)
			}
			if refresh {
				d.RefreshRoots(context.Background())
			}
			var res []*submission.AssignedSCT
			if pre {
				res, err = d.AddPreChain(ctx, rawChain, loadPending)
			} else {
				res, err = d.AddChain(ctx, rawChain, loadPending)
			}
			resNil = res == nil
			switch {
			case errors.Is(err, submission.ErrDistributorNotEnoughCompatibleLogs):
				class = 2
			case err != nil && resNil:
				class = 1
			}
			return sctIDs(res), err == nil
		})
		// direct oracle
		ok, note := true, ""
		var gs []groupSpec
		expClass := 0
		var exp expGroups
		rootForCompat := rootP
		if dis {
			rootForCompat = nil
		}
		if !dis && rootP == nil && full {
			expClass = 1
		} else {
			exp = expectCompat(mops, na, rootForCompat, true)
			inc := incFor(monthsOf(nb, na))
			if inc > len(exp.all) || (chrome && (len(exp.goog) < 1 || len(exp.non) < 1)) {
				expClass = 2
			} else if chrome {
				gs = []groupSpec{{1, exp.goog, 1, false, exp.goog}, {2, exp.non, 1, false, exp.non}, {0, exp.all, inc, true, exp.all}}
			} else {
				gs = []groupSpec{{0, exp.all, inc, true, exp.all}}
			}
		}
		if class != expClass {
			ok, note = false, fmt.Sprintf("distributor outcome-class=%d expected=%d", class, expClass)
		}
		if ok && class == 0 {
			allowed := map[int]bool{}
			for _, l := range exp.all {
				allowed[l] = true
			}
			mainCounts := map[int]int{}
			for id, c := range o.Counts {
				if mainLogs[id] {
					mainCounts[id] = c
				}
			}
			o2 := *o
			o2.Counts = mainCounts
			ok, note = propRun(gs, sc, &o2, allowed, cs)
			if note != "" {
				note = "distributor " + note
			}
		}
		if ok && class != 0 {
			for id, c := range o.Counts {
				if c > 0 && mainLogs[id] {
					ok, note = false, fmt.Sprintf("distributor contacted-log-although-refused log=%d", id)
				}
			}
			if tok, tnote := propTermination(nil, sc, o, cs); ok && !tok { // a refusal terminates too, and leaves nothing behind
				ok, note = false, "distributor "+tnote
			}
		}
		// the side submission only ever touches pending / qualified logs, each at most once
		for id, c := range o.Counts {
			if !mainLogs[id] && c > 0 && !loadPending {
				ok, note = false, fmt.Sprintf("distributor non-usable-log-contacted log=%d status=%s", id, info[id].Status)
			} else if !mainLogs[id] && c > 1 {
				ok, note = false, fmt.Sprintf("distributor side-submission log=%d count=%d", id, c)
			}
		}
		evs := o.Evs
		ctags := []string{"C:ctx=" + cs.Kind}
		if class != 0 {
			evs = nil
		} else if gs != nil {
			ctags = terminationTags("C", gs, sc, cs, o)
		}
		w.Add(lib.Case{
			Coq: fmt.Sprintf("CDist %s %s %s %s %s %s %s %s %s %s %s %s %s %s", cpol, coqLogList(mops), coqRoots(mops),
				lib.Bool(dis), lib.Bool(full), verdict, lib.ZBig(ns(na)), date3(nb), date3(na), lib.Nn(uint64(class)),
				coqEvs(evs), nlist(o.SCTs), lib.Bool(o.OK), coqReqs(usableIDs, o.Counts)),
			Input: map[string]interface{}{"kind": "distributor", "policy": cpol, "ops": ops, "check_disabled": dis, "roots_refreshed": refresh,
				"chain_root": k, "root_in_chain": withRoot, "precert": pre, "load_pending": loadPending, "not_before": nb, "not_after": na,
				"scripts": sc, "context": cs},
			Impl:   map[string]interface{}{"class": class, "run": o},
			PropOK: ok, Note: note,
			Tags: append([]string{"C:" + cpol, fmt.Sprintf("C:class=%d", class), "C:" + outcomeTag(o), fmt.Sprintf("C:check_disabled=%v", dis), fmt.Sprintf("C:pending=%v", loadPending)},
				ctags...),
		})
	}
}

// ---------------------------------------------------------------- concurrent use (race build)

func streamStress(t *testing.T, r *mrand.Rand, w adder, rounds int, outdir string) {
	nb := time.Date(2024, 1, 10, 0, 0, 0, 0, time.UTC)
	na := time.Date(2025, 6, 10, 0, 0, 0, 0, time.UTC)
	ops := []opSpec{
		{Google: true, Logs: []logSpec{{ID: 1, Status: "usable", RootsKnown: true, Roots: []int{0, 1}}, {ID: 2, Status: "usable", RootsKnown: true, Roots: []int{0}}}},
		{Google: false, Logs: []logSpec{{ID: 3, Status: "usable", RootsKnown: true, Roots: []int{0}}, {ID: 4, Status: "usable", RootsKnown: true, Roots: []int{0, 2}},
			{ID: 5, Status: "pending", RootsKnown: true, Roots: []int{0}}}},
	}
	info := rootInfo(ops)
	for round := 0; round < rounds; round++ {
		// D1: weight changes against submission sessions
		{
			ll := mkLogList(ops)
			cert := &x509.Certificate{NotBefore: nb, NotAfter: na}
			groups, err := ctpolicy.ChromeCTPolicy{}.LogsByGroup(cert, ll)
			if err != nil {
				panic(err)
			}
			g := groups[ctpolicy.BaseName]
			var wg sync.WaitGroup
			bad := false
			var mu sync.Mutex
			for k := 0; k < 3; k++ {
				wg.Add(1)
				go func() {
					defer wg.Done()
					for j := 0; j < 150; j++ {
						s := g.GetSubmissionSession()
						seen := map[string]bool{}
						for _, u := range s {
							if seen[u] || !g.LogURLs[u] {
								mu.Lock()
								bad = true
								mu.Unlock()
							}
							seen[u] = true
						}
					}
				}()
			}
			wg.Add(1)
			go func() {
				defer wg.Done()
				for j := 0; j < 150; j++ {
					_ = g.SetLogWeights(map[string]float32{logURL(1): 1, logURL(2): 1, logURL(3): float32(j % 2), logURL(4): 1})
					_ = g.SetLogWeight(logURL(2), float32(1+j%3))
				}
			}()
			wg.Wait()
			note := ""
			if bad {
				note = "stress session-with-duplicate-or-foreign-log"
			}
			w.Add(lib.Case{Coq: fmt.Sprintf("CNote %s", lib.Nn(uint64(10*round+1))), Input: map[string]interface{}{"kind": "stress-weights", "round": round},
				Impl: map[string]interface{}{"bad": bad}, PropOK: !bad, Note: note, Tags: []string{"D:weights"}})
		}
		// D2: RefreshRoots against concurrent AddChain
		{
			sc := map[int]logScript{1: {oSCT, 1003 * time.Millisecond, true}, 2: {oSCT, 10 * time.Millisecond, true}, 3: {oSCT, 2017 * time.Millisecond, true},
				4: {oErr, 24 * time.Millisecond, true}, 5: {oSCT, 31 * time.Millisecond, true}}
			var results []string
			var mu sync.Mutex
			var rcur *recorder
			o := runBubble(t, ctxDeadline(10*time.Minute), func(ctx context.Context, rc *recorder) ([]int, bool) {
				rcur = rc
				d, err := submission.NewDistributor(mkLogList(ops), ctpolicy.ChromeCTPolicy{}, func(l *loglist3.Log) (client.AddLogClient, error) {
					id := idOf(l.URL)
					return &scriptedClient{id: id, rc: &rcur, sc: &sc, roots: info[id].Roots}, nil
				}, nil)
				if err != nil {
					panic(err)
				}
				d.RefreshRoots(ctx)
				var wg sync.WaitGroup
				stopRefresh := make(chan struct{})
				go func() {
					for {
						select {
						case <-stopRefresh:
							return
						case <-time.After(300 * time.Millisecond):
							d.RefreshRoots(ctx)
						}
					}
				}()
				var leaves []*pki.Entity // pki.Issue is not safe for concurrent use
				for c := 0; c < 6; c++ {
					leaves = append(leaves, pki.Issue(pki.Opts{CN: fmt.Sprintf("leaf %d", c), KeyIdx: leafKeyI, NotBefore: nb, NotAfter: na}, rootCAs[0]))
				}
				for c := 0; c < 6; c++ {
					wg.Add(1)
					go func(c int) {
						defer wg.Done()
						leaf := leaves[c]
						time.Sleep(time.Duration(c*137) * time.Millisecond)
						res, err := d.AddChain(ctx, [][]byte{leaf.DER}, c%2 == 0)
						ids := sctIDs(res)
						sort.Ints(ids)
						g, n := 0, 0
						seen := map[int]bool{}
						dup := false
						for _, id := range ids {
							if seen[id] {
								dup = true
							}
							seen[id] = true
							if id <= 2 {
								g++
							} else {
								n++
							}
						}
						verdict := "ok"
						if dup || (err == nil && (g < 1 || n < 1 || len(ids) < 3)) || err != nil {
							verdict = fmt.Sprintf("bad(ids=%v err=%v)", ids, err)
						}
						mu.Lock()
						results = append(results, verdict)
						mu.Unlock()
					}(c)
				}
				wg.Wait()
				close(stopRefresh)
				return nil, true
			})
			ok := o.Panic == ""
			for _, v := range results {
				if v != "ok" {
					ok = false
				}
			}
			sort.Strings(results)
			note := ""
			if !ok {
				note = "stress concurrent-addchain " + strings.Join(results, ",") + " " + o.Panic
			}
			w.Add(lib.Case{Coq: fmt.Sprintf("CNote %s", lib.Nn(uint64(10*round+2))), Input: map[string]interface{}{"kind": "stress-refresh-roots", "round": round},
				Impl: map[string]interface{}{"results": results, "panic": o.Panic}, PropOK: ok, Note: note, Tags: []string{"D:refresh-roots"}})
		}
		// D3: log-list refreshes that CHANGE the list (version and the state of log 5), so that Proxy.Run
		// replaces the distributor, against concurrent submissions through EVERY submission method of the
		// Proxy: AddChain only, AddPreChain only, both mixed; in the "early" variants the submitters start
		// before the proxy is initialised, so that calls also overlap the very first installation of a
		// distributor (a refusal "not initialised" is then the right answer for a call that started no later
		// than the instant at which Init was signalled).  The harness keeps its own synchronisation out of the
		// way: submitters and the refreshing side share nothing of the harness's between two calls, so the
		// only happens-before edges between a refresh and a submission are the Proxy's own.
		for vi, variant := range []struct {
			name    string
			methods []string
			early   bool
		}{
			{"add-chain", []string{"AddChain"}, false},
			{"add-pre-chain", []string{"AddPreChain"}, false},
			{"mixed", []string{"AddChain", "AddPreChain"}, false},
			{"add-pre-chain-early", []string{"AddPreChain"}, true},
			{"mixed-early", []string{"AddPreChain", "AddChain"}, true},
		} {
			sc := map[int]logScript{1: {oSCT, 3 * time.Millisecond, true}, 2: {oSCT, 10 * time.Millisecond, true}, 3: {oSCT, 17 * time.Millisecond, true},
				4: {oSCT, 24 * time.Millisecond, true}, 5: {oSCT, 31 * time.Millisecond, true}}
			path := filepath.Join(outdir, "c17-loglist.json")
			writeLL := func(ver int) {
				vops := []opSpec{ops[0], {Google: ops[1].Google, Logs: append([]logSpec{}, ops[1].Logs...)}}
				if ver%2 == 1 {
					vops[1].Logs[2].Status = "usable" // log 5: pending <-> usable
				}
				ll := mkLogList(vops)
				ll.Version = fmt.Sprintf("v%d", ver)
				b, _ := json.Marshal(ll)
				if err := os.WriteFile(path, b, 0o644); err != nil {
					panic(err)
				}
			}
			writeLL(0)
			type callRec struct {
				method  string
				startAt time.Duration
				n       int
				err     string
			}
			var recs []callRec
			var mu sync.Mutex // taken by submitters only (and by the evaluation after wg.Wait)
			var rcur *recorder
			var initAt time.Duration
			o := runBubble(t, ctxDeadline(10*time.Minute), func(_ context.Context, rc *recorder) ([]int, bool) {
				rcur = rc
				t0 := time.Now()
				ctx, cancel := context.WithCancel(context.Background())
				defer cancel()
				llm := submission.NewLogListManager(submission.NewCustomLogListRefresher(nil, path), nil)
				p := submission.NewProxy(llm, submission.GetDistributorBuilder(submission.ChromeCTPolicy, func(l *loglist3.Log) (client.AddLogClient, error) {
					id := idOf(l.URL)
					return &scriptedClient{id: id, rc: &rcur, sc: &sc, roots: info[id].Roots}, nil
				}, nil), nil)
				var wg sync.WaitGroup
				var leaves, preLeaves []*pki.Entity
				for c := 0; c < 4; c++ {
					leaves = append(leaves, pki.Issue(pki.Opts{CN: fmt.Sprintf("pleaf %d", c), KeyIdx: leafKeyI, NotBefore: nb, NotAfter: na}, rootCAs[0]))
					preLeaves = append(preLeaves, pki.Issue(pki.Opts{CN: fmt.Sprintf("ppre %d", c), KeyIdx: leafKeyI, NotBefore: nb, NotAfter: na,
						ExtraExt: []pkix.Extension{pki.PoisonExt()}}, rootCAs[0]))
				}
				submitters := func() {
					for c := 0; c < 4; c++ {
						wg.Add(1)
						go func(c int) {
							defer wg.Done()
							for j := 0; j < 10; j++ {
								if !(variant.early && j == 0) {
									time.Sleep(time.Duration(200+c*53) * time.Millisecond)
								}
								m := variant.methods[(c+j)%len(variant.methods)]
								at := time.Since(t0)
								var res []*submission.AssignedSCT
								var err error
								if m == "AddPreChain" {
									res, err = p.AddPreChain(ctx, [][]byte{preLeaves[c].DER}, j%2 == 1)
								} else {
									res, err = p.AddChain(ctx, [][]byte{leaves[c].DER}, j%2 == 1)
								}
								rec := callRec{method: m, startAt: at, n: len(res)}
								if err != nil {
									rec.err = err.Error()
								}
								mu.Lock()
								recs = append(recs, rec)
								mu.Unlock()
								if !variant.early {
									_, _ = llm.GetTwoLatestLogLists()
								}
							}
						}(c)
					}
				}
				if variant.early {
					submitters()
				}
				p.Run(ctx, time.Second, 700*time.Millisecond)
				<-p.Init
				initAt = time.Since(t0)
				if !variant.early {
					submitters()
				}
				for v := 1; v <= 5; v++ {
					time.Sleep(900 * time.Millisecond)
					writeLL(v)
				}
				wg.Wait()
				cancel()
				time.Sleep(2 * time.Second)
				return nil, true
			})
			os.Remove(path)
			ok := o.Panic == ""
			var bad []string
			refused := 0
			for _, rc := range recs {
				switch {
				case rc.err == "" && rc.n >= 3:
				case strings.Contains(rc.err, "not initialized") && rc.startAt <= initAt:
					refused++
				default:
					ok = false
					bad = append(bad, fmt.Sprintf("%s@%v(n=%d err=%s)", rc.method, rc.startAt, rc.n, rc.err))
				}
			}
			note := ""
			if !ok {
				sort.Strings(bad)
				note = "stress proxy-refresh " + variant.name + " " + strings.Join(bad, ",") + " " + o.Panic
			}
			w.Add(lib.Case{Coq: fmt.Sprintf("CNote %s", lib.Nn(uint64(100*round+10*vi+3))), Input: map[string]interface{}{"kind": "stress-proxy", "round": round,
				"variant": variant.name, "methods": variant.methods, "submitters_start_before_init": variant.early, "log_list_changes": 5},
				Impl: map[string]interface{}{"calls": len(recs), "refused_before_init": refused, "panic": o.Panic}, PropOK: ok, Note: note,
				Tags: []string{"D:proxy", "D:proxy:" + variant.name}})
		}
	}
}

// Proxy before / after initialisation (no race build needed): not initialised = refusal.
func streamProxyInit(t *testing.T, w adder, outdir string) {
	nb := time.Date(2024, 1, 10, 0, 0, 0, 0, time.UTC)
	na := time.Date(2024, 6, 10, 0, 0, 0, 0, time.UTC)
	ops := []opSpec{{Google: true, Logs: []logSpec{{ID: 1, Status: "usable"}}}, {Google: false, Logs: []logSpec{{ID: 2, Status: "usable"}}}}
	sc := map[int]logScript{1: {oSCT, 3 * time.Millisecond, true}, 2: {oSCT, 10 * time.Millisecond, true}}
	path := filepath.Join(outdir, "c17-proxy-init.json")
	b, _ := json.Marshal(mkLogList(ops))
	if err := os.WriteFile(path, b, 0o644); err != nil {
		panic(err)
	}
	defer os.Remove(path)
	var before, after error
	var nAfter int
	var rcur *recorder
	o := runBubble(t, ctxDeadline(10*time.Minute), func(_ context.Context, rc *recorder) ([]int, bool) {
		rcur = rc
		ctx, cancel := context.WithCancel(context.Background())
		defer cancel()
		leaf := pki.Issue(pki.Opts{CN: "init leaf", KeyIdx: leafKeyI, NotBefore: nb, NotAfter: na}, rootCAs[0])
		llm := submission.NewLogListManager(submission.NewCustomLogListRefresher(nil, path), nil)
		p := submission.NewProxy(llm, submission.GetDistributorBuilder(submission.ChromeCTPolicy, func(l *loglist3.Log) (client.AddLogClient, error) {
			return &scriptedClient{id: idOf(l.URL), rc: &rcur, sc: &sc, rerr: true}, nil
		}, nil), nil)
		_, before = p.AddChain(ctx, [][]byte{leaf.DER}, false)
		p.Run(ctx, time.Hour, time.Hour)
		<-p.Init
		res, err := p.AddChain(ctx, [][]byte{leaf.DER}, false)
		after, nAfter = err, len(res)
		cancel()
		time.Sleep(time.Second)
		return sctIDs(res), err == nil
	})
	ok := before != nil && after == nil && nAfter == 2 && o.Panic == ""
	note := ""
	if !ok {
		note = fmt.Sprintf("proxy init before=%v after=%v n=%d %s", before, after, nAfter, o.Panic)
	}
	w.Add(lib.Case{Coq: "CNote 0%N", Input: map[string]interface{}{"kind": "proxy-init"},
		Impl: map[string]interface{}{"refused_before_init": before != nil, "scts_after_init": nAfter}, PropOK: ok, Note: note, Tags: []string{"proxy:init"}})
}

// ---------------------------------------------------------------- postInterval (via timing of GetSCTs starts)

// streamPost observes the stagger through the virtual instants of the SubmitToLog starts of a
// single group whose logs never answer before the deadline: the i-th start of a group with
// MinInclusions m happens at postInterval(i, m, 1s).
func streamPost(t *testing.T, r *mrand.Rand, w adder, n int) {
	for i := 0; i < n; i++ {
		nl := 1 + r.Intn(6)
		mn := r.Intn(nl + 2)
		var ids []int
		sc := map[int]logScript{}
		for k := 1; k <= nl; k++ {
			ids = append(ids, k)
			sc[k] = logScript{oHang, 0, true}
		}
		gs := []groupSpec{{3, ids, mn, false, ids}}
		o := runBubble(t, ctxDeadline(20*time.Second+time.Microsecond), func(ctx context.Context, rc *recorder) ([]int, bool) {
			res, err := submission.GetSCTs(ctx, &scriptedSubmitter{rc, sc}, []ct.ASN1Cert{{Data: []byte{9}}}, false, mkPolicyData(gs))
			return sctIDs(res), err == nil
		})
		var starts []time.Duration
		for _, e := range o.Evs {
			if e.Kind == "start" {
				starts = append(starts, e.At)
			}
		}
		sort.Slice(starts, func(a, b int) bool { return starts[a] < starts[b] })
		for idx, at := range starts {
			exp := time.Duration(0)
			if idx >= mn {
				exp = time.Duration(idx+1-mn) * time.Second
			}
			note := ""
			if at != exp {
				note = fmt.Sprintf("stagger idx=%d parallel=%d at=%v", idx, mn, at)
			}
			w.Add(lib.Case{
				Coq:    fmt.Sprintf("CPost %s %s %s %s", lib.Z(int64(idx)), lib.Z(int64(mn)), lib.Z(int64(time.Second)), lib.Z(int64(at))),
				Input:  map[string]interface{}{"kind": "stagger", "idx": idx, "parallel": mn, "logs": nl},
				Impl:   map[string]interface{}{"start_at_ns": at},
				PropOK: at == exp, Note: note, Trivial: idx > 0 && idx < mn, Tags: []string{"P:stagger"},
			})
		}
	}
}

type adder interface{ Add(lib.Case) }

// wireCase is lib.Case with the Coq term included (lib.Case hides it from JSON).
type wireCase struct {
	Coq     string          `json:"coq"`
	Input   json.RawMessage `json:"input"`
	Impl    json.RawMessage `json:"impl"`
	PropOK  bool            `json:"prop_ok"`
	Note    string          `json:"note"`
	Tags    []string        `json:"tags"`
	Trivial bool            `json:"trivial"`
}

type collector struct{ cases []wireCase }

func (c *collector) Add(x lib.Case) {
	in, _ := json.Marshal(x.Input)
	im, _ := json.Marshal(x.Impl)
	c.cases = append(c.cases, wireCase{x.Coq, in, im, x.PropOK, x.Note, x.Tags, x.Trivial})
}

const childEnv = "C17_CHILD_OUT"

// timedStreams: everything that runs GetSCTs inside synctest bubbles in bulk.
func timedStreams(t *testing.T, r *mrand.Rand, w adder) {
	streamRuns(t, r, w, lib.Count(300, 5000))
	streamShared(t, r, w, lib.Count(1, 12))
	streamDist(t, r, w, lib.Count(100, 1600))
	streamPost(t, r, w, lib.Count(6, 60))
	streamWeights(t, r, w, lib.Count(70, 1000)) // last: the scenarios of the streams above keep their case ids
}

// In a -race build the bulk streams run in a child process that is retried when it dies of
// the toolchain's own fault: go1.26.8 built with -race occasionally dies of a fatal SIGSEGV
// on a runtime stack (in runtime.(*timer).maybeRunChan when a bubble goroutine selects on
// time.After(0), in the race runtime on g0, or as an internal "ThreadSanitizer: CHECK failed") - observed in roughly one of three runs of
// 5000 bubbles, with no data race reported; it does not involve the code under test.  It
// was never observed on a single P (0 of 20 runs), so race builds run their bubbles with
// GOMAXPROCS=1 (the detector works on happens-before, not on physical parallelism); the
// retry stays as a safety net.  Anything else the child prints (a DATA RACE report, a panic, a test
// failure) is passed on and fails the harness.
func timedStreamsInChild(t *testing.T, w adder) {
	path := filepath.Join(*lib.OutDir, "c17-child.jsonl")
	defer os.Remove(path)
	var out []byte
	var err error
	for attempt := 0; attempt < 8; attempt++ {
		os.Remove(path)
		cmd := exec.Command(os.Args[0], "-test.run", "^TestHarness$", "-test.timeout", "0", "-test.count", "1", "-out", *lib.OutDir)
		cmd.Env = append(os.Environ(), childEnv+"="+path, "GOMAXPROCS=1")
		out, err = cmd.CombinedOutput()
		if err == nil {
			break
		}
		txt := string(out)
		// a fatal signal on a runtime stack ("SIGSEGV: segmentation violation\nPC=..."), as opposed
		// to a Go panic ("panic: runtime error: ... [signal SIGSEGV ...]") which is never retried
		fatalSig := strings.HasPrefix(txt, "SIGSEGV: segmentation violation\nPC=") || strings.HasPrefix(txt, "ThreadSanitizer: CHECK failed")
		if fatalSig && !strings.Contains(txt, "DATA RACE") && !strings.Contains(txt, "panic:") {
			fmt.Printf("c17: child died of a fatal signal inside the Go runtime (toolchain fault under -race + synctest), retrying (%d)\n", attempt+1)
			continue
		}
		break
	}
	if err != nil {
		os.Stdout.Write(out)
		t.Fatalf("c17: child process failed: %v", err)
	}
	f, err := os.Open(path)
	if err != nil {
		t.Fatalf("c17: child output: %v", err)
	}
	defer f.Close()
	dec := json.NewDecoder(f)
	for dec.More() {
		var c wireCase
		if err := dec.Decode(&c); err != nil {
			t.Fatalf("c17: child output: %v", err)
		}
		var in, im interface{}
		_ = json.Unmarshal(c.Input, &in)
		_ = json.Unmarshal(c.Impl, &im)
		w.Add(lib.Case{Coq: c.Coq, Input: in, Impl: im, PropOK: c.PropOK, Note: c.Note, Tags: c.Tags, Trivial: c.Trivial})
	}
}

func TestHarness(t *testing.T) {
	klog.LogToStderr(false)
	klog.SetOutput(io.Discard)
	fs := flag.NewFlagSet("klog", flag.ContinueOnError)
	klog.InitFlags(fs)
	_ = fs.Set("logtostderr", "false")
	_ = fs.Set("stderrthreshold", "FATAL")
	r := lib.Rand()
	setupPKI()
	if path := os.Getenv(childEnv); path != "" {
		// child of a -race build: only the bulk bubble streams, cases handed back as JSON
		c := &collector{}
		timedStreams(t, mrand.New(mrand.NewSource(lib.Seed()+7919)), c)
		f, err := os.Create(path)
		if err != nil {
			t.Fatal(err)
		}
		enc := json.NewEncoder(f)
		for _, x := range c.cases {
			if err := enc.Encode(x); err != nil {
				t.Fatal(err)
			}
		}
		f.Close()
		return
	}
	w := lib.NewWriter(header, 120)
	streamGroups(r, w, lib.Count(260, 5000))
	if raceEnabled {
		timedStreamsInChild(t, w)
	} else {
		timedStreams(t, r, w)
	}
	streamProxyInit(t, w, *lib.OutDir)
	if raceEnabled {
		streamStress(t, r, w, 2, *lib.OutDir)
	}
	w.Close()
	fmt.Printf("c17: wrote %d cases (race build: %v)\n", w.Len(), raceEnabled)
}
