// Package tlsgen builds Go types at run time (reflect.StructOf) from the tls tag grammar,
// generates values of them, and renders types / values as terms of the Coq model
// (V.TLS.TlsModel: ty, fields, clause, val).
package tlsgen

import (
	"fmt"
	"math/rand"
	"reflect"
	"strconv"
	"strings"

	"github.com/google/certificate-transparency-go/tls"

	"verif/harness/lib"
)

// Ty is a type descriptor.
type Ty struct {
	Kind   string // u8 u16 u24 u32 u64 enum arr bytes vec struct
	N      int    // arr length
	Elem   *Ty
	Fields []Field
}

// Field is one struct field.
type Field struct {
	Name string
	Tag  string
	Ptr  bool
	T    *Ty
}

var (
	u8T   = reflect.TypeOf(uint8(0))
	u16T  = reflect.TypeOf(uint16(0))
	u24T  = reflect.TypeOf(tls.Uint24(0))
	u32T  = reflect.TypeOf(uint32(0))
	u64T  = reflect.TypeOf(uint64(0))
	enumT = reflect.TypeOf(tls.Enum(0))
)

// GoType builds the reflect.Type.
func (t *Ty) GoType() reflect.Type {
	switch t.Kind {
	case "u8":
		return u8T
	case "u16":
		return u16T
	case "u24":
		return u24T
	case "u32":
		return u32T
	case "u64":
		return u64T
	case "enum":
		return enumT
	case "arr":
		return reflect.ArrayOf(t.N, u8T)
	case "bytes":
		return reflect.SliceOf(u8T)
	case "vec":
		return reflect.SliceOf(t.Elem.GoType())
	case "struct":
		var fs []reflect.StructField
		for _, f := range t.Fields {
			ft := f.T.GoType()
			if f.Ptr {
				ft = reflect.PointerTo(ft)
			}
			sf := reflect.StructField{Name: f.Name, Type: ft}
			if f.Tag != "" {
				sf.Tag = reflect.StructTag(`tls:"` + f.Tag + `"`)
			}
			fs = append(fs, sf)
		}
		return reflect.StructOf(fs)
	}
	panic("kind " + t.Kind)
}

// Clauses tokenizes a tag exactly as fieldTagToFieldInfo does (strings.Split on ",",
// HasPrefix, ParseUint; unparsable numbers are dropped) and renders the Coq clause list.
func Clauses(tag string) string {
	var out []string
	for _, part := range strings.Split(tag, ",") {
		switch {
		case strings.HasPrefix(part, "maxval:"):
			if v, err := strconv.ParseUint(part[7:], 10, 64); err == nil {
				out = append(out, "CMaxval "+lib.Nn(v))
			}
		case strings.HasPrefix(part, "size:"):
			if v, err := strconv.ParseUint(part[5:], 10, 32); err == nil {
				out = append(out, "CSize "+lib.Nn(v))
			}
		case strings.HasPrefix(part, "maxlen:"):
			if v, err := strconv.ParseUint(part[7:], 10, 64); err == nil {
				out = append(out, "CMaxlen "+lib.Nn(v))
			}
		case strings.HasPrefix(part, "minlen:"):
			if v, err := strconv.ParseUint(part[7:], 10, 64); err == nil {
				out = append(out, "CMinlen "+lib.Nn(v))
			}
		case strings.HasPrefix(part, "selector:"):
			out = append(out, "CSelector "+lib.Str(part[9:]))
		case strings.HasPrefix(part, "val:"):
			if v, err := strconv.ParseUint(part[4:], 10, 64); err == nil {
				out = append(out, "CVal "+lib.Nn(v))
			}
		}
	}
	return lib.List(out)
}

// Coq renders the type as a term of type ty.
func (t *Ty) Coq() string {
	switch t.Kind {
	case "u8":
		return "TU8"
	case "u16":
		return "TU16"
	case "u24":
		return "TU24"
	case "u32":
		return "TU32"
	case "u64":
		return "TU64"
	case "enum":
		return "TEnum"
	case "arr":
		return fmt.Sprintf("(TArr %d%%N)", t.N)
	case "bytes":
		return "TBytes"
	case "vec":
		return "(TVec " + t.Elem.Coq() + ")"
	case "struct":
		s := "FNil"
		for i := len(t.Fields) - 1; i >= 0; i-- {
			f := t.Fields[i]
			s = fmt.Sprintf("(FCons %s %s %s %s %s)", lib.Str(f.Name), Clauses(f.Tag), lib.Bool(f.Ptr), f.T.Coq(), s)
		}
		return "(TStruct " + s + ")"
	}
	panic("kind")
}

// String is a compact human-readable form for JSON mirrors.
func (t *Ty) String() string {
	switch t.Kind {
	case "arr":
		return fmt.Sprintf("[%d]byte", t.N)
	case "bytes":
		return "[]byte"
	case "vec":
		return "[]" + t.Elem.String()
	case "struct":
		var fs []string
		for _, f := range t.Fields {
			p := ""
			if f.Ptr {
				p = "*"
			}
			fs = append(fs, fmt.Sprintf("%s %s%s `%s`", f.Name, p, f.T.String(), f.Tag))
		}
		return "struct{" + strings.Join(fs, "; ") + "}"
	}
	return t.Kind
}

// ValCoq renders a Go value of the type as a Coq val term.
func ValCoq(t *Ty, v reflect.Value) string {
	switch t.Kind {
	case "u8", "u16", "u24", "u32", "u64", "enum":
		return "(VInt " + lib.Nn(v.Uint()) + ")"
	case "arr":
		b := make([]byte, v.Len())
		for i := range b {
			b[i] = byte(v.Index(i).Uint())
		}
		return "(VBytes " + lib.Bytes(b) + ")"
	case "bytes":
		return "(VBytes " + lib.Bytes(v.Bytes()) + ")"
	case "vec":
		var xs []string
		for i := 0; i < v.Len(); i++ {
			xs = append(xs, ValCoq(t.Elem, v.Index(i)))
		}
		return "(VList " + lib.List(xs) + ")"
	case "struct":
		var xs []string
		for i, f := range t.Fields {
			fv := v.Field(i)
			if f.Ptr {
				if fv.IsNil() {
					xs = append(xs, "None")
					continue
				}
				fv = fv.Elem()
			}
			xs = append(xs, "(Some "+ValCoq(f.T, fv)+")")
		}
		return "(VStruct " + lib.List(xs) + ")"
	}
	panic("kind")
}

var boundaries = []uint64{0, 1, 2, 254, 255, 256, 257, 65534, 65535, 65536, 1<<24 - 1, 1 << 24, 1<<32 - 1, 1 << 32,
	1<<40 - 1, 1 << 40, 1<<48 - 1, 1 << 48, 1<<56 - 1, 1 << 56, 1<<63 - 1, 1 << 63, 1<<64 - 1}

// Gen carries the PRNG and knobs.
type Gen struct {
	R *rand.Rand
	// Malformed: probability (per thousand) of emitting a tag outside the documented grammar.
	Malformed int
	// Missed is set by Value when a selector value selects no variant (or two), i.e. when the
	// generated value is not a value of the TLS type although every field is in range.
	Missed bool
	// Edges makes Value draw enum values at and above the boundary of the field's width (see
	// WidthEdges) a third of the time: in-range draws for valid values, over-width draws otherwise.
	// Off by default (the random stream of existing users is unchanged).
	Edges bool
	cnt   int
}

func (g *Gen) name() string { g.cnt++; return fmt.Sprintf("F%d", g.cnt) }

func (g *Gen) bound() uint64 { return boundaries[g.R.Intn(len(boundaries))] }

func (g *Gen) lenTag() string {
	// length bounds at the 1/2/3/../8-byte boundaries, small minimum
	max := g.bound()
	if max == 0 {
		max = 1
	}
	if g.R.Intn(3) == 0 {
		max = uint64(1 + g.R.Intn(40))
	}
	min := uint64(0)
	if g.R.Intn(3) == 0 {
		min = uint64(g.R.Intn(4))
		if min > max {
			min = max
		}
	}
	if g.R.Intn(1000) < g.Malformed {
		switch g.R.Intn(4) {
		case 0:
			return fmt.Sprintf("minlen:%d,maxlen:%d", max+1, max) // inverted
		case 1:
			return fmt.Sprintf("minlen:%d", min) // no size at all
		case 2:
			return "" // untagged slice
		default:
			return fmt.Sprintf("maxlen:%d,val:3", max)
		}
	}
	if min == 0 && g.R.Intn(2) == 0 {
		return fmt.Sprintf("maxlen:%d", max)
	}
	return fmt.Sprintf("minlen:%d,maxlen:%d", min, max)
}

func (g *Gen) enumTag() string {
	if g.R.Intn(1000) < g.Malformed {
		return []string{"", "size:0", "size:9", "size:x", "maxval:", "minlen:2"}[g.R.Intn(6)]
	}
	if g.R.Intn(2) == 0 {
		return fmt.Sprintf("size:%d", 1+g.R.Intn(8))
	}
	return fmt.Sprintf("maxval:%d", g.bound())
}

// Type generates a type; depth bounds nesting; needTag says whether the caller can attach
// a tag (fields can; vector elements cannot).
func (g *Gen) Type(depth int, tagged bool) (*Ty, string) {
	k := g.R.Intn(12)
	if depth <= 0 && k >= 9 {
		k = g.R.Intn(9)
	}
	switch k {
	case 0:
		return &Ty{Kind: "u8"}, ""
	case 1:
		return &Ty{Kind: "u16"}, ""
	case 2, 3:
		return &Ty{Kind: "u24"}, ""
	case 4:
		return &Ty{Kind: "u32"}, ""
	case 5:
		return &Ty{Kind: "u64"}, ""
	case 6:
		if !tagged && g.R.Intn(1000) >= g.Malformed {
			return &Ty{Kind: "u16"}, ""
		}
		return &Ty{Kind: "enum"}, g.enumTag()
	case 7:
		return &Ty{Kind: "arr", N: []int{0, 1, 2, 3, 5, 32}[g.R.Intn(6)]}, ""
	case 8:
		if !tagged && g.R.Intn(1000) >= g.Malformed {
			return &Ty{Kind: "arr", N: 2}, ""
		}
		return &Ty{Kind: "bytes"}, g.lenTag()
	case 9:
		if !tagged && g.R.Intn(1000) >= g.Malformed {
			return g.Struct(depth - 1), ""
		}
		e, _ := g.Type(depth-1, false)
		if e.Kind == "u8" {
			e = &Ty{Kind: "u16"}
		}
		return &Ty{Kind: "vec", Elem: e}, g.lenTag()
	default:
		return g.Struct(depth - 1), ""
	}
}

// Struct generates a struct type with selector-driven variants placed anywhere after
// their selector.
func (g *Gen) Struct(depth int) *Ty {
	n := g.R.Intn(5)
	if g.R.Intn(20) == 0 {
		n = 0
	}
	st := &Ty{Kind: "struct"}
	type sel struct {
		name string
		vals []uint64
	}
	var sels []sel
	for i := 0; i < n; i++ {
		t, tag := g.Type(depth, true)
		f := Field{Name: g.name(), Tag: tag, T: t}
		st.Fields = append(st.Fields, f)
		if (t.Kind == "enum" || t.Kind == "u64") && g.R.Intn(3) != 0 {
			// this field becomes a selector: add 1-3 variants, possibly interleaved with later fields
			k := 1 + g.R.Intn(3)
			s := sel{name: f.Name}
			for j := 0; j < k; j++ {
				s.vals = append(s.vals, uint64(j+g.R.Intn(2)*3))
			}
			sels = append(sels, s)
		}
		// emit pending variants with some probability (so that they land anywhere after the selector)
		for len(sels) > 0 && g.R.Intn(2) == 0 {
			s := sels[0]
			sels = sels[1:]
			for _, v := range s.vals {
				vt, vtag := g.Type(depth, true)
				tag := fmt.Sprintf("selector:%s,val:%d", s.name, v)
				if vtag != "" {
					// maxval:/size: clauses start a fresh fieldInfo, so they must come first
					tag = vtag + "," + tag
					if g.R.Intn(1000) < g.Malformed {
						tag = fmt.Sprintf("selector:%s,val:%d,%s", s.name, v, vtag)
					}
				}
				ptr := true
				if g.R.Intn(1000) < g.Malformed {
					ptr = false
				}
				st.Fields = append(st.Fields, Field{Name: g.name(), Tag: tag, Ptr: ptr, T: vt})
			}
		}
	}
	for _, s := range sels {
		for _, v := range s.vals {
			vt, vtag := g.Type(depth, true)
			tag := fmt.Sprintf("selector:%s,val:%d", s.name, v)
			if vtag != "" {
				tag = vtag + "," + tag
			}
			st.Fields = append(st.Fields, Field{Name: g.name(), Tag: tag, Ptr: true, T: vt})
		}
	}
	if g.R.Intn(1000) < g.Malformed && len(st.Fields) > 0 {
		// a variant whose selector was never seen, or a pointer without selector
		vt, _ := g.Type(0, false)
		if g.R.Intn(2) == 0 {
			st.Fields = append([]Field{{Name: g.name(), Tag: "selector:Nope,val:1", Ptr: true, T: vt}}, st.Fields...)
		} else {
			st.Fields = append(st.Fields, Field{Name: g.name(), Tag: "", Ptr: true, T: vt})
		}
	}
	return st
}

// VariantVec generates a vector whose elements are selector-driven variant structs, so that
// consecutive elements often select the SAME variant with different payloads (state that a decoder
// carries from one element to the next shows up here).
func (g *Gen) VariantVec(depth int) (*Ty, string) {
	st := &Ty{Kind: "struct"}
	if g.R.Intn(2) == 0 {
		t, tag := g.Type(0, true)
		st.Fields = append(st.Fields, Field{Name: g.name(), Tag: tag, T: t})
	}
	sel := Field{Name: g.name(), Tag: g.enumTag(), T: &Ty{Kind: "enum"}}
	st.Fields = append(st.Fields, sel)
	for j, k := 0, 1+g.R.Intn(3); j < k; j++ {
		vt, vtag := g.Type(depth, true)
		tag := fmt.Sprintf("selector:%s,val:%d", sel.Name, j)
		if vtag != "" {
			tag = vtag + "," + tag
		}
		st.Fields = append(st.Fields, Field{Name: g.name(), Tag: tag, Ptr: true, T: vt})
	}
	if g.R.Intn(3) == 0 {
		t, tag := g.Type(0, true)
		st.Fields = append(st.Fields, Field{Name: g.name(), Tag: tag, T: t})
	}
	return &Ty{Kind: "vec", Elem: st}, g.lenTag()
}

// MultiSel generates a struct with two or three selectors whose variant arms are interleaved in any
// order (each arm after its selector), so that a decoder's bookkeeping of "which selector has been
// satisfied" is exercised across selectors: arms of one selector separated by arms of another, an
// earlier selector left unhandled while a later one is handled.
func (g *Gen) MultiSel(depth int) *Ty {
	st := &Ty{Kind: "struct"}
	type arm struct {
		sel string
		val int
	}
	var arms []arm
	for k, n := 0, 2+g.R.Intn(2); k < n; k++ {
		sel := Field{Name: g.name(), Tag: g.enumTag(), T: &Ty{Kind: "enum"}}
		st.Fields = append(st.Fields, sel)
		for j, m := 0, 1+g.R.Intn(2); j < m; j++ {
			arms = append(arms, arm{sel.Name, j})
		}
		if g.R.Intn(3) == 0 {
			t, tag := g.Type(0, true)
			st.Fields = append(st.Fields, Field{Name: g.name(), Tag: tag, T: t})
		}
	}
	g.R.Shuffle(len(arms), func(i, j int) { arms[i], arms[j] = arms[j], arms[i] })
	for _, a := range arms {
		vt, vtag := g.Type(depth, true)
		tag := fmt.Sprintf("selector:%s,val:%d", a.sel, a.val)
		if vtag != "" {
			tag = vtag + "," + tag
		}
		st.Fields = append(st.Fields, Field{Name: g.name(), Tag: tag, Ptr: true, T: vt})
	}
	return st
}

// FieldWidth is the number of octets (1..8) that an enum or a length prefix carrying this tag
// occupies on the wire, computed from the tag by hand: size:n says it outright, maxval:N / maxlen:N
// mean the number of octets needed to write N (at least one); the last such clause wins.  0 when the
// tag fixes no width (or one outside 1..8).
func FieldWidth(tag string) int {
	w := 0
	octets := func(x uint64) int {
		n := 1
		for x >>= 8; x > 0; x >>= 8 {
			n++
		}
		return n
	}
	for _, part := range strings.Split(tag, ",") {
		switch {
		case strings.HasPrefix(part, "size:"):
			if v, err := strconv.ParseUint(part[5:], 10, 32); err == nil {
				w = int(v)
			}
		case strings.HasPrefix(part, "maxval:"):
			if v, err := strconv.ParseUint(part[7:], 10, 64); err == nil {
				w = octets(v)
			}
		case strings.HasPrefix(part, "maxlen:"):
			if v, err := strconv.ParseUint(part[7:], 10, 64); err == nil {
				w = octets(v)
			}
		}
	}
	if w < 1 || w > 8 {
		return 0
	}
	return w
}

// WidthEdges returns, for a field of n octets (1..8), values around the boundary 2^(8n): fit holds
// values that n octets can carry (0, 1, the smallest value needing n octets and its predecessor,
// 2^(8n)-2, 2^(8n)-1), over holds values they cannot (2^(8n), 2^(8n)+1, the all-ones value of n+1
// octets, an in-range value with a non-zero top octet of the uint64, 2^63, 2^64-1); over is empty for
// n = 8.  r (optional) adds one random member to each.
func WidthEdges(n int, r *rand.Rand) (fit, over []uint64) {
	if n < 1 || n > 8 {
		return nil, nil
	}
	mask := ^uint64(0)
	if n < 8 {
		mask = uint64(1)<<(8*uint(n)) - 1
	}
	fit = []uint64{0, 1, mask - 1, mask}
	if n > 1 {
		lo := uint64(1) << (8 * uint(n-1))
		fit = append(fit, lo-1, lo)
	}
	if r != nil {
		fit = append(fit, r.Uint64()&mask)
	}
	if n == 8 {
		return fit, nil
	}
	over = []uint64{mask + 1, mask + 2, 1 << 63, ^uint64(0), uint64(0x01)<<56 | 5, uint64(0xff)<<56 | mask>>8}
	if n < 7 {
		over = append(over, uint64(1)<<(8*uint(n+1))-1)
	}
	if r != nil {
		over = append(over, uint64(1+r.Intn(255))<<56|r.Uint64()&mask, mask+1+r.Uint64()&mask)
	}
	return fit, over
}

// tagMax extracts (count-relevant) limits of a length/enum tag for value generation.
func tagLimits(tag string) (min, max uint64, size int) {
	max = 40
	for _, part := range strings.Split(tag, ",") {
		switch {
		case strings.HasPrefix(part, "maxlen:"):
			if v, err := strconv.ParseUint(part[7:], 10, 64); err == nil {
				max = v
			}
		case strings.HasPrefix(part, "minlen:"):
			if v, err := strconv.ParseUint(part[7:], 10, 64); err == nil {
				min = v
			}
		case strings.HasPrefix(part, "maxval:"):
			if v, err := strconv.ParseUint(part[7:], 10, 64); err == nil {
				max = v
				size = -1
			}
		case strings.HasPrefix(part, "size:"):
			if v, err := strconv.ParseUint(part[5:], 10, 32); err == nil {
				size = int(v)
			}
		}
	}
	return
}

// Value fills v (settable, of t's Go type) with a random value; valid says whether to
// respect bounds and selector consistency (mostly) or to violate them on purpose.
func (g *Gen) Value(t *Ty, tag string, v reflect.Value, valid bool) {
	r := g.R
	edge := func(width uint) uint64 {
		var m uint64 = 1<<(8*width) - 1
		if width == 8 {
			m = ^uint64(0)
		}
		switch r.Intn(5) {
		case 0:
			return 0
		case 1:
			return m
		case 2:
			return m - uint64(r.Intn(3))
		default:
			return r.Uint64() & m
		}
	}
	switch t.Kind {
	case "u8":
		v.SetUint(edge(1))
	case "u16":
		v.SetUint(edge(2))
	case "u24":
		if valid || r.Intn(2) == 0 {
			v.SetUint(edge(3))
		} else {
			v.SetUint(edge(4)) // may exceed 2^24-1: marshal must refuse
		}
	case "u32":
		v.SetUint(edge(4))
	case "u64":
		v.SetUint(edge(8))
	case "enum":
		_, max, size := tagLimits(tag)
		if wd := FieldWidth(tag); g.Edges && wd > 0 && r.Intn(3) == 0 {
			fit, over := WidthEdges(wd, r)
			if valid || len(over) == 0 || r.Intn(3) == 0 {
				v.SetUint(fit[r.Intn(len(fit))])
			} else {
				v.SetUint(over[r.Intn(len(over))])
			}
			return
		}
		switch {
		case size > 0 && size <= 8:
			x := edge(uint(size))
			if !valid && size < 8 && r.Intn(2) == 0 {
				x = 1 << (8 * uint(size))
			}
			v.SetUint(x)
		case size == -1:
			x := max
			if max == ^uint64(0) {
				x = r.Uint64()
			} else if max > 0 {
				x = r.Uint64() % (max + 1)
			}
			if r.Intn(4) == 0 {
				x = max
			}
			if !valid && r.Intn(2) == 0 && max < ^uint64(0)-400 {
				x = max + 1 + uint64(r.Intn(300))
			}
			v.SetUint(x)
		default:
			v.SetUint(uint64(r.Intn(3)))
		}
	case "arr":
		for i := 0; i < v.Len(); i++ {
			v.Index(i).SetUint(uint64(r.Intn(256)))
		}
	case "bytes":
		min, max, _ := tagLimits(tag)
		n := g.pickLen(min, max, valid)
		b := make([]byte, n)
		if n <= 64 {
			r.Read(b)
		} else {
			fill := byte(r.Intn(256))
			for i := range b {
				b[i] = fill
			}
		}
		v.SetBytes(b)
	case "vec":
		min, max, _ := tagLimits(tag)
		n := int(g.pickLen(min, max, valid))
		if n > 12 {
			n = r.Intn(13)
		}
		s := reflect.MakeSlice(v.Type(), n, n)
		for i := 0; i < n; i++ {
			g.Value(t.Elem, "", s.Index(i), valid)
		}
		v.Set(s)
	case "struct":
		enums := map[string]uint64{}
		chosen := map[string]bool{}
		for i, f := range t.Fields {
			fv := v.Field(i)
			sel, val, isVar := "", uint64(0), false
			for _, part := range strings.Split(f.Tag, ",") {
				if strings.HasPrefix(part, "selector:") {
					sel, isVar = part[9:], true
				}
				if strings.HasPrefix(part, "val:") {
					val, _ = strconv.ParseUint(part[4:], 10, 64)
				}
			}
			if f.Ptr {
				want := isVar && enums[sel] == val && !chosen[sel]
				if !valid && r.Intn(3) == 0 {
					want = !want
				}
				if want {
					chosen[sel] = true
					p := reflect.New(fv.Type().Elem())
					g.Value(f.T, f.Tag, p.Elem(), valid)
					fv.Set(p)
				}
				continue
			}
			g.Value(f.T, f.Tag, fv, valid)
			if f.T.Kind == "enum" || f.T.Kind == "u64" {
				// make selector values hit the variants most of the time
				if r.Intn(4) != 0 {
					var vals []uint64
					for _, f2 := range t.Fields[i+1:] {
						if strings.Contains(f2.Tag, "selector:"+f.Name+",") {
							for _, part := range strings.Split(f2.Tag, ",") {
								if strings.HasPrefix(part, "val:") {
									x, _ := strconv.ParseUint(part[4:], 10, 64)
									vals = append(vals, x)
								}
							}
						}
					}
					if len(vals) > 0 {
						fv.SetUint(vals[r.Intn(len(vals))])
					}
				}
				enums[f.Name] = fv.Uint()
				hits, has := 0, false
				for _, f2 := range t.Fields[i+1:] {
					if strings.Contains(f2.Tag, "selector:"+f.Name+",") || strings.HasSuffix(f2.Tag, "selector:"+f.Name) {
						has = true
						if tagVal(f2.Tag) == fv.Uint() {
							hits++
						}
					}
				}
				if has && hits != 1 {
					g.Missed = true
				}
			}
		}
	}
}

// tagVal is the value of the val: clause of a tag as the codec reads it (the last parsable one; 0
// without).  A substring test will not do: "maxval:16777215," contains "val:16777215,".
func tagVal(tag string) (val uint64) {
	for _, part := range strings.Split(tag, ",") {
		if strings.HasPrefix(part, "val:") {
			if x, err := strconv.ParseUint(part[4:], 10, 64); err == nil {
				val = x
			}
		}
	}
	return val
}

func (g *Gen) pickLen(min, max uint64, valid bool) uint64 {
	r := g.R
	capN := uint64(70000)
	if max > capN {
		max = capN
	}
	if min > max {
		min = max
	}
	var n uint64
	switch r.Intn(6) {
	case 0:
		n = min
	case 1:
		n = max
		if n > 300 && r.Intn(4) != 0 {
			n = uint64(r.Intn(40))
		}
	case 2:
		if max > 255 {
			n = []uint64{255, 256, 257}[r.Intn(3)]
		} else {
			n = min
		}
	default:
		span := max - min
		if span > 40 {
			span = 40
		}
		n = min + uint64(r.Int63n(int64(span)+1))
	}
	if !valid {
		switch r.Intn(3) {
		case 0:
			if min > 0 {
				n = min - 1
			}
		case 1:
			if max < capN {
				n = max + 1
			}
		}
	}
	return n
}

// FromGoType derives the descriptor of a real Go type (same mapping as the reflectdump
// translator), so values of the repository's own wire types can be generated and rendered.
func FromGoType(t reflect.Type) *Ty {
	switch t {
	case u8T:
		return &Ty{Kind: "u8"}
	case u16T:
		return &Ty{Kind: "u16"}
	case u24T:
		return &Ty{Kind: "u24"}
	case u32T:
		return &Ty{Kind: "u32"}
	case u64T:
		return &Ty{Kind: "u64"}
	}
	switch t.Kind() {
	case reflect.Uint64:
		return &Ty{Kind: "enum"}
	case reflect.Array:
		return &Ty{Kind: "arr", N: t.Len()}
	case reflect.Slice:
		if t.Elem().Kind() == reflect.Uint8 {
			return &Ty{Kind: "bytes"}
		}
		return &Ty{Kind: "vec", Elem: FromGoType(t.Elem())}
	case reflect.Struct:
		st := &Ty{Kind: "struct"}
		for i := 0; i < t.NumField(); i++ {
			f := t.Field(i)
			ft, ptr := f.Type, false
			if ft.Kind() == reflect.Ptr {
				ft, ptr = ft.Elem(), true
			}
			st.Fields = append(st.Fields, Field{Name: f.Name, Tag: f.Tag.Get("tls"), Ptr: ptr, T: FromGoType(ft)})
		}
		return st
	}
	panic("unsupported Go type " + t.String())
}
