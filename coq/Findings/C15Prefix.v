(* C15 findings: the behaviour of the UNPATCHED tree (before pending_fixes/C15-1..3).
   Pre-fix copies of the definitions that the patches change, and machine-checked
   refutations (explicit witnesses, vm_compute) of the property for them.

   C15-1  ValidateLogConfig: strings.Split(conn, "://")[1] is indexed without a length check:
          backend = CTFE and ctfe_storage_connection_string = "mysql"  =>  index-out-of-range panic.
   C15-2  ValidateLogMultiConfig / BuildLogBackendMap: `lbs.Backend` with absent `backends`
          and `cfg.LogConfigs.Config` with absent `log_configs`  =>  nil-pointer panic.
   C15-3  ValidateLogMultiConfig: the per-backend duplicate map is keyed by
          fmt.Sprintf("%s-%d", backend, id); ("a", -5) and ("a-", 5) collide  =>  a
          well-formed configuration is rejected as "dup tree id".
   Remark (not patched, see the report): names after "Any" in ext_key_usages are never read. *)
From Coq Require Import ZArith Bool List String Ascii DecimalString Lia.
From V Require Import Base.GoInt gen.Config gen.ConfigTables CTFE.ConfigModel CTFE.ConfigProofs CTFE.ConfigSetProofs.
Import ListNotations.
Open Scope string_scope.
Open Scope Z_scope.
Open Scope bool_scope.

Section Prefix.
  Variable mysql_dsn_ok : string -> bool.
  Variable pg_config_ok : string -> bool.

  (* C15-1: no `len(parts) < 2` guard *)
  Definition check_conn_prefix (c : LogConfig) : outcome :=
    if lc_storage_backend c =? backend_CTFE then
      if c_missing_conn (slen (lc_conn c)) then Reject
      else if has_prefix (lc_conn c) "mysql" then
        match nth_error (split (lc_conn c) "://") 1 with
        | None => Panic                                        (* parts[1] *)
        | Some dsn => if mysql_dsn_ok dsn then Accept else Reject
        end
      else if has_prefix (lc_conn c) "postgres" then
        if pg_config_ok (lc_conn c) then Accept else Reject
      else Reject
    else Accept.

  Definition validate_log_config_prefix (c : LogConfig) : outcome :=
    check_log_id c ;; check_public_key c ;; check_private_key c ;; check_reject_all c ;;
    check_ekus c ;; check_window c ;; check_merge_delays c ;; check_frozen c ;; check_conn_prefix c.

  (* C15-2: no nil guards *)
  Definition build_backend_map_prefix (lbs : option (list LogBackend)) : bbm_result :=
    match lbs with
    | None => BPanic                                           (* lbs.Backend on nil *)
    | Some bes => match bbm_from [] [] bes with Some ns => BOk ns | None => BReject end
    end.

  (* C15-3: the key is the string  backend ++ "-" ++ decimal(id) *)
  Definition decimal (z : Z) : string := NilEmpty.string_of_int (Z.to_int z).
  Definition log_id_key_prefix (c : LogConfig) : string :=
    lc_backend_name c ++ "-" ++ decimal (lc_log_id c).

  Fixpoint check_backend_refs_prefix (names : list string) (seen : list string) (cfgs : list LogConfig) : outcome :=
    match cfgs with
    | [] => Accept
    | c :: r =>
        if negb (mem_str (lc_backend_name c) names) then Reject
        else if mem_str (log_id_key_prefix c) seen then Reject
        else check_backend_refs_prefix names (log_id_key_prefix c :: seen) r
    end.

  Definition validate_log_multi_config_prefix (m : LogMultiConfig) : outcome :=
    match build_backend_map_prefix (mc_backends m) with
    | BPanic => Panic
    | BReject => Reject
    | BOk names =>
        validate_configs mysql_dsn_ok pg_config_ok (get_configs m) ;;
        match mc_log_configs m with
        | None => Panic                                        (* cfg.LogConfigs.Config on nil *)
        | Some cfgs => check_backend_refs_prefix names [] cfgs
        end
    end.
End Prefix.

(* ---- witnesses ---- *)

Definition base_log (id : Z) (prefix backend : string) : LogConfig :=
  {| lc_log_id := id; lc_prefix := prefix; lc_n_roots := 1;
     lc_private_key := Some true; lc_public_key := None;
     lc_reject_expired := false; lc_reject_unexpired := false; lc_ext_key_usages := [];
     lc_not_after_start := None; lc_not_after_limit := None; lc_backend_name := backend;
     lc_is_mirror := false; lc_is_readonly := false;
     lc_max_merge_delay := 86400; lc_expected_merge_delay := 7200;
     lc_frozen_sth := None; lc_conn := ""; lc_storage_backend := backend_TRILLIAN_GRPC |}.

Definition with_conn (c : LogConfig) (backend : Z) (conn : string) : LogConfig :=
  {| lc_log_id := lc_log_id c; lc_prefix := lc_prefix c; lc_n_roots := lc_n_roots c;
     lc_private_key := lc_private_key c; lc_public_key := lc_public_key c;
     lc_reject_expired := lc_reject_expired c; lc_reject_unexpired := lc_reject_unexpired c;
     lc_ext_key_usages := lc_ext_key_usages c; lc_not_after_start := lc_not_after_start c;
     lc_not_after_limit := lc_not_after_limit c; lc_backend_name := lc_backend_name c;
     lc_is_mirror := lc_is_mirror c; lc_is_readonly := lc_is_readonly c;
     lc_max_merge_delay := lc_max_merge_delay c; lc_expected_merge_delay := lc_expected_merge_delay c;
     lc_frozen_sth := lc_frozen_sth c; lc_conn := conn; lc_storage_backend := backend |}.

Definition with_ekus (c : LogConfig) (ekus : list string) : LogConfig :=
  {| lc_log_id := lc_log_id c; lc_prefix := lc_prefix c; lc_n_roots := lc_n_roots c;
     lc_private_key := lc_private_key c; lc_public_key := lc_public_key c;
     lc_reject_expired := lc_reject_expired c; lc_reject_unexpired := lc_reject_unexpired c;
     lc_ext_key_usages := ekus; lc_not_after_start := lc_not_after_start c;
     lc_not_after_limit := lc_not_after_limit c; lc_backend_name := lc_backend_name c;
     lc_is_mirror := lc_is_mirror c; lc_is_readonly := lc_is_readonly c;
     lc_max_merge_delay := lc_max_merge_delay c; lc_expected_merge_delay := lc_expected_merge_delay c;
     lc_frozen_sth := lc_frozen_sth c; lc_conn := lc_conn c; lc_storage_backend := lc_storage_backend c |}.

Definition no_sep_config : LogConfig := with_conn (base_log 1 "log" "") backend_CTFE "mysql".

(* C15-1: whatever the DSN parsers say, the unpatched validator panics on "mysql" *)
Theorem prefix_conn_without_separator_panics_refuted :
  exists c, forall my pg, validate_log_config_prefix my pg c = Panic.
Proof. exists no_sep_config. intros my pg. vm_compute. reflexivity. Qed.

(* ... and the patched one rejects it *)
Lemma patched_conn_without_separator_rejected :
  forall my pg, validate_log_config my pg no_sep_config = Reject.
Proof. intros my pg. vm_compute. reflexivity. Qed.

(* ... and not only on that witness: on EVERY connection string that starts with "mysql" and
   contains no "://", the unpatched check panics and the patched one rejects *)
Theorem prefix_every_separatorless_mysql_string_panics :
  forall my pg c,
    lc_storage_backend c = backend_CTFE -> has_prefix (lc_conn c) "mysql" = true ->
    ~ occurs "://" (lc_conn c) ->
    check_conn_prefix my pg c = Panic /\ check_conn my pg c = Reject.
Proof.
  intros my pg c Hb Hp Hno.
  assert (Hne : lc_conn c <> "") by (apply (has_prefix_nonempty _ "mysql"); [discriminate | exact Hp]).
  apply slen_zero_false in Hne.
  unfold check_conn_prefix, check_conn, c_missing_conn, c_mysql_no_sep.
  rewrite Hb, Z.eqb_refl, Hne, Hp, (split_no_occurrence _ _ Hno). split; reflexivity.
Qed.

(* C15-2: absent `backends` *)
Theorem prefix_absent_backends_panics_refuted :
  exists m, forall my pg, validate_log_multi_config_prefix my pg m = Panic.
Proof.
  exists {| mc_backends := None; mc_log_configs := Some [base_log 1 "log" "b"] |}.
  intros my pg. vm_compute. reflexivity.
Qed.

(* C15-2: absent `log_configs` (with a perfectly good backend set) *)
Theorem prefix_absent_log_configs_panics_refuted :
  exists m, mc_backends m <> None /\ forall my pg, validate_log_multi_config_prefix my pg m = Panic.
Proof.
  exists {| mc_backends := Some [ {| be_name := "b"; be_spec := "spec" |} ]; mc_log_configs := None |}.
  split; [discriminate | intros my pg; vm_compute; reflexivity].
Qed.

Theorem prefix_build_backend_map_nil_panics_refuted : build_backend_map_prefix None = BPanic.
Proof. reflexivity. Qed.

(* C15-3: a well-formed two-backend configuration that the unpatched validator rejects *)
Definition collision_config : LogMultiConfig :=
  {| mc_backends := Some [ {| be_name := "a"; be_spec := "s1" |}; {| be_name := "a-"; be_spec := "s2" |} ];
     mc_log_configs := Some [ base_log (-5) "p" "a"; base_log 5 "q" "a-" ] |}.

Theorem prefix_tree_id_key_collision_refuted :
  exists m, forall my pg,
    wellformed_multi my pg m /\ validate_log_multi_config_prefix my pg m = Reject.
Proof.
  exists collision_config. intros my pg. split.
  - apply validate_log_multi_config_iff. vm_compute. reflexivity.
  - vm_compute. reflexivity.
Qed.

(* the two colliding keys, spelled out *)
Example collision_keys :
  log_id_key_prefix (base_log (-5) "p" "a") = "a--5" /\ log_id_key_prefix (base_log 5 "q" "a-") = "a--5".
Proof. vm_compute. split; reflexivity. Qed.

(* Remark: read strictly ("only known EKU names"), the EKU clause is false for the code as it
   is: a name that follows "Any" is never looked at.  The theorems of Props/C15.v use
   [ekus_wellformed] (known up to and including the first "Any"). *)
Theorem eku_strict_reading_refuted :
  exists c, (forall my pg, validate_log_config my pg c = Accept) /\
            exists n, In n (lc_ext_key_usages c) /\ ~ known_eku n.
Proof.
  exists (with_ekus (base_log 1 "log" "") ["Any"; "NoSuchUsage"]). split.
  - intros my pg. vm_compute. reflexivity.
  - exists "NoSuchUsage". split; [simpl; auto |].
    apply eku_lookup_none. vm_compute. reflexivity.
Qed.
