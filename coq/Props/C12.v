(* C12 - a log client holding the log key never hands back unverified signed data.
   Property theorems only.  The model (Client/ClientModel.v) follows client/logclient.go,
   client/getentries.go, client/multilog.go and jsonclient/client.go as they are after the fix commits 8596be2,
   b4a5930, 15ca5b8 ([patched]); the refutations for the tree before them are in Findings/C12Prefix.v.
   Every theorem is for ALL keys, ALL oracles (sig_ok, key_hash, the X.509 oracles), ALL HTTP
   outcomes (no response / any status / body read or not / any decoded fields) and, for the
   retrying endpoints, ALL sequences of attempts. *)
From Coq Require Import String NArith ZArith List Bool.
From V Require Import Base.Bytes Base.GoInt TLS.TlsModel gen.CtTypes CT.Rfc6962Spec CT.Rfc6962Proofs CT.CtFuncs
  Client.ClientModel Client.ClientSpec Client.ClientCodec Client.ClientProofs Client.ShardProofs.
From V Require Import gen.Client Client.ClientGenTie.
From V Require TLS.TlsCase.
Import ListNotations.

(* 1. GetSTH with a verifier: the RETURNED tree head's signature verifies under the configured
      key over the RFC 6962 s3.5 bytes of the RETURNED (timestamp, tree size, root hash) *)
Theorem get_sth_verified :
  forall (key : Type) (sig_ok : key -> bytes -> val -> bool) (k : key) (o : outcome sth_rsp) (s : sth),
    get_sth key sig_ok (Some k) o = COk s -> ts_ok (t_ts s) -> ts_ok (t_size s) ->
    sig_ok k (enc_sth_siginput (t_ts s) (t_size s) (t_root s)) (t_sig s) = true /\ length (t_root s) = 32%nat.
Proof. exact get_sth_verified_l. Qed.
Print Assumptions get_sth_verified.

(* 2. AddChain / AddPreChain with a verifier, over any sequence of attempts: the returned SCT is
      version 1, its signature verifies under the configured key over the RFC 6962 s3.2 bytes of
      (the SCT's timestamp, the entry derived from the SUBMITTED chain and entry type, the SCT's
      extensions), and its log id is the hash of the configured key *)
Theorem add_chain_verified :
  forall (key : Type) (sig_ok : key -> bytes -> val -> bool) (key_hash : key -> bytes)
         (x509_of : list bytes -> option bytes) (precert_of : list bytes -> option (bytes * bytes))
         (k : key) (chain : list bytes) (et : N) (os : list (outcome sct_rsp)) (s : sct),
    length (key_hash k) = 32%nat ->
    add_chain key sig_ok key_hash x509_of precert_of patched (Some k) chain et os = COk s -> ts_ok (s_ts s) ->
    exists e : entry,
      submitted_entry x509_of precert_of chain et e /\ entry_type e = et /\ entry_ok e /\ ext_ok (s_ext s) /\
      s_version s = 0%N /\
      sig_ok k (enc_sct_siginput (s_ts s) e (s_ext s)) (s_sig s) = true /\
      s_logid s = key_hash k.
Proof. exact add_chain_verified_l. Qed.
Print Assumptions add_chain_verified.

(* 3. every one-request method: a result only from a complete 200 response whose JSON decoded;
      an error after a received response is an RspError with THAT response's status and body;
      plain / context errors only without a response; never a panic ([reported], ClientSpec.v) *)
Theorem bad_response_is_error_with_status_body :
  forall (key : Type) (sig_ok : key -> bytes -> val -> bool) (verifier : option key)
         (parse_cert parse_tbs : bytes -> pclass),
    (forall o, reported o (get_sth key sig_ok verifier o)) /\
    (forall o, reported o (get_roots o)) /\
    (forall o : outcome (list bytes), reported o (pass_through o)) /\                    (* get-sth-consistency *)
    (forall o : outcome (Z * list bytes), reported o (pass_through o)) /\                (* get-proof-by-hash *)
    (forall o : outcome (bytes * bytes * list bytes), reported o (pass_through o)) /\    (* get-entry-and-proof *)
    (forall start end_ o, (0 <= end_)%Z -> (start <= end_)%Z -> reported o (get_raw_entries start end_ o)) /\
    (forall start end_ o, (0 <= end_)%Z -> (start <= end_)%Z -> reported o (get_entries parse_cert parse_tbs patched start end_ o)) /\
    (forall v start end_ o, (end_ < 0 \/ end_ < start)%Z ->                              (* no request is made *)
       get_entries parse_cert parse_tbs v start end_ o = CPlainErr /\ get_raw_entries start end_ o = CPlainErr).
Proof.
  intros key sig_ok verifier pc pt.
  exact (conj (get_sth_reported key sig_ok verifier)
        (conj get_roots_reported
        (conj (@pass_through_reported _)
        (conj (@pass_through_reported _)
        (conj (@pass_through_reported _)
        (conj get_raw_entries_reported
        (conj (get_entries_reported pc pt)
              (entries_bad_range pc pt)))))))).
Qed.
Print Assumptions bad_response_is_error_with_status_body.

(* 3a. what [reported] gives for a response that was received: a result or an RspError with its
       status and body; and if the response is not a complete, decodable 200: the RspError *)
Theorem received_response_is_result_or_rsp_error :
  forall (F A : Type) (o : outcome F) (res : result A) (r : response F),
    reported o res -> o = Resp r -> r_close_ok r = true ->
    ((exists a, res = COk a) \/ res = CRspErr (r_status r) (r_body r)) /\
    ((r_status r <> 200%Z \/ r_read_ok r = false \/ r_json r = None) -> res = CRspErr (r_status r) (r_body r)).
Proof.
  intros F A o res r R E C. split; [exact (reported_received o res r R E C)|exact (reported_bad o res r R E C)].
Qed.
Print Assumptions received_response_is_result_or_rsp_error.

(* 3b. the retrying methods, for every sequence of attempts: a result only from a complete 200
       answer to a request that was still a POST; an RspError carries the status and body of an
       attempt of this call; otherwise the caller's context ended; never a plain error or a panic
       (with an empty chain too: C12-2) *)
Theorem bad_response_is_error_with_status_body_add_chain :
  forall (key : Type) (sig_ok : key -> bytes -> val -> bool) (key_hash : key -> bytes)
         (x509_of : list bytes -> option bytes) (precert_of : list bytes -> option (bytes * bytes))
         (verifier : option key) (chain : list bytes) (et : N) (os : list (outcome sct_rsp)),
    reported_seq os (add_chain key sig_ok key_hash x509_of precert_of patched verifier chain et os).
Proof.
  intros. apply add_chain_reported. left. reflexivity.
Qed.
Print Assumptions bad_response_is_error_with_status_body_add_chain.

(* 3c. which attempt decides: retried attempts (transport errors, unreadable bodies, undecodable
       200s, POSTs rewritten by a redirect, 408 / 429 / 503) are skipped, the first other one is
       final: non-200 -> RspError(status, body); 200 -> the SCT checks on ITS fields;
       only retried attempts -> the context error *)
Theorem add_chain_first_definitive_attempt_decides :
  forall (key : Type) (sig_ok : key -> bytes -> val -> bool) (key_hash : key -> bytes)
         (x509_of : list bytes -> option bytes) (precert_of : list bytes -> option (bytes * bytes))
         (v : variant) (verifier : option key) (chain : list bytes) (et : N) (pre : list (outcome sct_rsp)) o rest,
    Forall retryable pre ->
    (~ retryable o ->
     add_chain key sig_ok key_hash x509_of precert_of v verifier chain et (pre ++ o :: rest) =
       match post_and_parse o with
       | COk (st, b, Some f) => sct_of_response key sig_ok key_hash x509_of precert_of v verifier chain et st b f
       | COk (st, b, None) => CRspErr st b
       | _ => CCtxErr
       end) /\
    add_chain key sig_ok key_hash x509_of precert_of v verifier chain et pre = CCtxErr.
Proof.
  intros. split; [intros Hn; apply add_chain_definitive; assumption|apply add_chain_only_retryable; assumption].
Qed.
Print Assumptions add_chain_first_definitive_attempt_decides.

(* 3d. results are the response's fields, nothing invented or dropped *)
Theorem results_are_the_decoded_fields :
  forall (key : Type) (sig_ok : key -> bytes -> val -> bool) (key_hash : key -> bytes)
         (x509_of : list bytes -> option bytes) (precert_of : list bytes -> option (bytes * bytes)),
    (forall verifier o s, get_sth key sig_ok verifier o = COk s ->
       exists f, good_response o f /\ t_size s = h_size f /\ t_ts s = h_ts f /\ t_root s = h_root f /\
         length (h_root f) = 32%nat /\ parse gen_DigitallySigned None (h_sig f) = Ok (t_sig s, []) /\
         marshal gen_DigitallySigned None (t_sig s) = Ok (h_sig f)) /\
    (forall v verifier chain et os s, add_chain key sig_ok key_hash x509_of precert_of v verifier chain et os = COk s ->
       exists o f, In o os /\ good_response o f /\ s_version s = a_version f /\ s_ts s = a_ts f /\ a_ext f = Some (s_ext s) /\
         parse gen_DigitallySigned None (a_sig f) = Ok (s_sig s, []) /\
         sct_log_id key key_hash v verifier (a_id f) = Some (s_logid s)) /\
    (forall o l, get_roots o = COk l -> good_response o (map Some l)) /\
    (forall (F : Type) (o : outcome F) f, pass_through o = COk f -> good_response o f) /\
    (forall start end_ o es, get_raw_entries start end_ o = COk es -> good_response o es).
Proof.
  intros key sig_ok key_hash x509_of precert_of.
  exact (conj (get_sth_fields key sig_ok)
        (conj (add_chain_fields key sig_ok key_hash x509_of precert_of)
        (conj get_roots_ok (conj (@pass_through_ok) get_raw_entries_ok)))).
Qed.
Print Assumptions results_are_the_decoded_fields.

(* 4. the entry decoder: total on arbitrary leaf_input / extra_data (with any X.509 parse
      oracle), and an Ok entry is consistent with them: leaf_input and extra_data are EXACTLY
      the encodings of the returned leaf and chain, the certificate is the one the entry type
      designates ([entry_consistent], ClientCodec.v; from C04's theorems and the C09 codec) *)
Theorem entry_decoder_total_and_consistent :
  forall (parse_cert parse_tbs : bytes -> pclass) (li x : bytes),
    (raw_log_entry_from_leaf li x <> TlsModel.Panic /\ raw_log_entry_from_leaf li x <> Hang) /\
    (forall index, log_entry_from_leaf parse_cert parse_tbs index li x <> TlsModel.Panic /\
                   log_entry_from_leaf parse_cert parse_tbs index li x <> Hang) /\
    (forall leaf cert chain, raw_log_entry_from_leaf li x = Ok (leaf, cert, chain) -> entry_consistent li x leaf cert chain).
Proof.
  intros pc pt li x. split; [apply raw_entry_good|]. split; [intros index; apply log_entry_from_leaf_good|apply raw_entry_consistent].
Qed.
Print Assumptions entry_decoder_total_and_consistent.

(* 4a. GetEntries: a result has exactly one entry per entry of the response (however many were
       asked for: the count is not checked), in order, each decoded from its own (leaf_input,
       extra_data) and numbered start + position in int64 arithmetic *)
Theorem get_entries_entries_and_indices :
  forall (parse_cert parse_tbs : bytes -> pclass) (v : variant) (start end_ : Z) o l,
    get_entries parse_cert parse_tbs v start end_ o = COk l ->
    (0 <= end_)%Z /\ (start <= end_)%Z /\
    exists es, good_response o es /\ length l = length es /\
      forall n lx, nth_error es n = Some lx -> exists le, nth_error l n = Some le /\ entry_from start (Z.of_nat n) lx le.
Proof. exact get_entries_ok. Qed.
Print Assumptions get_entries_entries_and_indices.

(* 5. without a key nothing is verified and nothing is claimed: the oracles are never consulted;
      GetSTH returns any well-formed tree head; AddChain returns the response's fields with the
      log id copied into 32 bytes (zero-padded / truncated) whatever it is *)
Theorem no_verifier_no_claim :
  forall (key : Type) (sig_ok sig_ok' : key -> bytes -> val -> bool) (key_hash key_hash' : key -> bytes)
         (x509_of x509_of' : list bytes -> option bytes) (precert_of precert_of' : list bytes -> option (bytes * bytes)),
    (forall o, get_sth key sig_ok None o = get_sth key sig_ok' None o) /\
    (forall o, get_sth key sig_ok None o =
       match get_and_parse o with
       | COk (st, b, f) =>
           match to_sth (h_size f) (h_ts f) (h_root f) (h_sig f) with
           | Ok (size, ts, root, ds) => COk {| t_size := size; t_ts := ts; t_root := root; t_sig := ds |}
           | TlsModel.Panic | Hang => CPanic
           | _ => CRspErr st b
           end
       | CRspErr st b => CRspErr st b
       | CPlainErr => CPlainErr | CCtxErr => CCtxErr | CPanic => CPanic
       end) /\
    (forall v chain chain' et et' st b f,
       sct_of_response key sig_ok key_hash x509_of precert_of v None chain et st b f =
       sct_of_response key sig_ok' key_hash' x509_of' precert_of' v None chain' et' st b f) /\
    (forall v chain et st b f,
       sct_of_response key sig_ok key_hash x509_of precert_of v None chain et st b f =
       match complete gen_DigitallySigned (a_sig f) with
       | Ok ds => match a_ext f with
                  | None => CRspErr st b
                  | Some ext => COk {| s_version := a_version f; s_logid := copy32 (a_id f); s_ts := a_ts f; s_ext := ext; s_sig := ds |}
                  end
       | TlsModel.Panic | Hang => CPanic
       | _ => CRspErr st b
       end).
Proof.
  intros. split; [intros o; rewrite !get_sth_none; reflexivity|]. split; [apply get_sth_none|].
  split; [intros; rewrite !sct_of_response_none; reflexivity|intros; apply sct_of_response_none].
Qed.
Print Assumptions no_verifier_no_claim.

(* 6. the temporal (sharded) client: the chain head must parse without any error before a
      request is made; then it is AddChain / AddPreChain of the shard's client *)
Theorem temporal_client_is_add_chain_after_head_check :
  forall (key : Type) (sig_ok : key -> bytes -> val -> bool) (key_hash : key -> bytes)
         (x509_of : list bytes -> option bytes) (precert_of : list bytes -> option (bytes * bytes))
         (parse_cert : bytes -> pclass) v verifier chain et os,
    (forall c rest, chain = c :: rest -> parse_cert c = POk ->
       temporal_add_chain key sig_ok key_hash x509_of precert_of parse_cert v verifier chain et os =
       add_chain key sig_ok key_hash x509_of precert_of v verifier chain et os) /\
    ((chain = [] \/ exists c rest, chain = c :: rest /\ parse_cert c <> POk) ->
       temporal_add_chain key sig_ok key_hash x509_of precert_of parse_cert v verifier chain et os = CPlainErr).
Proof. exact temporal_add_chain_spec. Qed.
Print Assumptions temporal_client_is_add_chain_after_head_check.

(* 6a. the temporal client with ANY number of shards, GetAcceptedRoots (the shards are asked in
       parallel; [os] lists their outcomes in ANY order - the order in which they answer): a result
       only if EVERY shard answered with a complete, decodable 200 response, and then it is exactly the
       union of what the shards sent, each certificate once; if any shard did not, the call is an error -
       the error of one such shard, with that shard's status and body - never a partial union *)
Theorem temporal_roots_every_shard_or_error :
  forall os : list (outcome (list (option bytes))),
    (forall l, temporal_get_roots os = COk l ->
       (forall o, In o os -> exists lo, get_roots o = COk lo /\ good_response o (map Some lo) /\ incl lo l) /\
       (forall r, In r l -> exists o lo, In o os /\ get_roots o = COk lo /\ In r lo) /\
       NoDup l) /\
    ((exists o, In o os /\ ~ is_ok (get_roots o)) ->
       exists o, In o os /\ ~ is_ok (get_roots o) /\ temporal_get_roots os = get_roots o /\
                 reported o (temporal_get_roots os)).
Proof.
  intros os. split; [intros l; apply temporal_get_roots_ok|apply temporal_get_roots_err].
Qed.
Print Assumptions temporal_roots_every_shard_or_error.

(* 6b. the temporal client with ANY number of shards (interval, verifier), AddChain / AddPreChain:
       requests go to exactly the FIRST shard whose interval holds the NotAfter of the chain head
       (which must parse without any error), the call is that shard's AddChain / AddPreChain, and a
       returned SCT verifies under THAT shard's key for the submitted chain and carries its hash;
       no shard -> a plain error and no request *)
Theorem temporal_sharded_routes_and_verifies :
  forall (key : Type) (sig_ok : key -> bytes -> val -> bool) (key_hash : key -> bytes)
         (x509_of : list bytes -> option bytes) (precert_of : list bytes -> option (bytes * bytes))
         (parse_cert : bytes -> pclass) (not_after : bytes -> Z)
         (shards : list (interval * option key)) (chain : list bytes) (et : N) (os : list (outcome sct_rsp)),
    (forall v i r,
       temporal_add_chain_sharded key sig_ok key_hash x509_of precert_of parse_cert not_after v shards chain et os = (Some i, r) ->
       exists c rest iv vk, chain = c :: rest /\ parse_cert c = POk /\ nth_error shards i = Some (iv, vk) /\
         covers iv (not_after c) = true /\
         (forall j s, (j < i)%nat -> nth_error shards j = Some s -> covers (fst s) (not_after c) = false) /\
         r = add_chain key sig_ok key_hash x509_of precert_of v vk chain et os) /\
    (forall v r,
       temporal_add_chain_sharded key sig_ok key_hash x509_of precert_of parse_cert not_after v shards chain et os = (None, r) ->
       r = CPlainErr /\
       (chain = [] \/ exists c rest, chain = c :: rest /\
          (parse_cert c <> POk \/ forall s, In s shards -> covers (fst s) (not_after c) = false))) /\
    (forall i s iv k,
       temporal_add_chain_sharded key sig_ok key_hash x509_of precert_of parse_cert not_after patched shards chain et os = (Some i, COk s) ->
       ts_ok (s_ts s) -> nth_error shards i = Some (iv, Some k) -> length (key_hash k) = 32%nat ->
       exists e : entry,
         submitted_entry x509_of precert_of chain et e /\ entry_type e = et /\ entry_ok e /\ ext_ok (s_ext s) /\
         s_version s = 0%N /\
         sig_ok k (enc_sct_siginput (s_ts s) e (s_ext s)) (s_sig s) = true /\
         s_logid s = key_hash k).
Proof.
  intros. split; [intros v i r; apply sharded_routed|]. split; [intros v r; apply sharded_refused|].
  intros i s iv k H Hts Hn Hl. exact (sharded_verified key sig_ok key_hash x509_of precert_of parse_cert not_after shards chain et os i s H Hts iv k Hn Hl).
Qed.
Print Assumptions temporal_sharded_routes_and_verifies.

(* 12. histories: over ANY sequence of GetSTH calls on one client with a verifier, every STH that
       any of the calls returns verifies under the configured key over ITS OWN fields - whatever
       the earlier calls were served and whether they were accepted or refused *)
Theorem get_sth_verified_over_histories :
  forall (key : Type) (sig_ok : key -> bytes -> val -> bool) (k : key) (os : list (outcome sth_rsp)) (s : sth),
    In (COk s) (get_sth_history key sig_ok (Some k) os) -> ts_ok (t_ts s) -> ts_ok (t_size s) ->
    sig_ok k (enc_sth_siginput (t_ts s) (t_size s) (t_root s)) (t_sig s) = true /\ length (t_root s) = 32%nat.
Proof. exact get_sth_history_verified_l. Qed.
Print Assumptions get_sth_verified_over_histories.

(* 13. histories: over ANY sequence of AddChain / AddPreChain calls (each with its own submitted
       chain, entry type and attempts) on one client with a verifier, every SCT that any of the
       calls returns verifies for the chain and entry type submitted IN THAT CALL *)
Theorem add_chain_verified_over_histories :
  forall (key : Type) (sig_ok : key -> bytes -> val -> bool) (key_hash : key -> bytes)
         (x509_of : list bytes -> option bytes) (precert_of : list bytes -> option (bytes * bytes))
         (k : key) (calls : list add_call) (s : sct),
    length (key_hash k) = 32%nat ->
    In (COk s) (add_chain_history key sig_ok key_hash x509_of precert_of patched (Some k) calls) -> ts_ok (s_ts s) ->
    exists (chain : list bytes) (et : N) (os : list (outcome sct_rsp)) (e : entry),
      In (chain, et, os) calls /\
      submitted_entry x509_of precert_of chain et e /\ entry_type e = et /\ entry_ok e /\ ext_ok (s_ext s) /\
      s_version s = 0%N /\
      sig_ok k (enc_sct_siginput (s_ts s) e (s_ext s)) (s_sig s) = true /\
      s_logid s = key_hash k.
Proof. exact add_chain_history_verified_l. Qed.
Print Assumptions add_chain_verified_over_histories.

(* a concrete exchange: key = unit, a signature table with one valid (message, signature) pair,
   key hash 32 x 0xAA, the submitted chain derives the X.509 entry 30 03 02 01 01; the log
   answers 503, then an HTML page with 200, then the good response: the SCT is returned, and
   the hypotheses of add_chain_verified hold for it *)
(* ---------------- non-vacuity ---------------- *)

Definition ex_cert : bytes := hex "3003020101".
Definition ex_kh : bytes := rep 32 (n2b 170).
Definition ex_ds : val := VStruct [Some (VStruct [Some (VInt 4); Some (VInt 3)]); Some (VBytes (hex "300602010102010a"))].
Definition ex_sig : bytes := hex "04030008300602010102010a".
Definition ex_ok (_ : unit) (msg : bytes) (ds : val) : bool :=
  bytes_eqb msg (enc_sct_siginput 1234 (X509E ex_cert) []) && V.TLS.TlsCase.val_eqb ds ex_ds.
Definition ex_good : outcome sct_rsp :=
  Resp (mkResp 200 3 true true true (Some {| a_version := 0; a_id := ex_kh; a_ts := 1234; a_ext := Some []; a_sig := ex_sig |})).
Definition ex_os : list (outcome sct_rsp) :=
  [Resp (mkResp 503 1 true true true None); Resp (mkResp 200 2 true true true None); ex_good].

Example add_chain_example :
  add_chain unit ex_ok (fun _ => ex_kh) (fun _ => Some ex_cert) (fun _ => None) patched (Some tt) [hex "00"] 0 ex_os
    = COk {| s_version := 0; s_logid := ex_kh; s_ts := 1234; s_ext := []; s_sig := ex_ds |}
  /\ length ex_kh = 32%nat /\ ts_ok 1234
  (* the same response with a foreign log id, a 2-byte id, or a flipped timestamp is refused with its status and body *)
  /\ add_chain unit ex_ok (fun _ => ex_kh) (fun _ => Some ex_cert) (fun _ => None) patched (Some tt) [hex "00"] 0
       [Resp (mkResp 200 7 true true true (Some {| a_version := 0; a_id := rep 32 (n2b 187); a_ts := 1234; a_ext := Some []; a_sig := ex_sig |}))]
     = CRspErr 200 7
  /\ add_chain unit ex_ok (fun _ => ex_kh) (fun _ => Some ex_cert) (fun _ => None) patched (Some tt) [hex "00"] 0
       [Resp (mkResp 200 8 true true true (Some {| a_version := 0; a_id := hex "aaaa"; a_ts := 1234; a_ext := Some []; a_sig := ex_sig |}))]
     = CRspErr 200 8
  /\ add_chain unit ex_ok (fun _ => ex_kh) (fun _ => Some ex_cert) (fun _ => None) patched (Some tt) [hex "00"] 0
       [Resp (mkResp 200 9 true true true (Some {| a_version := 0; a_id := ex_kh; a_ts := 1235; a_ext := Some []; a_sig := ex_sig |}))]
     = CRspErr 200 9.
Proof. vm_compute. repeat split; reflexivity. Qed.

Example get_sth_example :
  let msg := enc_sth_siginput 99 7 (rep 32 (n2b 1)) in
  let ok := fun (_ : unit) m ds => bytes_eqb m msg && V.TLS.TlsCase.val_eqb ds ex_ds in
  get_sth unit ok (Some tt) (Resp (mkResp 200 1 true true true (Some {| h_size := 7; h_ts := 99; h_root := rep 32 (n2b 1); h_sig := ex_sig |})))
    = COk {| t_size := 7; t_ts := 99; t_root := rep 32 (n2b 1); t_sig := ex_ds |}
  /\ get_sth unit ok (Some tt) (Resp (mkResp 200 1 true true true (Some {| h_size := 8; h_ts := 99; h_root := rep 32 (n2b 1); h_sig := ex_sig |})))
    = CRspErr 200 1.
Proof. vm_compute. split; reflexivity. Qed.

(* a history on one client: genuine, forged with the signature bytes just accepted, genuine again, forged again *)
Example get_sth_history_example :
  let msg := enc_sth_siginput 99 7 (rep 32 (n2b 1)) in
  let ok := fun (_ : unit) m ds => bytes_eqb m msg && V.TLS.TlsCase.val_eqb ds ex_ds in
  let rsp := fun b size => Resp (mkResp 200 b true true true (Some {| h_size := size; h_ts := 99; h_root := rep 32 (n2b 1); h_sig := ex_sig |})) in
  get_sth_history unit ok (Some tt) [rsp 1%N 7%N; rsp 2%N 8%N; rsp 1%N 7%N; rsp 3%N 9%N]
    = [COk {| t_size := 7; t_ts := 99; t_root := rep 32 (n2b 1); t_sig := ex_ds |}; CRspErr 200 2;
       COk {| t_size := 7; t_ts := 99; t_root := rep 32 (n2b 1); t_sig := ex_ds |}; CRspErr 200 3].
Proof. vm_compute. reflexivity. Qed.

(* three shards answer get-roots: all well -> the union, each certificate once; the middle one with a
   500 (or an undecodable certificate) -> that shard's error, whichever shard answers last *)
Example temporal_roots_example :
  let good := fun b l => Resp (mkResp 200 b true true true (Some (map Some l))) in
  let a := hex "3001" in let b := hex "3002" in let c := hex "3003" in
  temporal_get_roots [good 1%N [a; b]; good 2%N [b; c]; good 3%N [c; a]] = COk [a; b; c]
  /\ temporal_get_roots [good 1%N [a; b]; Resp (mkResp 500 7 true true true None); good 3%N [c; a]] = CRspErr 500 7
  /\ temporal_get_roots [good 1%N [a; b]; Resp (mkResp 200 8 true true true (Some [Some a; None])); good 3%N [c]] = CRspErr 200 8
  /\ temporal_get_roots [NoResp false; good 3%N [c]] = CPlainErr.
Proof. vm_compute. repeat split; reflexivity. Qed.

(* two shards, the second with the key: a chain head whose NotAfter lies in the second interval is
   submitted there and its SCT verified under that shard's key; a NotAfter on the boundary belongs
   to the later shard; one beyond the last bound is refused without a request *)
Example temporal_sharded_example :
  let shards := [((None, Some 100%Z), None); ((Some 100%Z, Some 200%Z), Some tt)] in
  let run := fun na => temporal_add_chain_sharded unit ex_ok (fun _ => ex_kh) (fun _ => Some ex_cert) (fun _ => None)
                         (fun _ => POk) (fun _ => na) patched shards [hex "00"] 0 ex_os in
  run 150%Z = (Some 1%nat, COk {| s_version := 0; s_logid := ex_kh; s_ts := 1234; s_ext := []; s_sig := ex_ds |})
  /\ fst (run 100%Z) = Some 1%nat /\ fst (run 99%Z) = Some 0%nat /\ run 200%Z = (None, CPlainErr).
Proof. vm_compute. repeat split; reflexivity. Qed.

(* the status tests of jsonclient as they stand today (translated on every run): for a response that was read and
   closed, GetAndParse answers an RspError with status and body unless the status is 200, and PostAndParse parses
   the body exactly when it is - the model's get_and_parse / post_and_parse restated through the generated tests *)
Theorem status_tests_as_in_source : forall F (r : response F),
  r_close_ok r = true -> r_read_ok r = true ->
  get_and_parse (Resp r) =
    (if get_status_error_gen (r_status r) then CRspErr (r_status r) (r_body r)
     else match r_json r with
          | None => CRspErr (r_status r) (r_body r)
          | Some f => COk (r_status r, r_body r, f)
          end) /\
  (r_post r = true ->
   post_and_parse (Resp r) =
     if post_parses_gen (r_status r) then
       match r_json r with
       | None => CRspErr (r_status r) (r_body r)
       | Some f => COk (r_status r, r_body r, Some f)
       end
     else COk (r_status r, r_body r, None)).
Proof.
  intros F r Hc Hr. split; [exact (get_and_parse_status_gen r Hc Hr)|intros Hp; exact (post_and_parse_status_gen r Hc Hr Hp)].
Qed.
Print Assumptions status_tests_as_in_source.
