(* C20 - lemmas about the destination table, leaf construction and slices of the source. *)
From Coq Require Import ZArith NArith Bool List Lia.
From V Require Import Base.Bytes Base.CaseLib Migrillian.MigrateModel.
Import ListNotations.
Open Scope Z_scope.

Lemma leaf_eqb_refl l : leaf_eqb l l = true.
Proof.
  unfold leaf_eqb. rewrite Z.eqb_refl.
  assert (R : forall b, bytes_eqb b b = true) by (intros b; apply bytes_eqb_eq; reflexivity).
  rewrite !R. reflexivity.
Qed.

Lemma leaf_eqb_eq a b : leaf_eqb a b = true -> a = b.
Proof.
  unfold leaf_eqb. rewrite !andb_true_iff. intros [[[H1 H2] H3] H4].
  apply Z.eqb_eq in H1. apply bytes_eqb_eq in H2, H3, H4.
  destruct a, b; cbn in *; congruence.
Qed.

(* ------------------------------------------------------------------ lookup / put *)

Lemma lookup_put m l i :
  lookup (fst (put m l)) i =
  match lookup m i with Some x => Some x | None => if lf_index l =? i then Some l else None end.
Proof.
  unfold put. destruct (lookup m (lf_index l)) as [l'|] eqn:E.
  - assert (H : lookup m i = match lookup m i with Some x => Some x | None => if lf_index l =? i then Some l else None end).
    { destruct (lookup m i) eqn:E2; [reflexivity|].
      destruct (lf_index l =? i) eqn:E3; [|reflexivity]. apply Z.eqb_eq in E3. congruence. }
    destruct (leaf_eqb l l'); exact H.
  - cbn. destruct (lf_index l =? i) eqn:E3.
    + apply Z.eqb_eq in E3. subst i. rewrite E. reflexivity.
    + destruct (lookup m i); reflexivity.
Qed.

Lemma lookup_put_keeps m l i x : lookup m i = Some x -> lookup (fst (put m l)) i = Some x.
Proof. intros H. rewrite lookup_put, H. reflexivity. Qed.

Lemma lookup_put_new m l : lookup (fst (put m l)) (lf_index l) <> None.
Proof. rewrite lookup_put. destruct (lookup m (lf_index l)); [discriminate|]. rewrite Z.eqb_refl. discriminate. Qed.

Lemma put_all_fst_cons m l r : fst (put_all m (l :: r)) = fst (put_all (fst (put m l)) r).
Proof. cbn. destruct (put m l) as [m1 s]. cbn. destruct (put_all m1 r). reflexivity. Qed.

Lemma put_all_snd_cons m l r : snd (put_all m (l :: r)) = snd (put m l) :: snd (put_all (fst (put m l)) r).
Proof. cbn. destruct (put m l) as [m1 s]. cbn. destruct (put_all m1 r). reflexivity. Qed.

Lemma lookup_put_all_keeps ls : forall m i x, lookup m i = Some x -> lookup (fst (put_all m ls)) i = Some x.
Proof.
  induction ls as [|l r IH]; intros m i x H; [exact H|].
  rewrite put_all_fst_cons. apply IH. apply lookup_put_keeps. exact H.
Qed.

Lemma lookup_put_all_in ls : forall m l, In l ls -> lookup (fst (put_all m ls)) (lf_index l) <> None.
Proof.
  induction ls as [|a r IH]; intros m l Hin; [contradiction|].
  rewrite put_all_fst_cons. destruct Hin as [-> | Hin].
  - destruct (lookup (fst (put m l)) (lf_index l)) eqn:E.
    + erewrite lookup_put_all_keeps by exact E. discriminate.
    + exfalso. revert E. apply lookup_put_new.
  - apply IH. exact Hin.
Qed.

(* where a looked-up leaf comes from *)
Lemma lookup_put_all_origin ls : forall m i x,
  lookup (fst (put_all m ls)) i = Some x -> lookup m i = Some x \/ (In x ls /\ lf_index x = i).
Proof.
  induction ls as [|a r IH]; intros m i x H; [left; exact H|].
  rewrite put_all_fst_cons in H. apply IH in H. destruct H as [H | [H1 H2]].
  - rewrite lookup_put in H. destruct (lookup m i) eqn:E; [left; exact H|].
    destruct (lf_index a =? i) eqn:E2; [|discriminate]. inversion H; subst. right. split; [left; reflexivity | apply Z.eqb_eq; exact E2].
  - right. split; [right; exact H1 | exact H2].
Qed.

(* ------------------------------------------------------------------ the mirror invariant of the table *)

Section Inv.
  Variable sha256 : bytes -> bytes.
  Variable x509v : bytes -> xverdict.
  Variable idf : idfunc.

  (* l is what buildLogLeaf makes of the source entry at its own index *)
  Definition good (src : list entry) (l : leaf) : Prop :=
    0 <= lf_index l /\ exists e, nth_error src (Z.to_nat (lf_index l)) = Some e
                                 /\ build_log_leaf sha256 x509v idf (lf_index l) e = Some l.

  Lemma good_functional src a b : good src a -> good src b -> lf_index a = lf_index b -> a = b.
  Proof. intros [_ [e [H1 H2]]] [_ [e' [H3 H4]]] Hi. rewrite Hi in *. congruence. Qed.

  Lemma good_app src es l : good src l -> good (src ++ es) l.
  Proof.
    intros [H0 [e [H1 H2]]]. split; [exact H0|]. exists e. split; [|exact H2].
    rewrite nth_error_app1; [exact H1|]. apply nth_error_Some. congruence.
  Qed.

  Definition map_inv (src : list entry) (ver : Z) (m : dmap) : Prop :=
    forall i l, lookup m i = Some l -> lf_index l = i /\ good src l /\ i < ver.

  Lemma map_inv_nil src ver : map_inv src ver [].
  Proof. intros i l H. discriminate. Qed.

  Lemma map_inv_weaken src ver ver' es m : map_inv src ver m -> ver <= ver' -> map_inv (src ++ es) ver' m.
  Proof. intros H Hle i l Hl. destruct (H i l Hl) as [A [B C]]. split; [exact A | split; [apply good_app; exact B | lia]]. Qed.

  Lemma put_inv src ver m l : map_inv src ver m -> good src l -> lf_index l < ver -> map_inv src ver (fst (put m l)).
  Proof.
    intros Hm Hg Hv i x Hx. rewrite lookup_put in Hx. destruct (lookup m i) eqn:E.
    - inversion Hx; subst. apply Hm. exact E.
    - destruct (lf_index l =? i) eqn:E2; [|discriminate]. inversion Hx; subst. apply Z.eqb_eq in E2. subst i. auto.
  Qed.

  Lemma put_no_conflict src ver m l : map_inv src ver m -> good src l -> snd (put m l) <> LConflict.
  Proof.
    intros Hm Hg. unfold put. destruct (lookup m (lf_index l)) as [l'|] eqn:E; [|cbn; discriminate].
    destruct (Hm _ _ E) as [A [B _]]. assert (l = l') by (apply (good_functional src); auto). subst l'.
    rewrite leaf_eqb_refl. cbn. discriminate.
  Qed.

  Lemma put_all_inv src ver ls : forall m,
    map_inv src ver m -> Forall (fun l => good src l /\ lf_index l < ver) ls -> map_inv src ver (fst (put_all m ls)).
  Proof.
    induction ls as [|l r IH]; intros m Hm Hf; [exact Hm|].
    rewrite put_all_fst_cons. inversion Hf as [|? ? [Hg Hv] Hr]; subst. apply IH; [|exact Hr]. apply put_inv; assumption.
  Qed.

  Lemma put_all_no_conflict src ver ls : forall m,
    map_inv src ver m -> Forall (fun l => good src l /\ lf_index l < ver) ls -> ~ In LConflict (snd (put_all m ls)).
  Proof.
    induction ls as [|l r IH]; intros m Hm Hf; [cbn; auto|].
    rewrite put_all_snd_cons. inversion Hf as [|? ? [Hg Hv] Hr]; subst. intros [H | H].
    - revert H. eapply put_no_conflict; eassumption.
    - revert H. apply IH; [|exact Hr]. apply put_inv; assumption.
  Qed.

  (* the final table depends only on WHICH indices were submitted: not on order, batching or repetition *)
  Lemma put_all_lookup_char src ver ls : forall m i,
    map_inv src ver m -> Forall (fun l => good src l /\ lf_index l < ver) ls ->
    lookup (fst (put_all m ls)) i =
    match lookup m i with
    | Some x => Some x
    | None => if existsb (fun l => lf_index l =? i) ls
              then match nth_error src (Z.to_nat i) with Some e => build_log_leaf sha256 x509v idf i e | None => None end
              else None
    end.
  Proof.
    induction ls as [|l r IH]; intros m i Hm Hf.
    - cbn. destruct (lookup m i); reflexivity.
    - rewrite put_all_fst_cons. inversion Hf as [|? ? [Hg Hv] Hr]; subst.
      rewrite IH by (try apply put_inv; assumption). rewrite lookup_put.
      destruct (lookup m i) eqn:E; [reflexivity|]. cbn [existsb].
      destruct (lf_index l =? i) eqn:E2; cbn [orb]; [|reflexivity].
      apply Z.eqb_eq in E2. subst i. destruct Hg as [_ [e [H1 H2]]]. rewrite H1, H2. reflexivity.
  Qed.
End Inv.

(* ------------------------------------------------------------------ contiguous / integrate *)

Lemma contiguous_ge fuel : forall m from, from <= contiguous fuel m from.
Proof.
  induction fuel as [|f IH]; intros m from; cbn; [lia|].
  destruct (lookup m from); [|lia]. specialize (IH m (from + 1)). lia.
Qed.

Lemma contiguous_present fuel : forall m from i, from <= i < contiguous fuel m from -> lookup m i <> None.
Proof.
  induction fuel as [|f IH]; intros m from i H; cbn in H; [lia|].
  destruct (lookup m from) eqn:E; [|lia].
  destruct (Z.eq_dec i from) as [->|Hne]; [congruence|]. apply (IH m (from + 1)). lia.
Qed.

Definition prefix_ok (d : dest) : Prop := 0 <= d_size d /\ forall i, 0 <= i < d_size d -> lookup (d_leaves d) i <> None.

Lemma integrate_prefix_ok k d : prefix_ok d -> prefix_ok (integrate k d).
Proof.
  intros [H0 H]. unfold integrate, prefix_ok. cbn.
  pose proof (contiguous_ge (length (d_leaves d)) (d_leaves d) (d_size d)) as Hge.
  split; [lia|]. intros i Hi.
  destruct (Z_lt_dec i (d_size d)) as [Hlt|Hnlt]; [apply H; lia|].
  apply (contiguous_present (length (d_leaves d)) (d_leaves d) (d_size d)). lia.
Qed.

Lemma integrate_leaves k d : d_leaves (integrate k d) = d_leaves d.
Proof. reflexivity. Qed.

Lemma integrate_size_ge k d : d_size d <= d_size (integrate k d).
Proof.
  unfold integrate. cbn. pose proof (contiguous_ge (length (d_leaves d)) (d_leaves d) (d_size d)). lia.
Qed.

(* ------------------------------------------------------------------ slices and build_leaves *)

Lemma nth_error_firstn_some {A} n : forall (l : list A) j x, nth_error (firstn n l) j = Some x -> nth_error l j = Some x /\ (j < n)%nat.
Proof.
  induction n as [|n IH]; intros l j x H.
  - cbn in H. destruct j; discriminate.
  - destruct l as [|a l]; [destruct j; discriminate|]. destruct j as [|j]; cbn in *.
    + split; [exact H | lia].
    + apply IH in H. destruct H. split; [assumption | lia].
Qed.

Lemma nth_error_skipn_eq {A} n : forall (l : list A) j, nth_error (skipn n l) j = nth_error l (n + j).
Proof.
  induction n as [|n IH]; intros l j; [reflexivity|].
  destruct l as [|a l]; [cbn; destruct j; reflexivity|]. cbn. apply IH.
Qed.

Lemma slice_nth {A} (l : list A) pos k j x : 0 <= pos ->
  nth_error (slice l pos k) j = Some x -> nth_error l (Z.to_nat (pos + Z.of_nat j)) = Some x /\ Z.of_nat j < k.
Proof.
  intros Hp H. unfold slice in H. apply nth_error_firstn_some in H. destruct H as [H Hj].
  rewrite nth_error_skipn_eq in H. split.
  - replace (Z.to_nat (pos + Z.of_nat j)) with (Z.to_nat pos + j)%nat by lia. exact H.
  - lia.
Qed.

Lemma slice_length {A} (l : list A) pos k : 0 <= pos -> 0 <= k -> pos + k <= Z.of_nat (length l) ->
  length (slice l pos k) = Z.to_nat k.
Proof.
  intros Hp Hk Hl. unfold slice. rewrite firstn_length, skipn_length. lia.
Qed.

Section Build.
  Variable sha256 : bytes -> bytes.
  Variable x509v : bytes -> xverdict.
  Variable idf : idfunc.
  Notation build_log_leaf := (build_log_leaf sha256 x509v idf).
  Notation build_leaves := (build_leaves sha256 x509v idf).

  Lemma build_log_leaf_index i e l : build_log_leaf i e = Some l -> lf_index l = i.
  Proof.
    unfold MigrateModel.build_log_leaf, build_log_leaf_v. destruct (raw_log_entry e) as [[cd p]|]; [|discriminate].
    intros H. inversion H. reflexivity.
  Qed.

  Lemma build_leaves_nth es : forall i ls, build_leaves i es = Some ls ->
    length ls = length es /\
    forall j l, nth_error ls j = Some l ->
      exists e, nth_error es j = Some e /\ build_log_leaf (i + Z.of_nat j) e = Some l.
  Proof.
    induction es as [|e r IH]; intros i ls H; cbn in H.
    - inversion H; subst. split; [reflexivity|]. intros j l Hj. destruct j; discriminate.
    - destruct (build_log_leaf i e) as [l0|] eqn:E0; [|discriminate].
      destruct (build_leaves (i + 1) r) as [ls'|] eqn:E1; [|discriminate]. inversion H; subst.
      destruct (IH _ _ E1) as [Hlen Hn]. split; [cbn; congruence|].
      intros j l Hj. destruct j as [|j]; cbn in Hj.
      + inversion Hj; subst. exists e. split; [reflexivity|]. replace (i + Z.of_nat 0) with i by lia. exact E0.
      + destruct (Hn j l Hj) as [e' [A B]]. exists e'. split; [exact A|].
        replace (i + Z.of_nat (S j)) with (i + 1 + Z.of_nat j) by lia. exact B.
  Qed.

  Lemma build_leaves_indices es : forall i ls, build_leaves i es = Some ls -> indices_from i ls = true.
  Proof.
    induction es as [|e r IH]; intros i ls H; cbn in H.
    - inversion H. reflexivity.
    - destruct (build_log_leaf i e) as [l0|] eqn:E0; [|discriminate].
      destruct (build_leaves (i + 1) r) as [ls'|] eqn:E1; [|discriminate]. inversion H; subst. cbn.
      rewrite (build_log_leaf_index _ _ _ E0), Z.eqb_refl. cbn. apply IH. exact E1.
  Qed.

  (* every leaf built from a slice of the source is the mirror of the source entry of its index,
     and its index lies inside the slice *)
  Lemma build_slice_good src pos k ls : 0 <= pos ->
    build_leaves pos (slice src pos k) = Some ls ->
    Forall (fun l => good sha256 x509v idf src l /\ pos <= lf_index l < pos + k) ls.
  Proof.
    intros Hp H. destruct (build_leaves_nth _ _ _ H) as [_ Hn]. apply Forall_forall. intros l Hin.
    apply In_nth_error in Hin. destruct Hin as [j Hj]. destruct (Hn j l Hj) as [e [A B]].
    apply slice_nth in A; [|exact Hp]. destruct A as [A Hjk].
    pose proof (build_log_leaf_index _ _ _ B) as Hi. split; [|lia]. split; [lia|].
    exists e. rewrite Hi. split; assumption.
  Qed.

  (* and every index of a full slice is there *)
  Lemma build_slice_covers src pos k ls i : 0 <= pos -> 0 <= k -> pos + k <= Z.of_nat (length src) ->
    build_leaves pos (slice src pos k) = Some ls -> pos <= i < pos + k -> exists l, In l ls /\ lf_index l = i.
  Proof.
    intros Hp Hk Hl H Hi. destruct (build_leaves_nth _ _ _ H) as [Hlen Hn].
    rewrite slice_length in Hlen by assumption.
    destruct (nth_error ls (Z.to_nat (i - pos))) as [l|] eqn:E.
    - exists l. split; [eapply nth_error_In; exact E|]. destruct (Hn _ _ E) as [e [_ B]].
      rewrite (build_log_leaf_index _ _ _ B). lia.
    - apply nth_error_None in E. lia.
  Qed.
End Build.
