(* C19 - the witness only ever cosigns a forward-moving, consistent history per log.
   Property theorems only; each is closed by [exact]/[apply] of lemmas proved in
   Merkle/MerkleProofs.v and Witness/WitnessProofs.v.

   Model: Witness/WitnessModel.v (Update / GetSTH / GetLogs branch for branch, one SQL
   transaction = one atomic step).  All theorems are for EVERY set of client programs and
   EVERY interleaving [tr] of them, every prefix / suffix split of the execution, all inputs
   (candidate bytes, proofs, log ids, database faults), and all behaviours of the oracles:
     H (SHA-256), idhash (configured logs), decode (encoding/json), sig_ok (log signature
     verdict), sign / verify (witness key; only sign-then-verify-succeeds is assumed).
   [strict] = false is /repo before fix commit 920ddd1, true is /repo now (32-byte proof nodes);
   [ch] = false is /repo before fix commit 89a3685, true is /repo now (refusals answered with
   the held STH cosigned instead of the stored bytes).  Every theorem holds for both values of
   both, except successor_extends_predecessor, whose unconditional form needs strict = true. *)
From Coq Require Import String.
From Coq Require Import NArith List Bool.
From Coq.Strings Require Import Byte.
From V Require Import Base.Bytes Merkle.Merkle Merkle.MerkleProofs Witness.WitnessModel Witness.WitnessProofs Witness.WitnessTheorems.
From Coq Require Import ZArith.
From V Require Import gen.Witness Witness.WitnessGenTie.
Import ListNotations.
Local Open Scope N_scope.

(* ------------------------------------------------------------------ the Merkle library *)

(* COMPLETENESS: an honest log can always move the witness forward *)
Theorem consistency_proofs_complete : forall H leaves m,
  0 < m -> m <= lenN leaves ->
  vcons H m (lenN leaves) (mth H (firstN m leaves)) (mth H leaves) (cproof H m leaves) = true
  /\ verify_consistency H m (lenN leaves) (cproof H m leaves) (mth H (firstN m leaves)) (mth H leaves) = true.
Proof. exact consistency_complete_both. Qed.
Print Assumptions consistency_proofs_complete.

(* SOUNDNESS MODULO COLLISION, informative: from an accepted proof (nodes of hash length) the
   equality of roots or an explicit pair of colliding inputs is COMPUTED *)
Theorem consistency_verifier_sound : forall H hlen, (forall x, length (H x) = hlen) ->
  forall leaves m r1 r2 proof,
  0 < m -> m <= lenN leaves -> length r1 = hlen -> Forall (fun h => length h = hlen) proof ->
  vcons H m (lenN leaves) r1 r2 proof = true -> r2 = mth H leaves ->
  (r1 = mth H (firstN m leaves)) + { xy : bytes * bytes | fst xy <> snd xy /\ H (fst xy) = H (snd xy) }.
Proof. exact vcons_sound_inf. Qed.
Print Assumptions consistency_verifier_sound.

Theorem audit_paths_complete : forall H leaves i,
  i < lenN leaves ->
  vpath H i (lenN leaves) (leaf_hash H (nthN i leaves [])) (mth H leaves) (path H i leaves) = true.
Proof. exact vpath_complete. Qed.
Print Assumptions audit_paths_complete.

(* ------------------------------------------------------------------ the witness *)

(* stored (hence cosigned) only if it carries a valid signature of the configured log:
   whatever row the table holds after any execution parses under its own log id, i.e. the
   log is configured, the bytes decode, the id inside matches (or was absent) and the log's
   signature verdict on it is "valid"; and the bytes are those of some Update of the execution *)
Theorem stored_only_if_log_signed :
  forall H hlen strict ch idhash decode sig_ok sign (threads : list (list op)) tr id raw,
  interleaving threads tr ->
  lookup (run_state H hlen strict ch idhash decode sig_ok sign [] tr) id = Some raw ->
  (exists p h p0, parse idhash decode sig_ok raw id = inl p
    /\ idhash id = Some (Some h) /\ decode raw = Some p0 /\ sig_ok id p = true /\ p_logid p = h
    /\ p_size p = p_size p0 /\ p_root p = p_root p0)
  /\ (exists pf f, In (OUpdate id raw pf f) tr).
Proof. exact stored_only_if_log_signed_lemma. Qed.
Print Assumptions stored_only_if_log_signed.

(* the sizes of the successive STHs held for a log never shrink (and a held STH is never lost) *)
Theorem sizes_never_shrink :
  forall H hlen strict ch idhash decode sig_ok sign (threads : list (list op)) tr earlier later id p1,
  interleaving threads tr -> tr = earlier ++ later ->
  held idhash decode sig_ok (run_state H hlen strict ch idhash decode sig_ok sign [] earlier) id = Some p1 ->
  exists p2, held idhash decode sig_ok (run_state H hlen strict ch idhash decode sig_ok sign [] tr) id = Some p2
    /\ p_size p1 <= p_size p2.
Proof. exact sizes_never_shrink_lemma. Qed.
Print Assumptions sizes_never_shrink.

(* equal size implies equal root - in fact the identical row *)
Theorem equal_size_equal_root :
  forall H hlen strict ch idhash decode sig_ok sign (threads : list (list op)) tr earlier later id p1 p2,
  interleaving threads tr -> tr = earlier ++ later ->
  held idhash decode sig_ok (run_state H hlen strict ch idhash decode sig_ok sign [] earlier) id = Some p1 ->
  held idhash decode sig_ok (run_state H hlen strict ch idhash decode sig_ok sign [] tr) id = Some p2 ->
  p_size p1 = p_size p2 ->
  p_root p1 = p_root p2 /\ p2 = p1
  /\ lookup (run_state H hlen strict ch idhash decode sig_ok sign [] tr) id
     = lookup (run_state H hlen strict ch idhash decode sig_ok sign [] earlier) id.
Proof. exact equal_size_equal_root_lemma. Qed.
Print Assumptions equal_size_equal_root.

(* each held STH is a genuine extension of every earlier one: if the later root is the Merkle
   tree hash of some leaves, the earlier root is the tree hash of their first p_size p1 -
   or SHA-256 collides.  Code before fix 920ddd1 (strict = false): for executions whose offered
   consistency proofs have 32-byte nodes; code now (strict = true, the _patched theorem): all. *)
Theorem successor_extends_predecessor : extension_statement false true.
Proof. exact successor_extends_predecessor_lemma. Qed.
Print Assumptions successor_extends_predecessor.

Theorem successor_extends_predecessor_patched : extension_statement true false.
Proof. exact successor_extends_predecessor_patched_lemma. Qed.
Print Assumptions successor_extends_predecessor_patched.

(* The restriction was needed for the code before the fix (finding C19-1): a log key that signs
   (3, r1) with r1 = H(01 || L || first hlen-1 bytes of leafhash(d2)) gets it stored on first
   use, and then (4, MTH(d0..d3)) is accepted on the proof [s; t; L] with |s| = hlen-1,
   |t| = hlen+1 - although r1 is the root of d0,d1,d2 only if the two different strings
   x, y below collide.  For every H with hlen >= 1 and every four leaves. *)
Theorem successor_extends_predecessor_refuted :
  forall H hlen ch idhash decode sig_ok sign id raw3 raw4 (p3 p4 : psth) d0 d1 d2 d3,
  (forall x, length (H x) = hlen) -> (1 <= hlen)%nat ->
  let leaves := [d0; d1; d2; d3] in
  let L := node_hash H (leaf_hash H d0) (leaf_hash H d1) in
  let s := firstn (hlen - 1) (leaf_hash H d2) in
  let t := skipn (hlen - 1) (leaf_hash H d2) ++ leaf_hash H d3 in
  parse idhash decode sig_ok raw3 id = inl p3 -> p_size p3 = 3 -> p_root p3 = node_hash H L s ->
  parse idhash decode sig_ok raw4 id = inl p4 -> p_size p4 = 4 -> p_root p4 = mth H leaves ->
  let tr := [OUpdate id raw3 [] NoFault; OUpdate id raw4 [s; t; L] NoFault] in
  held idhash decode sig_ok (run_state H hlen false ch idhash decode sig_ok sign [] [OUpdate id raw3 [] NoFault]) id = Some p3
  /\ held idhash decode sig_ok (run_state H hlen false ch idhash decode sig_ok sign [] tr) id = Some p4
  /\ (x01 :: L ++ s) <> (x01 :: L ++ leaf_hash H d2)
  /\ (p_root p3 = mth H (firstN (p_size p3) leaves) -> H (x01 :: L ++ s) = H (x01 :: L ++ leaf_hash H d2))
  /\ held idhash decode sig_ok (run_state H hlen true ch idhash decode sig_ok sign [] tr) id = Some p3.
Proof. exact successor_extends_predecessor_refuted_lemma. Qed.
Print Assumptions successor_extends_predecessor_refuted.

(* a refused update (any answer other than success) leaves the table unchanged; indeed the
   table changes only together with a cosigned success answer *)
Theorem refusal_leaves_state :
  forall H hlen strict ch idhash decode sig_ok sign st o st' b e,
  step H hlen strict ch idhash decode sig_ok sign st o = (st', ORsp (b, e)) ->
  (e <> EOk -> st' = st) /\ (st' <> st -> e = EOk /\ exists p sg, b = BCosigned p sg).
Proof. exact refusal_leaves_state_lemma. Qed.
Print Assumptions refusal_leaves_state.

(* refused as stale or inconsistent (FailedPrecondition): answered with the currently held
   row, which stays; and every stale / forked / unproved candidate IS refused that way *)
Theorem stale_or_inconsistent_answered_with_held :
  forall H hlen strict ch idhash decode sig_ok sign st id raw pf f st' b,
  update H hlen strict ch idhash decode sig_ok sign st id raw pf f = (st', (b, EFailedPre)) ->
  st' = st /\ exists heldRaw heldSTH, lookup st id = Some heldRaw /\ parse idhash decode sig_ok heldRaw id = inl heldSTH
    /\ b = held_body ch sign heldRaw heldSTH.
Proof. exact stale_or_inconsistent_answered_with_held_lemma. Qed.
Print Assumptions stale_or_inconsistent_answered_with_held.

Theorem stale_or_inconsistent_is_refused :
  forall H hlen strict ch idhash decode sig_ok sign st id raw pf next prevRaw prev,
  parse idhash decode sig_ok raw id = inl next -> lookup st id = Some prevRaw ->
  parse idhash decode sig_ok prevRaw id = inl prev ->
  (p_size next < p_size prev
   \/ (p_size next = p_size prev /\ p_root next <> p_root prev)
   \/ (p_size prev < p_size next
       /\ verify_consistency H (p_size prev) (p_size next) pf (p_root prev) (p_root next) = false)) ->
  update H hlen strict ch idhash decode sig_ok sign st id raw pf NoFault = (st, (held_body ch sign prevRaw prev, EFailedPre)).
Proof. exact refusal_characterised. Qed.
Print Assumptions stale_or_inconsistent_is_refused.

(* every cosignature verifies under the witness key over the TLS encoding of the STH it
   accompanies, and that STH is the one held for the log when the answer is produced *)
Theorem cosignature_verifies :
  forall H hlen strict ch idhash decode sig_ok sign verify (threads : list (list op)) tr before o after p sg e st',
  (forall m, verify m (sign m) = true) ->
  interleaving threads tr -> tr = before ++ o :: after ->
  step H hlen strict ch idhash decode sig_ok sign (run_state H hlen strict ch idhash decode sig_ok sign [] before) o
    = (st', ORsp (BCosigned p sg, e)) ->
  (ch = false -> e = EOk) /\ verify (sth_enc p) sg = true /\ held idhash decode sig_ok st' (op_id o) = Some p.
Proof. exact cosignature_verifies_lemma. Qed.
Print Assumptions cosignature_verifies.

(* progress: a correctly signed candidate with a verifying proof is stored and cosigned *)
Theorem consistent_update_accepted :
  forall H hlen strict ch idhash decode sig_ok sign st id raw pf next,
  parse idhash decode sig_ok raw id = inl next ->
  (lookup st id = None \/
   exists prevRaw prev, lookup st id = Some prevRaw /\ parse idhash decode sig_ok prevRaw id = inl prev
     /\ p_size prev < p_size next
     /\ verify_consistency H (p_size prev) (p_size next) pf (p_root prev) (p_root next) = true
     /\ (strict = true -> forallb (sized_b hlen) pf = true)) ->
  update H hlen strict ch idhash decode sig_ok sign st id raw pf NoFault = (store st id raw, (cosign sign next, EOk)).
Proof. exact acceptance_characterised. Qed.
Print Assumptions consistent_update_accepted.

(* ------------------------------------------------------------------ restarts *)

(* the life of a DATABASE: epochs, each one Witness value created by witness.New over the table the
   previous one left (process restart, second instance), each with its own set of configured logs
   ([run_epochs], [restart] of WitnessModel.v).  What is held for a log whose own configuration
   entry stays the same survives every restart - however many other logs come and go -, its size
   never shrinks and equal size means the very same STH *)
Theorem held_survives_restarts :
  forall H hlen strict ch decode sig_ok sign (eps : list (config * list op)) st id (idh0 : config) p1,
  Forall (fun ep => fst ep id = idh0 id) eps ->
  held idh0 decode sig_ok st id = Some p1 ->
  exists p2, held idh0 decode sig_ok (fst (run_epochs H hlen strict ch decode sig_ok sign st eps)) id = Some p2
    /\ p_size p1 <= p_size p2 /\ (p_size p1 = p_size p2 -> p2 = p1).
Proof. exact held_survives_restarts_lemma. Qed.
Print Assumptions held_survives_restarts.

(* under one unchanged configuration restarts are invisible: the epochs answer, operation for
   operation, as one Witness value answers the concatenated history, and leave the same table -
   so every theorem above holds for executions interrupted by any number of restarts *)
Theorem restarts_invisible :
  forall H hlen strict ch decode sig_ok sign (idh : config) (eps : list (config * list op)) st,
  Forall (fun ep => fst ep = idh) eps ->
  run H hlen strict ch idh decode sig_ok sign st (concat (map snd eps))
  = (fst (run_epochs H hlen strict ch decode sig_ok sign st eps),
     concat (snd (run_epochs H hlen strict ch decode sig_ok sign st eps))).
Proof. exact restarts_invisible_lemma. Qed.
Print Assumptions restarts_invisible.

(* ------------------------------------------------------------------ non-vacuity *)

(* a toy instance: H = 4-byte checksum, raw STH bytes = [size; root...], one configured log
   "A" that signs everything except bytes starting with ff; three leaves *)
Module Toy.
  Definition H (x : bytes) : bytes := be_enc 4 (fold_left (fun a b => (a * 31 + b2n b + 7) mod 4294967296) x 1).
  Definition idA : logid := hex "41"%string.
  Definition idhash (i : logid) : option (option bytes) := if bytes_eqb i idA then Some (Some (rep 32 x01)) else None.
  Definition decode (raw : bytes) : option psth :=
    match raw with
    | sz :: root => Some {| p_version := 0; p_size := b2n sz; p_time := 0; p_root := root; p_sig := []; p_logid := zero_id |}
    | [] => None
    end.
  Definition sig_ok (i : logid) (p : psth) : bool := negb (bytes_eqb (firstn 1 (p_root p)) (hex "ff"%string)).
  Definition sign (m : bytes) : bytes := x2a :: m.
  Definition verify (m s : bytes) : bool := bytes_eqb s (x2a :: m).
  Definition leaves : list bytes := [hex "0a"%string; hex "0b"%string; hex "0c"%string].
  Definition sth (n : N) (l : list bytes) : bytes := n2b n :: mth H l.
  Definition run := run H 4 false false idhash decode sig_ok sign [].
  Definition fork : list bytes := [hex "0a"%string; hex "0d"%string; hex "0c"%string].
End Toy.

Example toy_history :
  let ops := [ OUpdate Toy.idA (Toy.sth 2 (firstN 2 Toy.leaves)) [] NoFault;                               (* first use *)
               OUpdate Toy.idA (Toy.sth 3 Toy.fork) (cproof Toy.H 2 Toy.fork) NoFault;                     (* fork: refused *)
               OUpdate Toy.idA (Toy.sth 3 Toy.leaves) (cproof Toy.H 2 Toy.leaves) NoFault;                 (* extension: stored *)
               OUpdate Toy.idA (Toy.sth 2 (firstN 2 Toy.leaves)) [] NoFault;                               (* stale: refused *)
               OUpdate Toy.idA (hex "03ff000000"%string) [] NoFault;                                              (* bad log signature *)
               OGetSTH Toy.idA false ] in
  map (fun o => match o with ORsp (_, e) => Some e | _ => None end) (snd (Toy.run ops))
    = [Some EOk; Some EFailedPre; Some EOk; Some EFailedPre; Some EOther; Some EOk]
  /\ lookup (fst (Toy.run ops)) Toy.idA = Some (Toy.sth 3 Toy.leaves)
  /\ interleaving [firstn 2 ops; skipn 2 ops] ops.
Proof.
  cbv zeta. split; [vm_compute; reflexivity|]. split; [vm_compute; reflexivity|].
  cbn [firstn skipn].
  apply (il_step [] _ _ [_]). apply (il_step [] _ [] [_]).
  apply (il_step [[]] _ _ []). apply (il_step [[]] _ _ []). apply (il_step [[]] _ _ []). apply (il_step [[]] _ _ []).
  apply il_done. repeat constructor.
Qed.

(* a restart into a configuration with a second log "B": the size-3 STH of A is still held, the
   stale size-2 one is refused and answered with it; B starts on first use *)
Example toy_restart :
  let idB : logid := hex "42"%string in
  let idhash2 (i : logid) : option (option bytes) :=
    if bytes_eqb i Toy.idA then Some (Some (rep 32 x01)) else if bytes_eqb i idB then Some (Some (rep 32 x02)) else None in
  let eps := [ (Toy.idhash, [ OUpdate Toy.idA (Toy.sth 2 (firstN 2 Toy.leaves)) [] NoFault;
                              OUpdate Toy.idA (Toy.sth 3 Toy.leaves) (cproof Toy.H 2 Toy.leaves) NoFault;
                              OUpdate idB (Toy.sth 1 (firstN 1 Toy.fork)) [] NoFault ]);       (* B is not configured yet *)
               (idhash2,     [ OGetSTH Toy.idA false;
                              OUpdate Toy.idA (Toy.sth 2 (firstN 2 Toy.leaves)) [] NoFault;      (* stale after the restart *)
                              OUpdate idB (Toy.sth 1 (firstN 1 Toy.fork)) [] NoFault ]) ] in
  let r := run_epochs Toy.H 4 false false Toy.decode Toy.sig_ok Toy.sign [] eps in
  map (map (fun o => match o with ORsp (_, e) => Some e | _ => None end)) (snd r)
    = [[Some EOk; Some EOk; Some ENotFound]; [Some EOk; Some EFailedPre; Some EOk]]
  /\ lookup (fst r) Toy.idA = Some (Toy.sth 3 Toy.leaves)
  /\ Forall (fun ep => fst ep Toy.idA = Toy.idhash Toy.idA) eps.
Proof.
  cbv zeta. split; [vm_compute; reflexivity|]. split; [vm_compute; reflexivity|].
  repeat constructor.
Qed.

(* the three elementary guards of Update as witness.go has them today (translated on every run): candidate smaller
   than the head held / same size / a consistency-proof node that is not hash-sized - are exactly the comparisons of
   the model's update (sizes as N, hlen = 32), direction and constant included *)
Theorem update_guards_as_in_source : forall (a b : N) (h : bytes),
  (a <? b) = witness_stale_gen (Z.of_N a) (Z.of_N b) /\
  (a =? b) = witness_same_size_gen (Z.of_N a) (Z.of_N b) /\
  negb (sized_b 32 h) = witness_node_bad_len_gen (Z.of_nat (length h)).
Proof. exact update_guards_meaning. Qed.
Print Assumptions update_guards_as_in_source.
