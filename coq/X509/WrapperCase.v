(* Correspondence cases for C11.

   The wrappers are modelled over an ABSTRACT inner parser, so a case carries, beside the
   observed result of the entry point, the observed behaviour of the inner pieces on that
   very input: for every offset the ParseCertificates loop can reach, what strict and lax
   asn1.Unmarshal into the real (unexported) structure type do there (fail, or succeed up
   to which offset), and the class of parseCertificate on each structure so obtained.  The
   model is instantiated with these tables (input = offset into the fixed byte string) and
   its result is compared with what the entry point returned, on projected observables:
   object present?, error class, number of collected non-fatal errors, x509.IsFatal.

   Cases without a model (validation only, see props/C11.json): CCoh carries the observed
   dynamic type of the error, so that at least the IsFatal model and the coherence clause are
   evaluated in Coq on every (object, error) pair any exported parser returned; CConf carries
   the verdict of the field-by-field comparison with crypto/x509. *)
From Coq Require Import List Bool NArith String.
From V Require Import Base.CaseLib X509.WrapperShape X509.WrapperModel X509.WrapperProofs gen.X509Returns.
Import ListNotations.
Local Open Scope N_scope.

Inductive uobs := UFail | UOkAt (next : N).
Inductive pcls := PNil | PNfe (n : N) | PErrs (ids : list string) | POther.

Record cinst := mkInst {
  total : N;                                      (* len(input) *)
  unm_tbl : list (N * (uobs * uobs));             (* offset -> (strict, lax) *)
  parse_tbl : list ((N * bool) * (bool * pcls))   (* (offset, lax?) -> parseCertificate: (object?, class) *)
}.

Inductive case :=
| CSingle (tbs : bool) (i : cinst) (obs : bool * pcls) (fatal : bool)
| CMany (i : cinst) (obs : option (list bool) * pcls) (fatal : bool)
| CStrict (fn : N) (u : uobs) (total : N) (pre_ok exact : bool) (obs : bool * pcls) (fatal : bool)
| CList (u : uobs) (total : N) (ck : option (list string)) (obs : bool * pcls) (fatal : bool)
| CCoh (fn : N) (has_obj : bool) (e : goerr) (fatal : bool) (raw_ok : bool)
| CPanic (fn : N)
| CHang (fn : N)
| CFatal (e : goerr) (fatal : bool)
| CConf (agree noerr : bool).

Definition pair_key_eqb (a b : N * bool) : bool := N.eqb (fst a) (fst b) && Bool.eqb (snd a) (snd b).
Fixpoint assoc {K V} (eqb : K -> K -> bool) (k : K) (l : list (K * V)) : option V :=
  match l with [] => None | (k', v) :: l' => if eqb k k' then Some v else assoc eqb k l' end.

Definition pcls_eqb (a b : pcls) : bool :=
  match a, b with
  | PNil, PNil => true
  | PNfe n, PNfe m => N.eqb n m
  | PErrs x, PErrs y => list_eqb String.eqb x y
  | POther, POther => true
  | _, _ => false
  end.

Section Inst.
  Variable i : cinst.
  Definition Sid := (N * bool)%type.
  Definition i_empty (off : N) : bool := N.leb (total i) off.
  Definition i_measure (off : N) : nat := N.to_nat (total i - off).
  Definition i_unm (lax : bool) (off : N) : ures N Sid N :=
    match assoc N.eqb off (unm_tbl i) with
    | Some (s, l) => match (if lax then l else s) with
                     | UOkAt nx => UOk (off, lax) nx
                     | UFail => UErr 0
                     end
    | None => UErr 999
    end.
  Definition err_of (p : pcls) : err N :=
    match p with
    | PNil => ErrNil
    | PNfe n => ErrNfe (repeat 7 (N.to_nat n))
    | PErrs ids => ErrErrs (map (fun x => (x, false)) ids)
    | POther => ErrOther 1
    end.
  Definition i_parse (s : Sid) : option Sid * err N :=
    match assoc pair_key_eqb s (parse_tbl i) with
    | Some (has, p) => ((if has then Some s else None), err_of p)
    | None => (None, ErrOther 999)
    end.

  (* every table entry the wrappers can consult is present *)
  Definition closed : bool :=
    (N.eqb (total i) 0 || match assoc N.eqb 0 (unm_tbl i) with Some _ => true | None => false end) &&
    forallb (fun ent =>
      let '(off, (s, l)) := ent in
      let reach nx := N.leb (total i) nx || match assoc N.eqb nx (unm_tbl i) with Some _ => true | None => false end in
      let havep k := match assoc pair_key_eqb k (parse_tbl i) with Some _ => true | None => false end in
      match s with
      | UOkAt nx => reach nx && havep (off, false)
      | UFail => match l with UOkAt nx => reach nx && havep (off, true) | UFail => true end
      end) (unm_tbl i).

  Definition m_single := parse_single N i_empty Sid Sid N i_unm i_parse 2.
  Definition m_many := parse_many N i_empty i_measure Sid Sid N i_unm i_parse.
End Inst.

Definition pcls_of (e : err N) : pcls :=
  match e with
  | ErrNil => PNil
  | ErrNfe es => PNfe (N.of_nat (List.length es))
  | ErrErrs ids => PErrs (map fst ids)
  | ErrOther _ => POther
  end.
Definition is_some {T} (o : option T) : bool := match o with Some _ => true | None => false end.
Definition proj {T} (r : option T * err N) : bool * pcls := (is_some (fst r), pcls_of (snd r)).
Definition obs_eqb (a b : bool * pcls) : bool := Bool.eqb (fst a) (fst b) && pcls_eqb (snd a) (snd b).

Definition fatal_of_id (id : string) : bool :=
  match assoc String.eqb id error_ids with Some b => b | None => true end.   (* NewError: unknown id -> Fatal *)

Definition run_single (i : cinst) : (bool * pcls) * bool :=
  let r := m_single i 0 in (proj r, is_fatal_err N (snd r)).

Definition run_many (i : cinst) : option ((option (list bool) * pcls) * bool) :=
  match m_many i 0 with
  | WHang => None
  | WRet o e => Some ((match o with Some os => Some (map is_some os) | None => None end, pcls_of e), is_fatal_err N e)
  end.

(* strict-only entry points observed through their Unmarshal: the guards are modelled, the
   inner function is whatever was observed ([exact]: the inner function is the identity) *)
Definition run_strict (u : uobs) (tot : N) (pre_ok exact : bool) (obs : bool * pcls) : bool * pcls :=
  match u with
  | UFail => (false, POther)
  | UOkAt nx => if negb (N.leb tot nx) then (false, POther)
                else if negb pre_ok then (false, POther)
                else if exact then (true, PNil) else obs
  end.

Definition run_list (u : uobs) (tot : N) (ck : option (list string)) : (bool * pcls) * bool :=
  let unm (lax : bool) (off : N) : ures N unit N :=
      match u with UOkAt nx => UOk tt nx | UFail => UErr 0 end in
  let crack (_ : unit) : crack unit N :=
      match ck with Some ids => CrackDone tt ids | None => CrackAbort 1 end in
  let r := parse_list_der N (fun off => N.leb tot off) unit unit N unm fatal_of_id crack 0 in
  (proj r, is_fatal_err N (snd r)).

Definition check (c : case) : bool :=
  match c with
  | CSingle _ i obs fatal =>
    closed i && (let '(p, f) := run_single i in obs_eqb p obs && Bool.eqb f fatal)
  | CMany i obs fatal =>
    closed i && match run_many i with
                | None => false
                | Some ((o, p), f) =>
                  opt_eqb (list_eqb Bool.eqb) o (fst obs) && pcls_eqb p (snd obs) && Bool.eqb f fatal
                end
  | CStrict _ u tot pre_ok exact obs fatal =>
    obs_eqb (run_strict u tot pre_ok exact obs) obs &&
    Bool.eqb fatal (match snd obs with POther => true | _ => false end) &&
    (match obs with (true, PNil) | (false, POther) => true | _ => false end)
  | CList u tot ck obs fatal =>
    let '(p, f) := run_list u tot ck in obs_eqb p obs && Bool.eqb f fatal
  | CCoh _ has e fatal raw_ok =>
    Bool.eqb (go_is_fatal e) fatal &&
    coherentb ((if has then ONonNil else ONil), ecls_of_go e) && raw_ok
  | CPanic _ | CHang _ => false
  | CFatal e fatal => Bool.eqb (go_is_fatal e) fatal
  | CConf agree noerr => agree && noerr
  end.

Definition explain (c : case) :=
  match c with
  | CSingle _ i _ _ => (Some (closed i, run_single i), None, None, None)
  | CMany i _ _ => (None, Some (closed i, run_many i), None, None)
  | CStrict _ u tot pre_ok exact obs _ => (Some (true, (run_strict u tot pre_ok exact obs, false)), None, None, None)
  | CList u tot ck _ _ => (Some (true, run_list u tot ck), None, None, None)
  | CCoh _ has e _ _ => (None, None, Some (go_is_fatal e, coherentb ((if has then ONonNil else ONil), ecls_of_go e)), None)
  | CFatal e _ => (None, None, Some (go_is_fatal e, true), None)
  | CPanic _ | CHang _ | CConf _ _ => (None, None, None, Some "no model: validation only"%string)
  end.
