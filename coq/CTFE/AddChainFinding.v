(* C01: the one way the current tree violates the property, and the repaired variant.

   A precertificate signed by a precertificate signing certificate whose KEY is certified by two
   different CAs can be submitted under either CA.  The entry (issuer name, authority key id,
   issuer key hash) depends on which; the de-duplication key (SHA-256 of the precertificate)
   does not.  The second submission therefore gets an SCT over the FIRST submission's entry -
   not over the entry a client derives from the chain it submitted.

   [refuted]: an explicit two-request history, evaluated by the model WITHOUT the returned-leaf
   check (guard_none, which is current_guard for this tree).
   [signed_at_patched]: with the returned-leaf check of pending_fixes/C01-1.diff
   (guard_same_entry) the clause holds for ALL histories without any consistency hypothesis;
   the witness history is then answered 409 instead. *)
From Coq Require Import String NArith ZArith List Bool Lia PeanoNat.
From V Require Import Base.Bytes TLS.TlsModel gen.CtTypes
  CT.Rfc6962Spec CT.Rfc6962Proofs CT.CtFuncs CT.CtFuncsProofs X509.Der X509.PrecertModel X509.PrecertProofs
  CTFE.AddChainModel CTFE.AddChainSpec CTFE.AddChainCodec CTFE.AddChainStep CTFE.AddChainHistory.
Import ListNotations.
Local Open Scope N_scope.

(* ---------------- the repaired variant ---------------- *)

Lemma same_entry_embed t1 e1 t2 e2 : entry_ok e1 -> entry_ok e2 ->
  same_entry (embed_leaf t1 e1 []) (embed_leaf t2 e2 []) = true -> e1 = e2.
Proof.
  intros H1 H2. unfold same_entry.
  change (with_timestamp (embed_leaf t1 e1 []) 0) with (Some (embed_leaf 0 e1 [])).
  change (with_timestamp (embed_leaf t2 e2 []) 0) with (Some (embed_leaf 0 e2 [])).
  cbv beta iota.
  assert (Hz : ts_ok 0) by (unfold ts_ok; lia).
  rewrite (gen_leaf_marshal 0 e1 [] Hz H1 nil_ext_ok), (gen_leaf_marshal 0 e2 [] Hz H2 nil_ext_ok).
  intros Hb. apply bytes_eqb_eq in Hb.
  destruct (enc_leaf_inj 0 e1 0 e2 Hz H1 Hz H2 Hb) as [_ He]. exact He.
Qed.

Lemma guard_same_entry_eq x y : guard_same_entry x y = same_entry x y.
Proof. reflexivity. Qed.

Section Patched.
Variable H : bytes -> bytes.
Variable sign : N -> bytes -> option bytes.
Variable cfg : config.

Lemma signed_at_patched before s after r e :
  nth_error (log_of H sign guard_same_entry cfg (before ++ s :: after)) (length before) = Some (s, Issued r) ->
  client_entry H s e ->
  entry_ok e /\ i_ext r = [] /\ i_signed r = enc_sct_siginput (i_ts r) e (i_ext r) /\
  exists n, sign n (enc_sct_siginput (i_ts r) e (i_ext r)) = Some (i_sig r).
Proof.
  intros Hn Hc.
  destruct (returned_origin _ _ _ _ _ _ _ _ Hn) as (s0 & e0 & _ & _ & _ & He0 & _ & Hts & Hext & Hsg & _ & (e' & Hse' & Hg)).
  destruct (queued_at _ _ _ _ _ _ _ _ Hn) as (e'' & Hse'' & He'' & _).
  rewrite Hse' in Hse''. inversion Hse''; subst e''.
  rewrite (client_entry_is_server_entry H s e Hc) in Hse'. inversion Hse'; subst e'.
  rewrite guard_same_entry_eq in Hg.
  assert (Heq : e0 = e) by exact (same_entry_embed _ _ _ _ He0 He'' Hg). subst e0.
  destruct (sct_at _ _ _ _ _ _ _ _ Hn) as (_ & _ & [n Hsig] & _).
  rewrite Hext, Hts. repeat split; auto. exists n. rewrite <- Hsg. exact Hsig.
Qed.
End Patched.

(* ---------------- the witness ---------------- *)

Definition toyH (b : bytes) : bytes := firstn 32 (b ++ repeat Byte.x00 32).
Lemma toyH_len b : length (toyH b) = 32%nat.
Proof. unfold toyH. rewrite firstn_length, app_length, repeat_length. lia. Qed.

Definition w_head0 : list (Byte.byte * bytes) :=
  [(Byte.xa0, hex "020102"); (Byte.x02, hex "05"); (Byte.x30, hex "0609"); (Byte.x30, hex "aa");
   (Byte.x30, hex "bb"); (Byte.x30, hex "cc"); (Byte.x30, hex "dd")].
Definition w_e1 : ext := {| e_oid := hex "551d0f"; e_crit := true; e_val := hex "03020780" |}.
Definition w_poison0 : ext := {| e_oid := oid_poison; e_crit := true; e_val := hex "0500" |}.
Definition w_sct0 : ext := {| e_oid := oid_sctlist; e_crit := false; e_val := hex "0400" |}.
Definition wtwin : twin :=
  {| w_head := w_head0; w_a' := [w_e1]; w_poison := w_poison0; w_b' := []; w_a := [w_e1]; w_sct := w_sct0; w_b := [] |}.

(* one pre-issuer key, certified by CA 1 (name a1, key 01) and by CA 2 (name b2, key 02) *)
Definition pre_a : cert_info := {| c_der := hex "30a1"; c_spki := hex "99"; c_pi := {| pi_issuer := (Byte.x30, hex "a1"); pi_aki := None; pi_ct_eku := true |} |}.
Definition pre_b : cert_info := {| c_der := hex "30b2"; c_spki := hex "99"; c_pi := {| pi_issuer := (Byte.x30, hex "b2"); pi_aki := None; pi_ct_eku := true |} |}.
Definition plain (der spki : bytes) : cert_info :=
  {| c_der := der; c_spki := spki; c_pi := {| pi_issuer := (Byte.x30, hex "00"); pi_aki := None; pi_ct_eku := false |} |}.
Definition ca1 := plain (hex "30c1") (hex "01").
Definition ca2 := plain (hex "30c2") (hex "02").

Definition w_leaf : bytes := hex "30031234".
Definition sub_a : submission :=
  {| s_pre := true; s_leaf := w_leaf; s_tbs := enc_tbs (precert_tbs wtwin); s_rest := [pre_a; ca1]; s_now := 1000000 |}.
Definition sub_b : submission :=
  {| s_pre := true; s_leaf := w_leaf; s_tbs := enc_tbs (precert_tbs wtwin); s_rest := [pre_b; ca2]; s_now := 5000000123 |}.
Definition w_cfg : config := {| k_spki := hex "3059"; k_kind := KEcdsa |}.
Definition w_sign (n : N) (d : bytes) : option bytes := Some (hex "3006020101020101").

Definition w_entry_b : entry := PrecertE (toyH (hex "02")) (enc_tbs (entry_tbs_pre (c_pi pre_b) wtwin)).

Ltac ok_small := repeat (split || constructor); vm_compute; try reflexivity; try discriminate.

Lemma w_client_b : client_entry toyH sub_b w_entry_b.
Proof.
  unfold w_entry_b. apply (CE_preissuer toyH sub_b pre_b ca2 [] wtwin); try reflexivity.
  - ok_small.
  - ok_small.
  - ok_small.
  - ok_small.
Qed.

Definition w_log (g : val -> val -> bool) := snd (run toyH w_sign g w_cfg [sub_a; sub_b]).
Definition dummy_issued : issued :=
  {| i_queued := {| l_value := []; l_extra := []; l_id := [] |}; i_returned := {| l_value := []; l_extra := []; l_id := [] |};
     i_dup := false; i_signed := []; i_id := []; i_ts := 0; i_ext := []; i_hash_alg := 0; i_sig_alg := 0; i_sig := []; i_sct_bytes := [] |}.
Definition w_r : issued :=
  Eval vm_compute in match nth_error (w_log guard_none) 1 with Some (_, Issued r) => r | _ => dummy_issued end.

Lemma refuted :
  at_pos toyH w_sign guard_none w_cfg [sub_a] sub_b [] (Issued w_r) /\
  i_dup w_r = true /\ i_ts w_r = 1 /\
  i_signed w_r <> enc_sct_siginput (i_ts w_r) w_entry_b (i_ext w_r).
Proof.
  split; [unfold at_pos; vm_compute; reflexivity|]. split; [reflexivity|]. split; [reflexivity|].
  vm_compute. discriminate.
Qed.

(* with the check the same second request is refused: no SCT over another entry *)
Lemma refuted_history_patched :
  map snd (w_log guard_same_entry) = [match nth_error (w_log guard_none) 0 with Some (_, o) => o | None => OPanic end; Refused 409].
Proof. vm_compute. reflexivity. Qed.
