(* C17: the compatibility filter and the policy group computations. *)
From Coq Require Import ZArith NArith Bool List Lia.
From V Require Import Base.GoInt gen.Windows gen.Policy gen.Races Temporal.WindowModel Temporal.WindowProofs
     Submission.SubmitModel Submission.SubmitLib Submission.SubmitStateProofs Submission.SubmitEnoughState.
Import ListNotations.
Open Scope Z_scope.

(* ---- lifetime thresholds (the generated switch arms) ---- *)
Lemma chrome_thresholds m :
  chrome_inc_count m = (if m <? 15 then 2 else if m <=? 27 then 3 else if m <=? 39 then 4 else 5).
Proof. unfold chrome_inc_count. destruct (m <? 15), (m <=? 27), (m <=? 39); reflexivity. Qed.

Lemma apple_thresholds m :
  apple_inc_count m = (if m <? 15 then 2 else if m <=? 27 then 3 else if m <=? 39 then 4 else 5).
Proof. unfold apple_inc_count. destruct (m <? 15), (m <=? 27), (m <=? 39); reflexivity. Qed.

Lemma chrome_inc_range m : 2 <= chrome_inc_count m <= 5.
Proof. rewrite chrome_thresholds. destruct (m <? 15), (m <=? 27), (m <=? 39); lia. Qed.

Lemma apple_inc_range m : 2 <= apple_inc_count m <= 5.
Proof. rewrite apple_thresholds. destruct (m <? 15), (m <=? 27), (m <=? 39); lia. Qed.

(* lifetimeInMonths on in-range civil dates is the plain month difference, minus one for a
   partial month *)
Lemma months_of_spec sy sm sd ey em ed :
  0 <= sy <= 9999 -> 0 <= ey <= 9999 -> 1 <= sm <= 12 -> 1 <= em <= 12 ->
  months_of (sy, sm, sd) (ey, em, ed) = (ey - sy) * 12 + (em - sm) - (if ed <? sd then 1 else 0).
Proof.
  intros. unfold months_of, lifetime_in_months, add64, sub64, mul64.
  assert (R : forall z, -1000000 <= z <= 1000000 -> wrap64 z = z).
  { intros z Hz. apply wrap64_id. unfold in_i64. pose proof two63_pos. rewrite max_i64_eq, min_i64_eq.
    assert (1000000 < two63) by (rewrite <- (Z.ltb_lt); vm_compute; reflexivity). lia. }
  rewrite (R (ey - sy)) by lia. rewrite (R ((ey - sy) * 12)) by lia. rewrite (R (em - sm)) by lia.
  rewrite (R ((ey - sy) * 12 + (em - sm))) by lia.
  destruct (ed <? sd); [rewrite R by lia|]; lia.
Qed.

(* ---- filters ---- *)
Lemma ids_filter_logs keep ll id : In id (ids (filter_logs keep ll)) ->
  exists op lg, In op ll /\ In lg (op_logs op) /\ l_id lg = id /\ keep lg = true.
Proof.
  unfold ids, filter_logs. intros H. apply in_concat in H. destruct H as [xs [H1 H2]].
  apply in_map_iff in H1. destruct H1 as [op' [E H1]]. subst xs.
  apply filter_In in H1. destruct H1 as [H1 _]. apply in_map_iff in H1. destruct H1 as [op [E H1]]. subst op'.
  simpl in H2. apply in_map_iff in H2. destruct H2 as [lg [E H2]]. apply filter_In in H2. destruct H2 as [H2 H3].
  exists op, lg. auto.
Qed.

Definition in_list (ll : loglist) (lg : log) : Prop := exists op, In op ll /\ In lg (op_logs op).

Lemma filter_logs_sub keep ll lg : in_list (filter_logs keep ll) lg -> in_list ll lg /\ keep lg = true.
Proof.
  unfold in_list, filter_logs. intros [op' [H1 H2]]. apply filter_In in H1. destruct H1 as [H1 _].
  apply in_map_iff in H1. destruct H1 as [op [E H1]]. subst op'. simpl in H2. apply filter_In in H2.
  destruct H2 as [H2 H3]. split; [exists op; auto | exact H3].
Qed.

Lemma ids_in_list ll id : In id (ids ll) -> exists lg, in_list ll lg /\ l_id lg = id.
Proof.
  unfold ids. intros H. apply in_concat in H. destruct H as [xs [H1 H2]].
  apply in_map_iff in H1. destruct H1 as [op [E H1]]. subst xs. apply in_map_iff in H2. destruct H2 as [lg [E H2]].
  exists lg. split; [exists op; auto | exact E].
Qed.

(* what "compatible and usable" means for one log *)
Definition temporal_ok (t : Z) (lg : log) : Prop :=
  match l_interval lg with None => True | Some (s, e) => inside t (Some s, Some e) end.
Definition root_ok (root : N) (roots : logroots) (lg : log) : Prop :=
  match roots (l_id lg) with None => True | Some rs => In root rs end.

Lemma temporally_compatible_spec t ll lg : in_list (temporally_compatible t ll) lg -> in_list ll lg /\ temporal_ok t lg.
Proof.
  unfold temporally_compatible. intros H. apply filter_logs_sub in H. destruct H as [H1 H2]. split; [exact H1|].
  unfold temporal_ok. destruct (l_interval lg) as [[s e]|]; [|exact I]. apply loglist_inside_iff. exact H2.
Qed.

Lemma root_compatible_spec r ca roots ll lg : in_list (root_compatible r ca roots ll) lg ->
  in_list ll lg /\ ca = true /\ root_ok r roots lg.
Proof.
  unfold root_compatible. destruct ca; simpl; [|intros [op [[] _]]].
  intros H. apply filter_logs_sub in H. destruct H as [H1 H2]. split; [exact H1|]. split; [reflexivity|].
  unfold root_ok. destruct (roots (l_id lg)); [apply memN_In; exact H2 | exact I].
Qed.

Lemma select_usable_spec ll lg : in_list (select_by_status [StUsable] ll) lg -> in_list ll lg /\ l_status lg = StUsable.
Proof.
  unfold select_by_status. intros H. apply filter_logs_sub in H. destruct H as [H1 H2]. split; [exact H1|].
  simpl in H2. rewrite orb_false_r in H2. destruct (l_status lg); simpl in H2; try discriminate. reflexivity.
Qed.

(* the policy submission of the Distributor only sees usable, temporally compatible and -
   when the chain verified against the known roots - root-compatible logs *)
Lemma distributor_compatible_spec dis full v t roots ll cl lg :
  distributor_compatible dis full v t roots (select_by_status [StUsable] ll) = Some cl ->
  in_list cl lg ->
  in_list ll lg /\ l_status lg = StUsable /\ temporal_ok t lg /\
  (dis = false -> forall r ca, v = Rooted r ca -> ca = true /\ root_ok r roots lg).
Proof.
  unfold distributor_compatible, compatible. intros H Hin. destruct dis.
  - inversion H; subst. apply temporally_compatible_spec in Hin. destruct Hin as [H1 H2].
    apply select_usable_spec in H1. destruct H1 as [H1 H3].
    split; [exact H1|]. split; [exact H3|]. split; [exact H2|]. intros X. discriminate.
  - destruct v as [r ca|].
    + inversion H; subst. apply root_compatible_spec in Hin. destruct Hin as [H1 [H2 H3]].
      apply temporally_compatible_spec in H1. destruct H1 as [H1 H4].
      apply select_usable_spec in H1. destruct H1 as [H1 H5].
      split; [exact H1|]. split; [exact H5|]. split; [exact H4|]. intros _ r' ca' E. inversion E; subst. auto.
    + destruct full; [discriminate|]. inversion H; subst.
      apply temporally_compatible_spec in Hin. destruct Hin as [H1 H2].
      apply select_usable_spec in H1. destruct H1 as [H1 H3].
      split; [exact H1|]. split; [exact H3|]. split; [exact H2|]. intros _ r' ca' E. discriminate.
Qed.

(* ---- groups ---- *)
Lemma populate_in inc ll id : In id (populate inc ll) -> In id (ids ll) /\ exists lg, in_list (filter inc ll) lg /\ l_id lg = id.
Proof.
  unfold populate. rewrite In_nodupN. intros H. split.
  - unfold ids in *. apply in_concat in H. destruct H as [xs [H1 H2]]. apply in_map_iff in H1.
    destruct H1 as [op [E H1]]. apply filter_In in H1. destruct H1 as [H1 _].
    apply in_concat. exists xs. split; [|exact H2]. apply in_map_iff. exists op. auto.
  - apply ids_in_list. exact H.
Qed.

Lemma populate_all ll id : In id (populate (fun _ => true) ll) <-> In id (ids ll).
Proof.
  unfold populate. rewrite In_nodupN.
  assert (E : filter (fun _ : operator => true) ll = ll) by (induction ll; simpl; congruence). rewrite E. tauto.
Qed.

Definition sess_ok (sess : N -> list N -> list N) : Prop :=
  forall g logs, NoDup (sess g logs) /\ incl (sess g logs) logs.

Lemma set_min_ok_spec i logs : set_min_ok i logs = true -> 0 <= i <= Z.of_nat (length logs).
Proof.
  unfold set_min_ok, min_negative, min_exceeds. intros H. apply andb_true_iff in H. destruct H as [H1 H2].
  apply negb_true_iff in H1. apply negb_true_iff in H2. apply Z.ltb_ge in H1. rewrite Z.gtb_ltb in H2. apply Z.ltb_ge in H2. lia.
Qed.

Lemma chrome_groups_shape months ll sess c : chrome_groups months ll sess = Some c ->
  c = [mkGroup google_name (populate op_google ll) 1 false (sess google_name (populate op_google ll));
       mkGroup nongoogle_name (populate (fun op => negb (op_google op)) ll) 1 false (sess nongoogle_name (populate (fun op => negb (op_google op)) ll));
       mkGroup base_name (populate (fun _ => true) ll) (chrome_inc_count months) true (sess base_name (populate (fun _ => true) ll))] /\
  1 <= Z.of_nat (length (populate op_google ll)) /\
  1 <= Z.of_nat (length (populate (fun op => negb (op_google op)) ll)) /\
  chrome_inc_count months <= Z.of_nat (length (populate (fun _ => true) ll)).
Proof.
  unfold chrome_groups. intros H.
  destruct (set_min_ok 1 (populate op_google ll)) eqn:E1; simpl in H; [|discriminate].
  destruct (set_min_ok 1 (populate (fun op => negb (op_google op)) ll)) eqn:E2; simpl in H; [|discriminate].
  destruct (set_min_ok (chrome_inc_count months) (populate (fun _ => true) ll)) eqn:E3; simpl in H; [|discriminate].
  inversion H; subst. apply set_min_ok_spec in E1. apply set_min_ok_spec in E2. apply set_min_ok_spec in E3.
  repeat split; lia.
Qed.

Lemma apple_groups_shape months ll sess c : apple_groups months ll sess = Some c ->
  c = [mkGroup base_name (populate (fun _ => true) ll) (apple_inc_count months) true (sess base_name (populate (fun _ => true) ll))] /\
  apple_inc_count months <= Z.of_nat (length (populate (fun _ => true) ll)).
Proof.
  unfold apple_groups. intros H.
  destruct (set_min_ok (apple_inc_count months) (populate (fun _ => true) ll)) eqn:E3; simpl in H; [|discriminate].
  inversion H; subst. apply set_min_ok_spec in E3. split; [reflexivity | lia].
Qed.

Lemma chrome_wf months ll sess c : sess_ok sess -> chrome_groups months ll sess = Some c -> wf c.
Proof.
  intros Hs H. destruct (chrome_groups_shape _ _ _ _ H) as [-> _]. split.
  - simpl. repeat constructor; simpl; intuition discriminate.
  - intros gr [<-|[<-|[<-|[]]]]; simpl; (split; [apply NoDup_nodupN | apply Hs]).
Qed.

Lemma apple_wf months ll sess c : sess_ok sess -> apple_groups months ll sess = Some c -> wf c.
Proof.
  intros Hs H. destruct (apple_groups_shape _ _ _ _ H) as [-> _]. split.
  - simpl. repeat constructor; simpl; intuition.
  - intros gr [<-|[]]; simpl; (split; [apply NoDup_nodupN | apply Hs]).
Qed.

Lemma NoDup_app_r {A} (xs ys : list A) : NoDup (xs ++ ys) -> NoDup ys.
Proof. induction xs as [|a xs IH]; simpl; intros H; [exact H|]. inversion H; subst. auto. Qed.

(* a log id listed once cannot sit under a Google and a non-Google operator *)
Lemma ids_nodup_op ll : NoDup (ids ll) -> forall op1 op2 lg1 lg2, In op1 ll -> In op2 ll ->
  In lg1 (op_logs op1) -> In lg2 (op_logs op2) -> l_id lg1 = l_id lg2 -> op_google op1 = op_google op2.
Proof.
  unfold ids. induction ll as [|op ll IH]; simpl; [tauto|].
  intros Hnd op1 op2 lg1 lg2 H1 H2 L1 L2 E.
  pose proof (NoDup_app_r _ _ Hnd) as Hnd2.
  assert (Hsep : forall x, In x (map l_id (op_logs op)) -> ~ In x (concat (map (fun op => map l_id (op_logs op)) ll))).
  { intros x Hx Hy. clear - Hnd Hx Hy. induction (map l_id (op_logs op)) as [|a xs IHx]; simpl in *; [tauto|].
    inversion Hnd; subst. destruct Hx as [->|Hx]; [apply H1; apply in_or_app; right; exact Hy | apply IHx; auto]. }
  assert (Hin : forall o lg, In o ll -> In lg (op_logs o) -> In (l_id lg) (concat (map (fun op => map l_id (op_logs op)) ll))).
  { intros o lg Ho Hl. apply in_concat. exists (map l_id (op_logs o)). split; [apply in_map_iff; exists o; auto | apply in_map; exact Hl]. }
  destruct H1 as [<-|H1], H2 as [<-|H2].
  - reflexivity.
  - exfalso. apply (Hsep (l_id lg1)); [apply in_map; exact L1 | rewrite E; apply (Hin op2 lg2); assumption].
  - exfalso. apply (Hsep (l_id lg2)); [apply in_map; exact L2 | rewrite <- E; apply (Hin op1 lg1); assumption].
  - apply (IH Hnd2 op1 op2 lg1 lg2); assumption.
Qed.

Lemma chrome_good months ll sess c : NoDup (ids ll) -> chrome_groups months ll sess = Some c -> good_cfg c.
Proof.
  intros Hnd H. destruct (chrome_groups_shape _ _ _ _ H) as [-> _]. split.
  - intros gr1 gr2 l [<-|[<-|[<-|[]]]] [<-|[<-|[<-|[]]]] B1 B2 L1 L2; simpl in *; try reflexivity; try congruence; exfalso.
    + apply populate_in in L1. apply populate_in in L2. destruct L1 as [_ [lg1 [[op1 [O1 M1]] E1]]]. destruct L2 as [_ [lg2 [[op2 [O2 M2]] E2]]].
      apply filter_In in O1. apply filter_In in O2. destruct O1 as [O1 G1]. destruct O2 as [O2 G2].
      pose proof (ids_nodup_op ll Hnd op1 op2 lg1 lg2 O1 O2 M1 M2) as X. rewrite E1, E2 in X. specialize (X eq_refl).
      rewrite G1 in X. rewrite <- X in G2. discriminate.
    + apply populate_in in L1. apply populate_in in L2. destruct L1 as [_ [lg1 [[op1 [O1 M1]] E1]]]. destruct L2 as [_ [lg2 [[op2 [O2 M2]] E2]]].
      apply filter_In in O1. apply filter_In in O2. destruct O1 as [O1 G1]. destruct O2 as [O2 G2].
      pose proof (ids_nodup_op ll Hnd op1 op2 lg1 lg2 O1 O2 M1 M2) as X. rewrite E1, E2 in X. specialize (X eq_refl).
      rewrite G2 in X. rewrite X in G1. discriminate.
  - intros grb gr [<-|[<-|[<-|[]]]] Hb [<-|[<-|[<-|[]]]]; simpl in *; try discriminate;
      intros l Hl; apply populate_all; apply populate_in in Hl; tauto.
Qed.

Lemma apple_good months ll sess c : apple_groups months ll sess = Some c -> good_cfg c.
Proof.
  intros H. destruct (apple_groups_shape _ _ _ _ H) as [-> _]. split.
  - intros gr1 gr2 l [<-|[]] [<-|[]] B1; simpl in *. congruence.
  - intros grb gr [<-|[]] _ [<-|[]]. simpl. intros l Hl. exact Hl.
Qed.

(* every log of every group comes from the list the groups were computed over *)
Lemma chrome_logs_sub months ll sess c gr l : chrome_groups months ll sess = Some c -> In gr c -> In l (g_logs gr) -> In l (ids ll).
Proof.
  intros H Hin Hl. destruct (chrome_groups_shape _ _ _ _ H) as [-> _].
  destruct Hin as [<-|[<-|[<-|[]]]]; simpl in Hl; apply populate_in in Hl; tauto.
Qed.

Lemma apple_logs_sub months ll sess c gr l : apple_groups months ll sess = Some c -> In gr c -> In l (g_logs gr) -> In l (ids ll).
Proof.
  intros H Hin Hl. destruct (apple_groups_shape _ _ _ _ H) as [-> _].
  destruct Hin as [<-|[]]; simpl in Hl; apply populate_in in Hl; tauto.
Qed.
