(* Correspondence cases for C19.
   CHist: one observed history against the real witness (real SQLite, real ECDSA), already
          linearised by the harness when it was run concurrently.  The oracles of the model
          are instantiated from tables carried by the case:
            logs    the configured logs and the 32 bytes their id strings decode to
            raws    per distinct raw input: what encoding/json decoded it to, and for every
                    configured log the verdict of VerifySTHSignature on the decoded STH
            hashes  the SHA-256 evaluations the model's verifier needs
   CEpochs: one observed life of a DATABASE: epochs, each a Witness value created by witness.New
          over the table the previous one left (restart, or re-opened file), each with its own
          set of configured logs; the other tables (raws, hashes) are shared.
   CVerify: transparency-dev/merkle proof.VerifyConsistency against [verify_consistency].
   CTree:   the library's tree (roots, consistency proofs, audit paths) against [mth],
            [cproof], [path] of Merkle.v. *)
From Coq Require Import NArith List Bool.
From Coq.Strings Require Import Byte.
From V Require Import Base.Bytes Base.CaseLib Merkle.Merkle Witness.WitnessModel.
Import ListNotations.
Local Open Scope N_scope.

Definition htable := list (bytes * bytes).
Definition table_hash (t : htable) (x : bytes) : bytes :=
  match find (fun e => bytes_eqb (fst e) x) t with Some e => snd e | None => [] end.

Record env := {
  e_logs : list (logid * option bytes);
  e_raws : list (bytes * option (psth * list (logid * bool)));
  e_hashes : htable;
  e_strict : bool;
  e_cosign_held : bool
}.

(* THE switch between the code before and after fix commit 920ddd1 (32-byte proof nodes
   enforced): [true] since the fix is committed in /repo. *)
Definition code_is_strict : bool := true.
(* ... and for fix commit 89a3685 (refusals and no-ops answered with the held STH cosigned). *)
Definition code_cosigns_held : bool := true.

Definition env_idhash (e : env) (id : logid) : option (option bytes) :=
  match find (fun x => bytes_eqb (fst x) id) (e_logs e) with Some x => Some (snd x) | None => None end.

Definition env_decode (e : env) (raw : bytes) : option psth :=
  match find (fun x => bytes_eqb (fst x) raw) (e_raws e) with
  | Some (_, Some (p, _)) => Some p
  | _ => None
  end.

(* the log signature covers version, size, time, root (and is the sig field) - not log_id *)
Definition same_signed (a b : psth) : bool :=
  (p_version a =? p_version b) && (p_size a =? p_size b) && (p_time a =? p_time b)
  && bytes_eqb (p_root a) (p_root b) && bytes_eqb (p_sig a) (p_sig b).

Definition env_sig_ok (e : env) (id : logid) (p : psth) : bool :=
  existsb (fun x => match snd x with
                    | Some (q, vs) => same_signed p q &&
                        match find (fun v => bytes_eqb (fst v) id) vs with Some v => snd v | None => false end
                    | None => false
                    end) (e_raws e).

(* the witness signature itself is randomised and never compared: the case records whether
   the returned signature verified over the returned STH's TLS encoding *)
Definition id_sign (m : bytes) : bytes := m.

Inductive obody :=
| XNone
| XRaw (r : bytes)
| XCosigned (p : psth) (enc : bytes) (verified : bool).

Inductive obs :=
| XRsp (b : obody) (e : eclass)              (* direct call: status class of the error *)
| XHttp (status : N) (b : obody)             (* through the HTTP server: status code; body only for 200 / 409 *)
| XLogs (l : option (list logid))
| XPanic.

Inductive case :=
| CHist (e : env) (ops : list (op * obs))
| CEpochs (e : env) (eps : list (list (logid * option bytes) * list (op * obs)))
| CVerify (t : htable) (m n : N) (proof : list bytes) (r1 r2 : bytes) (lib_ok : bool)
| CTree (t : htable) (leaves : list bytes) (m : N) (i : N)
        (root_n root_m : bytes) (cons_proof : list bytes) (incl_path : list bytes).

Definition eclass_eqb (a b : eclass) : bool :=
  match a, b with EOk, EOk | ENotFound, ENotFound | EFailedPre, EFailedPre | EOther, EOther => true | _, _ => false end.

Definition body_matches (m : body) (o : obody) : bool :=
  match m, o with
  | BNone, XNone => true
  | BRaw a, XRaw b => bytes_eqb a b
  | BCosigned p _, XCosigned q enc ok => psth_eqb p q && bytes_eqb (sth_enc p) enc && ok
  | _, _ => false
  end.

Fixpoint subset (a b : list logid) : bool :=
  match a with [] => true | x :: t => existsb (bytes_eqb x) b && subset t b end.

Definition mk (v s t : N) (root sg lid : bytes) : psth :=
  {| p_version := v; p_size := s; p_time := t; p_root := root; p_sig := sg; p_logid := lid |}.

Definition is_update (o : op) : bool := match o with OUpdate _ _ _ _ => true | _ => false end.

Definition out_matches (oo : op * out) (o : obs) : bool :=
  match snd oo, o with
  | ORsp (b, e), XRsp ob oe => body_matches b ob && eclass_eqb e oe
  | ORsp (b, e), XHttp st ob =>
      (st =? (if is_update (fst oo) then http_status_update e else http_status_get e))
      && (if (st =? 200) || (st =? 409) then body_matches b ob else match ob with XNone => true | _ => false end)
  | OLogs None, XLogs None => true
  | OLogs (Some a), XLogs (Some b) => subset a b && subset b a && Nat.eqb (length a) (length b)
  | _, _ => false
  end.

Definition model_run (e : env) (ops : list op) : state * list out :=
  run (table_hash (e_hashes e)) 32 (e_strict e) (e_cosign_held e) (env_idhash e) (env_decode e) (env_sig_ok e) id_sign [] ops.

Definition with_logs (e : env) (ls : list (logid * option bytes)) : env :=
  {| e_logs := ls; e_raws := e_raws e; e_hashes := e_hashes e; e_strict := e_strict e; e_cosign_held := e_cosign_held e |}.

(* [e_logs e] is not looked at: every epoch brings its own configuration *)
Definition model_epochs (e : env) (eps : list (list (logid * option bytes) * list op)) : state * list (list out) :=
  run_epochs (table_hash (e_hashes e)) 32 (e_strict e) (e_cosign_held e) (env_decode e) (env_sig_ok e) id_sign []
    (map (fun ep => (env_idhash (with_logs e (fst ep)), snd ep)) eps).

Definition epoch_ops (eps : list (list (logid * option bytes) * list (op * obs))) :=
  map (fun ep => (fst ep, map fst (snd ep))) eps.

Fixpoint all2 {A B} (f : A -> B -> bool) (a : list A) (b : list B) : bool :=
  match a, b with
  | [], [] => true
  | x :: a', y :: b' => f x y && all2 f a' b'
  | _, _ => false
  end.

Definition check (c : case) : bool :=
  match c with
  | CHist e ops => all2 out_matches (combine (map fst ops) (snd (model_run e (map fst ops)))) (map snd ops)
  | CEpochs e eps =>
      all2 (fun ep outs => all2 out_matches (combine (map fst (snd ep)) outs) (map snd (snd ep)))
           eps (snd (model_epochs e (epoch_ops eps)))
  | CVerify t m n pf r1 r2 ok => Bool.eqb (verify_consistency (table_hash t) m n pf r1 r2) ok
  | CTree t leaves m i root_n root_m cp ip =>
      let H := table_hash t in
      bytes_eqb (mth H leaves) root_n
      && bytes_eqb (mth H (firstN m leaves)) root_m
      && list_eqb bytes_eqb (cproof H m leaves) cp
      && list_eqb bytes_eqb (path H i leaves) ip
  end.

(* what the model computes, for replay files: per operation the class and the kind of body *)
Inductive bkind := KNone | KRaw (r : bytes) | KCosigned (size : N) (root : bytes).
Definition explain_out (o : out) :=
  match o with
  | ORsp (b, cl) => (Some (match b with BNone => KNone | BRaw r => KRaw r
                                   | BCosigned p _ => KCosigned (p_size p) (p_root p) end, cl), None)
  | OLogs l => (None, Some l)
  end.
Definition explain (c : case) :=
  match c with
  | CHist e ops => (map explain_out (snd (model_run e (map fst ops))), None, None)
  | CEpochs e eps => (map explain_out (concat (snd (model_epochs e (epoch_ops eps)))), None, None)
  | CVerify t m n pf r1 r2 _ => ([], Some (verify_consistency (table_hash t) m n pf r1 r2), None)
  | CTree t leaves m i _ _ _ _ =>
      let H := table_hash t in ([], None, Some (mth H leaves, mth H (firstN m leaves), cproof H m leaves, path H i leaves))
  end.
