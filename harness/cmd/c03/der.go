// Hand-written DER and RFC 6962 helpers of the C03 harness: everything the direct oracles use as a
// reference is assembled here from the RFC texts, without the repository's asn1 / tls packages.
package main

import (
	"bytes"
	"encoding/binary"

	ct "github.com/google/certificate-transparency-go"
)

func derLen(n int) []byte {
	switch {
	case n < 0x80:
		return []byte{byte(n)}
	case n < 0x100:
		return []byte{0x81, byte(n)}
	case n < 0x10000:
		return []byte{0x82, byte(n >> 8), byte(n)}
	case n < 0x1000000:
		return []byte{0x83, byte(n >> 16), byte(n >> 8), byte(n)}
	}
	return []byte{0x84, byte(n >> 24), byte(n >> 16), byte(n >> 8), byte(n)}
}

func tlv(tag byte, content []byte) []byte {
	return append(append([]byte{tag}, derLen(len(content))...), content...)
}

// derOID encodes an OBJECT IDENTIFIER (X.690 8.19).
func derOID(arcs []int) []byte {
	var c []byte
	b128 := func(v int) {
		var t []byte
		t = append(t, byte(v&0x7f))
		for v >>= 7; v > 0; v >>= 7 {
			t = append(t, byte(v&0x7f)|0x80)
		}
		for i := len(t) - 1; i >= 0; i-- {
			c = append(c, t[i])
		}
	}
	b128(arcs[0]*40 + arcs[1])
	for _, a := range arcs[2:] {
		b128(a)
	}
	return tlv(0x06, c)
}

// readTLV takes one DER element apart (single identifier octet, definite length).
func readTLV(b []byte) (tag byte, content, rest []byte, ok bool) {
	if len(b) < 2 {
		return 0, nil, nil, false
	}
	n, i := int(b[1]), 2
	if n >= 0x80 {
		k := n & 0x7f
		if k == 0 || k > 4 || 2+k > len(b) {
			return 0, nil, nil, false
		}
		n = 0
		for j := 0; j < k; j++ {
			n = n<<8 | int(b[2+j])
		}
		i = 2 + k
	}
	if i+n > len(b) {
		return 0, nil, nil, false
	}
	return b[0], b[i : i+n], b[i+n:], true
}

// elemLen measures, in a TBSCertificate, the content length of one of the elements that the
// transformations re-encode: "tbs" (the TBSCertificate SEQUENCE), "wrap" (the [3] wrapper), "list"
// (the Extensions SEQUENCE), "ext" (the Extension SEQUENCE carrying oid) or "value" (its extnValue).
func elemLen(tbs []byte, elem string, oid []byte) (int, bool) {
	tag, body, rest, ok := readTLV(tbs)
	if !ok || tag != 0x30 || len(rest) != 0 {
		return 0, false
	}
	if elem == "tbs" {
		return len(body), true
	}
	var wrap []byte
	for len(body) > 0 {
		t, c, r, ok := readTLV(body)
		if !ok {
			return 0, false
		}
		if t == 0xa3 {
			wrap = c
		}
		body = r
	}
	if wrap == nil {
		return 0, false
	}
	if elem == "wrap" {
		return len(wrap), true
	}
	t, list, _, ok := readTLV(wrap)
	if !ok || t != 0x30 {
		return 0, false
	}
	if elem == "list" {
		return len(list), true
	}
	for len(list) > 0 {
		_, e, r, ok := readTLV(list)
		if !ok {
			return 0, false
		}
		list = r
		if !bytes.HasPrefix(e, oid) {
			continue
		}
		if elem == "ext" {
			return len(e), true
		}
		for f := e; len(f) > 0; {
			t, c, r2, ok := readTLV(f)
			if !ok {
				return 0, false
			}
			if t == 0x04 {
				return len(c), true
			}
			f = r2
		}
	}
	return 0, false
}

// handSCT is the RFC 6962 section 3.2 SignedCertificateTimestamp structure.
func handSCT(s *ct.SignedCertificateTimestamp) []byte {
	b := []byte{byte(s.SCTVersion)}
	b = append(b, s.LogID.KeyID[:]...)
	b = binary.BigEndian.AppendUint64(b, s.Timestamp)
	b = binary.BigEndian.AppendUint16(b, uint16(len(s.Extensions)))
	b = append(b, s.Extensions...)
	b = append(b, byte(s.Signature.Algorithm.Hash), byte(s.Signature.Algorithm.Signature))
	b = binary.BigEndian.AppendUint16(b, uint16(len(s.Signature.Signature)))
	return append(b, s.Signature.Signature...)
}

// handSCTListExt is the value of the embedded SCT list extension (RFC 6962 section 3.3): an OCTET
// STRING holding SignedCertificateTimestampList, opaque<1..2^16-1> elements in a <1..2^16-1> vector.
func handSCTListExt(scts []*ct.SignedCertificateTimestamp) []byte {
	var l []byte
	for _, s := range scts {
		e := handSCT(s)
		l = binary.BigEndian.AppendUint16(l, uint16(len(e)))
		l = append(l, e...)
	}
	return tlv(0x04, append(binary.BigEndian.AppendUint16(nil, uint16(len(l))), l...))
}

// handPrecertLeaf is the MerkleTreeLeaf of a precertificate entry (RFC 6962 section 3.4) without extensions.
func handPrecertLeaf(ts uint64, issuerKeyHash [32]byte, tbs []byte) []byte {
	b := []byte{0, 0}
	b = binary.BigEndian.AppendUint64(b, ts)
	b = append(b, 0, 1)
	b = append(b, issuerKeyHash[:]...)
	b = append(b, byte(len(tbs)>>16), byte(len(tbs)>>8), byte(len(tbs)))
	b = append(b, tbs...)
	return append(b, 0, 0)
}
