// C03 correspondence harness: precertificate / final-certificate pairs issued with the
// repository's own x509.CreateCertificate (random extension sets and positions, criticality,
// serial widths, validity on both sides of 2050, key types, with and without a dedicated
// pre-issuer and key identifiers), through BuildPrecertTBS / RemoveCTPoison / RemoveSCTList /
// MerkleTreeLeafFromChain / MerkleTreeLeafForEmbeddedSCT / ctutil.VerifySCT, and SCT lists
// through ASN1MarshalSCTs / certificate parsing / ParseSCTsFromSCTList.
//
// Six streams: random pairs (one with forcedEKU == nil), the class "names and authority key ids of the
// pre-issuer" (nameClasses: the pre-issuer's subject name is the very octets of its issuer's name / the same
// name in another string type / another name, crossed with replace / none / delete / append of the authority
// key id), the class "EKU lists of the
// pre-issuer" (ekuClasses), the class "length boundaries of the re-encoded elements"
// (boundaries), the class "criticality flags" (critClasses: the critical flag of one kind of extension,
// or of all, departs from the issuer's habit; half of the random pairs draw the flags of all their
// extensions as well) and the class "several SCTs of one log" (sctShapes: embedded lists with two or
// more SCTs of the log under test, byte-identical duplicates, same-log SCTs that do not verify; the random
// pairs widen their lists the same way); every embedded SCT and a few that are not embedded are asked
// for through ctutil.ContainsSCT / VerifySCT / VerifySCTWithVerifier / LeafHash / LeafHashB64.
// References of the direct oracles are independent of the code under test: the same
// certificate issued without the poison / SCT list (harness/pki re-assembles serial, validity and
// every length field by hand), hand-encoded SCT lists and Merkle tree leaves (der.go), issuer key
// hashes over the standard library's SubjectPublicKeyInfo; with a pre-issuer the TBSCertificate of the
// entry is re-assembled by hand from the octets of the precertificate and of the pre-issuer
// (handPreIssuerTBS in der.go), SCTs beyond the first are signed over the hand-encoded signature input
// with the standard library's ECDSA.
package main

import (
	"bytes"
	"crypto"
	"crypto/ecdsa"
	crand "crypto/rand"
	"crypto/sha256"
	stdx509 "crypto/x509"
	"encoding/base64"
	"flag"
	"fmt"
	"math/big"
	mrand "math/rand"
	"reflect"
	"sort"
	"strings"
	"time"

	ct "github.com/google/certificate-transparency-go"
	"github.com/google/certificate-transparency-go/asn1"
	"github.com/google/certificate-transparency-go/ctutil"
	"github.com/google/certificate-transparency-go/submission"
	"github.com/google/certificate-transparency-go/tls"
	"github.com/google/certificate-transparency-go/x509"
	"github.com/google/certificate-transparency-go/x509/pkix"
	"github.com/google/certificate-transparency-go/x509util"

	"verif/harness/lib"
	"verif/harness/pki"
	"verif/harness/tlsgen"
)

const header = `From Coq Require Import String NArith List. Import ListNotations.
From V Require Import Base.Bytes TLS.TlsModel X509.Der X509.PrecertModel X509.SctListModel X509.PrecertCase.
Local Open Scope N_scope.
`

func try(f func()) (p bool) {
	defer func() {
		if r := recover(); r != nil {
			p = true
		}
	}()
	f()
	return
}

func obsBytes(b []byte, err error, panicked bool) string {
	if panicked {
		return "Panic"
	}
	if err != nil {
		return "ErrStruct"
	}
	return "Ok " + lib.Bytes(b)
}

func randExt(r *mrand.Rand, k int) pkix.Extension {
	v := make([]byte, 1+r.Intn(20))
	r.Read(v)
	// unknown private-arc OIDs; values are opaque to the parser
	return pkix.Extension{Id: asn1.ObjectIdentifier{1, 3, 6, 1, 4, 1, 55555, 1, 10 + k}, Critical: false, Value: append([]byte{0x04, byte(len(v))}, v...)}
}

func insertAt(l []pkix.Extension, i int, e pkix.Extension) []pkix.Extension {
	out := append([]pkix.Extension{}, l[:i]...)
	out = append(out, e)
	return append(out, l[i:]...)
}

// preissuerCoq renders what BuildPrecertTBS reads of the pre-issuer; ctEKU is what the harness put
// into the certificate (not what the repository's parser made of it).
func preissuerCoq(pi *x509.Certificate, ctEKU bool) string {
	// RawIssuer as a TLV: tag byte + content
	var rv asn1.RawValue
	if _, err := asn1.Unmarshal(pi.RawIssuer, &rv); err != nil {
		panic(err)
	}
	aki := "None"
	for _, e := range pi.Extensions {
		if e.Id.Equal(x509.OIDExtensionAuthorityKeyId) {
			aki = lib.Some(lib.Bytes(e.Value))
			break
		}
	}
	return fmt.Sprintf("(Some {| pi_issuer := (n2b %d, %s); pi_aki := %s; pi_ct_eku := %s |})", pi.RawIssuer[0], lib.Bytes(rv.Bytes), aki, lib.Bool(ctEKU))
}

var keyKinds = []string{"p256", "p256", "p384", "rsa2048", "ed25519"}

type env struct {
	r      *mrand.Rand
	w      *lib.Writer
	logKey crypto.Signer
	logPub crypto.PublicKey
	missed int // boundary targets that no filler size reaches
	// rx draws what the later classes added to the random pairs (critical flags, wider SCT lists): a
	// generator of its own, so that the other draws of a pair of a given seed stay what they were
	rx *mrand.Rand
	sv *ct.SignatureVerifier
}

func main() {
	flag.Parse()
	e := &env{r: lib.Rand(), w: lib.NewWriter(header, 90), logKey: pki.Key("p256", 9)}
	defer e.w.Guard()
	e.logPub = e.logKey.Public()
	e.rx = mrand.New(mrand.NewSource(lib.Seed()*104729 + 11))
	sv, err := ct.NewSignatureVerifier(e.logPub)
	if err != nil {
		panic(err)
	}
	e.sv = sv
	n := lib.Count(120, 2500)
	// The two focused classes come first (so that the first failing case of a run is one of their
	// sharply described inputs when a defect concerns them) and draw from a generator of their own,
	// derived from the seed, which leaves the random pairs of a seed what they are.
	r := e.r
	e.r = mrand.New(mrand.NewSource(lib.Seed()*7919 + 3))
	i := n
	// class "criticality flags": each target twice in a row, once per issuer (the parity of i)
	for rep := lib.Count(1, 4); rep > 0; rep-- {
		for _, c := range critClasses() {
			for k := 0; k < 2; k++ {
				c := c
				e.guarded(i, func() { e.one(i, nil, &c) })
				i++
			}
		}
	}
	// class "several SCTs of one log"
	for rep := lib.Count(1, 4); rep > 0; rep-- {
		for _, sh := range sctShapes() {
			for k := 0; k < 2; k++ {
				sp := pairSpec{shape: sh}
				e.guarded(i, func() { e.one(i, nil, &sp) })
				i++
			}
		}
	}
	// class "length boundaries of the re-encoded elements"
	for _, b := range boundaries() {
		e.guarded(i, func() { e.boundary(i, b) })
		i++
	}
	// class "EKU lists of the pre-issuer": every list, with otherwise random certificate content
	for rep := lib.Count(1, 6); rep > 0; rep-- {
		for _, l := range ekuClasses() {
			e.guarded(i, func() { e.one(i, l, nil) })
			i++
		}
	}
	// class "names and authority key ids of the pre-issuer" (after the older classes, whose draws stay what they were)
	for rep := lib.Count(1, 4); rep > 0; rep-- {
		for _, c := range nameClasses() {
			for k := 0; k < 2; k++ {
				c := c
				e.guarded(i, func() { e.one(i, nil, &c) })
				i++
			}
		}
	}
	e.r = r
	for i = 0; i < n; i++ {
		e.guarded(i, func() { e.one(i, nil, nil) })
	}
	e.w.Close()
	fmt.Printf("c03: wrote %d cases (%d boundary targets unreachable)\n", e.w.Len(), e.missed)
}

// guarded runs one pair; a panic of the harness inside it (an issuing or signing step that "cannot
// fail" failing on a changed tree) becomes a recorded failing case and the run goes on with the next pair.
func (e *env) guarded(i int, f func()) {
	defer func() {
		if p := recover(); p != nil {
			e.w.Add(lib.Case{Key: fmt.Sprintf("abort-%d", i), Input: map[string]interface{}{"op": "pair-aborted", "pair": i, "issuer": issuerName(i%2 == 1)},
				Impl:   map[string]interface{}{"panic": fmt.Sprint(p)},
				PropOK: false, Note: "pair aborted: a step that succeeds on every tree where the property holds failed: " + fmt.Sprint(p), Tags: []string{"pair-aborted"}})
		}
	}()
	f()
}

func issuerName(std bool) string {
	if std {
		return "crypto/x509"
	}
	return "fork"
}

// ---- the class "EKU lists of the pre-issuer" ----

var ekuOIDs = map[string][]int{
	"ct":              {1, 3, 6, 1, 4, 1, 11129, 2, 4, 4},
	"serverAuth":      {1, 3, 6, 1, 5, 5, 7, 3, 1},
	"clientAuth":      {1, 3, 6, 1, 5, 5, 7, 3, 2},
	"codeSigning":     {1, 3, 6, 1, 5, 5, 7, 3, 3},
	"emailProtection": {1, 3, 6, 1, 5, 5, 7, 3, 4},
	"ocspSigning":     {1, 3, 6, 1, 5, 5, 7, 3, 9},
	"any":             {2, 5, 29, 37, 0},
	"unknown":         {1, 3, 6, 1, 4, 1, 55555, 7, 1},    // not a usage the x509 package knows
	"nearCT":          {1, 3, 6, 1, 4, 1, 11129, 2, 4, 5}, // the CT arc, last component off by one
}

var ekuKnown = map[string]x509.ExtKeyUsage{
	"ct": x509.ExtKeyUsageCertificateTransparency, "serverAuth": x509.ExtKeyUsageServerAuth, "clientAuth": x509.ExtKeyUsageClientAuth,
	"codeSigning": x509.ExtKeyUsageCodeSigning, "emailProtection": x509.ExtKeyUsageEmailProtection, "ocspSigning": x509.ExtKeyUsageOCSPSigning,
	"any": x509.ExtKeyUsageAny,
}

// ekuClasses lists the extended key usage lists a certificate in the pre-issuer position can carry:
// CT alone, CT with one or two other recognised usages in every order, CT with a usage the library
// does not know, and lists without CT (an ordinary intermediate, which is then the direct issuer).
func ekuClasses() [][]string {
	out := [][]string{{"ct"}}
	for _, o := range []string{"serverAuth", "clientAuth", "any", "codeSigning", "ocspSigning"} {
		out = append(out, []string{"ct", o}, []string{o, "ct"})
	}
	for _, p := range [][2]string{{"serverAuth", "clientAuth"}, {"any", "emailProtection"}} {
		a, b := p[0], p[1]
		out = append(out, []string{"ct", a, b}, []string{"ct", b, a}, []string{a, "ct", b}, []string{b, "ct", a}, []string{a, b, "ct"}, []string{b, a, "ct"})
	}
	out = append(out, []string{"ct", "unknown"}, []string{"unknown", "ct"}, []string{"unknown", "ct", "serverAuth"}, []string{"serverAuth", "unknown", "ct"})
	out = append(out, []string{}, []string{"serverAuth"}, []string{"serverAuth", "clientAuth"}, []string{"unknown"}, []string{"nearCT"}, []string{"any"})
	return out
}

// ekuOpts puts the list into the certificate options: through the template when the library can
// express it (half of the time), otherwise as a hand-encoded extKeyUsage extension.
func ekuOpts(r *mrand.Rand, names []string, o *pki.Opts) (hasCT bool) {
	expressible := true
	var content []byte
	var known []x509.ExtKeyUsage
	for _, n := range names {
		if n == "ct" {
			hasCT = true
		}
		if u, ok := ekuKnown[n]; ok {
			known = append(known, u)
		} else {
			expressible = false
		}
		content = append(content, derOID(ekuOIDs[n])...)
	}
	if len(names) == 0 {
		return false
	}
	if expressible && r.Intn(2) == 0 {
		o.EKUs = known
		return
	}
	o.ExtraExt = append(o.ExtraExt, pkix.Extension{Id: x509.OIDExtensionExtendedKeyUsage, Value: tlv(0x30, content)})
	return
}

// ---- the classes "criticality flags" and "several SCTs of one log" ----

// pairSpec fixes, for a pair of one of the two classes, what the random pairs draw.
type pairSpec struct {
	crit  string   // which extension's critical flag departs from the issuer's habit (critKinds, "all", "sct")
	pre   bool     // with a dedicated pre-issuer
	shape []string // the embedded SCT list (see sctShapes)
	// class "names and authority key ids of the pre-issuer" (nameClasses)
	name string // subject name of the pre-issuer: "same" octets as its issuer's name, "recoded", "different"
	aki  string // what the pre-issuer route has to do with the authority key id: "replace", "none", "delete", "append"
}

// nameClasses: the issuer name and the authority key identifier are the two things the pre-issuer route
// replaces; the class draws them independently of each other.  The subject name of the precertificate signing
// certificate is, octet for octet, the subject name of the CA that certified it (RFC 6962 does not forbid it:
// only keys and key identifiers differ, and the issuer field of the precertificate is then already the issuer
// field of the final certificate), the same name with its PrintableStrings written as UTF8Strings, or another
// name; crossed with: the precertificate's authority key id is the pre-issuer's subject key id and the
// pre-issuer has one of its own ("replace"), neither has one ("none"), only the precertificate has one
// ("delete"), only the pre-issuer has one ("append").  Place of the poison and of the SCT list among the
// other extensions, serial, validity, keys and the embedded list are drawn as for the random pairs.
func nameClasses() []pairSpec {
	var out []pairSpec
	for _, n := range []string{"same", "recoded", "different"} {
		for _, a := range []string{"replace", "none", "delete", "append"} {
			out = append(out, pairSpec{name: n, aki: a, pre: true})
		}
	}
	return out
}

// critKinds: the extensions a certificate of the harness can carry besides poison and SCT list, with
// the critical flag both issuers give them by themselves.
var critKinds = []struct {
	name  string
	oids  []string
	habit bool
}{
	{"aki", []string{"2.5.29.35"}, false},
	{"ku", []string{"2.5.29.15"}, true},
	{"eku", []string{"2.5.29.37"}, false},
	{"bc", []string{"2.5.29.19"}, true},
	{"ski", []string{"2.5.29.14"}, false},
	{"san", []string{"2.5.29.17"}, false},
	{"other", []string{"1.3.6.1.4.1.55555.1.10", "1.3.6.1.4.1.55555.1.11", "1.3.6.1.4.1.55555.1.12", "1.3.6.1.4.1.55555.1.13"}, false},
}

func critClasses() []pairSpec {
	var out []pairSpec
	for _, pre := range []bool{true, false} {
		for _, k := range critKinds {
			out = append(out, pairSpec{crit: k.name, pre: pre})
		}
		out = append(out, pairSpec{crit: "all", pre: pre}, pairSpec{crit: "sct", pre: pre})
	}
	return out
}

// critFlip: the flags of the class pair; every extension keeps the issuer's habit except the target.
func critFlip(target string) map[string]bool {
	m := map[string]bool{}
	for _, k := range critKinds {
		if k.name == target || target == "all" {
			for _, o := range k.oids {
				m[o] = !k.habit
			}
		}
	}
	return m
}

// critDraw: for every kind of extension, the habit, critical or not critical.
func critDraw(r *mrand.Rand) map[string]bool {
	m := map[string]bool{}
	for _, k := range critKinds {
		for _, o := range k.oids {
			switch r.Intn(3) {
			case 0:
				m[o] = true
			case 1:
				m[o] = false
			}
		}
	}
	return m
}

func critDesc(m map[string]bool) string {
	if m == nil {
		return "issuer's habit"
	}
	var l []string
	for o, c := range m {
		l = append(l, fmt.Sprintf("%s=%v", o, c))
	}
	sort.Strings(l)
	return "explicit list; " + strings.Join(l, " ")
}

func without(m map[string]bool, oid string) map[string]bool {
	if m == nil {
		return nil
	}
	out := map[string]bool{}
	for o, c := range m {
		if o != oid {
			out[o] = c
		}
	}
	return out
}

// sctShapes: embedded lists around "log", the SCT the log under test issued for the submitted chain.
// "A": another SCT of the same log for the same precertificate, later timestamp; "A=": the same, with
// the timestamp of "log" (another signature); "dup": a byte-identical copy of the element before it;
// "Abad": an SCT with the log's id whose signature does not verify; "B": an SCT of another log.
func sctShapes() [][]string {
	return [][]string{
		{"log", "A"}, {"A", "log"}, {"log", "dup"}, {"log", "A="}, {"log", "B", "A"}, {"log", "A", "A"},
		{"B", "log", "dup", "A"}, {"Abad", "log"}, {"log", "Abad", "A"}, {"A", "B", "log", "B", "A"}, {"A", "dup", "log", "A="},
	}
}

// sctEntry is one element of an embedded list: valid says that the log under test signed it over the
// precertificate entry with its timestamp.
type sctEntry struct {
	sct   *ct.SignedCertificateTimestamp
	kind  string
	valid bool
}

// signHand lets the log under test issue one more SCT for the precertificate entry (tbs, issuer key
// hash) at ts: RFC 6962 signature input encoded by hand, ECDSA of the standard library.
func (e *env) signHand(ts uint64, ikh [32]byte, tbs []byte) *ct.SignedCertificateTimestamp {
	h := sha256.Sum256(handSCTSigInput(ts, ikh, tbs, nil))
	sig, err := ecdsa.SignASN1(crand.Reader, e.logKey.(*ecdsa.PrivateKey), h[:])
	if err != nil {
		panic(err)
	}
	s := &ct.SignedCertificateTimestamp{SCTVersion: ct.V1, Timestamp: ts, Signature: ct.DigitallySigned{
		Algorithm: tls.SignatureAndHashAlgorithm{Hash: tls.SHA256, Signature: tls.ECDSA}, Signature: sig}}
	s.LogID.KeyID = sha256.Sum256(mustStdSPKI(e.logPub))
	return s
}

func copySCT(s *ct.SignedCertificateTimestamp) *ct.SignedCertificateTimestamp {
	c := *s
	c.Extensions = append(ct.CTExtensions(nil), s.Extensions...)
	c.Signature.Signature = append([]byte(nil), s.Signature.Signature...)
	return &c
}

// makeEntry builds one element of a list by kind; prev is the element before it (for "dup").
func (e *env) makeEntry(r *mrand.Rand, kind string, logSCT *ct.SignedCertificateTimestamp, prev *sctEntry, ikh [32]byte, tbs []byte) sctEntry {
	switch kind {
	case "log":
		return sctEntry{logSCT, kind, true}
	case "A":
		return sctEntry{e.signHand(logSCT.Timestamp+1+uint64(r.Int63n(100000)), ikh, tbs), kind, true}
	case "A=":
		return sctEntry{e.signHand(logSCT.Timestamp, ikh, tbs), kind, true}
	case "Abad":
		b := fakeSCT(r)
		b.LogID, b.Extensions = logSCT.LogID, nil
		if r.Intn(2) == 0 {
			b.Timestamp = logSCT.Timestamp // differs from the log's SCT in the signature only
		}
		return sctEntry{b, kind, false}
	case "dup":
		if prev == nil {
			panic("harness: dup without an element before it")
		}
		return sctEntry{copySCT(prev.sct), kind, prev.valid}
	}
	return sctEntry{fakeSCT(r), "B", false}
}

func entrySCTs(l []sctEntry) (out []*ct.SignedCertificateTimestamp) {
	for _, x := range l {
		out = append(out, x.sct)
	}
	return
}

func entryKinds(l []sctEntry) (out []string) {
	for _, x := range l {
		out = append(out, x.kind)
	}
	return
}

// widen adds, to the list a random pair drew (the log's SCT among SCTs of other logs), further SCTs
// of the log under test and byte-identical duplicates at random positions.
func (e *env) widen(list []sctEntry, logSCT *ct.SignedCertificateTimestamp, ikh [32]byte, tbs []byte) []sctEntry {
	r := e.rx
	ins := func(at int, x sctEntry) {
		list = append(list, sctEntry{})
		copy(list[at+1:], list[at:])
		list[at] = x
	}
	for n := []int{0, 0, 1, 1, 2, 3}[r.Intn(6)]; n > 0; n-- {
		ins(r.Intn(len(list)+1), e.makeEntry(r, []string{"A", "A", "A=", "Abad"}[r.Intn(4)], logSCT, nil, ikh, tbs))
	}
	if r.Intn(4) == 0 {
		src := list[r.Intn(len(list))]
		ins(r.Intn(len(list)+1), sctEntry{copySCT(src.sct), "dup", src.valid})
	}
	return list
}

// listQueries asks for every element of the embedded list, and for two SCTs that are not embedded (a
// further genuine SCT of the log; an embedded one with its timestamp moved), through the entry points of
// ctutil.  Direct oracle: ContainsSCT says true exactly for the SCTs whose RFC 6962 serialization (by hand)
// is an element of the list; with embedded=true VerifySCT / VerifySCTWithVerifier accept exactly the embedded
// SCTs that the log signed over this precertificate entry, LeafHash / LeafHashB64 give, for an embedded SCT,
// the hash of the hand-encoded entry (reference TBSCertificate, issuer key hash over the standard library's
// SubjectPublicKeyInfo, the SCT's timestamp) and fail for one that is not embedded; the precertificate
// route (embedded=false on the submitted chain) gives the same hash and accepts exactly the genuine SCTs.
func (e *env) listQueries(i int, chain, fchain []*x509.Certificate, list []sctEntry, wantTBS []byte, ikh [32]byte, fmut string, usePre bool, input map[string]interface{}) {
	r := e.rx
	type query struct {
		sctEntry
		what string
	}
	var qs []query
	for k, x := range list {
		qs = append(qs, query{x, fmt.Sprintf("element %d of the embedded list (%s)", k, x.kind)})
	}
	var logSCT *ct.SignedCertificateTimestamp
	for _, x := range list {
		if x.valid {
			logSCT = x.sct
		}
	}
	if logSCT != nil {
		qs = append(qs, query{sctEntry{e.signHand(logSCT.Timestamp+200000+uint64(r.Int63n(100000)), ikh, wantTBS), "A-not-embedded", true}, "a genuine SCT of the log that is not embedded"})
	}
	moved := copySCT(list[r.Intn(len(list))].sct)
	moved.Timestamp += 300000
	qs = append(qs, query{sctEntry{moved, "moved-timestamp", false}, "an embedded SCT with its timestamp moved"})

	ser := make([][]byte, len(list))
	for k, x := range list {
		ser[k] = handSCT(x.sct)
	}
	sameLog, dups := 0, 0
	for k, x := range list {
		if x.sct.LogID.KeyID == sha256.Sum256(mustStdSPKI(e.logPub)) {
			sameLog++
		}
		for j := 0; j < k; j++ {
			if bytes.Equal(ser[j], ser[k]) {
				dups++
				break
			}
		}
	}
	changed := fmut == "other-ext-changed" || fmut == "others-reordered"
	propOK, note := true, ""
	fail := func(q query, format string, a ...interface{}) {
		if propOK {
			propOK, note = false, "asked for "+q.what+" of "+fmt.Sprint(entryKinds(list))+": "+fmt.Sprintf(format, a...)
		}
	}
	var contains, everifies, pverifies, hashOK []bool
	for _, q := range qs {
		q := q
		member := false
		for _, s := range ser {
			member = member || bytes.Equal(s, handSCT(q.sct))
		}
		ref := sha256.Sum256(append([]byte{0}, handPrecertLeaf(q.sct.Timestamp, ikh, wantTBS)...))
		var (
			has                    bool
			cerr, verr, werr, herr error
			perr, pherr, berr      error
			h, ph                  [sha256.Size]byte
			b64                    string
		)
		if try(func() {
			has, cerr = ctutil.ContainsSCT(fchain[0], q.sct)
			verr = ctutil.VerifySCT(e.logPub, fchain, q.sct, true)
			werr = ctutil.VerifySCTWithVerifier(e.sv, fchain, q.sct, true)
			h, herr = ctutil.LeafHash(fchain, q.sct, true)
			b64, berr = ctutil.LeafHashB64(fchain, q.sct, true)
			perr = ctutil.VerifySCT(e.logPub, chain, q.sct, false)
			ph, pherr = ctutil.LeafHash(chain, q.sct, false)
		}) {
			fail(q, "an entry point of ctutil panics")
			continue
		}
		contains, everifies, pverifies = append(contains, has), append(everifies, verr == nil), append(pverifies, perr == nil)
		hashOK = append(hashOK, herr == nil && h == ref)
		switch {
		case cerr != nil || has != member:
			fail(q, "ContainsSCT = %v (error: %v), the list holds it: %v", has, cerr != nil, member)
		case (verr == nil) != (member && q.valid && !changed):
			fail(q, "VerifySCT(embedded) accepts: %v; embedded: %v, signed by the log over this precertificate: %v, final certificate corresponds: %v", verr == nil, member, q.valid, !changed)
		case (werr == nil) != (verr == nil):
			fail(q, "VerifySCTWithVerifier(embedded) accepts: %v, VerifySCT: %v", werr == nil, verr == nil)
		case (herr == nil) != member || (berr == nil) != member:
			fail(q, "LeafHash(embedded) succeeds: %v, LeafHashB64: %v; embedded: %v", herr == nil, berr == nil, member)
		case member && !changed && h != ref:
			fail(q, "LeafHash(embedded) is not the hash of the RFC 6962 precertificate entry with the SCT's timestamp")
		case member && changed && h == ref:
			fail(q, "LeafHash(embedded) of a certificate that differs gives the hash of the entry the log signed")
		case member && b64 != base64.StdEncoding.EncodeToString(h[:]):
			fail(q, "LeafHashB64(embedded) is not the base64 text of LeafHash")
		case (perr == nil) != q.valid:
			fail(q, "precertificate route: VerifySCT accepts: %v, signed by the log over this precertificate: %v", perr == nil, q.valid)
		case pherr != nil || ph != ref:
			fail(q, "precertificate route: LeafHash is not the hash of the RFC 6962 precertificate entry with the SCT's timestamp")
		}
	}
	input["op"], input["mutation"], input["preissuer"] = "query-embedded-scts", fmut, usePre
	input["list"], input["queries"] = entryKinds(list), len(qs)
	cap3 := func(n int) int {
		if n > 3 {
			return 3
		}
		return n
	}
	e.w.Add(lib.Case{
		Key: fmt.Sprintf("e2e-list-%d", i), Input: input,
		Impl:   map[string]interface{}{"contains": contains, "embedded_verifies": everifies, "precert_route_verifies": pverifies, "embedded_leaf_hash_is_reference": hashOK},
		PropOK: propOK, Note: note,
		Tags: []string{fmt.Sprintf("sct-queries:len=%d", cap3(len(list))), fmt.Sprintf("sct-queries:of-the-log=%d", cap3(sameLog)), fmt.Sprintf("sct-queries:identical=%d", cap3(dups)), "sct-queries:" + fmut},
	})
}

func nameDesc(sp *pairSpec) string {
	if sp == nil || sp.name == "" {
		return "another name than its issuer's"
	}
	return map[string]string{"same": "subject name octet for octet the subject name of the CA that certified it", "recoded": "the CA's subject name with UTF8String in place of PrintableString",
		"different": "another name than its issuer's"}[sp.name]
}

func akiDesc(sp *pairSpec) string {
	if sp == nil || sp.name == "" {
		return "as drawn"
	}
	return map[string]string{"replace": "precertificate: the pre-issuer's subject key id; pre-issuer: the CA's", "none": "neither the precertificate nor the pre-issuer has one",
		"delete": "precertificate has one, pre-issuer has none", "append": "precertificate has none, pre-issuer has one"}[sp.aki]
}

// ---- certificate content shared by a precertificate, its reference and its final certificate ----

type content struct {
	i        int
	std      bool // issued by the standard library (see issue.go)
	bare     bool
	serial   *big.Int
	nb, na   time.Time
	leafKind string
	leafSKI  []byte
	recrit   map[string]bool // critical flags by object identifier (nil: the issuer's habit), see certOpts.Recrit
}

func (c content) issue(extra []pkix.Extension, parent *pki.Entity, noAKI bool) *pki.Entity {
	o := pki.Opts{CN: fmt.Sprintf("leaf-%d.example", c.i), KeyKind: c.leafKind, KeyIdx: 6, Serial: c.serial,
		NotBefore: c.nb, NotAfter: c.na, ExtraExt: extra, SKI: c.leafSKI, DNSNames: []string{fmt.Sprintf("leaf-%d.example", c.i)},
		EKUs: []x509.ExtKeyUsage{x509.ExtKeyUsageServerAuth}}
	if c.bare {
		o.DNSNames, o.EKUs, o.NoBC = nil, nil, true
	}
	return issue(c.std, certOpts{Opts: o, NoKeyUsage: c.bare, NoAKI: noAKI, Recrit: c.recrit}, parent)
}

func drawSerial(r *mrand.Rand) *big.Int {
	b := make([]byte, 1+r.Intn(19))
	r.Read(b)
	switch r.Intn(4) { // the sign-octet boundary of the DER INTEGER: top octet below, at and above 0x80
	case 0:
		b[0] &= 0x7f
		b[0] |= 1
	case 1:
		b[0] = 0x80
	case 2:
		b[0] = []byte{0x7f, 0x81, 0xff, 0x01}[r.Intn(4)]
	default:
		b[0] |= 1
	}
	return new(big.Int).SetBytes(b)
}

func drawValidity(r *mrand.Rand) (time.Time, time.Time) {
	notBefore := time.Date(2015+r.Intn(20), time.Month(1+r.Intn(12)), 1+r.Intn(28), r.Intn(24), r.Intn(60), r.Intn(60), 0, time.UTC)
	notAfter := notBefore.AddDate(r.Intn(3), r.Intn(12), 1)
	if r.Intn(3) == 0 {
		notAfter = time.Date(2049+r.Intn(4), 12, 31, 23, 59, 59, 0, time.UTC) // both sides of 2050
	}
	return notBefore, notAfter
}

// ---- the steps of a pair, each emitting its case(s) ----

// build runs BuildPrecertTBS and emits the CBuild case.  ref, when given, is the TBSCertificate of the
// same certificate issued without the poison extension (direct issuer) or the TBSCertificate re-assembled
// by hand from the precertificate and the pre-issuer (handPreIssuerTBS).
func (e *env) build(tbs []byte, preCert *x509.Certificate, preCoq string, expectOK bool, mut string, ref []byte, input map[string]interface{}, tags []string) (built []byte, coq string, ok bool) {
	var berr error
	pan := try(func() { built, berr = x509.BuildPrecertTBS(tbs, preCert) })
	propOK, note := !pan, ""
	if pan {
		note = "BuildPrecertTBS panics"
	}
	if !pan && (berr == nil) != expectOK {
		propOK, note = false, fmt.Sprintf("BuildPrecertTBS ok=%v for mutation %s", berr == nil, mut)
	}
	if propOK && berr == nil && ref != nil && !bytes.Equal(built, ref) {
		// independent reference: the same certificate content issued WITHOUT the poison extension
		// (same issuer, serial, validity, key, other extensions in the same order) has, byte for byte,
		// the TBSCertificate that de-poisoning must produce
		propOK, note = false, "BuildPrecertTBS output differs from the TBSCertificate of the same certificate issued without the poison extension"
		if preCert != nil {
			// with a pre-issuer the reference is handPreIssuerTBS
			note = "BuildPrecertTBS output differs from the TBSCertificate re-assembled by hand: poison removed, issuer and authority key identifier value of the pre-issuer, every other octet, place and critical flag kept"
		}
	}
	coq = fmt.Sprintf("CBuild %s %s (%s)", lib.Bytes(tbs), preCoq, obsBytes(built, berr, pan))
	input["op"] = "build-precert-tbs"
	e.w.Add(lib.Case{Coq: coq, Input: input, Impl: map[string]interface{}{"ok": berr == nil && !pan, "len": len(built)},
		PropOK: propOK, Note: note, Tags: tags})
	return built, coq, berr == nil && !pan
}

// logSCT lets "the log" build the precertificate entry from the submitted chain and sign it.  The entry
// is compared with the hand-encoded leaf over wantTBS and the SHA-256 of the real issuer's
// SubjectPublicKeyInfo (encoded by the standard library).  sigLen > 0 asks for a signature of exactly
// that many octets (ECDSA signatures vary in length; the boundary class needs a fixed size).
func (e *env) logSCT(i int, coq string, chain []*x509.Certificate, ts uint64, wantTBS []byte, issuerPub crypto.PublicKey, sigLen int, input map[string]interface{}) (*ct.MerkleTreeLeaf, *ct.SignedCertificateTimestamp, bool) {
	var leaf *ct.MerkleTreeLeaf
	var lerr error
	pan := try(func() { leaf, lerr = ct.MerkleTreeLeafFromChain(chain, ct.PrecertLogEntryType, ts) })
	spki, err := stdx509.MarshalPKIXPublicKey(issuerPub)
	if err != nil {
		panic(err)
	}
	want := handPrecertLeaf(ts, sha256.Sum256(spki), wantTBS)
	propOK, note := true, ""
	var got []byte
	switch {
	case pan:
		propOK, note = false, "MerkleTreeLeafFromChain panics on a well-formed precertificate chain"
	case lerr != nil:
		propOK, note = false, "MerkleTreeLeafFromChain fails on a well-formed precertificate chain"
	default:
		te := leaf.TimestampedEntry
		switch {
		case te == nil || te.PrecertEntry == nil || te.EntryType != ct.PrecertLogEntryType || te.Timestamp != ts || leaf.Version != ct.V1 || leaf.LeafType != ct.TimestampedEntryLeafType || len(te.Extensions) != 0:
			propOK, note = false, "MerkleTreeLeafFromChain: not a version 1 precertificate entry with the given timestamp"
		case te.PrecertEntry.IssuerKeyHash != sha256.Sum256(spki):
			propOK, note = false, "precertificate entry: issuer_key_hash is not the SHA-256 of the real issuer's SubjectPublicKeyInfo"
		case !bytes.Equal(te.PrecertEntry.TBSCertificate, wantTBS):
			propOK, note = false, "precertificate entry: TBSCertificate is not the de-poisoned (and, with a pre-issuer, re-issued) TBSCertificate"
		}
		got, _ = tls.Marshal(*leaf)
		if propOK && !bytes.Equal(got, want) {
			propOK, note = false, "precertificate entry differs from the hand-encoded RFC 6962 MerkleTreeLeaf"
		}
	}
	input["op"] = "precert-entry"
	_ = coq // the entry is a direct-oracle case: its TBSCertificate is evaluated against the model in the CBuild case
	e.w.Add(lib.Case{Key: fmt.Sprintf("leaf-%d", i), Input: input,
		Impl:   map[string]interface{}{"ok": lerr == nil && !pan, "len": len(got), "want_len": len(want)},
		PropOK: propOK, Note: note, Tags: []string{fmt.Sprintf("precert-entry:chain=%d", len(chain))}})
	if pan || lerr != nil {
		// the failure is recorded; go on with the entry a conforming log would have signed, so that the
		// embedded-SCT route is still examined
		leaf = &ct.MerkleTreeLeaf{Version: ct.V1, LeafType: ct.TimestampedEntryLeafType, TimestampedEntry: &ct.TimestampedEntry{
			Timestamp: ts, EntryType: ct.PrecertLogEntryType, PrecertEntry: &ct.PreCert{IssuerKeyHash: sha256.Sum256(spki), TBSCertificate: wantTBS}}}
	}
	sct := &ct.SignedCertificateTimestamp{SCTVersion: ct.V1, Timestamp: ts}
	sct.LogID.KeyID = sha256.Sum256(mustSPKI(e.logPub))
	sigInput, ierr := ct.SerializeSCTSignatureInput(*sct, ct.LogEntry{Leaf: *leaf})
	if ierr != nil {
		panic(ierr)
	}
	for try := 0; ; try++ {
		ds, serr := tls.CreateSignature(*e.logKey.(*ecdsa.PrivateKey), tls.SHA256, sigInput)
		if serr != nil {
			panic(serr)
		}
		sct.Signature = ct.DigitallySigned(ds)
		if sigLen == 0 || len(ds.Signature) == sigLen || try > 200 {
			break
		}
	}
	return leaf, sct, true
}

func fakeSCT(r *mrand.Rand) *ct.SignedCertificateTimestamp {
	o := &ct.SignedCertificateTimestamp{SCTVersion: ct.V1, Timestamp: r.Uint64(), Extensions: make([]byte, r.Intn(4))}
	r.Read(o.LogID.KeyID[:])
	o.Signature = ct.DigitallySigned{Algorithm: tls.SignatureAndHashAlgorithm{Hash: tls.SHA256, Signature: tls.ECDSA}, Signature: make([]byte, 8+r.Intn(64))}
	r.Read(o.Signature.Signature)
	return o
}

var sctDesc = tlsgen.FromGoType(reflect.TypeOf(ct.SignedCertificateTimestamp{}))

// sctList runs ASN1MarshalSCTs and emits the CSctList case; the reference is the hand-encoded list.
func (e *env) sctList(scts []*ct.SignedCertificateTimestamp) ([]byte, bool) {
	var assigned []*submission.AssignedSCT
	var sctVals []string
	for _, x := range scts {
		assigned = append(assigned, &submission.AssignedSCT{LogURL: "l", SCT: x})
		sctVals = append(sctVals, tlsgen.ValCoq(sctDesc, reflect.ValueOf(*x)))
	}
	extVal, aerr := submission.ASN1MarshalSCTs(assigned)
	propOK, note := aerr == nil, "ASN1MarshalSCTs failed on well-formed SCTs"
	if propOK && !bytes.Equal(extVal, handSCTListExt(scts)) {
		propOK, note = false, "ASN1MarshalSCTs output differs from the hand-encoded RFC 6962 SCT list extension value"
	}
	e.w.Add(lib.Case{
		Coq:    fmt.Sprintf("CSctList %s (%s)", lib.List(sctVals), obsBytes(extVal, aerr, false)),
		Input:  map[string]interface{}{"op": "asn1-marshal-scts", "count": len(scts)},
		Impl:   map[string]interface{}{"ok": aerr == nil, "len": len(extVal)},
		PropOK: propOK, Note: note, Tags: []string{fmt.Sprintf("sct-list:%d", len(scts))},
	})
	return extVal, aerr == nil
}

// removeSct runs RemoveSCTList on the final certificate and emits the CRemoveSct case.  built is the
// output of the precertificate route; ref, when given, the TBSCertificate of the same certificate
// issued without the SCT list.
func (e *env) removeSct(finalTBS, built []byte, fmut string, ref []byte, input map[string]interface{}, tags []string) (rem []byte, coq string) {
	var rerr error
	rpan := try(func() { rem, rerr = x509.RemoveSCTList(finalTBS) })
	propOK, note := !rpan, ""
	// direct oracle: the two routes give byte-identical TBS exactly for the corresponding certificate
	if !rpan && rerr == nil && fmut == "none" && !bytes.Equal(rem, built) {
		propOK, note = false, "routes differ: RemoveSCTList(final) != BuildPrecertTBS(precert)"
	}
	if !rpan && rerr == nil && fmut == "none" && ref != nil && !bytes.Equal(rem, ref) {
		propOK, note = false, "RemoveSCTList output differs from the TBSCertificate of the same certificate issued without the SCT list"
	}
	if !rpan && rerr == nil && (fmut == "other-ext-changed" || fmut == "others-reordered") && bytes.Equal(rem, built) {
		propOK, note = false, "routes agree although the certificates differ"
	}
	if (rerr == nil) != (fmut != "sct-twice") {
		propOK, note = false, "RemoveSCTList ok="+fmt.Sprint(rerr == nil)+" for "+fmut
	}
	coq = fmt.Sprintf("CRemoveSct %s (%s)", lib.Bytes(finalTBS), obsBytes(rem, rerr, rpan))
	input["op"], input["mutation"] = "remove-sct-list", fmut
	e.w.Add(lib.Case{Coq: coq, Input: input,
		Impl:   map[string]interface{}{"ok": rerr == nil && !rpan, "same_as_precert_route": bytes.Equal(rem, built)},
		PropOK: propOK, Note: note, Tags: append([]string{"remove-sct:" + fmut}, tags...)})
	return rem, coq
}

// parseBack reads the SCT list back from the parsed final certificate.
func (e *env) parseBack(final *x509.Certificate, scts []*ct.SignedCertificateTimestamp, extVal []byte) {
	back, perr := x509util.ParseSCTsFromSCTList(&final.SCTList)
	var backVals []string
	same := perr == nil && len(back) == len(scts)
	for k, x := range back {
		backVals = append(backVals, tlsgen.ValCoq(sctDesc, reflect.ValueOf(*x)))
		if same && !reflect.DeepEqual(normSCT(*x), normSCT(*scts[k])) {
			same = false
		}
	}
	o := "ErrStruct"
	if perr == nil {
		o = "Ok " + lib.List(backVals)
	}
	e.w.Add(lib.Case{
		Coq:    fmt.Sprintf("CSctParse %s (%s)", lib.Bytes(extVal), o),
		Input:  map[string]interface{}{"op": "parse-sct-list", "count": len(scts)},
		Impl:   map[string]interface{}{"ok": perr == nil, "count": len(back)},
		PropOK: same, Note: "SCT list read back differs from the list embedded", Tags: []string{"sct-parse"},
	})
}

// endToEnd: the embedded SCT verifies exactly when the log signed that precertificate.
func (e *env) endToEnd(i int, coq string, chain, fchain []*x509.Certificate, leaf *ct.MerkleTreeLeaf, sct *ct.SignedCertificateTimestamp, ts uint64, fmut string, usePre bool) {
	verr := ctutil.VerifySCT(e.logPub, fchain, sct, true)
	eleaf, eerr := ct.MerkleTreeLeafForEmbeddedSCT(fchain, ts)
	lb1, _ := tls.Marshal(*leaf)
	var lb2 []byte
	if eerr == nil {
		lb2, _ = tls.Marshal(*eleaf)
	}
	e2eOK := true
	switch fmut {
	case "none":
		e2eOK = verr == nil && eerr == nil && bytes.Equal(lb1, lb2)
	case "other-ext-changed", "others-reordered":
		e2eOK = verr != nil && !bytes.Equal(lb1, lb2)
	}
	perr2 := ctutil.VerifySCT(e.logPub, chain, sct, false)
	if perr2 != nil {
		e2eOK = false
	}
	_ = coq // a direct-oracle case: the same term is evaluated against the model in the CRemoveSct case
	e.w.Add(lib.Case{
		Key:    fmt.Sprintf("e2e-%d", i),
		Input:  map[string]interface{}{"op": "verify-embedded-sct", "mutation": fmut, "preissuer": usePre, "chain_len": len(chain)},
		Impl:   map[string]interface{}{"embedded_verifies": verr == nil, "precert_sct_verifies": perr2 == nil, "leaves_equal": bytes.Equal(lb1, lb2)},
		PropOK: e2eOK, Note: fmt.Sprintf("embedded SCT verification (%v) inconsistent with the log's signature for mutation %s", verr == nil, fmut),
		Tags: []string{"e2e:" + fmut + fmt.Sprintf(":verifies=%v", verr == nil), fmt.Sprintf("e2e-chain:pre=%v:len=%d", usePre, len(chain))},
	})
}

// refTBS is the reference for both removals: the TBSCertificate of the same certificate issued without
// the targeted extension.  One convention is applied to it: when the targeted extension was the only one,
// the implementation (and the Coq model: t_exts = Some []) keeps the then empty extensions field
// [3] { SEQUENCE {} } - the removal removes the one extension and nothing else - whereas a certificate
// issued without any extension (standard library's issuer) has no extensions field at all; the fork's
// own issuer writes the empty field itself.
func refTBS(plain *pki.Entity) []byte {
	tbs := plain.Cert.RawTBSCertificate
	if _, ok := elemLen(tbs, "wrap", nil); ok {
		return tbs
	}
	_, body, _, ok := readTLV(tbs)
	if !ok {
		panic("harness: reference certificate is not a TLV")
	}
	return tlv(0x30, append(append([]byte{}, body...), 0xa3, 0x02, 0x30, 0x00))
}

func hasExt(c *x509.Certificate, oid asn1.ObjectIdentifier) bool {
	for _, x := range c.Extensions {
		if x.Id.Equal(oid) {
			return true
		}
	}
	return false
}

func certs(es ...*pki.Entity) []*x509.Certificate {
	var out []*x509.Certificate
	for _, x := range es {
		if x != nil {
			out = append(out, x.Cert)
		}
	}
	return out
}

// one runs one random certificate pair through both routes.  forcedEKU (a list of usage names, see
// ekuOIDs) fixes the extended key usages of the certificate in the pre-issuer position and switches
// the perturbations of the precertificate off, so that the pair always reaches the entry construction.
//
// sp, when given, makes the pair one of the class "criticality flags" (sp.crit: certificates with every
// kind of extension, key identifiers on all sides, the flag of the target departing from the issuer's
// habit) or of the class "several SCTs of one log" (sp.shape); both without perturbations.
func (e *env) one(i int, forcedEKU []string, sp *pairSpec) {
	r := e.r
	forced := forcedEKU != nil
	quiet := forced || sp != nil // no perturbations
	full := sp != nil && sp.crit != ""
	std := i%2 == 1        // every other pair comes from the standard library's issuer
	bare := r.Intn(3) == 0 // certificates whose only extensions are the extra ones
	named := sp != nil && sp.name != ""
	if full || named {
		bare = false
	}
	caWithSKI := (r.Intn(4) != 0 || full) && !bare
	if named && !std {
		// the fork's issuer derives every authority key id from the parent's subject key id
		caWithSKI = sp.aki == "replace"
	}
	var caSKI []byte
	if caWithSKI {
		caSKI = make([]byte, 20)
		r.Read(caSKI)
	}
	caAKIself := r.Intn(2) == 0
	// sometimes the issuing CA is itself issued by a root, so that submitted chains continue past it
	var root *pki.Entity
	if r.Intn(2) == 0 {
		root = issue(std, certOpts{Opts: pki.Opts{CN: fmt.Sprintf("Root %d", i), IsCA: true, KeyKind: keyKinds[r.Intn(4)], KeyIdx: 7 + r.Intn(2)}}, nil)
	}
	caOpts := certOpts{Opts: pki.Opts{CN: fmt.Sprintf("CA %d", i), IsCA: true, KeyKind: keyKinds[r.Intn(2)], KeyIdx: r.Intn(3), SKI: caSKI}}
	if caAKIself && caSKI != nil && root == nil {
		caOpts.SelfAKI = caSKI
	}
	ca := issue(std, caOpts, root)
	usePre := r.Intn(2) == 0 || forced
	if full || named {
		usePre = sp.pre
	}
	// with the standard library's issuer a CA always has a subject key id; its children carry no authority
	// key id where noAKI says so (bare certificates; children of a pre-issuer with a hand-made authority key id,
	// which BuildPrecertTBS then appends at the end)
	noAKI := bare
	var preIss *pki.Entity
	hasCT := false
	ekuTag := "eku:none"
	if usePre {
		var piSKI []byte
		withPiSKI := (r.Intn(3) != 0 || full) && !bare
		if named {
			withPiSKI = std || sp.aki == "replace" || sp.aki == "delete"
		}
		if withPiSKI {
			piSKI = make([]byte, 20)
			r.Read(piSKI)
		}
		names := []string{"ct"}
		if r.Intn(12) == 0 && !quiet {
			names = []string{"serverAuth"} // not a real pre-issuer
		}
		// the pre-issuer's own authority key id, in the three forms RFC 5280 allows; custom forms are
		// only possible when the CA has no subject key id (CreateCertificate would add its own)
		var piExtra []pkix.Extension
		handAKI := (std || (caSKI == nil && piSKI == nil)) && r.Intn(2) == 0 && !full
		if named {
			handAKI = sp.aki == "append"
		}
		if handAKI {
			piExtra = []pkix.Extension{{Id: x509.OIDExtensionAuthorityKeyId, Value: akiValue(r, ca.Cert)}}
			noAKI = true
		}
		o := certOpts{Opts: pki.Opts{CN: fmt.Sprintf("Pre-issuer %d", i), IsCA: true, KeyKind: "p256", KeyIdx: 3 + r.Intn(3), SKI: piSKI, ExtraExt: piExtra}}
		if forced {
			names = forcedEKU
		}
		switch {
		case std:
			o.EKUNames = names
			o.NoAKI = piExtra == nil && r.Intn(4) == 0 && !full // a pre-issuer without authority key id
			if named {
				o.NoAKI = sp.aki == "none" || sp.aki == "delete"
				noAKI = sp.aki == "none" || sp.aki == "append"
			}
			for _, n := range names {
				hasCT = hasCT || n == "ct"
			}
		case forced:
			hasCT = ekuOpts(r, names, &o.Opts)
		default:
			hasCT = names[0] == "ct"
			o.EKUs = []x509.ExtKeyUsage{ekuKnown[names[0]]}
		}
		ekuTag = fmt.Sprintf("eku:%v", names)
		if named && sp.name != "different" {
			o.CN = caOpts.CN // the octets of the CA's subject name (both issuers encode a name from the same two attributes)
			if sp.name == "recoded" {
				rn, changed := recodeName(ca.Cert.RawSubject)
				if !changed {
					panic("harness: the CA's name has no PrintableString to write as a UTF8String")
				}
				o.RawSubject = rn
			} else if piExtra == nil && !o.NoAKI {
				// neither issuer derives an authority key id from the parent when subject and issuer name are the
				// same octets: the template names the CA's subject key id
				o.SelfAKI = ca.Cert.SubjectKeyId
			}
		}
		preIss = issue(std, o, ca)
		if named {
			same := bytes.Equal(preIss.Cert.RawSubject, ca.Cert.RawSubject)
			piAKI, preAKIwant := hasExt(preIss.Cert, x509.OIDExtensionAuthorityKeyId), sp.aki == "replace" || sp.aki == "append"
			if same != (sp.name == "same") || piAKI != preAKIwant {
				panic(fmt.Sprintf("harness: pre-issuer of the class %s/%s: same name octets %v, authority key id %v", sp.name, sp.aki, same, piAKI))
			}
		}
	}
	// the certificate content
	nExtra := r.Intn(4)
	if full && nExtra == 0 {
		nExtra = 1
	}
	var others []pkix.Extension
	for k := 0; k < nExtra; k++ {
		others = append(others, randExt(r, k))
	}
	c := content{i: i, std: std, bare: bare, serial: drawSerial(r)}
	c.nb, c.na = drawValidity(r)
	c.leafKind = keyKinds[r.Intn(len(keyKinds))]
	if (r.Intn(2) == 0 || full) && !bare {
		c.leafSKI = make([]byte, 20)
		r.Read(c.leafSKI)
	}
	// the critical flags: the issuer's habit, or (class pairs; half of the others) an explicit list
	sctCrit := false
	switch {
	case full:
		c.recrit, sctCrit = critFlip(sp.crit), sp.crit == "sct" || sp.crit == "all"
	case e.rx.Intn(2) == 0:
		c.recrit, sctCrit = critDraw(e.rx), e.rx.Intn(6) == 0
	}
	critTag := "crit:habit"
	if c.recrit != nil {
		critTag = "crit:explicit"
	}
	if full {
		critTag = fmt.Sprintf("crit-class:%s:pre=%v:%s", sp.crit, sp.pre, issuerName(std))
	}
	if named {
		critTag = fmt.Sprintf("pre-issuer-name:%s:aki=%s:%s", sp.name, sp.aki, issuerName(std))
	}
	sctExt := func(v []byte) pkix.Extension {
		return pkix.Extension{Id: x509.OIDExtensionCTSCT, Critical: sctCrit, Value: v}
	}
	pi := r.Intn(len(others) + 1)
	precertParent := ca
	if usePre {
		precertParent = preIss
	}
	precertExts := insertAt(others, pi, pki.PoisonExt())
	mut := "none"
	switch r.Intn(10) {
	case 0:
		if !quiet {
			precertExts = others
			mut = "no-poison"
		}
	case 1:
		at := r.Intn(len(precertExts) + 1)
		if r.Intn(2) == 0 {
			at = 0
		}
		if !quiet {
			precertExts = insertAt(precertExts, at, pki.PoisonExt())
			mut = "poison-twice"
		}
	}
	precert := c.issue(precertExts, precertParent, noAKI)
	if named && hasExt(precert.Cert, x509.OIDExtensionAuthorityKeyId) != (sp.aki == "replace" || sp.aki == "delete") {
		panic(fmt.Sprintf("harness: precertificate of the class %s/%s: authority key id %v", sp.name, sp.aki, hasExt(precert.Cert, x509.OIDExtensionAuthorityKeyId)))
	}
	var preCert *x509.Certificate
	preCoq := "None"
	if usePre {
		preCert = preIss.Cert
		preCoq = preissuerCoq(preCert, hasCT)
	}
	tbs := precert.Cert.RawTBSCertificate
	if r.Intn(15) == 0 && !quiet {
		tbs = append(append([]byte{}, tbs...), 0)
		mut += "+trailing"
	}
	input := func() map[string]interface{} {
		return map[string]interface{}{"issuer": issuerName(std), "bare": bare, "preissuer": usePre, "preissuer_eku": ekuTag, "mutation": mut, "others": nExtra, "poison_at": pi, "leaf_key": c.leafKind,
			"critical_flags": critDesc(c.recrit), "sct_list_critical": sctCrit, "preissuer_name": nameDesc(sp), "authority_key_id": akiDesc(sp)}
	}
	var ref []byte
	if mut == "none" && !usePre {
		ref = refTBS(c.issue(others, ca, noAKI))
	}
	if mut == "none" && usePre && hasCT {
		// with a pre-issuer: the TBSCertificate re-assembled by hand from the octets of the precertificate
		// and of the pre-issuer (every extension keeps its place and its critical flag)
		hand, hok := handPreIssuerTBS(precert.Cert.RawTBSCertificate, preIss.DER)
		if !hok {
			panic("harness: cannot take the precertificate or the pre-issuer apart")
		}
		ref = hand
	}
	built, bcoq, ok := e.build(tbs, preCert, preCoq, mut == "none" && (!usePre || hasCT), mut, ref, input(), []string{"build:" + mut, fmt.Sprintf("preissuer=%v", usePre), ekuTag, critTag})
	// who issues the final certificate, and the certificates from there upwards
	issuer, tail := ca, certs(ca, root)
	if usePre && !hasCT && mut == "none" {
		// a certificate without the CT usage in the pre-issuer position is an ordinary intermediate: the
		// precertificate route must treat it as the direct issuer
		usePre, preCert, preCoq = false, nil, "None"
		issuer, tail = preIss, certs(preIss, ca, root)
		ref = refTBS(c.issue(others, preIss, noAKI))
		built, bcoq, ok = e.build(tbs, nil, "None", true, mut, ref, input(), []string{"build:" + mut, "preissuer=intermediate"})
	}
	if !ok && mut == "none" && ref != nil {
		built, ok = ref, true // the failure is recorded; the embedded-SCT route is still examined against the reference
	}
	if !ok || mut != "none" {
		return
	}
	// the log signs the precertificate entry
	chain := append(certs(precert), tail...)
	if usePre {
		chain = append(certs(precert, preIss), tail...)
	}
	ts := uint64(1500000000000 + r.Int63n(1e11))
	wantTBS := built // with a pre-issuer: checked against the model and against the embedded-SCT route
	if ref != nil {
		wantTBS = ref
	}
	leaf, sct, ok := e.logSCT(i, bcoq, chain, ts, wantTBS, issuer.Key.Public(), 0, input())
	if !ok {
		return
	}
	ikh := sha256.Sum256(mustStdSPKI(issuer.Key.Public()))
	// a few more SCTs (other logs) for the embedded list
	entries := []sctEntry{{sct, "log", true}}
	for k := r.Intn(3); k > 0; k-- {
		entries = append(entries, sctEntry{fakeSCT(r), "B", false})
	}
	r.Shuffle(len(entries), func(a, b int) { entries[a], entries[b] = entries[b], entries[a] })
	// and more of the log under test: the same precertificate signed again, byte-identical duplicates
	if sp != nil && sp.shape != nil {
		entries = nil
		for k, kind := range sp.shape {
			var prev *sctEntry
			if k > 0 {
				prev = &entries[k-1]
			}
			entries = append(entries, e.makeEntry(e.rx, kind, sct, prev, ikh, wantTBS))
		}
	} else {
		entries = e.widen(entries, sct, ikh, wantTBS)
	}
	scts := entrySCTs(entries)
	extVal, ok := e.sctList(scts)
	if !ok {
		return
	}
	// the corresponding final certificate carries, besides the SCT list, exactly the extensions
	// of the de-poisoned precertificate in the same order.  When the precertificate has no
	// authority key id but the pre-issuer has one, BuildPrecertTBS appends it at the END, so the
	// final certificate must carry it last (CreateCertificate would otherwise put it first).
	// (With the standard library's issuer the CA always has a subject key id: the final certificate gets
	// its authority key id from the template only when the precertificate had one and the pre-issuer has one.)
	if usePre {
		preIssAKI := false
		for _, x := range preIss.Cert.Extensions {
			if x.Id.Equal(x509.OIDExtensionAuthorityKeyId) {
				preIssAKI = true
				if !hasExt(precert.Cert, x509.OIDExtensionAuthorityKeyId) {
					others = append(append([]pkix.Extension{}, others...), pkix.Extension{Id: x.Id, Value: x.Value})
					c.recrit = without(c.recrit, "2.5.29.35") // the appended one is not critical
				}
			}
		}
		noAKI = !(preIssAKI && hasExt(precert.Cert, x509.OIDExtensionAuthorityKeyId))
	}
	sj := r.Intn(len(others) + 1)
	finalExts := insertAt(others, sj, sctExt(extVal))
	fmut := "none"
	fdraw := r.Intn(10)
	if sp != nil {
		fdraw = 9
	}
	switch fdraw {
	case 0:
		at := r.Intn(len(finalExts) + 1)
		if r.Intn(2) == 0 {
			at = 0
		}
		finalExts = insertAt(finalExts, at, sctExt(extVal))
		fmut = "sct-twice"
	case 1:
		if len(others) > 0 { // a different "other" extension: not the certificate the log signed
			alt := append([]pkix.Extension{}, others...)
			alt[0] = randExt(r, 77)
			finalExts = insertAt(alt, sj, sctExt(extVal))
			fmut = "other-ext-changed"
		}
	case 2:
		if len(others) > 1 {
			alt := append([]pkix.Extension{}, others...)
			alt[0], alt[1] = alt[1], alt[0]
			finalExts = insertAt(alt, sj, sctExt(extVal))
			fmut = "others-reordered"
		}
	}
	final := c.issue(finalExts, issuer, noAKI)
	fin := func() map[string]interface{} {
		return map[string]interface{}{"issuer": issuerName(std), "sct_at": sj, "preissuer": usePre, "preissuer_eku": ekuTag, "critical_flags": critDesc(c.recrit), "sct_list_critical": sctCrit}
	}
	_, rcoq := e.removeSct(final.Cert.RawTBSCertificate, built, fmut, ref, fin(), []string{critTag})
	if fmut != "sct-twice" {
		e.parseBack(final.Cert, scts, extVal)
	}
	e.endToEnd(i, rcoq, chain, append(certs(final), tail...), leaf, sct, ts, fmut, usePre)
	if fmut != "sct-twice" {
		e.listQueries(i, chain, append(certs(final), tail...), entries, wantTBS, ikh, fmut, usePre, fin())
	}
}

// ---- the class "length boundaries of the re-encoded elements" ----

// A boundary target: after (where = "post") or before the removal (where = "pre" for the
// precertificate, "final" for the final certificate) the element elem has exactly size content octets.
type bnd struct {
	elem  string // "value", "ext", "list", "wrap", "tbs" (see elemLen)
	size  int
	where string
	std   bool // issued by the standard library
}

func boundaries() []bnd {
	var sizes []int
	for _, s := range []int{127, 128, 255, 256, 65535, 65536} {
		sizes = append(sizes, s)
		if lib.Tier() == "thorough" {
			sizes = append(sizes, s-2, s-1, s+1, s+2)
		}
	}
	// the standard library issues these pairs (nothing of /repo takes part in inputs and references);
	// the thorough tier repeats them with the fork's issuer
	var out []bnd
	for _, std := range []bool{true, false} {
		if !std && lib.Tier() != "thorough" {
			continue
		}
		for _, s := range sizes {
			for _, el := range []string{"value", "ext"} { // elements that the removal does not change
				out = append(out, bnd{el, s, "post", std})
			}
			for _, el := range []string{"list", "wrap", "tbs"} {
				for _, wh := range []string{"pre", "post", "final"} {
					out = append(out, bnd{el, s, wh, std})
				}
			}
		}
	}
	return out
}

var fillerOID = asn1.ObjectIdentifier{1, 3, 6, 1, 4, 1, 55555, 1, 99}

// boundary issues a direct-issuer pair in which a filler extension (an unknown extension with an
// opaque value) is sized so that the target element has exactly the target content length, and runs it
// through both routes with the byte-exact reference (the same certificate without poison / SCT list).
func (e *env) boundary(i int, b bnd) {
	r := e.r
	tight := b.size <= 256 && b.elem != "value" && b.elem != "ext" // little room: the smallest certificates
	bare := tight || r.Intn(2) == 0
	var root *pki.Entity
	if r.Intn(2) == 0 {
		root = issue(b.std, certOpts{Opts: pki.Opts{CN: fmt.Sprintf("Root %d", i), IsCA: true, KeyKind: keyKinds[r.Intn(4)], KeyIdx: 7 + r.Intn(2)}}, nil)
	}
	var caSKI []byte
	if !bare && r.Intn(2) == 0 {
		caSKI = make([]byte, 20)
		r.Read(caSKI)
	}
	ca := issue(b.std, certOpts{Opts: pki.Opts{CN: fmt.Sprintf("CA %d", i), IsCA: true, KeyKind: keyKinds[r.Intn(2)], KeyIdx: r.Intn(3), SKI: caSKI}}, root)
	c := content{i: i, std: b.std, bare: bare, serial: drawSerial(r)}
	c.nb, c.na = drawValidity(r)
	c.leafKind = keyKinds[r.Intn(len(keyKinds))]
	if tight {
		c.leafKind = "ed25519"
	}
	if r.Intn(2) == 0 && !bare {
		c.leafSKI = make([]byte, 20)
		r.Read(c.leafSKI)
	}
	var others []pkix.Extension
	if !tight {
		for k := r.Intn(3); k > 0; k-- {
			others = append(others, randExt(r, k))
		}
	}
	fillerAt := r.Intn(len(others) + 1)
	critical := r.Intn(4) == 0
	fillByte := byte(0xa0 + r.Intn(16))
	withFiller := func(f int) []pkix.Extension {
		return insertAt(others, fillerAt, pkix.Extension{Id: fillerOID, Critical: critical, Value: bytes.Repeat([]byte{fillByte}, f)})
	}
	pi, sj := r.Intn(len(others)+2), r.Intn(len(others)+2)
	ts := uint64(1500000000000 + r.Int63n(1e11))
	// the SCT list: the log's SCT (its ECDSA signature will be drawn until it has 71 octets) among others
	const sigLen = 71
	scts := []*ct.SignedCertificateTimestamp{nil}
	if !tight {
		for k := r.Intn(3); k > 0; k-- {
			scts = append(scts, fakeSCT(r))
		}
	}
	r.Shuffle(len(scts), func(x, y int) { scts[x], scts[y] = scts[y], scts[x] })
	placeholder := &ct.SignedCertificateTimestamp{SCTVersion: ct.V1, Timestamp: ts, Signature: ct.DigitallySigned{
		Algorithm: tls.SignatureAndHashAlgorithm{Hash: tls.SHA256, Signature: tls.ECDSA}, Signature: make([]byte, sigLen)}}
	listWith := func(real *ct.SignedCertificateTimestamp) []*ct.SignedCertificateTimestamp {
		out := append([]*ct.SignedCertificateTimestamp{}, scts...)
		for k := range out {
			if out[k] == nil {
				out[k] = real
			}
		}
		return out
	}
	sctExt := func(v []byte) pkix.Extension { return pkix.Extension{Id: x509.OIDExtensionCTSCT, Value: v} }
	oid := derOID([]int(fillerOID))
	issueAt := func(f int, where string, extVal []byte) *pki.Entity {
		switch where {
		case "pre":
			return c.issue(insertAt(withFiller(f), pi, pki.PoisonExt()), ca, bare)
		case "final":
			return c.issue(insertAt(withFiller(f), sj, sctExt(extVal)), ca, bare)
		}
		return c.issue(withFiller(f), ca, bare)
	}
	// size the filler: every enclosing length grows with it octet by octet except where a length field
	// itself grows, so a few corrections reach the target (or show that no filler size does)
	f, reached := 1, false
	for it := 0; it < 8 && f >= 0; it++ {
		m, ok := elemLen(issueAt(f, b.where, handSCTListExt(listWith(placeholder))).Cert.RawTBSCertificate, b.elem, oid)
		if !ok {
			panic("harness: cannot locate the element " + b.elem)
		}
		if m == b.size {
			reached = true
			break
		}
		f += b.size - m
	}
	if !reached {
		e.missed++
		return
	}
	btag := fmt.Sprintf("boundary:%s:%s:%d:%s", b.elem, b.where, b.size, issuerName(b.std))
	input := func() map[string]interface{} {
		return map[string]interface{}{"issuer": issuerName(b.std), "bare": bare, "preissuer": false, "mutation": "none", "others": len(others) + 1, "poison_at": pi, "leaf_key": c.leafKind,
			"boundary": map[string]interface{}{"element": b.elem, "content_length": b.size, "measured_on": b.where, "filler_value_length": f, "filler_at": fillerAt, "filler_critical": critical}}
	}
	precert := issueAt(f, "pre", nil)
	plain := issueAt(f, "post", nil)
	ref := refTBS(plain)
	built, bcoq, ok := e.build(precert.Cert.RawTBSCertificate, nil, "None", true, "none", ref, input(), []string{"build:none", "preissuer=false", btag})
	if !ok {
		built = ref // the failure is recorded; the embedded-SCT route is still examined against the reference
	}
	tail := certs(ca, root)
	chain := append(certs(precert), tail...)
	leaf, sct, ok := e.logSCT(i, bcoq, chain, ts, ref, ca.Key.Public(), sigLen, input())
	if !ok {
		return
	}
	all := listWith(sct)
	extVal, ok := e.sctList(all)
	if !ok {
		return
	}
	final := issueAt(f, "final", extVal)
	in := input()
	in["sct_at"] = sj
	_, rcoq := e.removeSct(final.Cert.RawTBSCertificate, built, "none", ref, in, []string{btag})
	e.parseBack(final.Cert, all, extVal)
	e.endToEnd(i, rcoq, chain, append(certs(final), tail...), leaf, sct, ts, "none", false)
	var entries []sctEntry
	for _, x := range all {
		entries = append(entries, sctEntry{x, map[bool]string{true: "log", false: "B"}[x == sct], x == sct})
	}
	in = input()
	in["sct_at"] = sj
	e.listQueries(i, chain, append(certs(final), tail...), entries, ref, sha256.Sum256(mustStdSPKI(ca.Key.Public())), "none", false, in)
}

func mustStdSPKI(pub interface{}) []byte {
	b, err := stdx509.MarshalPKIXPublicKey(pub)
	if err != nil {
		panic(err)
	}
	return b
}

func mustSPKI(pub interface{}) []byte {
	b, err := x509.MarshalPKIXPublicKey(pub)
	if err != nil {
		panic(err)
	}
	return b
}

func normSCT(s ct.SignedCertificateTimestamp) ct.SignedCertificateTimestamp {
	if len(s.Extensions) == 0 {
		s.Extensions = nil
	}
	if len(s.Signature.Signature) == 0 {
		s.Signature.Signature = nil
	}
	return s
}

// akiValue builds an AuthorityKeyIdentifier extension value in one of the forms RFC 5280 allows:
// keyIdentifier only, authorityCertIssuer + serial only, or all three.
func akiValue(r *mrand.Rand, issuer *x509.Certificate) []byte {
	type aki struct {
		ID     []byte        `asn1:"optional,tag:0"`
		Issuer asn1.RawValue `asn1:"optional,tag:1"`
		Serial *big.Int      `asn1:"optional,tag:2"`
	}
	kid := make([]byte, 20)
	r.Read(kid)
	gn := asn1.RawValue{Class: asn1.ClassContextSpecific, Tag: 4, IsCompound: true, Bytes: issuer.RawSubject}
	gnBytes, err := asn1.Marshal(gn)
	if err != nil {
		panic(err)
	}
	names := asn1.RawValue{Class: asn1.ClassContextSpecific, Tag: 1, IsCompound: true, Bytes: gnBytes}
	var v aki
	switch r.Intn(3) {
	case 0:
		v.ID = kid
	case 1:
		v.Issuer, v.Serial = names, big.NewInt(int64(1+r.Intn(1000)))
	default:
		v.ID, v.Issuer, v.Serial = kid, names, big.NewInt(int64(1+r.Intn(1000)))
	}
	b, err := asn1.Marshal(v)
	if err != nil {
		panic(err)
	}
	return b
}
