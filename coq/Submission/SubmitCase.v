(* Correspondence cases for C17: observed behaviour of ctpolicy / loglist3 filters, of
   submission.GetSCTs under virtual time (the order of SubmitToLog starts / returns fixes the
   linearisation replayed through the state machine), and of Distributor.AddChain. *)
From Coq Require Import ZArith NArith Bool List.
From V Require Import Base.GoInt Base.CaseLib gen.Windows gen.Policy gen.Races
     Submission.SubmitModel Submission.WeightModel.
Import ListNotations.
Open Scope Z_scope.

Inductive policy := PChrome | PApple.

(* one observed event of a GetSCTs call, in observation order *)
Inductive ev :=
| EStart (l : N)                          (* SubmitToLog(l) entered *)
| ERet (l : N) (sct : bool) (ctxerr : bool) (* SubmitToLog(l) returned; ctxerr: because its context ended *)
| ECancel                                 (* the caller's context ended *)
| EDone                                   (* GetSCTs returned *)
| EHang.                                  (* last event: GetSCTs has NOT returned and never will by itself - every
                                             goroutine of the call is blocked and no timer is left (virtual time) *)

(* one observed step of a history on the ctpolicy group API (weights in quarters) *)
Inductive wop :=
| WSetAll (g : N) (ws : list (N * Z)) (err : bool) (after : list (N * Z))  (* SetLogWeights; LogWeights afterwards *)
| WSetOne (g : N) (l : N) (w : Z) (err : bool) (after : list (N * Z))      (* SetLogWeight; LogWeights afterwards *)
| WSession (g : N) (sess : list N)                                         (* GetSubmissionSession *)
| WSubmit (evs : list ev) (scts : list N) (ok : bool) (reqs : list (N * N)). (* GetSCTs over the groups as they are now *)

Inductive case :=
(* ll.SelectByStatus(usable).Compatible(cert, root, roots) then policy.LogsByGroup:
   observed None (error) or the groups as (name, sorted log ids, MinInclusions) *)
| CGroups (pol : policy) (ll : loglist) (roots : list (N * list N)) (root : option (N * bool))
          (na : Z) (nb_date na_date : Z * Z * Z) (obs : option (list (N * list N * Z)))
(* GetSCTs over explicit groups (name, logs, min, isbase, logs with positive weight) *)
| CRun (groups : list (N * list N * Z * bool * list N)) (evs : list ev)
       (scts : list N) (ok : bool) (reqs : list (N * N))
(* Distributor.AddChain: list, roots learnt, flags, chain verdict, NotAfter, dates; observed:
   refused / not enough compatible logs / ran (then as CRun, plus the non-usable logs contacted
   by the pending-logs side submission are listed separately) *)
| CDist (pol : policy) (ll : loglist) (roots : list (N * list N)) (dis full : bool) (v : chain_verdict)
        (na : Z) (nb_date na_date : Z * Z * Z)
        (outcome_class : N)   (* 0 ran, 1 chain refused, 2 not enough compatible logs *)
        (evs : list ev) (scts : list N) (ok : bool) (reqs : list (N * N))
| CPost (idx par dur obs : Z)
(* a history of accepted and refused weight updates, sessions and submissions over explicit
   groups (name, logs, min, isbase, initial weights) *)
| CWeights (groups : list (N * list N * Z * bool * list (N * Z))) (ops : list wop)
| CNote (n : N).

Definition roots_fn (roots : list (N * list N)) : logroots :=
  fun l => match find (fun p => N.eqb (fst p) l) roots with Some p => Some (snd p) | None => None end.

(* all positive-weight logs, in list order, as the session *)
Definition sess_all (_ : N) (logs : list N) : list N := logs.

Definition groups_of_policy (pol : policy) (months : Z) (ll : loglist) : option cfg :=
  match pol with PChrome => chrome_groups months ll sess_all | PApple => apple_groups months ll sess_all end.

Definition subset (a b : list N) : bool := forallb (fun x => memN x b) a.
Definition same_set (a b : list N) : bool := subset a b && subset b a.

Definition group_obs_ok (c : cfg) (obs : list (N * list N * Z)) : bool :=
  Nat.eqb (length c) (length obs) &&
  forallb (fun gr => existsb (fun o => match o with (n, logs, mn) =>
             N.eqb n (g_name gr) && same_set logs (g_logs gr) && Nat.eqb (length logs) (length (g_logs gr)) && (mn =? g_min gr)
           end) obs) c.

Definition model_groups pol ll roots root na nbd nad : option cfg :=
  let usable := select_by_status [StUsable] ll in
  groups_of_policy pol (months_of nbd nad) (compatible na root (roots_fn roots) usable).

(* ---- replay of an observed linearisation through the state machine ---- *)
Record rstate := mkR {
  r_st : sst; r_inflight : list N; r_started : list N; r_ctx : bool;
  r_done : option (sst * bool); r_bad : list N;  (* 1 dup/unawaited start, 2 return without call, 3 unexplained ctx error, 4 setResult panic *)
  r_hung : bool                                  (* the observation ended with EHang instead of EDone *)
}.

Definition mk_cfg (groups : list (N * list N * Z * bool * list N)) : cfg :=
  map (fun g => match g with (n, logs, mn, isb, sess) => mkGroup n logs mn isb sess end) groups.

Definition remove_one (l : N) (xs : list N) : list N := filter (fun x => negb (N.eqb x l)) xs.

Definition rstep (c : cfg) (r : rstate) (e : ev) : rstate :=
  match e with
  | EStart l =>
      let q := request c (r_st r) l in
      let in_sess := existsb (fun gr => memN l (g_session gr)) c in
      mkR (fst q) (l :: r_inflight r) (l :: r_started r) (r_ctx r) (r_done r)
          (if snd q && in_sess then r_bad r else 1%N :: r_bad r) (r_hung r)
  | ERet l sct ctxerr =>
      if memN l (r_inflight r) then
        let explained := negb ctxerr || cancelled (r_st r) l || r_ctx r in
        match set_result c (r_st r) l sct with
        | Some st' => mkR st' (remove_one l (r_inflight r)) (r_started r) (r_ctx r) (r_done r)
                          (if explained then r_bad r else 3%N :: r_bad r) (r_hung r)
        | None => mkR (r_st r) (r_inflight r) (r_started r) (r_ctx r) (r_done r) (4%N :: r_bad r) (r_hung r)
        end
      else mkR (r_st r) (r_inflight r) (r_started r) (r_ctx r) (r_done r) (2%N :: r_bad r) (r_hung r)
  | ECancel => mkR (r_st r) (r_inflight r) (r_started r) true (r_done r) (r_bad r) (r_hung r)
  | EDone => mkR (r_st r) (r_inflight r) (r_started r) (r_ctx r) (Some (r_st r, r_ctx r)) (r_bad r) (r_hung r)
  | EHang => mkR (r_st r) (r_inflight r) (r_started r) (r_ctx r) (Some (r_st r, r_ctx r)) (r_bad r) true
  end.

Definition replay (c : cfg) (evs : list ev) : rstate :=
  fold_left (rstep c) evs (mkR (init_sst c) [] [] false None [] false).

Definition all_complete (c : cfg) (st : sst) : bool := forallb (fun g => group_complete c st g) (names c).

(* Every race that has not ended by itself is waiting for a log of its session to be finished
   (requested and answered, or known not to be requested): an incomplete group none of whose
   session logs is unfinished has had its race return. *)
Definition races_over (c : cfg) (st : sst) : bool :=
  forallb (fun gr => group_complete c st (g_name gr) || forallb (fun l => finished st l) (g_session gr)) c.

(* An observed hang (quiescent: nothing in the call can move, the caller's context has not
   ended) is what Props/C17.always_terminates allows only with a SubmitToLog call in flight
   ([waiting]): some log of some session has been started and its outcome is not final in
   the model's state.  With the caller's context ended, or with every started call returned
   (each return goes through the model's set_result, which finishes the log whatever the
   answer was), the model has a step left, i.e. the code must have returned. *)
Definition hang_explained (c : cfg) (r : rstate) (st : sst) (ctx : bool) : bool :=
  negb ctx &&
  match r_inflight r with [] => false | _ => true end &&
  existsb (fun gr => existsb (fun l => memN l (r_inflight r) && negb (finished st l)) (g_session gr)) c.

(* what the (fixed) code must have returned given this linearisation *)
Definition run_ok (c : cfg) (evs : list ev) (scts : list N) (ok : bool) (reqs : list (N * N)) : bool :=
  let r := replay c evs in
  match r_done r with
  | None => false
  | Some (st, ctx) =>
      match r_bad r with [] => true | _ => false end &&
      (if r_hung r then
         hang_explained c r st ctx && match scts with [] => true | _ => false end && negb ok &&
         match evs with [] => false | _ => match last evs EDone with EHang => true | _ => false end end
       else
         same_set scts (collect c st) && Nat.eqb (length scts) (length (collect c st)) &&
         (if ctx then implb ok (all_complete c st)
          else Bool.eqb ok (all_complete c st) &&
               (* an incomplete group has had every log of its session requested and answered *)
               races_over c st)) &&
      forallb (fun q => N.eqb (snd q) (if memN (fst q) (r_started r) then 1 else 0)%N) reqs
  end.

Definition model_dist pol ll roots dis full v na nbd nad : N * option cfg :=
  match distributor_compatible dis full v na (roots_fn roots) (select_by_status [StUsable] ll) with
  | None => (1%N, None)
  | Some cl => match groups_of_policy pol (months_of nbd nad) cl with
               | None => (2%N, None)
               | Some c => (0%N, Some c)
               end
  end.

(* ---- histories on the group API ---- *)
Definition mk_wgroups (groups : list (N * list N * Z * bool * list (N * Z))) : list wgroup :=
  map (fun g => match g with (n, logs, mn, isb, w) => mkWG n logs mn isb w end) groups.

Definition same_w (a b : wmap) : bool :=
  forallb (fun l => match wget a l, wget b l with Some x, Some y => x =? y | None, None => true | _, _ => false end)
          (map fst a ++ map fst b).

Definition wfind (gs : list wgroup) (n : N) : option wgroup := find (fun g => N.eqb (wg_name g) n) gs.
Definition wreplace (gs : list wgroup) (g' : wgroup) : list wgroup :=
  map (fun g => if N.eqb (wg_name g) (wg_name g') then g' else g) gs.

(* the model's groups after the step, and whether the observation of the step agrees with it *)
Definition wstep (gs : list wgroup) (o : wop) : list wgroup * bool :=
  match o with
  | WSetAll n ws err after =>
      match wfind gs n with
      | None => (gs, false)
      | Some g => let r := set_weights g ws in
                  (wreplace gs (fst r), Bool.eqb (snd r) err && same_w (wg_w (fst r)) after)
      end
  | WSetOne n l w err after =>
      match wfind gs n with
      | None => (gs, false)
      | Some g => let r := set_weight g l w in
                  (wreplace gs (fst r), Bool.eqb (snd r) err && same_w (wg_w (fst r)) after)
      end
  | WSession n sess =>
      match wfind gs n with
      | None => (gs, false)
      | Some g => (gs, same_set sess (positive_logs g) && Nat.eqb (length sess) (length (positive_logs g)))
      end
  | WSubmit evs scts ok reqs => (gs, run_ok (map group_of_w gs) evs scts ok reqs)
  end.

(* (groups at the end, index of the first step that disagrees or -1) *)
Fixpoint wreplay (gs : list wgroup) (ops : list wop) (i : Z) : list wgroup * Z :=
  match ops with
  | [] => (gs, -1)
  | o :: rest => let r := wstep gs o in
                 if snd r then wreplay (fst r) rest (i + 1) else (fst (wreplay (fst r) rest (i + 1)), i)
  end.

Definition check (cs : case) : bool :=
  match cs with
  | CGroups pol ll roots root na nbd nad obs =>
      match model_groups pol ll roots root na nbd nad, obs with
      | None, None => true
      | Some c, Some o => group_obs_ok c o
      | _, _ => false
      end
  | CRun groups evs scts ok reqs => run_ok (mk_cfg groups) evs scts ok reqs
  | CDist pol ll roots dis full v na nbd nad cls evs scts ok reqs =>
      match model_dist pol ll roots dis full v na nbd nad with
      | (k, None) => N.eqb k cls && match evs with [] => true | _ => false end
      | (k, Some c) => N.eqb k cls && run_ok c evs scts ok reqs
      end
  | CPost idx par dur obs => post_interval idx par dur =? obs
  | CWeights groups ops => snd (wreplay (mk_wgroups groups) ops 0) =? -1
  | CNote _ => true
  end.

Definition explain_run (c : cfg) (evs : list ev) :=
  let r := replay c evs in
  match r_done r with
  | None => (r_bad r, [], false, [])
  | Some (st, ctx) => (r_bad r, collect c st, all_complete c st, map (fun g => (g, needs st g)) (names c))
  end.

Definition explain (cs : case) :=
  match cs with
  | CGroups pol ll roots root na nbd nad _ =>
      (option_map (map (fun gr => (g_name gr, g_logs gr, g_min gr))) (model_groups pol ll roots root na nbd nad),
       months_of nbd nad, ([] : list N, [] : list N, false, [] : list (N * Z)))
  | CRun groups evs _ _ _ => (None, 0, explain_run (mk_cfg groups) evs)
  | CDist pol ll roots dis full v na nbd nad _ evs _ _ _ =>
      match model_dist pol ll roots dis full v na nbd nad with
      | (k, None) => (None, Z.of_N k, ([], [], false, []))
      | (k, Some c) => (Some (map (fun gr => (g_name gr, g_logs gr, g_min gr)) c), months_of nbd nad, explain_run c evs)
      end
  | CPost idx par dur _ => (None, post_interval idx par dur, ([], [], false, []))
  (* the groups at the end of the history as (name, logs with positive weight, min); index of the first step that disagrees *)
  | CWeights groups ops =>
      let r := wreplay (mk_wgroups groups) ops 0 in
      (Some (map (fun g => (wg_name g, positive_logs g, wg_min g)) (fst r)), snd r, ([], [], false, []))
  | CNote _ => (None, 0, ([], [], false, []))
  end.
