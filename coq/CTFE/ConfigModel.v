(* C15: configuration validation and instance set-up of the CT front end
   (trillian/ctfe/config.go, instance.go, handlers.go Handlers/newLogInfo, sth.go).

   DEFINITIONS ONLY.  The model follows the decision structure of the Go code branch for
   branch.  Every comparison / presence test that the code performs as an `if` condition is
   the GENERATED definition of gen/Config.v (gofrag), the EKU table, the merge-delay switch,
   the STH-getter switch, the handler path set and the storage-backend enum are the
   GENERATED gen/ConfigTables.v (harness/cmd/c15/cfggen) - both re-translated from the Go
   source on every run.  What is hand-written here is the glue: the order of the checks, the
   loops, the string functions of Go's `strings` package that the code uses, and the
   protobuf Timestamp validity rule.

   Where the Go code indexes or dereferences, the model performs the same partial operation
   and yields [Panic]; totality is a theorem (Props/C15.v validate_never_panics), not an
   assumption.  This file models the PATCHED tree (pending_fixes/C15-1..3); the pre-fix
   definitions and their refutations are in Findings/C15Prefix.v.

   Oracle inputs (parse / crypto outcomes of external libraries) are carried in the abstract
   configuration as booleans; the two DSN parsers, which the code applies to a substring it
   computes itself, are Section variables. *)
From Coq Require Import ZArith Bool List String Ascii.
From V Require Import Base.GoInt gen.Config gen.ConfigTables.
Import ListNotations.
Open Scope string_scope.
Open Scope Z_scope.
Open Scope bool_scope.

Inductive outcome := Accept | Reject | Panic.

Definition outcome_eqb (a b : outcome) : bool :=
  match a, b with Accept, Accept | Reject, Reject | Panic, Panic => true | _, _ => false end.

(* sequencing of checks: the first non-Accept outcome wins (Go: early return / panic) *)
Definition seq (a k : outcome) : outcome := match a with Accept => k | o => o end.
Notation "a ;; k" := (seq a k) (at level 61, right associativity).

(* ------------------------------------------------------------------ Go strings *)

Definition slen (s : string) : Z := Z.of_nat (String.length s).

(* strings.HasPrefix(s, p) *)
Definition has_prefix (s p : string) : bool := String.prefix p s.

(* strings.Split(s, sep) for a non-empty sep: cut at the leftmost occurrence, continue after
   it.  [skip] counts the remaining characters of a separator that has just been matched,
   [acc] is the piece being accumulated. *)
Fixpoint split_go (sep : string) (skip : nat) (acc : string) (s : string) : list string :=
  match s with
  | EmptyString => [acc]
  | String c s' =>
      match skip with
      | S k => split_go sep k acc s'
      | O => if String.prefix sep s
             then acc :: split_go sep (String.length sep - 1) "" s'
             else split_go sep 0 (acc ++ String c "") s'
      end
  end.
Definition split (s sep : string) : list string := split_go sep 0 "" s.

(* strings.TrimRight(s, "/") *)
Fixpoint trim_right_slash (s : string) : string :=
  match s with
  | EmptyString => EmptyString
  | String c r =>
      let r' := trim_right_slash r in
      if (String.eqb r' "") && (Ascii.eqb c "/"%char) then "" else String c r'
  end.

Definition mem_str (x : string) (l : list string) : bool := existsb (String.eqb x) l.
Definition mem_Z (x : Z) (l : list Z) : bool := existsb (Z.eqb x) l.
Definition key_eqb (a b : string * Z) : bool := String.eqb (fst a) (fst b) && (snd a =? snd b).
Definition mem_key (x : string * Z) (l : list (string * Z)) : bool := existsb (key_eqb x) l.

(* ------------------------------------------------------------------ messages *)

(* google.protobuf.Timestamp *)
Record timestamp := { ts_seconds : Z; ts_nanos : Z }.
(* Timestamp.CheckValid: 0001-01-01T00:00:00Z .. 9999-12-31T23:59:59Z, 0 <= nanos < 1e9 *)
Definition min_ts_seconds : Z := -62135596800.
Definition max_ts_seconds : Z := 253402300799.
Definition ts_valid (t : timestamp) : bool :=
  negb (ts_seconds t <? min_ts_seconds) && negb (ts_seconds t >? max_ts_seconds)
  && negb ((ts_nanos t <? 0) || (ts_nanos t >=? 1000000000)).
(* Timestamp.AsTime as an instant in ns *)
Definition ts_time (t : timestamp) : Z := ts_seconds t * 1000000000 + ts_nanos t.

(* keyspb.PublicKey: what the external parsers say about its DER bytes *)
Record pubkey := {
  pk_parses : bool;        (* x509.ParsePKIXPublicKey succeeds *)
  pk_verifier_ok : bool    (* ct.NewSignatureVerifier accepts the parsed key (RSA >= 2048 / ECDSA P-256) *)
}.

(* configpb.SignedTreeHead *)
Record sth := {
  sth_tree_size : Z;       (* int64 *)
  sth_timestamp : Z;       (* int64 *)
  sth_root_len : Z;        (* len(sha256_root_hash) *)
  sth_sig_parses : bool;   (* tls.Unmarshal of tree_head_signature as DigitallySigned, no trailing bytes *)
  sth_sig_verifies : bool  (* VerifySTHSignature under the configuration's public key *)
}.

Record LogConfig := {
  lc_log_id : Z;
  lc_prefix : string;
  lc_n_roots : Z;                        (* len(roots_pem_file) *)
  lc_private_key : option bool;          (* Any present; Some ok: UnmarshalNew succeeded *)
  lc_public_key : option pubkey;
  lc_reject_expired : bool;
  lc_reject_unexpired : bool;
  lc_ext_key_usages : list string;
  lc_not_after_start : option timestamp;
  lc_not_after_limit : option timestamp;
  lc_backend_name : string;
  lc_is_mirror : bool;
  lc_is_readonly : bool;
  lc_max_merge_delay : Z;                (* int32 *)
  lc_expected_merge_delay : Z;           (* int32 *)
  lc_frozen_sth : option sth;
  lc_conn : string;                      (* ctfe_storage_connection_string *)
  lc_storage_backend : Z                 (* enum, open: any int32 *)
}.

Record LogBackend := { be_name : string; be_spec : string }.

(* LogMultiConfig: both sub-messages are optional on the wire *)
Record LogMultiConfig := {
  mc_backends : option (list LogBackend);
  mc_log_configs : option (list LogConfig)
}.

Definition present {A} (o : option A) : option Z := option_map (fun _ => 0) o.

(* ------------------------------------------------------------------ EKU names *)

Definition eku_lookup (n : string) : option string :=
  option_map snd (find (fun kv => String.eqb (fst kv) n) eku_table).
Definition eku_any_const : string := "ExtKeyUsageAny".
Definition eku_is_any (n : string) : bool :=
  match eku_lookup n with Some v => String.eqb v eku_any_const | None => false end.

(* the loop over cfg.ExtKeyUsages: unknown name -> error; "Any" -> break *)
Fixpoint ekus_ok (names : list string) : bool :=
  match names with
  | [] => true
  | n :: r => match eku_lookup n with
              | None => false
              | Some v => if String.eqb v eku_any_const then true else ekus_ok r
              end
  end.

(* ------------------------------------------------------------------ ValidateLogConfig *)

Section Validate.
  (* mysql.ParseDSN / pgconn.ParseConfig succeed on this string *)
  Variable mysql_dsn_ok : string -> bool.
  Variable pg_config_ok : string -> bool.

  Definition check_log_id (c : LogConfig) : outcome :=
    if c_empty_log_id (lc_log_id c) then Reject else Accept.

  Definition check_public_key (c : LogConfig) : outcome :=
    match lc_public_key c with
    | Some pk => if pk_parses pk then Accept else Reject
    | None => if c_pub_absent_mirror (lc_is_mirror c) then Reject
              else if c_pub_absent_frozen (present (lc_frozen_sth c)) then Reject
              else Accept
    end.

  Definition check_private_key (c : LogConfig) : outcome :=
    if c_needs_private_key (lc_is_mirror c) then
      if c_priv_absent (lc_private_key c) then Reject
      else if oget false (lc_private_key c) then Accept else Reject
    else if c_mirror_has_priv (lc_private_key c) then Reject
    else Accept.

  Definition check_reject_all (c : LogConfig) : outcome :=
    if c_reject_all (lc_reject_expired c) (lc_reject_unexpired c) then Reject else Accept.

  Definition check_ekus (c : LogConfig) : outcome :=
    if ekus_ok (lc_ext_key_usages c) then Accept else Reject.

  Definition ts_invalid (o : option timestamp) : bool :=
    match o with Some t => negb (ts_valid t) | None => false end.

  Definition check_window (c : LogConfig) : outcome :=
    if ts_invalid (lc_not_after_start c) then Reject
    else if ts_invalid (lc_not_after_limit c) then Reject
    else if c_limit_before_start (option_map ts_time (lc_not_after_start c))
                                 (option_map ts_time (lc_not_after_limit c)) then Reject
    else Accept.

  Definition check_merge_delays (c : LogConfig) : outcome :=
    if merge_delay_rejected (lc_max_merge_delay c) (lc_expected_merge_delay c) then Reject else Accept.

  Definition verifier_available (c : LogConfig) : bool :=
    match lc_public_key c with Some pk => pk_verifier_ok pk | None => false end.

  Definition check_frozen (c : LogConfig) : outcome :=
    match lc_frozen_sth c with
    | None => Accept
    | Some s =>
        if negb (verifier_available c) then Reject           (* NewSignatureVerifier *)
        else if c_sth_bad_root_len (sth_root_len s) then Reject  (* ToSignedTreeHead *)
        else if negb (sth_sig_parses s) then Reject
        else if negb (sth_sig_verifies s) then Reject         (* VerifySTHSignature *)
        else Accept
    end.

  (* the CTFE arm of `switch cfg.ExtraDataIssuanceChainStorageBackend`; other values of the
     (open) enum have no arm and there is no default *)
  Definition check_conn (c : LogConfig) : outcome :=
    if lc_storage_backend c =? backend_CTFE then
      if c_missing_conn (slen (lc_conn c)) then Reject
      else if has_prefix (lc_conn c) "mysql" then
        let parts := split (lc_conn c) "://" in
        if c_mysql_no_sep (Z.of_nat (List.length parts)) then Reject
        else match nth_error parts 1 with
             | None => Panic                                   (* parts[1] *)
             | Some dsn => if mysql_dsn_ok dsn then Accept else Reject
             end
      else if has_prefix (lc_conn c) "postgres" then
        if pg_config_ok (lc_conn c) then Accept else Reject
      else Reject
    else Accept.

  Definition validate_log_config (c : LogConfig) : outcome :=
    check_log_id c ;; check_public_key c ;; check_private_key c ;; check_reject_all c ;;
    check_ekus c ;; check_window c ;; check_merge_delays c ;; check_frozen c ;; check_conn c.

  (* ---------------------------------------------------------------- config sets *)

  (* validateConfigs: per-log validation, non-empty and pairwise distinct prefixes *)
  Fixpoint validate_configs_from (seen : list string) (cfgs : list LogConfig) : outcome :=
    match cfgs with
    | [] => Accept
    | c :: r =>
        match validate_log_config c with
        | Accept =>
            if c_empty_prefix (slen (lc_prefix c)) then Reject
            else if mem_str (lc_prefix c) seen then Reject
            else validate_configs_from (lc_prefix c :: seen) r
        | o => o
        end
    end.
  Definition validate_configs := validate_configs_from [].

  Fixpoint tree_ids_unique_from (seen : list Z) (cfgs : list LogConfig) : outcome :=
    match cfgs with
    | [] => Accept
    | c :: r => if mem_Z (lc_log_id c) seen then Reject
                else tree_ids_unique_from (lc_log_id c :: seen) r
    end.

  (* ValidateLogConfigs *)
  Definition validate_log_configs (cfgs : list LogConfig) : outcome :=
    validate_configs cfgs ;; tree_ids_unique_from [] cfgs.

  (* BuildLogBackendMap *)
  Inductive bbm_result := BOk (names : list string) | BReject | BPanic.

  Fixpoint bbm_from (names specs : list string) (bes : list LogBackend) : option (list string) :=
    match bes with
    | [] => Some names
    | be :: r =>
        if c_empty_backend_name (slen (be_name be)) then None
        else if c_empty_backend_spec (slen (be_spec be)) then None
        else if mem_str (be_name be) names then None
        else if mem_str (be_spec be) specs then None
        else bbm_from (be_name be :: names) (be_spec be :: specs) r
    end.

  Definition build_backend_map (lbs : option (list LogBackend)) : bbm_result :=
    if c_backend_set_absent (present lbs) then BReject
    else match lbs with
         | None => BPanic                                      (* lbs.Backend on nil *)
         | Some bes => match bbm_from [] [] bes with Some ns => BOk ns | None => BReject end
         end.

  (* the second loop of ValidateLogMultiConfig: defined backend, tree id unique per backend.
     The key of the duplicate map is the PAIR (backend name, tree id)  [C15-3]. *)
  Definition log_id_key (c : LogConfig) : string * Z := (lc_backend_name c, lc_log_id c).

  Fixpoint check_backend_refs (names : list string) (seen : list (string * Z)) (cfgs : list LogConfig) : outcome :=
    match cfgs with
    | [] => Accept
    | c :: r =>
        if negb (mem_str (lc_backend_name c) names) then Reject
        else if mem_key (log_id_key c) seen then Reject
        else check_backend_refs names (log_id_key c :: seen) r
    end.

  (* cfg.GetLogConfigs().GetConfig(): nil-safe getters *)
  Definition get_configs (m : LogMultiConfig) : list LogConfig :=
    match mc_log_configs m with Some l => l | None => [] end.
  Definition get_backends (m : LogMultiConfig) : list LogBackend :=
    match mc_backends m with Some l => l | None => [] end.

  (* ValidateLogMultiConfig *)
  Definition validate_log_multi_config (m : LogMultiConfig) : outcome :=
    match build_backend_map (mc_backends m) with
    | BPanic => Panic
    | BReject => Reject
    | BOk names =>
        if c_log_configs_absent (present (mc_log_configs m)) then Reject
        else validate_configs (get_configs m) ;;
             match mc_log_configs m with
             | None => Panic                                   (* cfg.LogConfigs.Config on nil *)
             | Some cfgs => check_backend_refs names [] cfgs
             end
    end.

  (* ---------------------------------------------------------------- configuration files *)
  (* [parsed] is what prototext / proto Unmarshal produced (None: neither form parses). *)

  Definition log_config_from_file (parsed : option (list LogConfig)) : option (list LogConfig) :=
    match parsed with
    | None => None
    | Some cfgs => if c_file_no_configs (Z.of_nat (List.length cfgs)) then None else Some cfgs
    end.

  Definition multi_log_config_from_file (parsed : option LogMultiConfig) : option LogMultiConfig :=
    match parsed with
    | None => None
    | Some m => if c_file_multi_missing (Z.of_nat (List.length (get_configs m)))
                                        (Z.of_nat (List.length (get_backends m)))
                then None else Some m
    end.

  (* ToMultiLogConfig: every log refers to one backend named "default" *)
  Definition set_backend_name (n : string) (c : LogConfig) : LogConfig :=
    {| lc_log_id := lc_log_id c; lc_prefix := lc_prefix c; lc_n_roots := lc_n_roots c;
       lc_private_key := lc_private_key c; lc_public_key := lc_public_key c;
       lc_reject_expired := lc_reject_expired c; lc_reject_unexpired := lc_reject_unexpired c;
       lc_ext_key_usages := lc_ext_key_usages c; lc_not_after_start := lc_not_after_start c;
       lc_not_after_limit := lc_not_after_limit c; lc_backend_name := n;
       lc_is_mirror := lc_is_mirror c; lc_is_readonly := lc_is_readonly c;
       lc_max_merge_delay := lc_max_merge_delay c; lc_expected_merge_delay := lc_expected_merge_delay c;
       lc_frozen_sth := lc_frozen_sth c; lc_conn := lc_conn c; lc_storage_backend := lc_storage_backend c |}.

  Definition to_multi_log_config (cfgs : list LogConfig) (spec : string) : LogMultiConfig :=
    {| mc_backends := Some [ {| be_name := "default"; be_spec := spec |} ];
       mc_log_configs := Some (map (set_backend_name "default") cfgs) |}.

  (* the three ways ct_server turns a file into a verdict *)
  Definition file_single (parsed : option (list LogConfig)) : outcome :=
    match log_config_from_file parsed with None => Reject | Some cfgs => validate_log_configs cfgs end.
  Definition file_single_as_multi (parsed : option (list LogConfig)) (spec : string) : outcome :=
    match log_config_from_file parsed with
    | None => Reject
    | Some cfgs => validate_log_multi_config (to_multi_log_config cfgs spec)
    end.
  Definition file_multi (parsed : option LogMultiConfig) : outcome :=
    match multi_log_config_from_file parsed with None => Reject | Some m => validate_log_multi_config m end.

End Validate.

(* ------------------------------------------------------------------ the instance *)

(* outcomes of the external steps of setUpLogInfo *)
Record setup_env := {
  se_roots_load_ok : bool;   (* every roots_pem_file loads *)
  se_signer_ok : bool;       (* keys.NewSigner succeeds on the private key *)
  se_key_match : bool;       (* the configured public key is ECDSA/Ed25519/RSA and equals the signer's *)
  se_oids_ok : bool          (* reject_extensions parse as OIDs *)
}.

Inductive getter := GFrozen (s : sth) | GMirror | GLog | GUnknown.

Record instance := { i_handlers : list string; i_getter : getter }.

(* newLogInfo: the generated switch names the getter type *)
Definition getter_of (c : LogConfig) : getter :=
  let name := select_sth_getter (is_some (lc_frozen_sth c)) (lc_is_mirror c) in
  if String.eqb name "FrozenSTHGetter" then
    match lc_frozen_sth c with Some s => GFrozen s | None => GUnknown end
  else if String.eqb name "MirrorSTHGetter" then GMirror
  else if String.eqb name "LogSTHGetter" then GLog
  else GUnknown.

(* logInfo.Handlers(prefix) *)
Definition norm_prefix (p : string) : string :=
  trim_right_slash (if has_prefix p "/" then p else "/" ++ p).

Definition handler_keys (c : LogConfig) : list string :=
  let np := norm_prefix (lc_prefix c) in
  let all := map (append np) handler_paths in
  if c_drop_add_endpoints (lc_is_readonly c) (lc_is_mirror c)
  then filter (fun k => negb (mem_str k (map (append np) dropped_paths))) all
  else all.

(* setUpLogInfo + SetUpInstance, for a configuration that ValidateLogConfig accepted *)
Definition set_up_instance (c : LogConfig) (e : setup_env) : option instance :=
  if c_roots_missing (lc_is_mirror c) (lc_n_roots c) then None
  else if negb (se_roots_load_ok e) then None
  else if negb (lc_is_mirror c) && (negb (se_signer_ok e) || (is_some (lc_public_key c) && negb (se_key_match e))) then None
  else if negb (se_oids_ok e) then None
  else if negb (mem_Z (lc_storage_backend c) setup_storage_arms) then None
  else if (lc_storage_backend c =? backend_CTFE)
          && negb (has_prefix (lc_conn c) "mysql" || has_prefix (lc_conn c) "postgres") then None
  else Some {| i_handlers := handler_keys c; i_getter := getter_of c |}.

(* ------------------------------------------------------------------ get-sth *)

Inductive backend_reply := BRoot (tree_size timestamp_nanos : Z) | BErr.
Inductive storage_reply := SSth (tree_size timestamp : Z) | SNil | SErr.
Inductive sth_result := SthOk (tree_size timestamp : Z) | SthErr | SthPanic.

Record sth_run := {
  r_result : sth_result;
  r_backend_calls : Z;             (* GetLatestSignedLogRoot RPCs issued *)
  r_storage_arg : option Z         (* maxTreeSize handed to MirrorSTHStorage.GetMirrorSTH *)
}.

(* STHGetter.GetSTH followed by logInfo.getSTH (which dereferences the STH for its metrics).
   [backend]: reply of GetLatestSignedLogRoot after getSignedLogRoot's checks;
   [storage]: the MirrorSTHStorage; [sign_ok]: signing succeeds with a non-empty signature. *)
Definition get_sth (g : getter) (backend : backend_reply) (storage : Z -> storage_reply) (sign_ok : bool) : sth_run :=
  match g with
  | GFrozen s =>
      {| r_result := SthOk (wrapu (sth_tree_size s)) (wrapu (sth_timestamp s));
         r_backend_calls := 0; r_storage_arg := None |}
  | GMirror =>
      match backend with
      | BErr => {| r_result := SthErr; r_backend_calls := 1; r_storage_arg := None |}
      | BRoot n _ =>
          let arg := wrap64 n in                              (* int64(currentRoot.TreeSize) *)
          {| r_result := match storage arg with
                         | SSth sz ts => SthOk sz ts
                         | SNil => SthPanic                   (* sth.Timestamp on nil *)
                         | SErr => SthErr
                         end;
             r_backend_calls := 1; r_storage_arg := Some arg |}
      end
  | GLog =>
      match backend with
      | BErr => {| r_result := SthErr; r_backend_calls := 1; r_storage_arg := None |}
      | BRoot n t =>
          {| r_result := if sign_ok then SthOk n (t / 1000 / 1000) else SthErr;
             r_backend_calls := 1; r_storage_arg := None |}
      end
  | GUnknown => {| r_result := SthPanic; r_backend_calls := 0; r_storage_arg := None |}
  end.

(* ------------------------------------------------------------------ specification *)
(* Well-formedness, conjunct by conjunct, in the vocabulary of the property. *)

Definition known_eku (n : string) : Prop := In n (map fst eku_table).

(* every name up to and including the first "Any" is known (the code stops reading there) *)
Fixpoint ekus_wellformed (names : list string) : Prop :=
  match names with
  | [] => True
  | n :: r => known_eku n /\ (eku_is_any n = true \/ ekus_wellformed r)
  end.

Section Spec.
  Variable mysql_dsn_ok : string -> bool.
  Variable pg_config_ok : string -> bool.

  Definition wf_log_id (c : LogConfig) : Prop := lc_log_id c <> 0.

  (* a public key, when given, parses; it may be omitted only by a non-mirror without frozen STH *)
  Definition wf_public_key (c : LogConfig) : Prop :=
    match lc_public_key c with
    | Some pk => pk_parses pk = true
    | None => lc_is_mirror c = false /\ lc_frozen_sth c = None
    end.

  (* mirror: no private key; otherwise: a private key that unmarshals *)
  Definition wf_private_key (c : LogConfig) : Prop :=
    if lc_is_mirror c then lc_private_key c = None else lc_private_key c = Some true.

  Definition wf_not_reject_all (c : LogConfig) : Prop :=
    ~ (lc_reject_expired c = true /\ lc_reject_unexpired c = true).

  Definition wf_ekus (c : LogConfig) : Prop := ekus_wellformed (lc_ext_key_usages c).

  (* both bounds valid timestamps; ordered = NOT (limit before start); limit = start is accepted *)
  Definition wf_window (c : LogConfig) : Prop :=
    (forall t, lc_not_after_start c = Some t -> ts_valid t = true) /\
    (forall t, lc_not_after_limit c = Some t -> ts_valid t = true) /\
    (forall s l, lc_not_after_start c = Some s -> lc_not_after_limit c = Some l -> ts_time s <= ts_time l).

  Definition wf_merge_delays (c : LogConfig) : Prop :=
    0 <= lc_max_merge_delay c /\ 0 <= lc_expected_merge_delay c /\
    lc_expected_merge_delay c <= lc_max_merge_delay c.

  (* frozen STH: well-formed and verifies under the (usable) public key *)
  Definition wf_frozen (c : LogConfig) : Prop :=
    forall s, lc_frozen_sth c = Some s ->
      (exists pk, lc_public_key c = Some pk /\ pk_verifier_ok pk = true) /\
      sth_root_len s = 32 /\ sth_sig_parses s = true /\ sth_sig_verifies s = true.

  (* external storage selected => a connection string the validator can use:
     mysql...  with a "://" whose following piece parses as a DSN, or postgres... that parses *)
  Definition wf_conn (c : LogConfig) : Prop :=
    lc_storage_backend c = backend_CTFE ->
      lc_conn c <> "" /\
      ((has_prefix (lc_conn c) "mysql" = true /\
        exists dsn, nth_error (split (lc_conn c) "://") 1 = Some dsn /\ mysql_dsn_ok dsn = true)
       \/
       (has_prefix (lc_conn c) "mysql" = false /\ has_prefix (lc_conn c) "postgres" = true /\
        pg_config_ok (lc_conn c) = true)).

  Definition wellformed_log (c : LogConfig) : Prop :=
    wf_log_id c /\ wf_public_key c /\ wf_private_key c /\ wf_not_reject_all c /\ wf_ekus c /\
    wf_window c /\ wf_merge_delays c /\ wf_frozen c /\ wf_conn c.

  Definition wf_prefixes (cfgs : list LogConfig) : Prop :=
    Forall (fun c => lc_prefix c <> "") cfgs /\ NoDup (map lc_prefix cfgs).

  (* single-backend set (ValidateLogConfigs): tree ids globally unique *)
  Definition wellformed_configs (cfgs : list LogConfig) : Prop :=
    Forall wellformed_log cfgs /\ wf_prefixes cfgs /\ NoDup (map lc_log_id cfgs).

  Definition wf_backends (bes : list LogBackend) : Prop :=
    Forall (fun be => be_name be <> "" /\ be_spec be <> "") bes /\
    NoDup (map be_name bes) /\ NoDup (map be_spec bes).

  Definition wellformed_multi (m : LogMultiConfig) : Prop :=
    exists bes cfgs,
      mc_backends m = Some bes /\ mc_log_configs m = Some cfgs /\
      wf_backends bes /\
      Forall wellformed_log cfgs /\ wf_prefixes cfgs /\
      Forall (fun c => In (lc_backend_name c) (map be_name bes)) cfgs /\
      NoDup (map (fun c => (lc_backend_name c, lc_log_id c)) cfgs).
End Spec.

(* a MirrorSTHStorage that honours its contract: the largest known STH not above [max]
   (first one wins a tie), an error when there is none.  Used by the correspondence cases and
   as the non-vacuity witness of the contract. *)
Fixpoint best_le (max : Z) (best : option (Z * Z)) (sths : list (Z * Z)) : option (Z * Z) :=
  match sths with
  | [] => best
  | (sz, ts) :: r =>
      let better := match best with Some (b, _) => b <? sz | None => true end in
      best_le max (if (sz <=? max) && better then Some (sz, ts) else best) r
  end.
Definition honest_storage (sths : list (Z * Z)) (max : Z) : storage_reply :=
  match best_le max None sths with Some (sz, ts) => SSth sz ts | None => SErr end.

(* the MirrorSTHStorage contract the mirror getter relies on without checking it
   (sth.go: "GetMirrorSTH returns an STH of TreeSize <= maxTreeSize") *)
Definition storage_contract (storage : Z -> storage_reply) : Prop :=
  forall max sz ts, storage max = SSth sz ts -> 0 <= sz <= max.
