(* L4 lemmas, part 1: field parameters, the shape of what parseField consumes. *)
From Coq Require Import ZArith NArith List Bool Lia.
From Coq.Strings Require Import Byte.
From V Require Import Base.Bytes ASN1.DerBase ASN1.DerHeader ASN1.DerHeaderProofs ASN1.DerPrim ASN1.DerPrimProofs ASN1.DerModel.
Import ListNotations.
Local Open Scope Z_scope.

(* ------------------------------------------------------------------ parameters *)

Lemma p_lax_set_lax b p : p_lax (set_lax b p) = b.
Proof. destruct p; reflexivity. Qed.
(* the two places where the flag is handed down *)
Lemma p_lax_field_params v toks b : p_lax (field_params v toks b) = b.
Proof. apply p_lax_set_lax. Qed.
Lemma p_lax_elem_params b : p_lax (elem_params b) = b.
Proof. apply p_lax_set_lax. Qed.

Definition wf_params (p : params) : Prop := p_explicit p = true -> p_tag p <> None.

Lemma apply_tok_wf v p k : wf_params p -> wf_params (apply_tok v p k).
Proof.
  unfold wf_params. destruct p as [o e a pr d t st ty s oe lx]. cbn [p_explicit p_tag].
  destruct k; cbn [apply_tok]; try destruct (is_upstream v); cbn [p_explicit p_tag];
    intros H He; try (specialize (H He)); destruct t; cbn in *; congruence.
Qed.
Lemma parse_params_wf v toks : wf_params (parse_params v toks).
Proof.
  unfold parse_params. assert (H : wf_params params0) by (intros H; discriminate).
  revert H. generalize params0. induction toks as [|k r IH]; intros p H; cbn [fold_left]; [exact H|].
  apply IH. apply apply_tok_wf. exact H.
Qed.
Lemma set_lax_wf b p : wf_params p -> wf_params (set_lax b p).
Proof. destruct p; unfold wf_params; cbn. auto. Qed.
Lemma field_params_wf v toks b : wf_params (field_params v toks b).
Proof. apply set_lax_wf, parse_params_wf. Qed.
Lemma elem_params_wf b : wf_params (elem_params b).
Proof. intros H. discriminate. Qed.

(* ------------------------------------------------------------------ shapes *)

(* parseTagAndLength in bind form *)
Lemma parse_tl_with_eq b128 d :
  parse_tl_with b128 d =
  match d with
  | [] => ErrOther
  | b :: r =>
      if bz b mod 32 =? 31 then
        bind (b128 r) (fun tr => if fst tr <? 31 then ErrSyntax
                                 else bind (parse_len (snd tr)) (fun lr => Ok (mkTl (bz b / 64) (fst tr) (fst lr) (Z.testbit (bz b) 5), snd lr)))
      else bind (parse_len r) (fun lr => Ok (mkTl (bz b / 64) (bz b mod 32) (fst lr) (Z.testbit (bz b) 5), snd lr))
  end.
Proof.
  unfold parse_tl_with. destruct d as [|b r]; [reflexivity|].
  destruct (bz b mod 32 =? 31).
  - destruct (b128 r) as [[tag' r']| | | | |]; cbn [bind fail fst snd]; try reflexivity.
    destruct (tag' <? 31); [reflexivity|]. destruct (parse_len r') as [[l r'']| | | | |]; reflexivity.
  - destruct (parse_len r) as [[l r'']| | | | |]; reflexivity.
Qed.

Lemma parse_tl_suffix v d h r : parse_tl v d = Ok (h, r) -> exists hb, d = hb ++ r /\ parse_tl v hb = Ok (h, []) /\ (2 <= length hb)%nat.
Proof.
  intros H. apply parse_tl_prefix in H. destruct H as (hb & -> & Hl & Hp). exists hb. split; [reflexivity|]. split; [|exact Hl].
  specialize (Hp []). rewrite app_nil_r in Hp. exact Hp.
Qed.

(* what header_phase returns when it hands over a content *)
Lemma header_phase_body v t p d h utag inner rest :
  header_phase (parse_base128 v) t p d = Ok (HBody h utag inner rest) ->
  exists pre hb, d = pre ++ hb ++ inner ++ rest /\ parse_tl v hb = Ok (h, []) /\ zlen inner = t_len h /\ (2 <= length hb)%nat.
Proof.
  unfold header_phase. intros H. apply bind_ok in H. destruct H as ([h0 r0] & E0 & H). cbn [fst snd] in H.
  apply bind_ok in H. destruct H as (e & Ee & H).
  change (parse_tl_with (parse_base128 v)) with (parse_tl v) in *.
  assert (Hcont : forall h1 r1 pre1 hb1, d = pre1 ++ hb1 ++ r1 -> parse_tl v hb1 = Ok (h1, []) -> (2 <= length hb1)%nat ->
                  match_phase t p h1 r1 = Ok (HBody h utag inner rest) ->
                  exists pre hb, d = pre ++ hb ++ inner ++ rest /\ parse_tl v hb = Ok (h, []) /\ zlen inner = t_len h /\ (2 <= length hb)%nat).
  { intros h1 r1 pre1 hb1 Hd Hh1 Hl1 Hm. unfold match_phase in Hm.
    destruct (universal t) as [[[ma ut] ct]|]; [|discriminate].
    destruct (_ || _); [destruct (p_optional p); discriminate|].
    destruct (Z.ltb_spec (zlen r1) (t_len h1)); [discriminate|].
    inversion Hm; subst h utag inner rest.
    pose proof (parse_tl_bound _ _ _ _ Hh1) as (_ & _ & Hlen).
    exists pre1, hb1. rewrite ztake_zdrop. split; [exact Hd|]. split; [exact Hh1|]. split; [apply ztake_len; lia|exact Hl1]. }
  apply parse_tl_suffix in E0. destruct E0 as (hb0 & Hd0 & Hh0 & Hl0).
  unfold explicit_phase in Ee. destruct (negb (p_explicit p)).
  - inversion Ee; subst e. apply (Hcont h0 r0 [] hb0); auto.
  - destruct r0 as [|b0 r0']; [discriminate|]. destruct (p_tag p) as [tg|]; [|discriminate].
    destruct (_ && _ && _).
    + destruct (is_raw t).
      * inversion Ee; subst e. apply (Hcont h0 (b0 :: r0') [] hb0); auto.
      * destruct (0 <? t_len h0).
        -- apply bind_ok in Ee. destruct Ee as ([h1 r1] & E1 & Ee). inversion Ee; subst e.
           change (parse_tl_with (parse_base128 v)) with (parse_tl v) in E1.
           apply parse_tl_suffix in E1. destruct E1 as (hb1 & Hd1 & Hh1 & Hl1).
           apply (Hcont h1 r1 hb0 hb1); auto. rewrite Hd0, Hd1. reflexivity.
        -- destruct (is_flag t); [|discriminate]. inversion Ee; subst e. discriminate.
    + destruct (p_optional p); [|discriminate]. inversion Ee; subst e. discriminate.
Qed.

Lemma header_phase_flag v t p d rest :
  header_phase (parse_base128 v) t p d = Ok (HFlagSet rest) -> exists hb, d = hb ++ rest /\ (2 <= length hb)%nat.
Proof.
  unfold header_phase. intros H. apply bind_ok in H. destruct H as ([h0 r0] & E0 & H). cbn [fst snd] in H.
  apply bind_ok in H. destruct H as (e & Ee & H).
  change (parse_tl_with (parse_base128 v)) with (parse_tl v) in *.
  apply parse_tl_suffix in E0. destruct E0 as (hb0 & Hd0 & Hh0 & Hl0).
  assert (Hm : forall h1 r1, match_phase t p h1 r1 <> Ok (HFlagSet rest)).
  { intros h1 r1. unfold match_phase. destruct (universal t) as [[[ma ut] ct]|]; [|discriminate].
    destruct (_ || _); [destruct (p_optional p); discriminate|]. destruct (_ <? _); discriminate. }
  unfold explicit_phase in Ee. destruct (negb (p_explicit p)).
  - inversion Ee; subst e. exfalso. eapply Hm; eauto.
  - destruct r0 as [|b0 r0']; [discriminate|]. destruct (p_tag p) as [tg|]; [|discriminate].
    destruct (_ && _ && _).
    + destruct (is_raw t).
      * inversion Ee; subst e. exfalso. eapply Hm; eauto.
      * destruct (0 <? t_len h0).
        -- apply bind_ok in Ee. destruct Ee as ([h1 r1] & E1 & Ee). inversion Ee; subst e. exfalso. eapply Hm; eauto.
        -- destruct (is_flag t); [|discriminate]. inversion Ee; subst e. inversion H; subst. exists hb0. auto.
    + destruct (p_optional p); [|discriminate]. inversion Ee; subst e. discriminate.
Qed.

Lemma parse_any_shape v G d x r :
  l_b128 G = parse_base128 v ->
  parse_any G d = Ok (x, r) ->
  exists hb c h, d = hb ++ c ++ r /\ parse_tl v hb = Ok (h, []) /\ zlen c = t_len h /\ (2 <= length hb)%nat.
Proof.
  unfold parse_any. intros Hb H. rewrite Hb in H. apply bind_ok in H. destruct H as ([h r0] & E0 & H). cbn [fst snd] in H.
  change (parse_tl_with (parse_base128 v)) with (parse_tl v) in E0.
  destruct (Z.ltb_spec (zlen r0) (t_len h)); [discriminate|].
  apply bind_ok in H. destruct H as (y & _ & H). inversion H; subst.
  pose proof (parse_tl_bound _ _ _ _ E0) as (_ & _ & Hlen).
  apply parse_tl_suffix in E0. destruct E0 as (hb & -> & Hh & Hl).
  exists hb, (ztake (t_len h) r0), h. rewrite ztake_zdrop. repeat split; auto. apply ztake_len. lia.
Qed.

(* the remainder returned by parseField is a suffix of its input *)
Lemma parse_field_suffix v0 v L t p d x r :
  (forall b, l_b128 (L b) = parse_base128 v) ->
  parse_field v0 L t p d = Ok (x, r) -> exists hd, d = hd ++ r.
Proof.
  intros HL H. destruct d as [|b0 d0].
  - destruct t; cbn in H; destruct (p_optional p); try discriminate; inversion H; exists []; reflexivity.
  - assert (Hgen : forall k : hstep -> res (val * bytes),
             (forall st, k st = Ok (x, r) -> st = HDefault /\ r = b0 :: d0 \/ (exists rr, st = HFlagSet rr /\ r = rr) \/
                         (exists h u i rr, st = HBody h u i rr /\ r = rr)) ->
             bind (header_phase (parse_base128 v) t p (b0 :: d0)) k = Ok (x, r) -> exists hd, b0 :: d0 = hd ++ r).
    { intros k Hk Hb. apply bind_ok in Hb. destruct Hb as (st & Eh & Hst). apply Hk in Hst.
      destruct Hst as [[-> ->]|[(rr & -> & ->)|(h & u & i & rr & -> & ->)]].
      - exists []. reflexivity.
      - apply header_phase_flag in Eh. destruct Eh as (hb & -> & _). eauto.
      - apply header_phase_body in Eh. destruct Eh as (pre & hb & -> & _). exists (pre ++ hb ++ i). repeat rewrite <- app_assoc. reflexivity. }
    destruct t; cbn [parse_field] in H; rewrite ?HL in H;
      try (apply Hgen in H; [exact H|]; intros st Hst; destruct st as [|rr|h u i rr];
           [inversion Hst; left; auto | inversion Hst; right; left; eauto |
            right; right; apply bind_ok in Hst; destruct Hst as (y & _ & Hy); inversion Hy; subst; eauto 8]).
    apply (parse_any_shape v) in H; [|apply HL]. destruct H as (hb & c & h & -> & _). exists (hb ++ c). rewrite <- app_assoc. reflexivity.
Qed.
