(* C15: lemmas about CTFE/ConfigModel.v - single-log validation. *)
From Coq Require Import ZArith Bool List String Ascii Lia ZifyBool.
From V Require Import Base.GoInt gen.Config gen.ConfigTables CTFE.ConfigModel.
Import ListNotations.
Open Scope string_scope.
Open Scope Z_scope.
Open Scope bool_scope.

(* ------------------------------------------------------------------ outcomes *)

Lemma seq_accept a k : a ;; k = Accept <-> a = Accept /\ k = Accept.
Proof. destruct a; simpl; intuition congruence. Qed.

Lemma seq_no_panic a k : a <> Panic -> k <> Panic -> a ;; k <> Panic.
Proof. destruct a; simpl; congruence. Qed.

(* ------------------------------------------------------------------ membership *)

Lemma mem_str_In x l : mem_str x l = true <-> In x l.
Proof.
  unfold mem_str. rewrite existsb_exists. split.
  - intros [y [Hy He]]. apply String.eqb_eq in He. subst. exact Hy.
  - intros H. exists x. split; [exact H | apply String.eqb_refl].
Qed.

Lemma mem_str_false x l : mem_str x l = false <-> ~ In x l.
Proof. rewrite <- mem_str_In. destruct (mem_str x l); split; congruence. Qed.

Lemma mem_Z_In x l : mem_Z x l = true <-> In x l.
Proof.
  unfold mem_Z. rewrite existsb_exists. split.
  - intros [y [Hy He]]. apply Z.eqb_eq in He. subst. exact Hy.
  - intros H. exists x. split; [exact H | apply Z.eqb_refl].
Qed.

Lemma key_eqb_eq a b : key_eqb a b = true <-> a = b.
Proof.
  destruct a as [s i], b as [t j]. unfold key_eqb. simpl. rewrite andb_true_iff, String.eqb_eq, Z.eqb_eq.
  split; [intros [-> ->]; reflexivity | intros H; inversion H; auto].
Qed.

Lemma mem_key_In x l : mem_key x l = true <-> In x l.
Proof.
  unfold mem_key. rewrite existsb_exists. split.
  - intros [y [Hy He]]. apply key_eqb_eq in He. subst. exact Hy.
  - intros H. exists x. split; [exact H | apply key_eqb_eq; reflexivity].
Qed.

Lemma slen_zero s : (slen s =? 0) = true <-> s = "".
Proof. unfold slen. destruct s; simpl; split; intros H; try reflexivity; try discriminate; lia. Qed.

Lemma slen_zero_false s : (slen s =? 0) = false <-> s <> "".
Proof. rewrite <- slen_zero. destruct (slen s =? 0); split; congruence. Qed.

(* "no duplicates, and nothing already seen" - the shape of every duplicate-detecting loop *)
Section Fresh.
  Context {A : Type} (mem : A -> list A -> bool).
  Hypothesis mem_In : forall x l, mem x l = true <-> In x l.

  Fixpoint fresh_from (seen l : list A) : bool :=
    match l with
    | [] => true
    | x :: r => negb (mem x seen) && fresh_from (x :: seen) r
    end.

  Lemma fresh_from_spec l : forall seen,
    fresh_from seen l = true <-> NoDup l /\ (forall x, In x l -> ~ In x seen).
  Proof.
    induction l as [|x r IH]; intros seen; simpl.
    - split; [intros _; split; [constructor | tauto] | reflexivity].
    - rewrite andb_true_iff, negb_true_iff, IH. split.
      + intros [Hm [Hnd Hs]]. split.
        * constructor; [| exact Hnd]. intros Hin. apply (Hs x Hin). left. reflexivity.
        * intros y [<- | Hy].
          -- intros Hin. apply mem_In in Hin. congruence.
          -- intros Hin. apply (Hs y Hy). right. exact Hin.
      + intros [Hnd Hs]. inversion Hnd as [|? ? Hnotin Hnd']; subst. repeat split.
        * destruct (mem x seen) eqn:E; [| reflexivity]. apply mem_In in E. exfalso. apply (Hs x); auto.
        * exact Hnd'.
        * intros y Hy [<- | Hin]; [contradiction | apply (Hs y); auto].
  Qed.

  Lemma fresh_from_nil l : fresh_from [] l = true <-> NoDup l.
  Proof. rewrite fresh_from_spec. split; [tauto | intros H; split; [exact H | intros ? ? []]]. Qed.
End Fresh.

(* ------------------------------------------------------------------ EKU names *)

Section Table.
  Variable tbl : list (string * string).
  Definition lookup_in (n : string) : option string :=
    option_map snd (find (fun kv => String.eqb (fst kv) n) tbl).

  Lemma lookup_in_some n v : lookup_in n = Some v -> In (n, v) tbl.
  Proof.
    unfold lookup_in. destruct (find _ tbl) as [[k w]|] eqn:E; cbn [option_map snd]; [| discriminate].
    intros H; inversion H; subst. apply find_some in E. destruct E as [Hin He]. cbn [fst] in He.
    apply String.eqb_eq in He. subst. exact Hin.
  Qed.

  Lemma lookup_in_none n : lookup_in n = None -> ~ In n (map fst tbl).
  Proof.
    unfold lookup_in. destruct (find _ tbl) as [kv|] eqn:E; cbn [option_map]; [discriminate|].
    intros _ Hin. apply in_map_iff in Hin. destruct Hin as [[k w] [Hk Hin]]. cbn [fst] in Hk. subst.
    pose proof (find_none _ _ E _ Hin) as H. cbn [fst] in H. rewrite String.eqb_refl in H. discriminate.
  Qed.
End Table.

Lemma eku_lookup_some n v : eku_lookup n = Some v -> In (n, v) eku_table.
Proof. exact (lookup_in_some eku_table n v). Qed.

Lemma eku_lookup_none n : eku_lookup n = None -> ~ known_eku n.
Proof. exact (lookup_in_none eku_table n). Qed.

Lemma known_eku_iff n : known_eku n <-> exists v, eku_lookup n = Some v.
Proof.
  split.
  - intros H. destruct (eku_lookup n) eqn:E; [eauto |]. exfalso. exact (eku_lookup_none _ E H).
  - intros [v Hv]. apply eku_lookup_some in Hv. unfold known_eku. apply in_map_iff. exists (n, v). auto.
Qed.

Lemma ekus_ok_iff names : ekus_ok names = true <-> ekus_wellformed names.
Proof.
  induction names as [|n r IH]; simpl; [tauto|].
  unfold eku_is_any. destruct (eku_lookup n) as [v|] eqn:E.
  - assert (K : known_eku n) by (apply known_eku_iff; eauto).
    destruct (String.eqb v eku_any_const) eqn:Ea.
    + split; [intros _; split; [exact K | left; reflexivity] | reflexivity].
    + rewrite IH. split; [intros H; split; [exact K | right; exact H] | intros [_ [H | H]]; [discriminate | exact H]].
  - split; [discriminate | intros [K _]; exfalso; exact (eku_lookup_none _ E K)].
Qed.

(* ------------------------------------------------------------------ single checks *)

Section Checks.
  Variable mysql_dsn_ok : string -> bool.
  Variable pg_config_ok : string -> bool.
  Notation check_conn := (check_conn mysql_dsn_ok pg_config_ok).
  Notation validate_log_config := (validate_log_config mysql_dsn_ok pg_config_ok).
  Notation wf_conn := (wf_conn mysql_dsn_ok pg_config_ok).
  Notation wellformed_log := (wellformed_log mysql_dsn_ok pg_config_ok).

  Lemma check_log_id_iff c : check_log_id c = Accept <-> wf_log_id c.
  Proof.
    unfold check_log_id, wf_log_id, c_empty_log_id.
    destruct (lc_log_id c =? 0) eqn:E; split; intros H; try discriminate; try reflexivity; lia.
  Qed.

  Lemma check_public_key_iff c : check_public_key c = Accept <-> wf_public_key c.
  Proof.
    unfold check_public_key, wf_public_key, c_pub_absent_mirror, c_pub_absent_frozen, present.
    destruct (lc_public_key c) as [pk|].
    - destruct (pk_parses pk); split; intros H; congruence.
    - destruct (lc_is_mirror c); [split; [discriminate | intros [H _]; discriminate]|].
      destruct (lc_frozen_sth c); simpl; split; intros H; try discriminate; try tauto.
      destruct H as [_ H]. discriminate.
  Qed.

  Lemma check_private_key_iff c : check_private_key c = Accept <-> wf_private_key c.
  Proof.
    unfold check_private_key, wf_private_key, c_needs_private_key, c_priv_absent, c_mirror_has_priv.
    destruct (lc_is_mirror c); simpl; destruct (lc_private_key c) as [[|]|]; simpl; split; intros H;
      congruence.
  Qed.

  Lemma check_reject_all_iff c : check_reject_all c = Accept <-> wf_not_reject_all c.
  Proof.
    unfold check_reject_all, wf_not_reject_all, c_reject_all.
    destruct (lc_reject_expired c), (lc_reject_unexpired c); simpl; split; intros H;
      try discriminate; try reflexivity; try (intros [? ?]; discriminate).
    exfalso. apply H. split; reflexivity.
  Qed.

  Lemma check_ekus_iff c : check_ekus c = Accept <-> wf_ekus c.
  Proof.
    unfold check_ekus, wf_ekus. rewrite <- ekus_ok_iff.
    destruct (ekus_ok (lc_ext_key_usages c)); split; congruence.
  Qed.

  Lemma check_window_iff c : check_window c = Accept <-> wf_window c.
  Proof.
    unfold check_window, wf_window, ts_invalid, c_limit_before_start.
    destruct (lc_not_after_start c) as [s|], (lc_not_after_limit c) as [l|]; simpl.
    - destruct (ts_valid s) eqn:Es; simpl.
      + destruct (ts_valid l) eqn:El; simpl.
        * destruct (ts_time l <? ts_time s) eqn:Eo; split; intros H; try discriminate; try reflexivity.
          -- destruct H as [_ [_ H]]. specialize (H s l eq_refl eq_refl). lia.
          -- repeat split; intros; repeat match goal with H : Some _ = Some _ |- _ => inversion H; subst; clear H end; try assumption; lia.
        * split; [discriminate | intros [_ [H _]]]. specialize (H l eq_refl). congruence.
      + split; [discriminate | intros [H _]]. specialize (H s eq_refl). congruence.
    - destruct (ts_valid s) eqn:Es; simpl; split; intros H; try discriminate; try reflexivity.
      + repeat split; intros; try discriminate. inversion H0; subst; assumption.
      + destruct H as [H _]. specialize (H s eq_refl). congruence.
    - destruct (ts_valid l) eqn:El; simpl; split; intros H; try discriminate; try reflexivity.
      + repeat split; intros; try discriminate. inversion H0; subst; assumption.
      + destruct H as [_ [H _]]. specialize (H l eq_refl). congruence.
    - split; [intros _ | reflexivity]. repeat split; intros; discriminate.
  Qed.

  Lemma check_merge_delays_iff c : check_merge_delays c = Accept <-> wf_merge_delays c.
  Proof.
    unfold check_merge_delays, wf_merge_delays, merge_delay_rejected.
    destruct (_ || _) eqn:E; split; intros H; try discriminate; try reflexivity; lia.
  Qed.

  Lemma check_frozen_iff c : check_frozen c = Accept <-> wf_frozen c.
  Proof.
    unfold check_frozen, wf_frozen, verifier_available, c_sth_bad_root_len.
    destruct (lc_frozen_sth c) as [s|]; [| split; [intros _ ? H; discriminate | reflexivity]].
    split.
    - intros H s' Hs'. inversion Hs'; subst s'; clear Hs'.
      destruct (lc_public_key c) as [pk|]; simpl in H; [| discriminate].
      destruct (pk_verifier_ok pk) eqn:Ev; simpl in H; [| discriminate].
      destruct (sth_root_len s =? 32) eqn:Er; simpl in H; [| discriminate].
      destruct (sth_sig_parses s) eqn:Ep; simpl in H; [| discriminate].
      destruct (sth_sig_verifies s) eqn:Es; simpl in H; [| discriminate].
      repeat split; try reflexivity; [exists pk; auto | lia].
    - intros H. destruct (H s eq_refl) as [[pk [Hpk Hv]] [Hr [Hp Hs]]].
      rewrite Hpk, Hv, Hp, Hs. simpl. replace (sth_root_len s =? 32) with true by lia. reflexivity.
  Qed.

  Lemma nth_error_1_of_length {A} (l : list A) :
    (Z.of_nat (List.length l) <? 2) = false -> exists x, nth_error l 1 = Some x.
  Proof.
    intros H. destruct l as [|a [|b r]]; simpl in *; try lia. exists b. reflexivity.
  Qed.

  Lemma check_conn_iff c : check_conn c = Accept <-> wf_conn c.
  Proof.
    unfold check_conn, wf_conn, c_missing_conn, c_mysql_no_sep.
    destruct (lc_storage_backend c =? backend_CTFE) eqn:Eb.
    2:{ split; [intros _ Hb; lia | reflexivity]. }
    assert (Hb : lc_storage_backend c = backend_CTFE) by lia.
    destruct (slen (lc_conn c) =? 0) eqn:El.
    { apply slen_zero in El. split; [discriminate | intros H]. destruct (H Hb) as [Hne _]. contradiction. }
    apply slen_zero_false in El.
    destruct (has_prefix (lc_conn c) "mysql") eqn:Em.
    - destruct (Z.of_nat (List.length (split (lc_conn c) "://")) <? 2) eqn:En.
      + split; [discriminate | intros H]. destruct (H Hb) as [_ [[_ [dsn [Hd _]]] | [Hf _]]]; [| discriminate].
        exfalso. destruct (split (lc_conn c) "://") as [|a [|b r]]; simpl in *; try discriminate; lia.
      + destruct (nth_error_1_of_length _ En) as [dsn Hd]. rewrite Hd.
        destruct (mysql_dsn_ok dsn) eqn:Eo; split; intros H; try discriminate; try reflexivity.
        * intros _. split; [exact El | left]. split; [reflexivity | exists dsn; auto].
        * destruct (H Hb) as [_ [[_ [dsn' [Hd' Ho]]] | [Hf _]]]; [| discriminate]. congruence.
    - destruct (has_prefix (lc_conn c) "postgres") eqn:Ep.
      + destruct (pg_config_ok (lc_conn c)) eqn:Eo; split; intros H; try discriminate; try reflexivity.
        * intros _. split; [exact El | right]. auto.
        * destruct (H Hb) as [_ [[Hf _] | [_ [_ Ho]]]]; congruence.
      + split; [discriminate | intros H]. destruct (H Hb) as [_ [[Hf _] | [_ [Hf _]]]]; discriminate.
  Qed.

  Lemma validate_log_config_iff c : validate_log_config c = Accept <-> wellformed_log c.
  Proof.
    unfold validate_log_config, wellformed_log. repeat rewrite seq_accept.
    rewrite check_log_id_iff, check_public_key_iff, check_private_key_iff, check_reject_all_iff,
      check_ekus_iff, check_window_iff, check_merge_delays_iff, check_frozen_iff, check_conn_iff.
    tauto.
  Qed.

  (* ---------------------------------------------------------------- totality *)

  Lemma check_conn_no_panic c : check_conn c <> Panic.
  Proof.
    unfold check_conn, c_mysql_no_sep.
    destruct (lc_storage_backend c =? backend_CTFE); [| discriminate].
    destruct (c_missing_conn _); [discriminate|].
    destruct (has_prefix (lc_conn c) "mysql").
    - destruct (Z.of_nat (List.length (split (lc_conn c) "://")) <? 2) eqn:En; [discriminate|].
      destruct (nth_error_1_of_length _ En) as [dsn ->]. destruct (mysql_dsn_ok dsn); discriminate.
    - destruct (has_prefix (lc_conn c) "postgres"); [destruct (pg_config_ok _)|]; discriminate.
  Qed.

  Lemma validate_log_config_no_panic c : validate_log_config c <> Panic.
  Proof.
    unfold validate_log_config. repeat apply seq_no_panic.
    - unfold check_log_id. destruct (c_empty_log_id _); discriminate.
    - unfold check_public_key. destruct (lc_public_key c) as [pk|];
        [destruct (pk_parses pk) | destruct (c_pub_absent_mirror _); [| destruct (c_pub_absent_frozen _)]]; discriminate.
    - unfold check_private_key. destruct (c_needs_private_key _);
        [destruct (c_priv_absent _); [| destruct (oget false _)] | destruct (c_mirror_has_priv _)]; discriminate.
    - unfold check_reject_all. destruct (c_reject_all _ _); discriminate.
    - unfold check_ekus. destruct (ekus_ok _); discriminate.
    - unfold check_window. destruct (ts_invalid _); [| destruct (ts_invalid _); [| destruct (c_limit_before_start _ _)]]; discriminate.
    - unfold check_merge_delays. destruct (merge_delay_rejected _ _); discriminate.
    - unfold check_frozen. destruct (lc_frozen_sth c) as [s|]; [| discriminate].
      destruct (negb _); [| destruct (c_sth_bad_root_len _); [| destruct (negb _); [| destruct (negb _)]]]; discriminate.
    - apply check_conn_no_panic.
  Qed.
End Checks.

(* ------------------------------------------------------------------ strings.Split *)
(* a string in which the separator does not occur is returned as the single piece *)

Lemma str_app_nil_r s : s ++ "" = s.
Proof. induction s; simpl; congruence. Qed.

Lemma str_app_assoc a b c : (a ++ b) ++ c = a ++ (b ++ c).
Proof. induction a; simpl; congruence. Qed.

Lemma prefix_exists p : forall s, String.prefix p s = true <-> exists b, s = p ++ b.
Proof.
  induction p as [|c p IH]; intros s; simpl.
  - split; [intros _; exists s; reflexivity | intros _; destruct s; reflexivity].
  - destruct s as [|c' s']; [split; [discriminate | intros [b H]; discriminate]|].
    simpl. destruct (ascii_dec c c') as [E|Hne].
    + subst c'. rewrite IH. split; intros [b H]; exists b; [subst; reflexivity | inversion H; reflexivity].
    + split; [discriminate | intros [b H]; inversion H; congruence].
Qed.

Definition occurs (sep s : string) : Prop := exists a b, s = a ++ sep ++ b.

Lemma split_go_no_occurrence sep : forall s acc,
  ~ occurs sep s -> split_go sep 0 acc s = [acc ++ s].
Proof.
  induction s as [|c s IH]; intros acc Hno; cbn [split_go].
  - rewrite str_app_nil_r. reflexivity.
  - destruct (String.prefix sep (String c s)) eqn:Ep.
    + exfalso. apply prefix_exists in Ep. destruct Ep as [b Hb]. apply Hno. exists "", b. exact Hb.
    + rewrite IH.
      * rewrite str_app_assoc. reflexivity.
      * intros [a [b H]]. apply Hno. exists (String c a), b. simpl. rewrite H. reflexivity.
Qed.

Lemma split_no_occurrence sep s : ~ occurs sep s -> split s sep = [s].
Proof. intros H. unfold split. rewrite split_go_no_occurrence by exact H. reflexivity. Qed.

Lemma has_prefix_nonempty s p : p <> "" -> has_prefix s p = true -> s <> "".
Proof.
  unfold has_prefix. intros Hp H. apply prefix_exists in H. destruct H as [b ->].
  destruct p; [contradiction | discriminate].
Qed.

(* the generated EKU table contains exactly the documented names *)
Definition documented_eku_names : list string :=
  ["Any"; "ServerAuth"; "ClientAuth"; "CodeSigning"; "EmailProtection"; "IPSECEndSystem";
   "IPSECTunnel"; "IPSECUser"; "TimeStamping"; "OCSPSigning"; "MicrosoftServerGatedCrypto";
   "NetscapeServerGatedCrypto"].

Lemma known_eku_names_lemma n : known_eku n <-> In n documented_eku_names.
Proof.
  unfold known_eku.
  assert (H1 : forallb (fun x => mem_str x documented_eku_names) (map fst eku_table) = true) by (vm_compute; reflexivity).
  assert (H2 : forallb (fun x => mem_str x (map fst eku_table)) documented_eku_names = true) by (vm_compute; reflexivity).
  rewrite forallb_forall in H1, H2. split; intros H.
  - apply mem_str_In. apply H1. exact H.
  - apply mem_str_In. apply H2. exact H.
Qed.
