(* What the property's sentences mean on the model's vocabulary (Prop definitions only). *)
From Coq Require Import String NArith ZArith List Bool.
From V Require Import Base.Bytes Base.GoInt TLS.TlsModel gen.CtTypes CT.Rfc6962Spec CT.CtFuncs Client.ClientModel.
Import ListNotations.

(* a response arrived (and its body was closed cleanly): this status, these body bytes *)
Definition received {F} (o : outcome F) (st : Z) (b : N) : Prop :=
  exists r, o = Resp r /\ r_close_ok r = true /\ r_status r = st /\ r_body r = b.

(* the only kind of response a result may come from: 200, body read completely, JSON decoded to f *)
Definition good_response {F} (o : outcome F) (f : F) : Prop :=
  exists r, o = Resp r /\ r_close_ok r = true /\ r_read_ok r = true /\ r_status r = 200%Z /\ r_json r = Some f.

(* no usable response: the transport failed, or closing the body failed *)
Definition no_response {F} (o : outcome F) : Prop :=
  o = NoResp false \/ exists r, o = Resp r /\ r_close_ok r = false.

(* one-request methods: a result only from a good response; an error after a received response
   is an RspError with THAT response's status and body; a plain / context error only when there
   was no response; never a panic *)
Definition reported {F A} (o : outcome F) (res : result A) : Prop :=
  match res with
  | COk _ => exists f, good_response o f
  | CRspErr st b => received o st b
  | CPlainErr => no_response o
  | CCtxErr => o = NoResp true
  | CPanic => False
  end.

(* the call handed back a result *)
Definition is_ok {A} (x : result A) : Prop := exists a, x = COk a.

(* the retrying methods, over the sequence of attempts *)
Definition reported_seq {F A} (os : list (outcome F)) (res : result A) : Prop :=
  match res with
  | COk _ => exists o f r, In o os /\ good_response o f /\ o = Resp r /\ r_post r = true
  | CRspErr st b => exists o, In o os /\ received o st b
  | CPlainErr => False
  | CCtxErr => True                      (* the caller's context ended *)
  | CPanic => False
  end.

(* an attempt after which PostAndParseWithRetry tries again *)
Definition retryable {F} (o : outcome F) : Prop :=
  match post_and_parse o with
  | COk (st, _, _) => st = 408%Z \/ st = 503%Z \/ st = 429%Z
  | CCtxErr => False
  | _ => True
  end.

(* the entry MerkleTreeLeafFromRawChain derives from the SUBMITTED chain and entry type *)
Definition submitted_entry (x509_of : list bytes -> option bytes) (precert_of : list bytes -> option (bytes * bytes))
           (chain : list bytes) (etype : N) (e : entry) : Prop :=
  chain <> [] /\
  ((etype = gen_X509LogEntryType /\ exists c, x509_of chain = Some c /\ e = X509E c) \/
   (etype = gen_PrecertLogEntryType /\ exists h t, precert_of chain = Some (h, t) /\ e = PrecertE h t)).
