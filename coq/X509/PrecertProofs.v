From Coq Require Import String NArith Bool Lia PeanoNat List.
From V Require Import Base.Bytes TLS.TlsModel X509.Der X509.PrecertModel.
Import ListNotations.
Local Open Scope N_scope.

Lemma byte_is_refl b : byte_is b b = true.
Proof. apply byte_eqb_eq. reflexivity. Qed.
Lemma bytes_eqb_refl b : bytes_eqb b b = true.
Proof. apply bytes_eqb_eq. reflexivity. Qed.

Lemma low_tags : low_tag tSEQ = true /\ low_tag tOID = true /\ low_tag tBOOL = true /\ low_tag tOCTET = true
  /\ low_tag tCTX3 = true /\ low_tag tCTX0 = true.
Proof. vm_compute. repeat split. Qed.

Lemma enc_tlvs_app a b : enc_tlvs (a ++ b) = enc_tlvs a ++ enc_tlvs b.
Proof. unfold enc_tlvs. rewrite map_app, concat_app. reflexivity. Qed.

Lemma split_ok l : Forall tlv_ok l -> split_tlvs (length (enc_tlvs l)) (enc_tlvs l) = Some l.
Proof. intros H. apply split_enc_tlvs; [exact H|lia]. Qed.

Lemma dec_enc_ext e : ext_ok e -> dec_ext (enc_ext_body e) = Some e.
Proof.
  intros (Ho & Hv & _). destruct low_tags as (_ & Hoid & Hbool & Hoct & _).
  unfold dec_ext, enc_ext_body. destruct e as [o [|] v]; cbn [e_oid e_crit e_val] in *.
  - assert (E : enc_tlv tOID o ++ hex "0101ff" ++ enc_tlv tOCTET v
               = enc_tlvs [(tOID, o); (tBOOL, [Byte.xff]); (tOCTET, v)]).
    { unfold enc_tlvs. cbn [map concat fst snd]. rewrite app_nil_r.
      replace (enc_tlv tBOOL [Byte.xff]) with (hex "0101ff") by (vm_compute; reflexivity). reflexivity. }
    rewrite E, split_ok.
    + rewrite !byte_is_refl, bytes_eqb_refl. reflexivity.
    + repeat constructor; cbn [fst snd]; auto; unfold len, max_len; cbn; lia.
  - assert (E : enc_tlv tOID o ++ [] ++ enc_tlv tOCTET v = enc_tlvs [(tOID, o); (tOCTET, v)]).
    { unfold enc_tlvs. cbn [map concat fst snd app]. rewrite app_nil_r. reflexivity. }
    rewrite E, split_ok.
    + rewrite !byte_is_refl. reflexivity.
    + repeat constructor; cbn [fst snd]; auto.
Qed.

Definition ext_tlv (e : ext) : Byte.byte * bytes := (tSEQ, enc_ext_body e).

Lemma concat_enc_ext l : concat (map enc_ext l) = enc_tlvs (map ext_tlv l).
Proof. unfold enc_tlvs. rewrite map_map. reflexivity. Qed.

Lemma dec_exts_list_ok l : Forall ext_ok l -> dec_exts_list (map ext_tlv l) = Some l.
Proof.
  induction 1 as [|e l He Hl IH]; [reflexivity|]. cbn [map dec_exts_list].
  unfold ext_tlv at 1. rewrite byte_is_refl, (dec_enc_ext e He), IH. reflexivity.
Qed.

Lemma ext_tlvs_ok l : Forall ext_ok l -> Forall tlv_ok (map ext_tlv l).
Proof.
  induction 1 as [|e l (Ho & Hv & Hb) Hl IH]; constructor; auto.
  split; [apply low_tags | exact Hb].
Qed.

Lemma dec_enc_exts l :
  Forall ext_ok l -> len (concat (map enc_ext l)) < max_len ->
  dec_exts (enc_tlv tSEQ (concat (map enc_ext l))) = Some l.
Proof.
  intros Hl Hlen. unfold dec_exts.
  rewrite <- (app_nil_r (enc_tlv tSEQ _)). rewrite dec_enc_tlv by (try apply low_tags; exact Hlen).
  rewrite byte_is_refl. rewrite concat_enc_ext. rewrite split_ok by (apply ext_tlvs_ok; exact Hl).
  apply dec_exts_list_ok. exact Hl.
Qed.

Lemma rev_head_tag (l : list (Byte.byte * bytes)) :
  Forall (fun tc => byte_is (fst tc) tCTX3 = false) l ->
  match rev l with (ta, _) :: _ => byte_is ta tCTX3 = false | [] => True end.
Proof.
  intros H. apply Forall_rev in H. destruct (rev l) as [|[ta ce] r]; [exact I|]. inversion H; subst. assumption.
Qed.

Lemma parse_enc_tbs t : tbs_ok t -> parse_tbs (enc_tbs t) = Some t.
Proof.
  destruct t as [head exts]. intros (Hh & Hn3 & He & Hlen). cbn [t_head t_exts] in *.
  unfold parse_tbs, enc_tbs. cbn [t_head t_exts].
  rewrite <- (app_nil_r (enc_tlv tSEQ _)). rewrite dec_enc_tlv by (try apply low_tags; exact Hlen).
  rewrite byte_is_refl.
  destruct exts as [l|].
  - destruct He as (Hl & Hc & Hs).
    unfold enc_exts.
    assert (E : enc_tlv tCTX3 (enc_tlv tSEQ (concat (map enc_ext l)))
                = enc_tlvs [(tCTX3, enc_tlv tSEQ (concat (map enc_ext l)))]).
    { unfold enc_tlvs. cbn [map concat fst snd]. rewrite app_nil_r. reflexivity. }
    rewrite E, <- enc_tlvs_app. rewrite split_ok.
    + rewrite rev_app_distr. cbn [rev app]. rewrite byte_is_refl.
      rewrite dec_enc_exts by assumption. rewrite rev_involutive. reflexivity.
    + apply Forall_app. split; [exact Hh|]. constructor; [|constructor]. split; [apply low_tags|exact Hs].
  - rewrite app_nil_r. rewrite split_ok by exact Hh.
    pose proof (rev_head_tag head Hn3) as Hr.
    destruct (rev head) as [|[ta ce] r] eqn:Er.
    + assert (head = []) by (rewrite <- (rev_involutive head), Er; reflexivity). subst. reflexivity.
    + rewrite Hr. reflexivity.
Qed.

(* ---- removeExtension ---- *)
Lemma remove_extension_spec oid t l :
  tbs_ok t -> t_exts t = Some l ->
  remove_extension oid (enc_tbs t) =
    match count_oid oid l with
    | 1%nat => Ok (enc_tbs {| t_head := t_head t; t_exts := Some (drop_oid oid l) |})
    | _ => ErrStruct
    end.
Proof. intros Hok He. unfold remove_extension. rewrite (parse_enc_tbs t Hok), He. reflexivity. Qed.

Lemma remove_extension_none oid t :
  tbs_ok t -> t_exts t = None -> remove_extension oid (enc_tbs t) = ErrStruct.
Proof. intros Hok He. unfold remove_extension. rewrite (parse_enc_tbs t Hok), He. reflexivity. Qed.

(* the list edits *)
Lemma count_oid_app oid a b : count_oid oid (a ++ b) = (count_oid oid a + count_oid oid b)%nat.
Proof. unfold count_oid. rewrite filter_app, app_length. reflexivity. Qed.
Lemma drop_oid_app oid a b : drop_oid oid (a ++ b) = drop_oid oid a ++ drop_oid oid b.
Proof. unfold drop_oid. apply filter_app. Qed.
Lemma drop_oid_absent oid l : count_oid oid l = 0%nat -> drop_oid oid l = l.
Proof.
  unfold count_oid, drop_oid. induction l as [|e l IH]; [reflexivity|]. cbn.
  destruct (has_oid oid e); cbn; [discriminate|]. intros H. rewrite IH by exact H. reflexivity.
Qed.

(* removing the target from a list that holds it exactly once, at ANY position, leaves the
   other extensions, unchanged and in order *)
Lemma drop_unique oid a x b :
  has_oid oid x = true -> count_oid oid a = 0%nat -> count_oid oid b = 0%nat ->
  count_oid oid (a ++ x :: b) = 1%nat /\ drop_oid oid (a ++ x :: b) = a ++ b.
Proof.
  intros Hx Ha Hb. split.
  - rewrite count_oid_app. unfold count_oid at 2. cbn [filter]. rewrite Hx. cbn [length].
    fold (count_oid oid b). lia.
  - rewrite drop_oid_app. unfold drop_oid at 2. cbn [filter]. rewrite Hx. cbn [negb].
    fold (drop_oid oid b). rewrite !drop_oid_absent by assumption. reflexivity.
Qed.

(* ---- the two routes ---- *)
Lemma count_split oid x y : count_oid oid (x ++ y) = 0%nat -> count_oid oid x = 0%nat /\ count_oid oid y = 0%nat.
Proof. rewrite count_oid_app. lia. Qed.

Section Routes.
Variables (head : list (Byte.byte * bytes)) (a b a' b' : list ext) (sct poison : ext).
Hypothesis Hsct : has_oid oid_sctlist sct = true.
Hypothesis Hpoison : has_oid oid_poison poison = true.
Hypothesis Hsame : a ++ b = a' ++ b'.                       (* the other extensions, same order *)
Hypothesis Hno_sct : count_oid oid_sctlist (a ++ b) = 0%nat.
Hypothesis Hno_poison : count_oid oid_poison (a' ++ b') = 0%nat.

Let final := {| t_head := head; t_exts := Some (a ++ sct :: b) |}.       (* SCT list at any position *)
Let precert := {| t_head := head; t_exts := Some (a' ++ poison :: b') |}.  (* poison at any position *)
Let entry := {| t_head := head; t_exts := Some (a ++ b) |}.

Hypothesis Hf : tbs_ok final.
Hypothesis Hp : tbs_ok precert.
Hypothesis He : tbs_ok entry.

Lemma embedded_route : remove_sct_list (enc_tbs final) = Ok (enc_tbs entry).
Proof.
  unfold remove_sct_list. rewrite (remove_extension_spec oid_sctlist final (a ++ sct :: b) Hf eq_refl).
  destruct (count_split _ _ _ Hno_sct) as [Ha Hb].
  destruct (drop_unique oid_sctlist a sct b Hsct Ha Hb) as [-> ->]. reflexivity.
Qed.

Lemma precert_route_direct : build_precert_tbs (enc_tbs precert) None = Ok (enc_tbs entry).
Proof.
  unfold build_precert_tbs.
  rewrite (remove_extension_spec oid_poison precert (a' ++ poison :: b') Hp eq_refl).
  destruct (count_split _ _ _ Hno_poison) as [Ha Hb].
  destruct (drop_unique oid_poison a' poison b' Hpoison Ha Hb) as [-> ->].
  cbn [t_head precert]. rewrite <- Hsame. fold entry. rewrite (parse_enc_tbs entry He). reflexivity.
Qed.

Lemma routes_commute_direct : build_precert_tbs (enc_tbs precert) None = remove_sct_list (enc_tbs final).
Proof. rewrite embedded_route, precert_route_direct. reflexivity. Qed.
End Routes.

(* the authority-key-id edit of the pre-issuer case, in its four presence combinations *)
Definition aki_edit (p : preissuer) (es : list ext) : list ext :=
  if existsb (has_oid oid_aki) es then
    match pi_aki p with Some v => set_aki v es | None => drop_first_aki es end
  else match pi_aki p with
       | Some v => es ++ [{| e_oid := oid_aki; e_crit := false; e_val := v |}]
       | None => es
       end.

Lemma aki_edit_both p v x y e :
  pi_aki p = Some v -> existsb (has_oid oid_aki) x = false -> has_oid oid_aki e = true ->
  aki_edit p (x ++ e :: y) = x ++ {| e_oid := e_oid e; e_crit := e_crit e; e_val := v |} :: y.
Proof.
  intros Hv Hx He. unfold aki_edit. rewrite existsb_app. cbn [existsb]. rewrite He, orb_true_r, Hv.
  induction x as [|z x IH]; cbn [app set_aki].
  - rewrite He. reflexivity.
  - cbn [existsb] in Hx. apply orb_false_iff in Hx. destruct Hx as [Hz Hx]. rewrite Hz. rewrite IH by exact Hx. reflexivity.
Qed.

Lemma aki_edit_only_precert p x y e :
  pi_aki p = None -> existsb (has_oid oid_aki) x = false -> has_oid oid_aki e = true ->
  aki_edit p (x ++ e :: y) = x ++ y.
Proof.
  intros Hv Hx He. unfold aki_edit. rewrite existsb_app. cbn [existsb]. rewrite He, orb_true_r, Hv.
  induction x as [|z x IH]; cbn [app drop_first_aki].
  - rewrite He. reflexivity.
  - cbn [existsb] in Hx. apply orb_false_iff in Hx. destruct Hx as [Hz Hx]. rewrite Hz. rewrite IH by exact Hx. reflexivity.
Qed.

Lemma aki_edit_only_preissuer p v es :
  pi_aki p = Some v -> existsb (has_oid oid_aki) es = false ->
  aki_edit p es = es ++ [{| e_oid := oid_aki; e_crit := false; e_val := v |}].
Proof. intros Hv Hx. unfold aki_edit. rewrite Hx, Hv. reflexivity. Qed.

Lemma aki_edit_neither p es :
  pi_aki p = None -> existsb (has_oid oid_aki) es = false -> aki_edit p es = es.
Proof. intros Hv Hx. unfold aki_edit. rewrite Hx, Hv. reflexivity. Qed.

Section PreIssuerRoute.
Variables (head : list (Byte.byte * bytes)) (a' b' : list ext) (poison : ext) (p : preissuer).
Hypothesis Hpoison : has_oid oid_poison poison = true.
Hypothesis Hno_poison : count_oid oid_poison (a' ++ b') = 0%nat.
Hypothesis Hct : pi_ct_eku p = true.

Let precert := {| t_head := head; t_exts := Some (a' ++ poison :: b') |}.
Let defanged := {| t_head := head; t_exts := Some (a' ++ b') |}.
Let entry := {| t_head := replace_nth (issuer_index head) (pi_issuer p) head; t_exts := Some (aki_edit p (a' ++ b')) |}.

Hypothesis Hp : tbs_ok precert.
Hypothesis Hd : tbs_ok defanged.

(* with a pre-issuer: the poison is removed, the issuer TLV is replaced by the pre-issuer's
   issuer, the authority key id follows the pre-issuer's, and nothing else changes *)
Lemma precert_route_preissuer : build_precert_tbs (enc_tbs precert) (Some p) = Ok (enc_tbs entry).
Proof.
  unfold build_precert_tbs.
  rewrite (remove_extension_spec oid_poison precert (a' ++ poison :: b') Hp eq_refl).
  destruct (count_split _ _ _ Hno_poison) as [Ha Hb].
  destruct (drop_unique oid_poison a' poison b' Hpoison Ha Hb) as [-> ->].
  cbn [t_head precert]. fold defanged. rewrite (parse_enc_tbs defanged Hd). rewrite Hct. cbn [negb].
  unfold entry, aki_edit. cbn [t_exts t_head defanged].
  destruct (pi_aki p); reflexivity.
Qed.

(* without the CT EKU on the claimed pre-issuer the transformation is refused *)
Lemma preissuer_needs_ct_eku p' : pi_ct_eku p' = false -> build_precert_tbs (enc_tbs precert) (Some p') = ErrStruct.
Proof.
  intros Hn. unfold build_precert_tbs.
  rewrite (remove_extension_spec oid_poison precert (a' ++ poison :: b') Hp eq_refl).
  destruct (count_split _ _ _ Hno_poison) as [Ha Hb].
  destruct (drop_unique oid_poison a' poison b' Hpoison Ha Hb) as [-> ->].
  cbn [t_head precert]. fold defanged. rewrite (parse_enc_tbs defanged Hd). rewrite Hn. reflexivity.
Qed.
End PreIssuerRoute.

(* failure modes: absent, or present twice *)
Lemma fails_if_absent oid t l : tbs_ok t -> t_exts t = Some l -> count_oid oid l = 0%nat ->
  remove_extension oid (enc_tbs t) = ErrStruct.
Proof. intros Hok He Hc. rewrite (remove_extension_spec oid t l Hok He), Hc. reflexivity. Qed.

Lemma fails_if_twice oid t l : tbs_ok t -> t_exts t = Some l -> (2 <= count_oid oid l)%nat ->
  remove_extension oid (enc_tbs t) = ErrStruct.
Proof.
  intros Hok He Hc. rewrite (remove_extension_spec oid t l Hok He).
  destruct (count_oid oid l) as [|[|n]]; try lia; reflexivity.
Qed.

Lemma fails_on_trailing t x rest : tbs_ok t -> remove_extension x (enc_tbs t ++ Byte.x00 :: rest) = ErrSyntax.
Proof.
  intros (Hh & Hn3 & He & Hlen). unfold remove_extension, parse_tbs, enc_tbs.
  rewrite dec_enc_tlv by (try apply low_tags; exact Hlen). reflexivity.
Qed.
