(* C20 - lemmas about fetchTail as a whole and about every history of passes (Run / RunWhenMaster). *)
From Coq Require Import ZArith NArith Bool List Lia.
From V Require Import Base.Bytes Base.CaseLib Migrillian.MigrateModel Migrillian.MigrateDestProofs Migrillian.MigratePassProofs.
Import ListNotations.
Open Scope Z_scope.

Section Top.
  Variable proof : Type.
  Variable sha256 : bytes -> bytes.
  Variable x509v : bytes -> xverdict.
  Variable mth : list bytes -> bytes.
  Variable vcons : Z -> Z -> proof -> bytes -> bytes -> bool.

  Notation fetch_tail_gen := (fetch_tail_gen proof sha256 x509v mth vcons).
  Notation drive_gen := (drive_gen proof sha256 x509v mth vcons).
  Notation gate := (gate proof vcons).
  Notation submit_all := (submit_all sha256 x509v).
  Notation dest_root := (dest_root mth).
  Notation pre_pass := (pre_pass proof).

  (* the invariant of every history: the table mirrors the source below the verified size, and the
     integrated tree is a gap-free prefix of the table *)
  Definition world_inv (idf : idfunc) (w : world) : Prop :=
    map_inv sha256 x509v idf (w_src w) (w_ver w) (d_leaves (w_dest w)) /\ prefix_ok (w_dest w).

  Lemma end_index_le cfg n : end_index cfg n <= n.
  Proof.
    unfold end_index. destruct ((if c_continuous cfg then 0 else c_end cfg) =? 0) eqn:E1; cbn [orb]; [lia|].
    destruct ((if c_continuous cfg then 0 else c_end cfg) >? n) eqn:E2; [lia|].
    rewrite Z.gtb_ltb in E2. apply Z.ltb_ge in E2. exact E2.
  Qed.

  Lemma start_index_ge cfg ts begin : 0 <= ts -> 0 <= start_index cfg ts begin /\ begin <= start_index cfg ts begin.
  Proof.
    intros Hts. unfold start_index.
    set (s0 := if c_continuous cfg then ts else if c_start cfg <? 0 then ts else c_start cfg).
    assert (0 <= s0).
    { unfold s0. destruct (c_continuous cfg); [exact Hts|]. destruct (c_start cfg <? 0) eqn:E; [exact Hts|]. apply Z.ltb_ge in E. exact E. }
    destruct (begin >? s0) eqn:E; [rewrite Z.gtb_ltb in E; apply Z.ltb_lt in E | rewrite Z.gtb_ltb in E; apply Z.ltb_ge in E]; lia.
  Qed.

  Lemma start_index_continuous cfg ts begin : c_continuous cfg = true -> start_index cfg ts begin = Z.max ts begin.
  Proof.
    intros Hc. unfold start_index. rewrite Hc. destruct (begin >? ts) eqn:E; rewrite Z.gtb_ltb in E;
      [apply Z.ltb_lt in E | apply Z.ltb_ge in E]; lia.
  Qed.

  Lemma end_index_continuous cfg n : c_continuous cfg = true -> end_index cfg n = n.
  Proof. intros Hc. unfold end_index. rewrite Hc. reflexivity. Qed.

  (* ---------------------------------------------------------------- the shape of a pass *)
  Lemma fetch_tail_cases eR cfg begin w ps :
    let o := fetch_tail_gen eR cfg begin w ps in
    let lo := start_index cfg (d_size (w_dest w)) begin in
    (po_dest o = w_dest w /\ po_ver o = w_ver w /\ po_stream o = [] /\
     (po_res o = PErr \/ po_res o = PStuck \/ (po_res o = POk begin /\ po_act o = ANone /\ exists n r, ps_sth ps = SthOk n r /\ n <= begin)))
    \/ (exists n r steps complete rs d' ok a creq,
          ps_root ps = RootOk /\ ps_sth ps = SthOk n r /\ begin < n
          /\ gate cfg (d_size (w_dest w)) (dest_root (w_dest w)) n r (ps_cons ps) = (true, creq)
          /\ 0 < c_batch cfg
          /\ walk (Z.of_nat (length (w_src w))) (ps_short ps) lo (end_index cfg n) (c_batch cfg) (Z.to_nat (end_index cfg n - lo)) lo = (steps, complete)
          /\ submit_all eR (c_idf cfg) (ps_replies ps) (batches_of (w_src w) steps) (w_dest w) = (rs, d', ok, a)
          /\ po_res o = (if ok && complete then POk n else if ok then PStuck else PErr)
          /\ po_act o = a /\ po_cons_req o = creq /\ po_stream o = rs /\ po_dest o = d' /\ po_ver o = Z.max (w_ver w) n).
  Proof.
    cbv zeta. unfold MigrateModel.fetch_tail_gen.
    destruct (ps_root ps) as [|a0]; [|left; cbn; auto 6].
    destruct (ps_sth ps) as [|n r]; [left; cbn; auto 6|].
    destruct (n <=? begin) eqn:En.
    { apply Z.leb_le in En. left. cbn. repeat split; auto. right. right. repeat split; auto. exists n, r. auto. }
    apply Z.leb_gt in En.
    destruct (gate cfg (d_size (w_dest w)) (dest_root (w_dest w)) n r (ps_cons ps)) as [okg creq] eqn:Eg.
    destruct okg; cbn [negb]; [|left; cbn; auto 6].
    destruct (c_batch cfg <=? 0) eqn:Eb; [left; cbn; auto 6|]. apply Z.leb_gt in Eb.
    destruct (walk (Z.of_nat (length (w_src w))) (ps_short ps) (start_index cfg (d_size (w_dest w)) begin) (end_index cfg n) (c_batch cfg)
                   (Z.to_nat (end_index cfg n - start_index cfg (d_size (w_dest w)) begin)) (start_index cfg (d_size (w_dest w)) begin)) as [steps complete] eqn:Ew.
    destruct (submit_all eR (c_idf cfg) (ps_replies ps) (batches_of (w_src w) steps) (w_dest w)) as [[[rs d'] ok] a] eqn:Es.
    right. exists n, r, steps, complete, rs, d', ok, a, creq. cbn. repeat split; auto.
  Qed.

  Lemma steps_in_V src_len lo hi V steps : 0 <= lo -> hi <= V ->
    Forall (step_ok src_len lo hi) steps -> Forall (step_in V) steps.
  Proof.
    intros Hlo Hhi H. eapply Forall_impl; [|exact H]. intros [[p e] k] [A [B [C D]]]. unfold step_in. cbn. lia.
  Qed.

  Lemma map_inv_mono idf src ver ver' m : map_inv sha256 x509v idf src ver m -> ver <= ver' -> map_inv sha256 x509v idf src ver' m.
  Proof. intros H Hle i l Hl. destruct (H i l Hl) as [A [B C]]. split; [exact A | split; [exact B | lia]]. Qed.

  (* ---------------------------------------------------------------- one pass preserves the invariant *)
  Lemma fetch_tail_inv eR cfg begin w ps :
    world_inv (c_idf cfg) w ->
    let o := fetch_tail_gen eR cfg begin w ps in
    world_inv (c_idf cfg) (post_pass w o) /\ w_ver w <= po_ver o
    /\ Forall (rec_safe sha256 x509v (c_idf cfg) (w_src w) (po_ver o)) (po_stream o)
    /\ (forall i x, lookup (d_leaves (w_dest w)) i = Some x -> lookup (d_leaves (po_dest o)) i = Some x)
    /\ d_size (po_dest o) = d_size (w_dest w).
  Proof.
    intros [Hm Hp]. cbv zeta. destruct (fetch_tail_cases eR cfg begin w ps) as [[A [B [C _]]] | H].
    - unfold world_inv, post_pass. cbn. rewrite A, B, C.
      split; [split; [exact Hm | exact Hp] | split; [lia | split; [constructor | split; [auto | reflexivity]]]].
    - destruct H as [n [r [steps [complete [rs [d' [ok [a [creq [_ [_ [Hn [_ [Hb [Hw [Hs [_ [_ [_ [E1 [E2 E3]]]]]]]]]]]]]]]]]]]]].
      destruct Hp as [Hp0 Hp].
      destruct (start_index_ge cfg (d_size (w_dest w)) begin Hp0) as [Hlo _].
      pose proof (walk_steps _ _ _ _ _ Hb _ _ _ _ (Z.le_refl _) Hw) as Hst.
      pose proof (end_index_le cfg n) as Hhi.
      assert (Hst' : Forall (step_in (Z.max (w_ver w) n)) steps) by (refine (steps_in_V _ _ (end_index cfg n) _ _ Hlo _ Hst); lia).
      destruct (submit_all_inv sha256 x509v (c_idf cfg) eR (w_src w) (Z.max (w_ver w) n) (ps_replies ps) steps (w_dest w) rs d' ok a Hst'
                  (map_inv_mono (c_idf cfg) (w_src w) (w_ver w) (Z.max (w_ver w) n) _ Hm (Z.le_max_l _ _)) Hs) as [I1 [I2 [I3 [I4 _]]]].
      unfold world_inv, post_pass. cbn. rewrite E1, E2, E3.
      split; [split; [exact I1 | split] | split; [lia | split; [exact I3 | split; [exact I4 | exact I2]]]].
      + rewrite I2. exact Hp0.
      + rewrite I2. intros i Hi. specialize (Hp i Hi). destruct (lookup (d_leaves (w_dest w)) i) as [x|] eqn:Ex; [|congruence].
        rewrite (I4 _ _ Ex). discriminate.
  Qed.

  (* ---------------------------------------------------------------- the consistency gate *)
  Lemma gate_lemma eR cfg begin w ps :
    let o := fetch_tail_gen eR cfg begin w ps in
    c_nocheck cfg = false -> d_size (w_dest w) <> 0 ->
    (po_stream o <> [] \/ exists next, po_res o = POk next /\ begin < next) ->
    exists n r pf, ps_sth ps = SthOk n r /\ ps_cons ps = ConsProof pf
                   /\ vcons (d_size (w_dest w)) n pf (dest_root (w_dest w)) r = true
                   /\ po_cons_req o = Some (d_size (w_dest w), n).
  Proof.
    cbv zeta. intros Hnc Hts Hmove. destruct (fetch_tail_cases eR cfg begin w ps) as [[_ [_ [C D]]] | H].
    - exfalso. destruct Hmove as [Hm | [next [Hm Hlt]]]; [congruence|].
      destruct D as [D | [D | [D _]]]; rewrite D in Hm; try discriminate. inversion Hm. lia.
    - destruct H as [n [r [steps [complete [rs [d' [ok [a [creq [_ [Hsth [_ [Hg [_ [_ [_ [_ [_ [Hc _]]]]]]]]]]]]]]]]]]].
      unfold MigrateModel.gate in Hg. destruct (d_size (w_dest w) =? 0) eqn:E0; [apply Z.eqb_eq in E0; congruence|].
      rewrite Hnc in Hg. destruct (ps_cons ps) as [|pf]; [discriminate|]. inversion Hg; subst.
      exists n, r, pf. repeat split; auto.
  Qed.

  (* ---------------------------------------------------------------- a pass that reports success left no gap *)
  Lemma success_lemma eR cfg begin w ps :
    world_inv (c_idf cfg) w ->
    let o := fetch_tail_gen eR cfg begin w ps in
    forall next, po_res o = POk next ->
    po_act o = ANone /\
    ((next = begin /\ po_dest o = w_dest w) \/
     (exists r, ps_sth ps = SthOk next r /\ begin < next /\
        forall i, start_index cfg (d_size (w_dest w)) begin <= i < end_index cfg next -> lookup (d_leaves (po_dest o)) i <> None)).
  Proof.
    intros [Hm [Hp0 Hp]]. cbv zeta. intros next Hres. destruct (fetch_tail_cases eR cfg begin w ps) as [[A [_ [_ D]]] | H].
    - destruct D as [D | [D | [D [Ha _]]]]; rewrite D in Hres; try discriminate. inversion Hres; subst. split; [exact Ha | left; auto].
    - destruct H as [n [r [steps [complete [rs [d' [ok [a [creq [_ [Hsth [Hn [_ [Hb [Hw [Hs [Hr [Ea [_ [_ [Ed _]]]]]]]]]]]]]]]]]]]]].
      rewrite Hr in Hres. destruct ok; [|discriminate]. destruct complete; cbn in Hres; [|discriminate]. inversion Hres; subst next.
      destruct (start_index_ge cfg (d_size (w_dest w)) begin Hp0) as [Hlo _].
      pose proof (walk_steps _ _ _ _ _ Hb _ _ _ _ (Z.le_refl _) Hw) as Hst.
      pose proof (end_index_le cfg n) as Hhi.
      assert (Hst' : Forall (step_in (Z.max (w_ver w) n)) steps) by (refine (steps_in_V _ _ (end_index cfg n) _ _ Hlo _ Hst); lia).
      destruct (submit_all_inv sha256 x509v (c_idf cfg) eR (w_src w) (Z.max (w_ver w) n) (ps_replies ps) steps (w_dest w) rs d' true a Hst'
                  (map_inv_mono (c_idf cfg) (w_src w) (w_ver w) (Z.max (w_ver w) n) _ Hm (Z.le_max_l _ _)) Hs) as [_ [_ [_ [_ I5]]]].
      split; [rewrite Ea; apply I5; reflexivity|]. right. exists r. split; [exact Hsth | split; [exact Hn|]]. intros i Hi. rewrite Ed.
      destruct (walk_covers _ _ _ _ _ _ _ _ Hw i Hi) as [p [e [k [Hin Hpk]]]].
      eapply (submit_all_success sha256 x509v (c_idf cfg) eR (w_src w) (ps_replies ps) steps); [|exact Hs | exact Hin | exact Hpk].
      eapply Forall_impl; [|exact Hst]. intros [[p1 e1] k1] [S1 [S2 [S3 S4]]]. cbn. split; [lia | split; [lia | exact S4]].
  Qed.

  (* ---------------------------------------------------------------- in continuous mode a successful pass extends a gap-free table *)
  Definition stored_below (d : dest) (n : Z) : Prop := forall i, 0 <= i < n -> lookup (d_leaves d) i <> None.

  Lemma continuous_lemma eR cfg begin w ps :
    world_inv (c_idf cfg) w -> c_continuous cfg = true ->
    stored_below (w_dest w) begin ->
    let o := fetch_tail_gen eR cfg begin w ps in
    forall next, po_res o = POk next -> begin <= next /\ stored_below (po_dest o) next.
  Proof.
    intros Hinv Hc Hb. cbv zeta. intros next Hres.
    destruct (success_lemma eR cfg begin w ps Hinv next Hres) as [_ [[-> Hd] | [r [_ [Hlt Hcov]]]]].
    - split; [lia|]. rewrite Hd. exact Hb.
    - split; [lia|]. intros i Hi.
      destruct (fetch_tail_inv eR cfg begin w ps Hinv) as [_ [_ [_ [Hmono _]]]].
      destruct Hinv as [_ [Hp0 Hp]].
      rewrite start_index_continuous, end_index_continuous in Hcov by exact Hc.
      destruct (Z_lt_dec i (Z.max (d_size (w_dest w)) begin)) as [Hlow | Hhigh].
      + assert (Hold : lookup (d_leaves (w_dest w)) i <> None).
        { destruct (Z_lt_dec i (d_size (w_dest w))); [apply Hp; lia | apply Hb; lia]. }
        destruct (lookup (d_leaves (w_dest w)) i) as [x|] eqn:Ex; [|congruence]. rewrite (Hmono _ _ Ex). discriminate.
      + apply Hcov. lia.
  Qed.

  (* ---------------------------------------------------------------- quota errors are retried, not fatal *)
  Lemma quota_lemma eR cfg begin w ps n r :
    is_retryable eR = true ->
    world_inv (c_idf cfg) w ->
    ps_root ps = RootOk -> ps_sth ps = SthOk n r -> begin < n -> n <= Z.of_nat (length (w_src w)) ->
    fst (gate cfg (d_size (w_dest w)) (dest_root (w_dest w)) n r (ps_cons ps)) = true ->
    0 < c_batch cfg ->
    (forall e, In e (w_src w) -> raw_log_entry e <> None) ->
    (forall p v, assoc (ps_short ps) p = Some v -> 1 <= v) ->
    (forall s, quota_only (script_of (ps_replies ps) s)) ->
    let o := fetch_tail_gen eR cfg begin w ps in
    po_res o = POk n /\ po_act o = ANone
    /\ (forall i, start_index cfg (d_size (w_dest w)) begin <= i < end_index cfg n -> lookup (d_leaves (po_dest o)) i <> None)
    /\ exists steps, walk (Z.of_nat (length (w_src w))) (ps_short ps) (start_index cfg (d_size (w_dest w)) begin) (end_index cfg n) (c_batch cfg)
                          (Z.to_nat (end_index cfg n - start_index cfg (d_size (w_dest w)) begin)) (start_index cfg (d_size (w_dest w)) begin) = (steps, true)
                     /\ length (po_stream o) = list_sum (map (fun t => S (length (script_of (ps_replies ps) (fst (fst t))))) steps).
  Proof.
    intros HeR Hinv Hroot Hsth Hn Hlen Hgate Hb Hsrc Hshort Hq. cbv zeta.
    pose proof Hinv as [_ [Hp0 _]].
    destruct (start_index_ge cfg (d_size (w_dest w)) begin Hp0) as [Hlo _].
    pose proof (end_index_le cfg n) as Hhi.
    set (lo := start_index cfg (d_size (w_dest w)) begin) in *. set (hi := end_index cfg n) in *.
    destruct (walk_total (Z.of_nat (length (w_src w))) (ps_short ps) lo hi (c_batch cfg) Hb ltac:(lia) Hshort (Z.to_nat (hi - lo)) lo (Z.le_refl _) ltac:(lia))
      as [steps [Hw Hk1]].
    pose proof (walk_steps _ _ _ _ _ Hb _ _ _ _ (Z.le_refl _) Hw) as Hst.
    assert (Hst2 : Forall (fun t => 0 <= fst (fst t) /\ 1 <= snd t /\ fst (fst t) + snd t <= Z.of_nat (length (w_src w))) steps).
    { apply Forall_forall. intros [[p e] k] Hin. rewrite Forall_forall in Hst, Hk1. specialize (Hst _ Hin). specialize (Hk1 _ Hin).
      cbn in *. destruct Hst as [A [B [C D]]]. lia. }
    destruct (submit_all_quota sha256 x509v (c_idf cfg) eR (w_src w) (ps_replies ps) HeR Hsrc Hq steps (w_dest w) Hst2) as [rs [d' [Hs Hlenrs]]].
    unfold MigrateModel.fetch_tail_gen. rewrite Hroot, Hsth.
    destruct (n <=? begin) eqn:En; [apply Z.leb_le in En; lia|].
    destruct (MigrateModel.gate proof vcons cfg (d_size (w_dest w)) (dest_root (w_dest w)) n r (ps_cons ps)) as [okg creq] eqn:Eg.
    cbn in Hgate. subst okg. cbn [negb].
    destruct (c_batch cfg <=? 0) eqn:Eb; [apply Z.leb_le in Eb; lia|].
    fold lo hi. rewrite Hw, Hs. cbn.
    split; [reflexivity | split; [reflexivity | split]].
    - intros i Hi. destruct (walk_covers _ _ _ _ _ _ _ _ Hw i Hi) as [p [e [k [Hin Hpk]]]].
      eapply (submit_all_success sha256 x509v (c_idf cfg) eR (w_src w) (ps_replies ps) steps); [|exact Hs | exact Hin | exact Hpk].
      eapply Forall_impl; [|exact Hst2]. cbn. intros t [A [B C]]. split; [exact A | split; [lia | intros _; exact C]].
    - exists steps. split; [reflexivity | exact Hlenrs].
  Qed.

  (* ---------------------------------------------------------------- every history of passes *)
  Lemma pre_pass_inv idf ps w : world_inv idf w -> world_inv idf (pre_pass ps w).
  Proof.
    intros [Hm Hp]. unfold world_inv, pre_pass. cbn. split.
    - eapply map_inv_weaken; [exact Hm | lia].
    - apply integrate_prefix_ok. exact Hp.
  Qed.

  Lemma drive_gen_cases eR ep cfg ps rest begin w outs w' f :
    drive_gen eR ep cfg (ps :: rest) begin w = (outs, w', f) ->
    let w1 := pre_pass ps w in
    let o := fetch_tail_gen eR cfg begin w1 ps in
    let w2 := post_pass w1 o in
    (outs = [o] /\ w' = w2) \/ (exists b os, drive_gen eR ep cfg rest b w2 = (os, w', f) /\ outs = o :: os).
  Proof.
    cbv zeta. cbn [MigrateModel.drive_gen].
    set (w1 := pre_pass ps w). set (o := fetch_tail_gen eR cfg begin w1 ps). set (w2 := post_pass w1 o).
    assert (Hc : forall b, (let '(os, w3, f0) := drive_gen eR ep cfg rest b w2 in (o :: os, w3, f0)) = (outs, w', f) ->
                 exists b os, drive_gen eR ep cfg rest b w2 = (os, w', f) /\ outs = o :: os).
    { intros b H. destruct (drive_gen eR ep cfg rest b w2) as [[os w3] f0] eqn:E. inversion H; subst. exists b, os. auto. }
    assert (Hs : forall f0, ([o], w2, f0) = (outs, w', f) -> outs = [o] /\ w' = w2) by (intros f0 H; inversion H; auto).
    destruct (po_act o); [destruct (po_res o); destruct (c_continuous cfg); destruct ep | | destruct ep]; intros H;
      first [left; eapply Hs; exact H | right; eapply Hc; exact H].
  Qed.

  Lemma rec_safe_mono idf src es V V' r : V <= V' -> rec_safe sha256 x509v idf src V r -> rec_safe sha256 x509v idf (src ++ es) V' r.
  Proof.
    intros Hle [A [B C]]. split; [|split; assumption].
    eapply Forall_impl; [|exact A]. cbn. intros l [G L]. split; [apply good_app; exact G | lia].
  Qed.

  Lemma drive_inv eR ep cfg : forall scripts begin w outs w' f,
    world_inv (c_idf cfg) w -> drive_gen eR ep cfg scripts begin w = (outs, w', f) ->
    world_inv (c_idf cfg) w' /\ (exists es, w_src w' = w_src w ++ es) /\ w_ver w <= w_ver w'
    /\ Forall (fun o => Forall (rec_safe sha256 x509v (c_idf cfg) (w_src w') (w_ver w')) (po_stream o)) outs.
  Proof.
    induction scripts as [|ps rest IH]; intros begin w outs w' f Hinv H.
    - cbn in H. inversion H; subst. split; [exact Hinv | split; [exists []; rewrite app_nil_r; reflexivity | split; [lia | constructor]]].
    - pose proof (pre_pass_inv (c_idf cfg) ps w Hinv) as Hinv1.
      destruct (fetch_tail_inv eR cfg begin (pre_pass ps w) ps Hinv1) as [Hinv2 [Hver [Hsafe _]]].
      destruct (drive_gen_cases _ _ _ _ _ _ _ _ _ _ H) as [[-> ->] | [b [os [Hd ->]]]].
      + split; [exact Hinv2 | split; [exists (ps_grow ps); reflexivity | split; [exact Hver | constructor; [exact Hsafe | constructor]]]].
      + destruct (IH _ _ _ _ _ Hinv2 Hd) as [A [[es B] [C D]]]. cbn in B, C.
        split; [exact A | split; [exists (ps_grow ps ++ es); rewrite B, app_assoc; reflexivity | split; [cbn in Hver; lia|]]].
        constructor; [|exact D]. rewrite B. eapply Forall_impl; [|exact Hsafe]. intros r0. apply rec_safe_mono. exact C.
  Qed.

  (* what `good` says, spelled out *)
  Lemma good_explicit idf src l : good sha256 x509v idf src l ->
    exists e cd, nth_error src (Z.to_nat (lf_index l)) = Some e /\ raw_cert_data e = Some cd /\
      l = {| lf_index := lf_index l; lf_value := e_input e; lf_extra := e_extra e; lf_id := id_hash sha256 idf (lf_index l) cd |}.
  Proof.
    intros [_ [e [H1 H2]]]. exists e. unfold build_log_leaf, build_log_leaf_v, raw_cert_data in *.
    destruct (raw_log_entry e) as [[cd ps]|]; [|discriminate]. exists cd. inversion H2. cbn. auto.
  Qed.

  Lemma mirror_of_inv idf w : world_inv idf w ->
    (forall i l, lookup (d_leaves (w_dest w)) i = Some l ->
       0 <= i < w_ver w /\
       exists e cd, nth_error (w_src w) (Z.to_nat i) = Some e /\ raw_cert_data e = Some cd /\
         l = {| lf_index := i; lf_value := e_input e; lf_extra := e_extra e; lf_id := id_hash sha256 idf i cd |})
    /\ (forall i, 0 <= i < d_size (w_dest w) -> lookup (d_leaves (w_dest w)) i <> None).
  Proof.
    intros [Hm [_ Hp]]. split; [|exact Hp]. intros i l Hl. destruct (Hm i l Hl) as [A [B C]].
    pose proof B as [B0 _]. destruct (good_explicit _ _ _ B) as [e [cd [E1 [E2 E3]]]]. rewrite A in *.
    split; [lia|]. exists e, cd. auto.
  Qed.
End Top.

(* ------------------------------------------------------------------ order, batching and repetition do not matter *)
Lemma existsb_index ls i : existsb (fun l => lf_index l =? i) ls = true <-> In i (map lf_index ls).
Proof.
  rewrite existsb_exists, in_map_iff. split.
  - intros [l [A B]]. exists l. apply Z.eqb_eq in B. auto.
  - intros [l [A B]]. exists l. split; [exact B | apply Z.eqb_eq; exact A].
Qed.

Lemma order_irrelevant sha256 x509v idf src ver m ls1 ls2 :
  map_inv sha256 x509v idf src ver m ->
  Forall (fun l => good sha256 x509v idf src l /\ lf_index l < ver) ls1 ->
  Forall (fun l => good sha256 x509v idf src l /\ lf_index l < ver) ls2 ->
  (forall i, In i (map lf_index ls1) <-> In i (map lf_index ls2)) ->
  forall i, lookup (fst (put_all m ls1)) i = lookup (fst (put_all m ls2)) i.
Proof.
  intros Hm H1 H2 Hsame i.
  rewrite (put_all_lookup_char sha256 x509v idf src ver ls1 m i Hm H1), (put_all_lookup_char sha256 x509v idf src ver ls2 m i Hm H2).
  destruct (lookup m i); [reflexivity|].
  assert (E : existsb (fun l => lf_index l =? i) ls1 = existsb (fun l => lf_index l =? i) ls2).
  { apply eq_true_iff_eq. rewrite !existsb_index. apply Hsame. }
  rewrite E. reflexivity.
Qed.

(* ------------------------------------------------------------------ the X.509 verdict has no influence on the leaf *)
Lemma x509_irrelevant sha256 xa xb idf i e :
  build_log_leaf sha256 xa idf i e = build_log_leaf sha256 xb idf i e.
Proof. unfold build_log_leaf, build_log_leaf_v. destruct (raw_log_entry e) as [[cd ps]|]; reflexivity. Qed.

Lemma verbatim_copy sha256 xv idf i e cd parsed :
  raw_log_entry e = Some (cd, parsed) ->
  build_log_leaf_v sha256 xv idf i e =
  Some ({| lf_index := i; lf_value := e_input e; lf_extra := e_extra e; lf_id := id_hash sha256 idf i cd |}, xv parsed).
Proof. intros H. unfold build_log_leaf_v. rewrite H. reflexivity. Qed.

(* the back-off pauses stay between Min and Max *)
Lemma backoff_base_bounds k : bo_min <= backoff_base k <= bo_max.
Proof.
  induction k as [|k IH]; cbn [backoff_base]; [unfold bo_min, bo_max, second; lia|].
  destruct ((backoff_base k * bo_factor >? bo_max) || (backoff_base k * bo_factor <? bo_min)) eqn:E.
  - unfold bo_min, bo_max, second. lia.
  - apply orb_false_iff in E. destruct E as [E1 E2]. rewrite Z.gtb_ltb in E1. apply Z.ltb_ge in E1, E2. lia.
Qed.

(* ------------------------------------------------------------------ the statements used by Props/C20.v *)
Section Statements.
  Variable proof : Type.
  Variable sha256 : bytes -> bytes.
  Variable x509v : bytes -> xverdict.
  Variable mth : list bytes -> bytes.
  Variable vcons : Z -> Z -> proof -> bytes -> bytes -> bool.
  Notation drive := (drive proof sha256 x509v mth vcons).
  Notation fetch_tail := (fetch_tail proof sha256 x509v mth vcons).
  Notation world_inv := (world_inv sha256 x509v).

  Lemma world_inv_empty idf src : world_inv idf {| w_src := src; w_dest := {| d_leaves := []; d_size := 0 |}; w_ver := 0 |}.
  Proof. split; [apply map_inv_nil | split; [cbn; lia | cbn; intros; lia]]. Qed.

  Lemma mirror_lemma ep cfg scripts begin w0 outs w fin :
    world_inv (c_idf cfg) w0 ->
    drive ep cfg scripts begin w0 = (outs, w, fin) ->
    forall i, 0 <= i < d_size (w_dest w) ->
    exists e cd, nth_error (w_src w) (Z.to_nat i) = Some e /\ raw_cert_data e = Some cd /\
      lookup (d_leaves (w_dest w)) i =
      Some {| lf_index := i; lf_value := e_input e; lf_extra := e_extra e; lf_id := id_hash sha256 (c_idf cfg) i cd |}.
  Proof.
    intros Hinv H i Hi. destruct (drive_inv proof sha256 x509v mth vcons errRetry ep cfg scripts begin w0 outs w fin Hinv H) as [A _].
    destruct (mirror_of_inv sha256 x509v (c_idf cfg) w A) as [M P]. specialize (P i Hi).
    destruct (lookup (d_leaves (w_dest w)) i) as [l|] eqn:El; [|congruence].
    destruct (M i l El) as [_ [e [cd [E1 [E2 E3]]]]]. exists e, cd. rewrite <- E3. auto.
  Qed.

  Lemma beyond_lemma ep cfg scripts begin w0 outs w fin :
    world_inv (c_idf cfg) w0 ->
    drive ep cfg scripts begin w0 = (outs, w, fin) ->
    forall i l, lookup (d_leaves (w_dest w)) i = Some l ->
    0 <= i < w_ver w /\
    exists e cd, nth_error (w_src w) (Z.to_nat i) = Some e /\ raw_cert_data e = Some cd /\
      l = {| lf_index := i; lf_value := e_input e; lf_extra := e_extra e; lf_id := id_hash sha256 (c_idf cfg) i cd |}.
  Proof.
    intros Hinv H i l Hl. destruct (drive_inv proof sha256 x509v mth vcons errRetry ep cfg scripts begin w0 outs w fin Hinv H) as [A _].
    destruct (mirror_of_inv sha256 x509v (c_idf cfg) w A) as [M _]. exact (M i l Hl).
  Qed.

  (* the ghost "verified size" only ever moves to the size of an STH that got through the gate *)
  Lemma verified_lemma cfg begin w ps :
    let o := fetch_tail cfg begin w ps in
    po_ver o = w_ver w \/
    exists n r creq, ps_sth ps = SthOk n r /\ po_ver o = Z.max (w_ver w) n
                     /\ gate proof vcons cfg (d_size (w_dest w)) (dest_root mth (w_dest w)) n r (ps_cons ps) = (true, creq).
  Proof.
    cbv zeta. destruct (fetch_tail_cases proof sha256 x509v mth vcons errRetry cfg begin w ps) as [[_ [B _]] | H]; [left; exact B|].
    destruct H as [n [r [steps [complete [rs [d' [ok [a [creq [_ [Hsth [_ [Hg [_ [_ [_ [_ [_ [_ [_ [_ Hv]]]]]]]]]]]]]]]]]]]]].
    right. exists n, r, creq. auto.
  Qed.

  Lemma gate_statement cfg begin w ps :
    let o := fetch_tail cfg begin w ps in
    c_nocheck cfg = false -> d_size (w_dest w) <> 0 ->
    (po_stream o <> [] \/ exists next, po_res o = POk next /\ begin < next) ->
    exists n r pf, ps_sth ps = SthOk n r /\ ps_cons ps = ConsProof pf
                   /\ vcons (d_size (w_dest w)) n pf (dest_root mth (w_dest w)) r = true
                   /\ po_cons_req o = Some (d_size (w_dest w), n).
  Proof. exact (gate_lemma proof sha256 x509v mth vcons errRetry cfg begin w ps). Qed.

  Lemma gate_sound_statement cfg begin w ps :
    (forall n m pf r1 r2, vcons n m pf r1 r2 = true ->
       exists ls, Z.of_nat (length ls) = m /\ mth ls = r2 /\ mth (firstn (Z.to_nat n) ls) = r1) ->
    let o := fetch_tail cfg begin w ps in
    c_nocheck cfg = false -> d_size (w_dest w) <> 0 ->
    (po_stream o <> [] \/ exists next, po_res o = POk next /\ begin < next) ->
    exists n r ls, ps_sth ps = SthOk n r /\ Z.of_nat (length ls) = n /\ mth ls = r
                   /\ mth (firstn (Z.to_nat (d_size (w_dest w))) ls) = dest_root mth (w_dest w).
  Proof.
    intros Hsound. cbv zeta. intros Hnc Hts Hmove.
    destruct (gate_lemma proof sha256 x509v mth vcons errRetry cfg begin w ps Hnc Hts Hmove) as [n [r [pf [A [_ [C _]]]]]].
    destruct (Hsound _ _ _ _ _ C) as [ls [L1 [L2 L3]]]. exists n, r, ls. auto.
  Qed.

  Lemma quota_statement cfg begin w ps n r :
    world_inv (c_idf cfg) w ->
    ps_root ps = RootOk -> ps_sth ps = SthOk n r -> begin < n -> n <= Z.of_nat (length (w_src w)) ->
    fst (gate proof vcons cfg (d_size (w_dest w)) (dest_root mth (w_dest w)) n r (ps_cons ps)) = true ->
    0 < c_batch cfg ->
    (forall e, In e (w_src w) -> raw_log_entry e <> None) ->
    (forall p v, assoc (ps_short ps) p = Some v -> 1 <= v) ->
    (forall s, quota_only (script_of (ps_replies ps) s)) ->
    let o := fetch_tail cfg begin w ps in
    po_res o = POk n /\ po_act o = ANone
    /\ (forall i, start_index cfg (d_size (w_dest w)) begin <= i < end_index cfg n -> lookup (d_leaves (po_dest o)) i <> None)
    /\ exists steps, walk (Z.of_nat (length (w_src w))) (ps_short ps) (start_index cfg (d_size (w_dest w)) begin) (end_index cfg n) (c_batch cfg)
                          (Z.to_nat (end_index cfg n - start_index cfg (d_size (w_dest w)) begin)) (start_index cfg (d_size (w_dest w)) begin) = (steps, true)
                     /\ length (po_stream o) = list_sum (map (fun t => S (length (script_of (ps_replies ps) (fst (fst t))))) steps).
  Proof. exact (quota_lemma proof sha256 x509v mth vcons errRetry cfg begin w ps n r eq_refl). Qed.

  Lemma conflicts_statement ep cfg scripts begin w0 outs w fin :
    world_inv (c_idf cfg) w0 ->
    drive ep cfg scripts begin w0 = (outs, w, fin) ->
    (forall o r, In o outs -> In r (po_stream o) ->
       (forall st, rr_reply r = RpcOk st -> ~ In LConflict st)
       /\ indices_from (rr_start r) (rr_leaves r) = true
       /\ Forall (fun l => good sha256 x509v (c_idf cfg) (w_src w) l /\ lf_index l < w_ver w) (rr_leaves r))
    /\ (forall i, 0 <= i < d_size (w_dest w) -> lookup (d_leaves (w_dest w)) i <> None).
  Proof.
    intros Hinv H. destruct (drive_inv proof sha256 x509v mth vcons errRetry ep cfg scripts begin w0 outs w fin Hinv H) as [A [_ [_ D]]]. split.
    - intros o r Ho Hr. rewrite Forall_forall in D. specialize (D o Ho). rewrite Forall_forall in D.
      destruct (D r Hr) as [S1 [S2 S3]]. auto.
    - destruct A as [_ [_ P]]. exact P.
  Qed.

  Lemma success_statement cfg begin w ps :
    world_inv (c_idf cfg) w ->
    let o := fetch_tail cfg begin w ps in
    forall next, po_res o = POk next ->
    po_act o = ANone /\
    ((next = begin /\ po_dest o = w_dest w) \/
     (exists r, ps_sth ps = SthOk next r /\ begin < next /\
        forall i, start_index cfg (d_size (w_dest w)) begin <= i < end_index cfg next -> lookup (d_leaves (po_dest o)) i <> None)).
  Proof. exact (success_lemma proof sha256 x509v mth vcons errRetry cfg begin w ps). Qed.

  Lemma continuous_statement cfg begin w ps :
    world_inv (c_idf cfg) w -> c_continuous cfg = true ->
    stored_below (w_dest w) begin ->
    let o := fetch_tail cfg begin w ps in
    forall next, po_res o = POk next -> begin <= next /\ stored_below (po_dest o) next.
  Proof. exact (continuous_lemma proof sha256 x509v mth vcons errRetry cfg begin w ps). Qed.
End Statements.

Lemma unparsable_statement sha256 idf i e :
  (forall xa xb, build_log_leaf sha256 xa idf i e = build_log_leaf sha256 xb idf i e) /\
  (forall xv cd parsed, raw_log_entry e = Some (cd, parsed) ->
     build_log_leaf_v sha256 xv idf i e =
     Some ({| lf_index := i; lf_value := e_input e; lf_extra := e_extra e; lf_id := id_hash sha256 idf i cd |}, xv parsed)).
Proof. split; [intros; apply x509_irrelevant | intros; apply verbatim_copy; assumption]. Qed.
