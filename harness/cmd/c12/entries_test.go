package main

import (
	"bytes"
	"context"
	"encoding/json"
	"fmt"
	"math"
	"reflect"
	"strings"
	"testing"

	ct "github.com/google/certificate-transparency-go"

	"verif/harness/lib"
	"verif/harness/tlsgen"
)

// RFC 6962 s4.6 outputs
type mLeafEntry struct {
	LeafInput []byte `json:"leaf_input"`
	ExtraData []byte `json:"extra_data"`
}
type mEntries struct {
	Entries []mLeafEntry `json:"entries"`
}

// ---- the harness's own RFC 6962 encoders / strict decoder for get-entries data ----

func encLeaf(ts uint64, e *entry, ext []byte) []byte {
	return cat([]byte{0, 0}, rfcSCTInput(ts, e, ext)[2:])
}

func encChain(certs [][]byte) []byte {
	var inner []byte
	for _, c := range certs {
		inner = cat(inner, u24(len(c)), c)
	}
	return cat(u24(len(inner)), inner)
}

func encPrecertExtra(pre []byte, chain [][]byte) []byte {
	return cat(u24(len(pre)), pre, encChain(chain))
}

type ownEntry struct {
	ts      uint64
	precert bool
	cert    []byte // x509 entry certificate / submitted precertificate
	ikh     []byte // precert entry: issuer key hash
	tbs     []byte
	ext     []byte // CtExtensions
	chain   [][]byte
}

type rd struct {
	b  []byte
	ok bool
}

func (r *rd) take(n int) []byte {
	if !r.ok || n < 0 || len(r.b) < n {
		r.ok = false
		return nil
	}
	x := r.b[:n]
	r.b = r.b[n:]
	return x
}
func (r *rd) uint(n int) int {
	x := r.take(n)
	v := 0
	for _, c := range x {
		v = v<<8 | int(c)
	}
	return v
}
func (r *rd) opaque(w, min int) []byte {
	n := r.uint(w)
	if n < min {
		r.ok = false
	}
	return r.take(n)
}

func ownChain(r *rd) [][]byte {
	inner := &rd{b: r.opaque(3, 0), ok: r.ok}
	var out [][]byte
	for inner.ok && len(inner.b) > 0 {
		out = append(out, inner.opaque(3, 1))
	}
	r.ok = r.ok && inner.ok
	return out
}

// ownDecode: strict RFC 6962 decoding of (leaf_input, extra_data); nothing may be left over
func ownDecode(li, extra []byte) (*ownEntry, bool) {
	r := &rd{b: li, ok: true}
	r.uint(1)           // version: the enum admits 0..255
	if r.uint(1) != 0 { // leaf type timestamped_entry
		return nil, false
	}
	o := &ownEntry{}
	tsb := r.take(8)
	for _, c := range tsb {
		o.ts = o.ts<<8 | uint64(c)
	}
	x := &rd{b: extra, ok: true}
	switch r.uint(2) {
	case 0:
		o.cert = r.opaque(3, 1)
		o.chain = ownChain(x)
	case 1:
		o.precert = true
		o.ikh = r.take(32)
		o.tbs = r.opaque(3, 1)
		o.cert = x.opaque(3, 1)
		o.chain = ownChain(x)
	default:
		return nil, false
	}
	o.ext = r.opaque(2, 0) // extensions
	if !r.ok || !x.ok || len(r.b) != 0 || len(x.b) != 0 {
		return nil, false
	}
	return o, true
}

// ---- response classes ----

type entrySpec struct {
	name string
	li   []byte
	ex   []byte
}

func entrySpecs(r randT, fx *fixtures) []entrySpec {
	ts := pickU64(r)
	x := &entry{cert: fx.leaf.DER}
	xLeaf := encLeaf(ts, x, nil)
	xExtra := encChain([][]byte{fx.inter.DER, fx.root.DER})
	p := entryOf(fx.chain("pre-3"), true)
	pLeaf := encLeaf(ts, p, randBytes(r, r.Intn(3)))
	pExtra := encPrecertExtra(fx.pre.DER, [][]byte{fx.inter.DER, fx.root.DER})
	junk := &entry{cert: []byte("junk: not DER at all")}
	junkTBS := &entry{precert: true, ikh: p.ikh, tbs: []byte{0x30, 0x03, 0x02, 0x01, 0x01}}
	unk := append([]byte{}, xLeaf...)
	unk[11] = 2 // entry type 2
	jsonType := cat([]byte{0, 0}, u64(ts), u16(32768), u24(2), []byte("{}"), u16(0))
	leafType := append([]byte{}, xLeaf...)
	leafType[1] = 1
	version := append([]byte{}, xLeaf...)
	version[0] = 1
	specs := []entrySpec{
		{"x509", xLeaf, xExtra},
		{"precert", pLeaf, pExtra},
		{"x509-empty-chain", xLeaf, encChain(nil)},
		{"x509-leaf-version-1", version, xExtra},
		{"leaf-trailing-byte", append(append([]byte{}, xLeaf...), 0), xExtra},
		{"leaf-truncated", pLeaf[:len(pLeaf)-1], pExtra},
		{"leaf-empty", nil, xExtra},
		{"extra-trailing-byte", xLeaf, append(append([]byte{}, xExtra...), 9)},
		{"extra-truncated", pLeaf, pExtra[:len(pExtra)-3]},
		{"extra-empty", xLeaf, nil},
		{"extra-of-other-kind", pLeaf, xExtra},
		{"x509-with-precert-extra", xLeaf, pExtra},
		{"entry-type-2", unk, xExtra},
		{"entry-type-json", jsonType, xExtra},
		{"leaf-type-1", leafType, xExtra},
		{"certificate-is-junk", encLeaf(ts, junk, nil), xExtra},
		{"tbs-is-junk", encLeaf(ts, junkTBS, nil), pExtra},
		{"inner-length-overruns", cat(xLeaf[:12], u24(len(fx.leaf.DER)+50), fx.leaf.DER, u16(0)), xExtra},
	}
	// (genOthers indexes the list above by position: new classes go below)
	return append(specs, quirkSpecs(r, fx)...)
}

const quirkPrefix = "tolerated-quirk:"

// quirkSpecs: well-formed entries whose certificate / precertificate TBS parses with a NON-fatal
// X.509 error only (the parser's tolerated quirks, probed in buildQuirks)
func quirkSpecs(r randT, fx *fixtures) []entrySpec {
	var out []entrySpec
	chain := [][]byte{fx.inter.DER, fx.root.DER}
	for _, q := range fx.quirks {
		out = append(out, entrySpec{quirkPrefix + "x509:" + q.name, encLeaf(pickU64(r), &entry{cert: q.cert}, randBytes(r, r.Intn(2)*r.Intn(4))), encChain(chain[:r.Intn(3)])})
		if q.tbs != nil {
			out = append(out, entrySpec{quirkPrefix + "precert:" + q.name, encLeaf(pickU64(r), q.tbs, nil), encPrecertExtra(q.pre, chain[:1+r.Intn(2)])})
		}
	}
	return out
}

func entriesJSON(es []entrySpec) []byte {
	var parts []string
	for _, e := range es {
		parts = append(parts, fmt.Sprintf(`{"leaf_input":"%s","extra_data":"%s"}`, b64(e.li), b64(e.ex)))
	}
	return []byte(`{"entries":[` + strings.Join(parts, ",") + `]}`)
}

func entriesCoq(es []mLeafEntry) string {
	var xs []string
	for _, e := range es {
		xs = append(xs, lib.Pair(lib.Bytes(e.LeafInput), lib.Bytes(e.ExtraData)))
	}
	return lib.List(xs)
}

// the parse-class tables: for every certificate / TBS a (loosely) readable leaf carries
func classTables(es []mLeafEntry) (certs, tbss []string) {
	seen := map[string]bool{}
	for _, e := range es {
		li := e.LeafInput
		if len(li) < 12 {
			continue
		}
		r := &rd{b: li[12:], ok: true}
		switch int(li[10])<<8 | int(li[11]) {
		case 0:
			c := r.opaque(3, 0)
			if r.ok && !seen["c"+string(c)] {
				seen["c"+string(c)] = true
				certs = append(certs, lib.Pair(lib.Bytes(c), parseClass(c, false)))
			}
		case 1:
			r.take(32)
			t := r.opaque(3, 0)
			if r.ok && !seen["t"+string(t)] {
				seen["t"+string(t)] = true
				tbss = append(tbss, lib.Pair(lib.Bytes(t), parseClass(t, true)))
			}
		}
	}
	return
}

func logEntryCoq(e *ct.LogEntry) string {
	dl := tlsgen.FromGoType(reflect.TypeOf(e.Leaf))
	dc := tlsgen.FromGoType(reflect.TypeOf(ct.ASN1Cert{}))
	var cs []string
	for _, c := range e.Chain {
		cs = append(cs, tlsgen.ValCoq(dc, reflect.ValueOf(c)))
	}
	sub := "None"
	if e.Precert != nil {
		sub = lib.Some(tlsgen.ValCoq(dc, reflect.ValueOf(e.Precert.Submitted)))
	}
	return fmt.Sprintf("(Build_log_entry %s %s (VList %s) %s)", lib.Z(e.Index), tlsgen.ValCoq(dl, reflect.ValueOf(e.Leaf)), lib.List(cs), sub)
}

func sameChain(a []ct.ASN1Cert, b [][]byte) bool {
	if len(a) != len(b) {
		return false
	}
	for i := range a {
		if !bytes.Equal(a[i].Data, b[i]) {
			return false
		}
	}
	return true
}

// casesEntries: GetEntries and GetRawEntries over the same scripted response, each on a fresh
// client (sess == nil) or as the next two calls of a session
func casesEntries(t *testing.T, sess *session, start, end int64, v variant, methods ...bool) []lib.Case {
	var out []lib.Case
	if len(methods) == 0 {
		methods = []bool{false, true} // GetEntries, GetRawEntries
	}
	for _, raw := range methods {
		bodies := newBodyTable()
		sc := &script{items: finish(append([]wireItem{}, v.items...), bodies)}
		if sess != nil {
			sess.use(sc)
		}
		lc := sess.plain(sc, nil, false)
		var entries []ct.LogEntry
		var rawRsp *ct.GetEntriesResponse
		var err error
		pan, pv := bubble(t, sc, func(ctx context.Context) {
			if raw {
				rawRsp, err = lc.GetRawEntries(ctx, start, end)
			} else {
				entries, err = lc.GetEntries(ctx, start, end)
			}
		})
		atts := sc.attempts(bodies)
		obs := classify(err, pan, pv, bodies)
		att := attempt{NoResp: true, Class: "no-request"}
		var last *attempt
		if len(atts) > 0 {
			att = atts[len(atts)-1]
			last = &att
		}
		jsonCoq := "None"
		var m mEntries
		decoded := false
		if att.received && att.ReadOK && json.Unmarshal(att.body, &m) == nil {
			decoded = true
			jsonCoq = lib.Some(entriesCoq(m.Entries))
		}
		method := "GetEntries"
		if raw {
			method = "GetRawEntries"
		}
		where := fmt.Sprintf("(start=%d end=%d response=%s)", start, end, v.name)
		ok, note := errorOracle(last, obs, entries == nil && rawRsp == nil)
		badRange := end < 0 || end < start
		if badRange && (len(sc.log) != 0 || obs.Class != "plain-error") {
			ok, note = false, "a request was made (or no plain error returned) for an invalid range"
		}
		if !ok {
			note = method + ": " + note + " " + where
		}
		var coq string
		if raw {
			obsCoq := obs.coq()
			if obs.Class == "ok" {
				var got []mLeafEntry
				for _, e := range rawRsp.Entries {
					got = append(got, mLeafEntry{e.LeafInput, e.ExtraData})
				}
				obsCoq = "(COk " + entriesCoq(got) + ")"
				if ok && (!decoded || !reflect.DeepEqual(normEntries(got), normEntries(m.Entries))) {
					ok, note = false, "GetRawEntries: result differs from the response "+where
				}
			}
			coq = fmt.Sprintf("CGetRawEntries %s %s %s %s", lib.Z(start), lib.Z(end), coqAttempt(att, jsonCoq), obsCoq)
		} else {
			obsCoq := obs.coq()
			if obs.Class == "ok" {
				var xs []string
				for i := range entries {
					xs = append(xs, logEntryCoq(&entries[i]))
				}
				obsCoq = "(COk " + lib.List(xs) + ")"
				if ok && (!decoded || len(entries) != len(m.Entries)) {
					ok, note = false, "GetEntries: number of entries differs from the response "+where
				}
				for i := 0; ok && i < len(entries); i++ {
					e := &entries[i]
					o, good := ownDecode(m.Entries[i].LeafInput, m.Entries[i].ExtraData)
					switch {
					case !good:
						ok, note = false, fmt.Sprintf("GetEntries: entry %d accepted although (leaf_input, extra_data) is not a well-formed entry %s", i, where)
					case e.Leaf.TimestampedEntry == nil:
						ok, note = false, fmt.Sprintf("GetEntries: entry %d is not filled in (no timestamped entry) although the call succeeded %s", i, where)
					case e.Index != start+int64(i):
						ok, note = false, fmt.Sprintf("GetEntries: entry %d has index %d %s", i, e.Index, where)
					case e.Leaf.TimestampedEntry.Timestamp != o.ts || !sameChain(e.Chain, o.chain) || !bytes.Equal(e.Leaf.TimestampedEntry.Extensions, o.ext) ||
						(e.Leaf.TimestampedEntry.EntryType == ct.PrecertLogEntryType) != o.precert || (e.Leaf.TimestampedEntry.EntryType == ct.X509LogEntryType) == o.precert:
						ok, note = false, fmt.Sprintf("GetEntries: entry %d inconsistent with leaf_input / extra_data %s", i, where)
					case !o.precert && (e.X509Cert == nil || !bytes.Equal(e.X509Cert.Raw, o.cert) || e.Precert != nil ||
						e.Leaf.TimestampedEntry.X509Entry == nil || !bytes.Equal(e.Leaf.TimestampedEntry.X509Entry.Data, o.cert)):
						ok, note = false, fmt.Sprintf("GetEntries: entry %d certificate is not the leaf's %s", i, where)
					case o.precert && (e.Precert == nil || !bytes.Equal(e.Precert.Submitted.Data, o.cert) || e.Precert.TBSCertificate == nil || !bytes.Equal(e.Precert.TBSCertificate.RawTBSCertificate, o.tbs) ||
						!bytes.Equal(e.Precert.IssuerKeyHash[:], o.ikh) || e.X509Cert != nil):
						ok, note = false, fmt.Sprintf("GetEntries: entry %d precertificate is not the entry's %s", i, where)
					}
				}
			}
			certs, tbss := classTables(m.Entries)
			coq = fmt.Sprintf("CGetEntries %s %s %s %s %s %s", lib.Z(start), lib.Z(end), coqAttempt(att, jsonCoq), lib.List(certs), lib.List(tbss), obsCoq)
		}
		if !ok {
			note += sess.after()
		}
		hist := sess.history()
		htags := sess.tags()
		if sess != nil {
			sess.did(fmt.Sprintf("%s(%d,%d) %s", method, start, end, v.name), obs.Class)
		}
		out = append(out, lib.Case{
			Coq:    coq,
			Input:  map[string]interface{}{"method": method, "start": start, "end": end, "response": v.name, "script": sc.items, "attempts": atts, "history": hist},
			Impl:   obs,
			PropOK: ok, Note: note,
			Tags: append([]string{"method:" + method, "get-entries:" + v.name, "result:" + obs.Class, fmt.Sprintf("get-entries:range-ok=%v", !badRange)}, htags...),
		})
	}
	return out
}

func normEntries(es []mLeafEntry) []mLeafEntry {
	out := make([]mLeafEntry, len(es))
	for i, e := range es {
		out[i] = mLeafEntry{append([]byte{}, e.LeafInput...), append([]byte{}, e.ExtraData...)}
	}
	return out
}

func genEntries(t *testing.T, r randT, w *lib.Writer, fx *fixtures, rep int) {
	add := func(start, end int64, v variant) {
		for _, c := range casesEntries(t, nil, start, end, v) {
			w.Add(c)
		}
	}
	// the decoding method only (GetRawEntries does not look into the entries)
	addDec := func(start, end int64, v variant) {
		for _, c := range casesEntries(t, nil, start, end, v, false) {
			w.Add(c)
		}
	}
	specs := entrySpecs(r, fx)
	okv := func(name string, body []byte) variant { return variant{name, []wireItem{resp(200, body, name)}} }
	good2 := entriesJSON(specs[:2])
	// each entry class alone, and between two good entries
	for _, s := range specs {
		st := int64(r.Intn(1000))
		if strings.HasPrefix(s.name, quirkPrefix) {
			addDec(st, st, okv("one:"+s.name, entriesJSON([]entrySpec{s})))
			if lib.Tier() != "quick" || r.Intn(3) == 0 {
				addDec(st, st+2, okv("middle:"+s.name, entriesJSON([]entrySpec{specs[0], s, specs[1]})))
			}
			continue
		}
		add(st, st, okv("one:"+s.name, entriesJSON([]entrySpec{s})))
		add(st, st+2, okv("middle:"+s.name, entriesJSON([]entrySpec{specs[0], s, specs[1]})))
	}
	// tolerated quirks at every position of a longer answer, several in one answer, and before
	// an entry that cannot be decoded (no partial result)
	var qs []entrySpec
	for _, s := range specs {
		if strings.HasPrefix(s.name, quirkPrefix) {
			qs = append(qs, s)
		}
	}
	for k := 0; k < lib.Count(2, 6); k++ {
		q, q2 := qs[r.Intn(len(qs))], qs[r.Intn(len(qs))]
		st := int64(r.Intn(100000))
		nm := strings.TrimPrefix(q.name, quirkPrefix)
		addDec(st, st+2, okv("first:"+q.name, entriesJSON([]entrySpec{q, specs[1], specs[0]})))
		addDec(st, st+2, okv("last:"+q.name, entriesJSON([]entrySpec{specs[0], specs[1], q})))
		addDec(st, st+3, okv("several:"+q.name+"+"+strings.TrimPrefix(q2.name, quirkPrefix), entriesJSON([]entrySpec{q, specs[0], q2, q})))
		add(st, st+1, okv("quirk-then-junk:"+nm, entriesJSON([]entrySpec{q, specs[15]})))
	}
	// count mismatches and index arithmetic
	three := entriesJSON([]entrySpec{specs[0], specs[1], specs[2]})
	add(0, 1, okv("exact-2", good2))
	add(10, 19, okv("fewer-than-asked", good2))
	add(7, 7, okv("more-than-asked", three))
	add(3, 5, okv("none", []byte(`{"entries":[]}`)))
	add(3, 5, okv("entries-null", []byte(`{"entries":null}`)))
	add(math.MaxInt64-1, math.MaxInt64, okv("index-wraps", three))
	add(math.MaxInt64, math.MaxInt64, okv("index-wraps-2", good2))
	add(-3, 1, okv("negative-start", good2))
	add(math.MinInt64, 0, okv("min-start", good2))
	// invalid ranges: no request
	add(3, 2, okv("unused", good2))
	add(0, -1, okv("unused", good2))
	add(-9, -2, okv("unused", good2))
	add(math.MaxInt64, math.MaxInt64-1, okv("unused", good2))
	// JSON-level classes
	add(0, 1, okv("leaf-input-bad-base64", []byte(`{"entries":[{"leaf_input":"***","extra_data":""}]}`)))
	add(0, 1, okv("entries-is-object", []byte(`{"entries":{"leaf_input":"","extra_data":""}}`)))
	add(0, 1, okv("entry-is-string", []byte(`{"entries":["AAAA"]}`)))
	add(0, 1, okv("entry-fields-missing", []byte(`{"entries":[{}]}`)))
	add(0, 1, okv("entry-null", []byte(`{"entries":[null]}`)))
	add(0, 1, okv("leaf-input-number", []byte(`{"entries":[{"leaf_input":5,"extra_data":""}]}`)))
	for _, v := range httpFaults(r, good2) {
		add(0, 1, v)
	}
}
