// C12 correspondence harness (a `go test -c` binary: the retrying endpoints run under
// testing/synctest virtual time).
//
// Every LogClient method is called over a scripted http.RoundTripper (arbitrary status codes,
// headers, bodies; redirects; failing reads / closes / transports; the caller's context ending)
// by clients built with an ECDSA P-256 key, an RSA-2048 key and without a key.  The harness is
// its own log: it builds the RFC 6962 signature inputs from the RFC text and signs them.
// Besides calls on fresh clients there are HISTORIES of calls on one client (history_test.go): a
// response is held to the same statement whatever the client was served before (replayed
// signature bytes under forged fields, responses accepted for one submission or endpoint served
// for another).  get-entries answers and submitted chains include certificates with tolerated
// quirks (non-fatal X.509 parse errors; candidates probed against the parser, fixtures_test.go).
// The precertificate entry a response is held to is made BY HAND from what the harness's PKI
// knows (final-certificate twin issued by the real CA; fixtures_test.go issuePre), also for
// chains through a Precertificate Signing Certificate; the log also signs every wrongly derived
// entry.  A temporal client with SEVERAL shards lives through a history of fan-out (get-roots,
// a fault on every shard position) and routed (add-chain by NotAfter) calls (multishard_test.go);
// also with several shards configured with ONE base URI and different keys (genSharedURI).
// Every endpoint is also answered with LARGE bodies around powers of two (sizes_test.go).
//
// One case = the HTTP outcome(s) the transport produced (reconstructed from the transport's own
// log), the oracle tables (signature pairs that verify under the configured key, verified HERE
// with crypto/ecdsa / crypto/rsa; the entry of the submitted chain; X.509 parse classes)
// and the result the implementation returned.  The Coq side (Client/ClientCase.v) evaluates the
// model on the same inputs.  PropOK is the property's sentence on the observations alone.
//
// Build: go1.26 test -c -tags verif -o build/bin/c12 ./cmd/c12
// Run:   build/bin/c12 -test.run '^TestHarness$' -test.timeout 0 -test.count 1 -out DIR
package main

import (
	"io"
	"log"
	"testing"

	"verif/harness/lib"
)

const header = `From Coq Require Import String NArith ZArith List. Import ListNotations.
From V Require Import Base.Bytes TLS.TlsModel gen.CtTypes CT.Rfc6962Spec CT.CtFuncs Client.ClientModel Client.ClientCase.
`

func TestHarness(t *testing.T) {
	if *lib.OutDir == "" {
		t.Skip("-out not given")
	}
	log.SetOutput(io.Discard) // the temporal client's default logger
	r := lib.Rand()
	w := lib.NewWriter(header, 40) // small shards: the get-entries cases carry whole certificates
	fx := buildFixtures()
	extra := lib.Count(1, 8) // how many times the grids are repeated with fresh random field values

	configs := []*logKey{fx.keys[0], fx.keys[1], nil}
	for rep := 0; rep < extra; rep++ {
		genSTH(t, r, w, fx, configs, rep)
		genAddChain(t, r, w, fx, configs, rep)
		genEntries(t, r, w, fx, rep)
		genOthers(t, r, w, fx, rep)
		genHistories(t, r, w, fx, configs, rep)
		genMultiShard(t, r, w, fx, rep)
		genSharedURI(t, r, w, fx, rep)
		genSizes(t, r, w, fx, configs, rep)
	}
	w.Close()
}

func genSTH(t *testing.T, r randT, w *lib.Writer, fx *fixtures, configs []*logKey, rep int) {
	for ci, key := range configs {
		signer, foreign := fx.keys[ci%2], fx.foreign[ci%2]
		if key != nil {
			signer = key
		}
		vs, good := sthVariants(r, signer, foreign)
		for _, v := range vs {
			w.Add(caseGetSTH(t, nil, key, r.Intn(2) == 0, v))
		}
		for _, v := range httpFaults(r, good) {
			w.Add(caseGetSTH(t, nil, key, r.Intn(2) == 0, v))
		}
	}
}
