(* C14: the main statements. *)
From Coq Require Import String NArith ZArith Bool Lia PeanoNat List ZifyN ZifyNat.
From V Require Import Base.Bytes TLS.TlsModel TLS.TlsLemmas TLS.TlsRoundTripA TLS.TlsRoundTripB TLS.TlsMarshalSafe gen.CtTypes CT.CtFuncs
  CT.Rfc6962Proofs CT.CtFuncsProofs X509.Der X509.PrecertModel CTFE.ChainStoreModel CTFE.ChainStoreForms CTFE.ChainStoreProofs.
Import ListNotations.
Local Open Scope N_scope.

Lemma sized_layouts :
  sized gen_PrecertChainEntryHash None = true /\ sized gen_CertificateChainHash None = true /\
  sized gen_PrecertChainEntry None = true /\ sized gen_CertificateChain None = true.
Proof. vm_compute. repeat split. Qed.

Lemma complete_of_marshal t v bs : sized t None = true -> wt t v -> short bs -> marshal t None v = Ok bs -> complete t bs = Ok v.
Proof.
  intros Hs Hw Hsh Hm. unfold complete.
  pose proof (proj1 roundtripA t None v bs Hs Hm Hsh Hw []) as E. rewrite app_nil_r in E. rewrite E. reflexivity.
Qed.

Lemma short_of_len bs : len bs < 4294967296 -> short bs.
Proof. unfold short, two64N, len. lia. Qed.

Lemma wt_chain chain : Forall (wt gen_ASN1Cert) (map v_cert chain).
Proof. induction chain; constructor; cbn; auto. Qed.

(* the direct-mode bytes parse as their own layout *)
Lemma direct_parses precert cert chain x :
  cert_ok cert -> Forall cert_ok chain -> len (enc_certs chain) <= 16777215 ->
  extra_direct precert cert chain = Ok x ->
  (if precert then complete gen_PrecertChainEntry x = Ok (v_precert_chain cert chain) /\ form_pce x
   else complete gen_CertificateChain x = Ok (v_cert_chain chain) /\ form_cc x).
Proof.
  intros Hc Hch Hl Hx. destruct sized_layouts as (_ & _ & S3 & S4). unfold extra_direct in Hx. destruct precert.
  - rewrite (marshal_pce cert chain Hc Hch Hl) in Hx. injection Hx as <-.
    assert (Hlen : len (enc_cert cert ++ u24 (len (enc_certs chain)) ++ enc_certs chain) < 4294967296).
    { unfold enc_cert, u24. rewrite !len_app, !len_be_enc. unfold cert_ok in Hc. cbn. lia. }
    split.
    + apply complete_of_marshal; auto.
      * cbn. repeat split; auto. apply wt_chain.
      * apply short_of_len; exact Hlen.
      * apply marshal_pce; auto.
    + exists cert, (enc_certs chain). unfold enc_cert. rewrite <- app_assoc. unfold cert_ok in Hc. auto.
  - rewrite (marshal_cc chain Hch Hl) in Hx. injection Hx as <-.
    assert (Hlen : len (u24 (len (enc_certs chain)) ++ enc_certs chain) < 4294967296).
    { unfold u24. rewrite !len_app, !len_be_enc. cbn. lia. }
    split.
    + apply complete_of_marshal; auto.
      * cbn. repeat split; auto. apply wt_chain.
      * apply short_of_len; exact Hlen.
      * apply marshal_cc; auto.
    + exists (enc_certs chain). auto.
Qed.

Section WithHash.
Variable H : bytes -> bytes.
Hypothesis H_len : forall b, length (H b) = 32%nat.

Lemma h_len_ok b : len (H b) <= 256. Proof. unfold len. rewrite H_len. lia. Qed.
Lemma h_nonempty b : (length (H b) =? 0)%nat = false. Proof. rewrite H_len. reflexivity. Qed.

(* entries that were stored with their full chain are served unchanged, whatever the
   storage and the cache do *)
Lemma legacy_unchanged_lemma get precert cert chain x :
  cert_ok cert -> Forall cert_ok chain -> len (enc_certs chain) <= 16777215 ->
  extra_direct precert cert chain = Ok x -> fix_leaf get x = Ok x.
Proof.
  intros Hc Hch Hl Hx. pose proof (direct_parses precert cert chain x Hc Hch Hl Hx) as Hp.
  unfold fix_leaf. destruct precert.
  - destruct Hp as [Hp Hf].
    destruct (complete gen_PrecertChainEntryHash x) eqn:E1; [exfalso; eapply pce_refused_as_pceh; eauto| | | |];
    (destruct (complete gen_CertificateChainHash x) eqn:E2; [exfalso; eapply pce_refused_as_cch; eauto| | | |]);
    rewrite Hp; reflexivity.
  - destruct Hp as [Hp Hf].
    destruct (complete gen_PrecertChainEntryHash x) eqn:E1; [exfalso; eapply cc_refused_as_pceh; eauto| | | |];
    (destruct (complete gen_CertificateChainHash x) eqn:E2; [exfalso; eapply cc_refused_as_cch; eauto| | | |]);
    (destruct (complete gen_PrecertChainEntry x) eqn:E3; [exfalso; eapply cc_refused_as_pce; eauto| | | |]);
    rewrite Hp; reflexivity.
Qed.

(* a hashed entry is re-inflated to exactly the direct-mode bytes, given the right blob *)
Lemma hashed_parses precert cert h x :
  cert_ok cert -> len h <= 256 -> extra_hashed precert cert h = Ok x ->
  (if precert then complete gen_PrecertChainEntryHash x = Ok (v_precert_hash cert h)
   else complete gen_CertificateChainHash x = Ok (v_cert_hash h) /\ form_cch x).
Proof.
  intros Hc Hh Hx. destruct sized_layouts as (S1 & S2 & _ & _). unfold extra_hashed in Hx. destruct precert.
  - rewrite (marshal_pceh cert h Hc Hh) in Hx. injection Hx as <-.
    apply complete_of_marshal; auto.
    + cbn. auto.
    + apply short_of_len. unfold enc_cert, u24, u16. rewrite !len_app, !len_be_enc. unfold cert_ok in Hc. cbn. lia.
    + apply marshal_pceh; auto.
  - rewrite (marshal_cch h Hh) in Hx. injection Hx as <-. split.
    + apply complete_of_marshal; auto.
      * cbn. auto.
      * apply short_of_len. unfold u16. rewrite !len_app, !len_be_enc. cbn. lia.
      * apply marshal_cch; auto.
    + exists h. auto.
Qed.

Lemma fix_hashed_lemma get precert cert chain x :
  cert_ok cert -> Forall cert_ok chain -> len (enc_certs chain) <= 16777215 -> chain_ok chain ->
  extra_hashed precert cert (H (enc_chain chain)) = Ok x ->
  get (H (enc_chain chain)) = IoOk (enc_chain chain) ->
  fix_leaf get x = extra_direct precert cert chain.
Proof.
  intros Hc Hch Hl Hok Hx Hget.
  pose proof (hashed_parses precert cert _ x Hc (h_len_ok _) Hx) as Hp.
  unfold fix_leaf, extra_direct. destruct precert.
  - rewrite Hp. cbn [field v_precert_hash nth_error cert_of bytes_of v_cert].
    rewrite h_nonempty, Hget, (dec_enc_chain chain Hok). reflexivity.
  - destruct Hp as [Hp Hf].
    destruct (complete gen_PrecertChainEntryHash x) eqn:E1; [exfalso; eapply cch_refused_as_pceh; eauto| | | |];
    rewrite Hp; cbn [field v_cert_hash nth_error bytes_of];
    rewrite h_nonempty, Hget, (dec_enc_chain chain Hok); reflexivity.
Qed.

(* storage / cache invariants *)
Definition store_inv (store : kv) : Prop := forall k c, kv_get k store = Some c -> H c = k.
Definition cache_sub (cache store : kv) : Prop := forall k c, kv_get k cache = Some c -> kv_get k store = Some c.

Lemma kv_get_cons k k' v m : kv_get k ((k', v) :: m) = if bytes_eqb k k' then Some v else kv_get k m.
Proof. reflexivity. Qed.

Lemma build_indirect_spec precert cert chain cache store x store' :
  store_inv store -> cache_sub cache store ->
  build_indirect H precert cert chain cache store true = Ok (x, store') ->
  extra_hashed precert cert (H (enc_chain chain)) = Ok x /\ store_inv store' /\
  (forall k c, kv_get k store = Some c -> kv_get k store' = Some c) /\
  exists c, kv_get (H (enc_chain chain)) store' = Some c /\ H c = H (enc_chain chain).
Proof.
  intros Hinv Hsub Hb. unfold build_indirect in Hb. set (blob := enc_chain chain) in *. set (h := H blob) in *.
  destruct (kv_get h cache) as [c0|] eqn:Ec.
  - destruct (extra_hashed precert cert h) as [x0| | | |] eqn:Ex; try discriminate.
    injection Hb as <- <-. repeat split; auto.
    exists c0. split; [apply Hsub; exact Ec|]. apply Hinv. apply Hsub. exact Ec.
  - cbn [negb] in Hb. destruct (extra_hashed precert cert h) as [x0| | | |] eqn:Ex; try discriminate.
    injection Hb as <- <-. split; [reflexivity|].
    destruct (kv_get h store) as [c1|] eqn:Es.
    + repeat split; auto. exists c1. split; [exact Es|]. apply Hinv. exact Es.
    + repeat split.
      * intros k c. rewrite kv_get_cons. destruct (bytes_eqb k h) eqn:Ek.
        -- intros E; injection E as <-. apply bytes_eqb_eq in Ek. subst k. reflexivity.
        -- apply Hinv.
      * intros k c Hk. rewrite kv_get_cons. destruct (bytes_eqb k h) eqn:Ek; [|exact Hk].
        apply bytes_eqb_eq in Ek. subst k. congruence.
      * exists blob. rewrite kv_get_cons. rewrite (proj2 (bytes_eqb_eq h h) eq_refl). auto.
Qed.

(* THE statement: whatever the cache holds (any sub-map of the storage, before and after:
   eviction, expiry and the detached cache fill are arbitrary changes within that invariant),
   an entry built in external-storage mode is served with extra_data byte-identical to what
   the default mode stores and serves - or two different chains collide under SHA-256 *)
Lemma indirect_equals_direct_lemma precert cert chain cache store x store' cache' :
  cert_ok cert -> Forall cert_ok chain -> len (enc_certs chain) <= 16777215 -> chain_ok chain ->
  store_inv store -> cache_sub cache store ->
  build_indirect H precert cert chain cache store true = Ok (x, store') ->
  cache_sub cache' store' ->
  fix_leaf (get_by_hash cache' store' true) x = extra_direct precert cert chain
  \/ exists c, c <> enc_chain chain /\ H c = H (enc_chain chain).
Proof.
  intros Hc Hch Hl Hok Hinv Hsub Hb Hsub'.
  destruct (build_indirect_spec _ _ _ _ _ _ _ Hinv Hsub Hb) as (Hx & Hinv' & Hmono & c & Hget & Hhc).
  destruct (bytes_eqb c (enc_chain chain)) eqn:Ec.
  - apply bytes_eqb_eq in Ec. subst c. left. apply fix_hashed_lemma; auto.
    unfold get_by_hash. destruct (kv_get (H (enc_chain chain)) cache') as [c'|] eqn:Ecache.
    + apply Hsub' in Ecache. rewrite Hget in Ecache. injection Ecache as <-. reflexivity.
    + cbn [negb]. rewrite Hget. reflexivity.
  - right. exists c. split; [|exact Hhc]. intros E. subst c. rewrite (proj2 (bytes_eqb_eq _ _) eq_refl) in Ec. discriminate.
Qed.

(* faults: an error, never altered / truncated / empty chain data *)
Lemma storage_add_failure_is_error precert cert chain cache store :
  kv_get (H (enc_chain chain)) cache = None ->
  build_indirect H precert cert chain cache store false = ErrStruct.
Proof. intros Hc. unfold build_indirect. rewrite Hc. reflexivity. Qed.

Lemma lookup_failure_is_error get precert cert h x :
  cert_ok cert -> len h <= 256 -> (length h =? 0)%nat = false ->
  extra_hashed precert cert h = Ok x -> get h = IoErr -> fix_leaf get x = ErrStruct.
Proof.
  intros Hc Hh Hne Hx Hget. pose proof (hashed_parses precert cert h x Hc Hh Hx) as Hp.
  unfold fix_leaf. destruct precert.
  - rewrite Hp. cbn [field v_precert_hash nth_error cert_of bytes_of v_cert]. rewrite Hne, Hget. reflexivity.
  - destruct Hp as [Hp Hf].
    destruct (complete gen_PrecertChainEntryHash x) eqn:E1; [exfalso; eapply cch_refused_as_pceh; eauto| | | |];
    rewrite Hp; cbn [field v_cert_hash nth_error bytes_of]; rewrite Hne, Hget; reflexivity.
Qed.

Lemma corrupted_blob_is_error get precert cert h x blob :
  cert_ok cert -> len h <= 256 -> (length h =? 0)%nat = false ->
  extra_hashed precert cert h = Ok x -> get h = IoOk blob -> dec_chain blob = None -> fix_leaf get x = ErrStruct.
Proof.
  intros Hc Hh Hne Hx Hget Hdec. pose proof (hashed_parses precert cert h x Hc Hh Hx) as Hp.
  unfold fix_leaf. destruct precert.
  - rewrite Hp. cbn [field v_precert_hash nth_error cert_of bytes_of v_cert]. rewrite Hne, Hget, Hdec. reflexivity.
  - destruct Hp as [Hp Hf].
    destruct (complete gen_PrecertChainEntryHash x) eqn:E1; [exfalso; eapply cch_refused_as_pceh; eauto| | | |];
    rewrite Hp; cbn [field v_cert_hash nth_error bytes_of]; rewrite Hne, Hget, Hdec; reflexivity.
Qed.

Lemma unknown_hash_is_error cache store h :
  kv_get h cache = None -> kv_get h store = None -> get_by_hash cache store true h = IoErr.
Proof. intros Hc Hs. unfold get_by_hash. rewrite Hc, Hs. reflexivity. Qed.

(* the cache never changes an answer: with cache within storage, lookups equal storage-only lookups *)
Lemma cache_state_irrelevant_lemma cache store h :
  cache_sub cache store -> get_by_hash cache store true h = get_by_hash [] store true h.
Proof.
  intros Hsub. unfold get_by_hash. cbn [kv_get negb]. destruct (kv_get h cache) as [c|] eqn:Ec; [|reflexivity].
  rewrite (Hsub _ _ Ec). reflexivity.
Qed.
End WithHash.
