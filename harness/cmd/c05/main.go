// C05 correspondence harness: signature verification accepts exactly the valid log signatures.
//
// Drives tls.VerifySignature / tls.CreateSignature, the fork's asn1.Unmarshal on signature
// values, ct.NewSignatureVerifier (with and without AllowVerificationWithNonCompliantKeys),
// ct.SerializeSCTSignatureInput / SerializeSTHSignatureInput, SignatureVerifier.VerifySCTSignature /
// VerifySTHSignature, ctutil.VerifySCT and loglist3.NewFromSignedJSON with real keys
// (RSA 1024/2047/2048/3072, P-224/256/384/521, DSA, Ed25519, non-key values), all algorithm
// codes, valid signatures, single-field / single-bit mutations of the signed objects and
// malformed DER signature values; and, for the declared algorithm identifiers, sweeps of all 256
// hash / signature codes over signatures that are valid over the digest of the data under every
// hash function registered in this binary (algIDStream), with tls.CreateSignature on every code.
//
// Everything the model treats as an oracle is measured here with the Go standard library
// directly (hash functions, rsa.VerifyPKCS1v15, ecdsa.Verify, dsa.Verify, encoding/json) and
// handed to the model as a per-case table.  The direct property oracle (PropOK) is computed
// from those measurements, this file's own X.690 reader and its own RFC 6962 encoders -
// never from the model.
package main

import (
	"crypto"
	"crypto/dsa" //nolint:staticcheck
	"crypto/ecdsa"
	"crypto/ed25519"
	"crypto/elliptic"
	_ "crypto/md5"
	"crypto/rand"
	"crypto/rsa"
	_ "crypto/sha1"
	"crypto/sha256"
	_ "crypto/sha512"
	"encoding/binary"
	"encoding/hex"
	"encoding/json"
	"flag"
	"fmt"
	"io"
	"log"
	"math/big"
	mrand "math/rand"
	"strings"

	ct "github.com/google/certificate-transparency-go"
	"github.com/google/certificate-transparency-go/asn1"
	"github.com/google/certificate-transparency-go/ctutil"
	"github.com/google/certificate-transparency-go/loglist3"
	"github.com/google/certificate-transparency-go/tls"
	"github.com/google/certificate-transparency-go/x509"
	"github.com/google/certificate-transparency-go/x509/pkix"

	"verif/harness/lib"
	"verif/harness/pki"
)

const header = `From Coq Require Import String NArith ZArith List. Import ListNotations.
From V Require Import Base.Bytes Sig.SigModel Sig.SigCase.
From Coq Require Import Uint63.
Local Open Scope N_scope.
`

// ---------------------------------------------------------------- keys

type keyInfo struct {
	name  string
	kind  string // rsa ecdsa dsa ed25519 other
	pub   crypto.PublicKey
	priv  interface{} // *rsa.PrivateKey, *ecdsa.PrivateKey, *dsa.PrivateKey
	bits  int
	curve string // P256 P384 P521 CurveOther
	id    int
	// set for the keys of customCurveKeys only: the curve is this elliptic.CurveParams value
	customCurve *elliptic.CurveParams
}

func (k *keyInfo) coq() string {
	switch k.kind {
	case "rsa":
		return fmt.Sprintf("(KRSA %d (%d)%%Z)", k.id, k.bits)
	case "ecdsa":
		return fmt.Sprintf("(KECDSA %d %s)", k.id, k.curve)
	case "dsa":
		return fmt.Sprintf("(KDSA %d)", k.id)
	case "ed25519":
		return fmt.Sprintf("(KEd25519 %d)", k.id)
	}
	return fmt.Sprintf("(KOther %d)", k.id)
}

var nextID = 1

func rsaKey(name string, p *rsa.PrivateKey) *keyInfo {
	nextID++
	return &keyInfo{name: name, kind: "rsa", pub: &p.PublicKey, priv: p, bits: p.N.BitLen(), id: nextID}
}

func curveName(c elliptic.Curve) string {
	switch c {
	case elliptic.P256():
		return "P256"
	case elliptic.P384():
		return "P384"
	case elliptic.P521():
		return "P521"
	}
	return "CurveOther"
}

func ecKey(name string, p *ecdsa.PrivateKey) *keyInfo {
	nextID++
	return &keyInfo{name: name, kind: "ecdsa", pub: &p.PublicKey, priv: p, curve: curveName(p.Curve), id: nextID}
}

func other(name, kind string, pub crypto.PublicKey) *keyInfo {
	nextID++
	return &keyInfo{name: name, kind: kind, pub: pub, id: nextID}
}

func must(err error) {
	if err != nil {
		panic(err)
	}
}

type keySet struct {
	signing []*keyInfo          // keys that can sign (rsa, ecdsa, dsa)
	alt     map[string]*keyInfo // a second key of the same parameters, by name
	nonsig  []*keyInfo          // ed25519 and non-key values
	byName  map[string]*keyInfo
}

func makeKeys() *keySet {
	ks := &keySet{alt: map[string]*keyInfo{}, byName: map[string]*keyInfo{}}
	for _, kind := range []string{"rsa1024", "rsa2048", "rsa3072"} {
		ks.signing = append(ks.signing, rsaKey(kind, pki.Key(kind, 0).(*rsa.PrivateKey)))
		ks.alt[kind] = rsaKey(kind+"-alt", pki.Key(kind, 1).(*rsa.PrivateKey))
	}
	k2047, err := rsa.GenerateKey(rand.Reader, 2047)
	must(err)
	ks.signing = append(ks.signing, rsaKey("rsa2047", k2047))
	ks.alt["rsa2047"] = ks.alt["rsa2048"]
	for _, kind := range []string{"p256", "p384", "p521"} {
		ks.signing = append(ks.signing, ecKey(kind, pki.Key(kind, 0).(*ecdsa.PrivateKey)))
		ks.alt[kind] = ecKey(kind+"-alt", pki.Key(kind, 1).(*ecdsa.PrivateKey))
	}
	p224, err := ecdsa.GenerateKey(elliptic.P224(), rand.Reader)
	must(err)
	p224b, err := ecdsa.GenerateKey(elliptic.P224(), rand.Reader)
	must(err)
	ks.signing = append(ks.signing, ecKey("p224", p224))
	ks.alt["p224"] = ecKey("p224-alt", p224b)
	var params dsa.Parameters
	must(dsa.GenerateParameters(&params, rand.Reader, dsa.L1024N160))
	mk := func(name string) *keyInfo {
		d := &dsa.PrivateKey{}
		d.Parameters = params
		must(dsa.GenerateKey(d, rand.Reader))
		nextID++
		return &keyInfo{name: name, kind: "dsa", pub: &d.PublicKey, priv: d, id: nextID}
	}
	ks.signing = append(ks.signing, mk("dsa1024"))
	ks.alt["dsa1024"] = mk("dsa1024-alt")

	ed := pki.Key("ed25519", 0).Public()
	rv := pki.Key("rsa2048", 0).(*rsa.PrivateKey).PublicKey
	ev := pki.Key("p256", 0).(*ecdsa.PrivateKey).PublicKey
	ks.nonsig = []*keyInfo{
		other("ed25519", "ed25519", ed),
		other("nil", "other", nil),
		other("rsa-value", "other", rv), // non-pointer rsa.PublicKey: the code asserts *rsa.PublicKey
		other("ecdsa-value", "other", ev),
		other("string", "other", "not a key"),
		other("rsa-private", "other", pki.Key("rsa2048", 0)), // a private key is not a public key type
	}
	for _, k := range ks.signing {
		ks.byName[k.name] = k
	}
	for _, k := range ks.nonsig {
		ks.byName[k.name] = k
	}
	return ks
}

// ---------------------------------------------------------------- direct measurements (oracles)

// RFC 5246 s7.4.1.4.1 HashAlgorithm -> hash function (this file's own table)
var hashByCode = map[int]crypto.Hash{1: crypto.MD5, 2: crypto.SHA1, 3: crypto.SHA224, 4: crypto.SHA256, 5: crypto.SHA384, 6: crypto.SHA512}
var allHashes = []crypto.Hash{crypto.MD5, crypto.SHA1, crypto.SHA224, crypto.SHA256, crypto.SHA384, crypto.SHA512}

func digest(h crypto.Hash, m []byte) []byte {
	hh := h.New()
	hh.Write(m)
	return hh.Sum(nil)
}

// primitive verdict, directly from the standard library, under recover
func primRSA(k *keyInfo, h crypto.Hash, dg, sig []byte) (ok bool) {
	defer func() {
		if recover() != nil {
			ok = false
		}
	}()
	return rsa.VerifyPKCS1v15(k.pub.(*rsa.PublicKey), h, dg, sig) == nil
}

func primRS(k *keyInfo, dg []byte, r, s *big.Int) (ok bool) {
	defer func() {
		if recover() != nil {
			ok = false
		}
	}()
	switch k.kind {
	case "ecdsa":
		return ecdsa.Verify(k.pub.(*ecdsa.PublicKey), dg, r, s)
	case "dsa":
		return dsa.Verify(k.pub.(*dsa.PublicKey), dg, r, s)
	}
	return false
}

// ---- X.690 DER, written from the standard (reference reader and writer of this harness)

func derLen(n int) []byte {
	if n < 0x80 {
		return []byte{byte(n)}
	}
	var b []byte
	for v := n; v > 0; v >>= 8 {
		b = append([]byte{byte(v)}, b...)
	}
	return append([]byte{0x80 | byte(len(b))}, b...)
}

func tlv(tag byte, content []byte) []byte {
	return append(append([]byte{tag}, derLen(len(content))...), content...)
}

// minimal two's-complement contents of an INTEGER
func intContent(v *big.Int) []byte {
	if v.Sign() >= 0 {
		b := v.Bytes()
		if len(b) == 0 || b[0]&0x80 != 0 {
			b = append([]byte{0}, b...)
		}
		return b
	}
	// negative: two's complement of the minimal length
	n := len(v.Bytes())
	for {
		mod := new(big.Int).Lsh(big.NewInt(1), uint(8*n))
		t := new(big.Int).Add(mod, v)
		b := t.Bytes()
		for len(b) < n {
			b = append([]byte{0}, b...)
		}
		if len(b) == n && b[0]&0x80 != 0 {
			// strip redundant leading 0xff
			for len(b) > 1 && b[0] == 0xff && b[1]&0x80 != 0 {
				b = b[1:]
			}
			return b
		}
		n++
	}
}

func derInt(v *big.Int) []byte { return tlv(0x02, intContent(v)) }

func derSig(r, s *big.Int, junk []byte) []byte {
	body := append(append(derInt(r), derInt(s)...), junk...)
	return tlv(0x30, body)
}

func refLen(b []byte) (n int, rest []byte, ok bool) {
	if len(b) == 0 {
		return
	}
	c := b[0]
	b = b[1:]
	if c < 0x80 {
		return int(c), b, true
	}
	k := int(c & 0x7f)
	if k == 0 || k > 4 || len(b) < k || b[0] == 0 {
		return 0, nil, false
	}
	v := 0
	for i := 0; i < k; i++ {
		v = v<<8 | int(b[i])
	}
	if v < 0x80 || v >= 1<<31 {
		return 0, nil, false
	}
	return v, b[k:], true
}

func refTLV(b []byte, tag byte) (content, rest []byte, ok bool) {
	if len(b) == 0 || b[0] != tag {
		return
	}
	n, r, ok := refLen(b[1:])
	if !ok || n > len(r) {
		return nil, nil, false
	}
	return r[:n], r[n:], true
}

func refInt(c []byte) (*big.Int, bool) {
	if len(c) == 0 {
		return nil, false
	}
	if len(c) > 1 && ((c[0] == 0 && c[1]&0x80 == 0) || (c[0] == 0xff && c[1]&0x80 != 0)) {
		return nil, false
	}
	v := new(big.Int).SetBytes(c)
	if c[0]&0x80 != 0 {
		v.Sub(v, new(big.Int).Lsh(big.NewInt(1), uint(8*len(c))))
	}
	return v, true
}

// refDER: SEQUENCE { INTEGER r, INTEGER s, <anything> } <anything>; the length of what follows
// the SEQUENCE is returned.
func refDER(sig []byte) (r, s *big.Int, restLen int, ok bool) {
	body, rest, ok := refTLV(sig, 0x30)
	if !ok {
		return
	}
	rc, b1, ok := refTLV(body, 0x02)
	if !ok {
		return nil, nil, 0, false
	}
	r, ok = refInt(rc)
	if !ok {
		return nil, nil, 0, false
	}
	sc, _, ok := refTLV(b1, 0x02)
	if !ok {
		return nil, nil, 0, false
	}
	s, ok = refInt(sc)
	if !ok {
		return nil, nil, 0, false
	}
	return r, s, len(rest), true
}

// ---- the per-case oracle table

type oracle struct {
	msg     []byte // only rendered when withMsg
	withMsg bool
	digests []string // Coq pairs
	rsa     []string
	rs      string
	json    bool
	// for the JSON mirror
	note map[string]interface{}
}

// buildOracle measures what the model may ask about (key k, message msg, signature bytes sig):
// the digest under the declared hash code h (all six hash functions when full) and the
// primitive's verdict on it.
func buildOracle(k *keyInfo, msg, sig []byte, h int, full bool) *oracle {
	o := &oracle{msg: msg, rs: "None", note: map[string]interface{}{}}
	var r, s *big.Int
	haveRS := false
	if k.kind == "ecdsa" || k.kind == "dsa" {
		r, s, _, haveRS = refDER(sig)
	}
	var hs []crypto.Hash
	if full {
		hs = allHashes
	} else if hh, ok := hashByCode[h]; ok {
		hs = []crypto.Hash{hh}
	}
	var rsv []string
	for _, hh := range hs {
		dg := digest(hh, msg)
		o.digests = append(o.digests, lib.Pair(lib.Z(int64(hh)), lib.Hex(dg)))
		if k.kind == "rsa" {
			ok := primRSA(k, hh, dg, sig)
			o.rsa = append(o.rsa, lib.Pair(lib.Z(int64(hh)), lib.Bool(ok)))
			o.note[fmt.Sprintf("rsa.VerifyPKCS1v15[%v]", hh)] = ok
		}
		if haveRS {
			ok := primRS(k, dg, r, s)
			rsv = append(rsv, lib.Pair(lib.Z(int64(hh)), lib.Bool(ok)))
			o.note[fmt.Sprintf("%s.Verify[%v]", k.kind, hh)] = ok
		}
	}
	if haveRS {
		o.rs = lib.Some(lib.Pair(lib.ZBig(r), lib.ZBig(s), lib.List(rsv)))
		o.note["r"], o.note["s"] = r.String(), s.String()
	}
	return o
}

func (o *oracle) coq() string {
	m := "None"
	if o.withMsg {
		m = lib.Some(lib.Bytes(o.msg))
	}
	return fmt.Sprintf("{| o_msg := %s; o_digests := %s; o_rsa := %s; o_rs := %s; o_json := %s |}",
		m, lib.List(o.digests), lib.List(o.rsa), o.rs, lib.Bool(o.json))
}

// expectVerify: the property's sentence for a DigitallySigned over msg under key k:
// valid iff the declared hash is supported, the declared signature algorithm is the key
// type's, and the primitive accepts (for DSA/ECDSA: the strictly DER-decoded, positive (r,s);
// bytes after s inside the SEQUENCE and after the SEQUENCE do not matter).
func expectVerify(k *keyInfo, h, a int, msg, sig []byte) string {
	hh, ok := hashByCode[h]
	if !ok {
		return "err"
	}
	dg := digest(hh, msg)
	switch a {
	case 1:
		if k.kind == "rsa" && primRSA(k, hh, dg, sig) {
			return "ok"
		}
	case 2, 3:
		if (a == 2 && k.kind != "dsa") || (a == 3 && k.kind != "ecdsa") {
			return "err"
		}
		r, s, _, ok := refDER(sig)
		if ok && r.Sign() > 0 && s.Sign() > 0 && primRS(k, dg, r, s) {
			return "ok"
		}
	}
	return "err"
}

// ---------------------------------------------------------------- running the code under test

func guard(f func() error) (outcome, msg string) {
	defer func() {
		if r := recover(); r != nil {
			outcome, msg = "panic", fmt.Sprint(r)
		}
	}()
	if err := f(); err != nil {
		return "err", err.Error()
	}
	return "ok", ""
}

func coqOutcome(o string) string {
	switch o {
	case "ok":
		return "OOk"
	case "err":
		return "OErr"
	}
	return "OPanic"
}

func dsigCoq(h, a int, sig []byte) string {
	return fmt.Sprintf("(Build_dsig %d %d %s)", h, a, lib.Bytes(sig))
}

func mkDS(h, a int, sig []byte) tls.DigitallySigned {
	return tls.DigitallySigned{Algorithm: tls.SignatureAndHashAlgorithm{Hash: tls.HashAlgorithm(h), Signature: tls.SignatureAlgorithm(a)}, Signature: sig}
}

var sigAlgOf = map[string]int{"rsa": 1, "dsa": 2, "ecdsa": 3}

// sign produces a valid signature over msg with hash code h (1..6); viaRepo selects
// tls.CreateSignature (RSA/ECDSA only) instead of the standard library + this file's DER writer.
func sign(k *keyInfo, h int, msg []byte, viaRepo bool) (sig []byte, r, s *big.Int) {
	hh := hashByCode[h]
	dg := digest(hh, msg)
	switch p := k.priv.(type) {
	case *rsa.PrivateKey:
		if viaRepo {
			ds, err := tls.CreateSignature(*p, tls.HashAlgorithm(h), msg)
			must(err)
			if ds.Algorithm.Signature != tls.RSA || int(ds.Algorithm.Hash) != h {
				panic("CreateSignature algorithm fields")
			}
			return ds.Signature, nil, nil
		}
		b, err := rsa.SignPKCS1v15(rand.Reader, p, hh, dg)
		must(err)
		return b, nil, nil
	case *ecdsa.PrivateKey:
		if viaRepo {
			ds, err := tls.CreateSignature(*p, tls.HashAlgorithm(h), msg)
			must(err)
			if ds.Algorithm.Signature != tls.ECDSA || int(ds.Algorithm.Hash) != h {
				panic("CreateSignature algorithm fields")
			}
			r, s, _, ok := refDER(ds.Signature)
			if !ok {
				return ds.Signature, big.NewInt(1), big.NewInt(1) // reported through the must-be-ok base case
			}
			return ds.Signature, r, s
		}
		r, s, err := ecdsa.Sign(rand.Reader, p, dg)
		must(err)
		return derSig(r, s, nil), r, s
	case *dsa.PrivateKey:
		r, s, err := dsa.Sign(rand.Reader, p, dg)
		must(err)
		return derSig(r, s, nil), r, s
	}
	panic("sign: not a signing key")
}

// ---------------------------------------------------------------- signature-value mutations

type sigMut struct {
	name string
	b    []byte
}

func flipBit(r *mrand.Rand, b []byte) []byte {
	c := append([]byte{}, b...)
	if len(c) == 0 {
		return []byte{1}
	}
	i := r.Intn(len(c))
	c[i] ^= 1 << uint(r.Intn(8))
	return c
}

func cat(bs ...[]byte) []byte {
	var o []byte
	for _, b := range bs {
		o = append(o, b...)
	}
	return o
}

func neg(v *big.Int) *big.Int { return new(big.Int).Neg(v) }

type named struct {
	name string
	b    []byte
}

// lenForms: encodings of a length other than the minimal one (always the same four, in order)
func lenForms(n int) []named {
	hi, lo := byte(n>>8), byte(n)
	var one, two []byte
	switch {
	case n < 0x80:
		one, two = []byte{0x81, lo}, []byte{0x82, 0, lo}
	case n < 0x100:
		one, two = []byte{0x82, 0, lo}, []byte{0x83, 0, 0, lo}
	default:
		one, two = []byte{0x83, 0, hi, lo}, []byte{0x84, 0, 0, hi, lo}
	}
	return []named{{"len-one-more-octet", one}, {"len-two-more-octets", two},
		{"len-84-leading-zeros", []byte{0x84, 0, 0, hi, lo}}, {"len-85", []byte{0x85, 0, 0, 0, hi, lo}}}
}

// derMutations of a valid (r, s) signature value: the DER shapes the property names
// (trailing, negative, zero, non-minimal integers and lengths, wrong tags, truncation).
func derMutations(rnd *mrand.Rand, r, s *big.Int, order *big.Int) []sigMut {
	orig := derSig(r, s, nil)
	ri, si := derInt(r), derInt(s)
	body := cat(ri, si)
	var ms []sigMut
	add := func(n string, b []byte) { ms = append(ms, sigMut{n, b}) }
	// the parenthesis of the property: bytes trailing a complete value are ignored
	add("trailing-1", cat(orig, []byte{0}))
	add("trailing-3", cat(orig, []byte{byte(rnd.Intn(256)), byte(rnd.Intn(256)), byte(rnd.Intn(256))}))
	add("trailing-300", cat(orig, bytesOf(300, 0xff)))
	add("trailing-copy", cat(orig, orig))
	add("inner-junk-2", derSig(r, s, []byte{0xaa, 0xbb}))
	add("inner-third-int", derSig(r, s, derInt(big.NewInt(1))))
	add("inner-cut-tlv", derSig(r, s, []byte{0x05}))
	// lengths
	for _, f := range lenForms(len(body)) {
		add("seq-"+f.name, cat([]byte{0x30}, f.b, body))
	}
	add("seq-len-indefinite", cat([]byte{0x30, 0x80}, body, []byte{0, 0}))
	add("seq-len-plus1", cat([]byte{0x30}, derLen(len(body)+1), body))
	add("inner-junk-1-by-length", cat([]byte{0x30}, derLen(len(body)+1), body, []byte{0}))
	add("seq-len-minus1", cat([]byte{0x30}, derLen(len(body)-1), body))
	rc := intContent(r)
	for _, f := range lenForms(len(rc)) {
		add("r-"+f.name, tlv(0x30, cat([]byte{0x02}, f.b, rc, si)))
	}
	sc := intContent(s)
	for _, f := range lenForms(len(sc)) {
		add("s-"+f.name, tlv(0x30, cat(ri, []byte{0x02}, f.b, sc)))
	}
	// integers
	add("r-padded-00", tlv(0x30, cat(tlv(0x02, cat([]byte{0}, rc)), si)))
	add("s-padded-00", tlv(0x30, cat(ri, tlv(0x02, cat([]byte{0}, sc)))))
	add("r-negative", derSig(neg(r), s, nil))
	add("s-negative", derSig(r, neg(s), nil))
	add("both-negative", derSig(neg(r), neg(s), nil))
	add("r-negative-padded-ff", tlv(0x30, cat(tlv(0x02, cat([]byte{0xff}, intContent(neg(r)))), si)))
	add("r-zero", derSig(big.NewInt(0), s, nil))
	add("s-zero", derSig(r, big.NewInt(0), nil))
	add("r-empty", tlv(0x30, cat([]byte{0x02, 0x00}, si)))
	add("s-empty", tlv(0x30, cat(ri, []byte{0x02, 0x00})))
	// drop the first contents octet: when it is the 00 sign octet the same magnitude bits become a
	// negative number, otherwise a different positive one
	add("r-first-octet-dropped", tlv(0x30, cat(tlv(0x02, rc[1:]), si)))
	add("s-first-octet-dropped", tlv(0x30, cat(ri, tlv(0x02, sc[1:]))))
	add("swap-r-s", derSig(s, r, nil))
	add("r-plus-1", derSig(new(big.Int).Add(r, big.NewInt(1)), s, nil))
	if order != nil { // (r, n-s) is the other ECDSA/DSA signature for the same message
		add("s-complement", derSig(r, new(big.Int).Sub(order, s), nil))
		add("r-plus-order", derSig(new(big.Int).Add(r, order), s, nil))
	}
	add("missing-s", tlv(0x30, ri))
	add("empty-seq", []byte{0x30, 0x00})
	// tags
	for _, t := range []named{{"tag-set", []byte{0x31}}, {"tag-primitive", []byte{0x10}}, {"tag-context", []byte{0xb0}}, {"tag-application", []byte{0x70}}, {"tag-octetstring", []byte{0x04}}} {
		add("seq-"+t.name, cat(t.b, orig[1:]))
	}
	add("seq-tag-high-form", cat([]byte{0x3f, 0x10}, orig[1:]))
	for _, t := range []named{{"tag-constructed", []byte{0x22}}, {"tag-bitstring", []byte{0x03}}, {"tag-enumerated", []byte{0x0a}}, {"tag-context", []byte{0x82}}} {
		add("r-"+t.name, tlv(0x30, cat(t.b, ri[1:], si)))
		add("s-"+t.name, tlv(0x30, cat(ri, t.b, si[1:])))
	}
	add("r-tag-high-form", tlv(0x30, cat([]byte{0x1f, 0x02}, ri[1:], si)))
	// truncation
	add("truncated-last", orig[:len(orig)-1])
	add("truncated-half", orig[:len(orig)/2])
	add("truncated-2", orig[:2])
	add("truncated-1", orig[:1])
	add("empty", nil)
	add("prefix-00", cat([]byte{0}, orig))
	add("bitflip", flipBit(rnd, orig))
	add("bitflip-2", flipBit(rnd, orig))
	return ms
}

func bytesOf(n int, b byte) []byte {
	o := make([]byte, n)
	for i := range o {
		o[i] = b
	}
	return o
}

func rsaMutations(rnd *mrand.Rand, orig []byte) []sigMut {
	return []sigMut{
		{"bitflip", flipBit(rnd, orig)}, {"bitflip-2", flipBit(rnd, orig)},
		{"trailing-1", cat(orig, []byte{0})}, {"prefix-00", cat([]byte{0}, orig)},
		{"truncated-last", orig[:len(orig)-1]}, {"truncated-half", orig[:len(orig)/2]}, {"empty", nil},
		{"all-zero", bytesOf(len(orig), 0)}, {"all-ff", bytesOf(len(orig), 0xff)},
		{"der-shaped", derSig(big.NewInt(5), big.NewInt(7), nil)},
	}
}

func orderOf(k *keyInfo) *big.Int {
	switch p := k.pub.(type) {
	case *ecdsa.PublicKey:
		return p.Params().N
	case *dsa.PublicKey:
		return p.Q
	}
	return nil
}

// ---------------------------------------------------------------- case emitters

type emitter struct {
	w   *lib.Writer
	rnd *mrand.Rand
	ks  *keySet
	// histories (history.go)
	hplans []histPlan
	hnext  int
	hshard int
	hrnd   *mrand.Rand
}

const shardSize = 150

func hx(b []byte) string {
	if len(b) > 256 {
		return fmt.Sprintf("%s...(%d bytes, sha256 %x)", hex.EncodeToString(b[:64]), len(b), sha256.Sum256(b))
	}
	return hex.EncodeToString(b)
}

// verifyCase: one call of tls.VerifySignature.
func (e *emitter) verifyCase(k *keyInfo, h, a int, msg, sig []byte, what string, mustBe string, tags ...string) {
	o := buildOracle(k, msg, sig, h, mustBe == "ok" && strings.HasPrefix(what, "valid:"))
	want := expectVerify(k, h, a, msg, sig)
	got, emsg := guard(func() error { return tls.VerifySignature(k.pub, msg, mkDS(h, a, sig)) })
	ok := got == want
	note := ""
	if mustBe != "" && want != mustBe {
		// the generator built this case to be valid / invalid by construction
		ok = false
		note = fmt.Sprintf("verify key=%s h=%d a=%d %s: constructed to be %s but the direct primitive says %s", k.name, h, a, what, mustBe, want)
	}
	if got != want {
		note = fmt.Sprintf("verify key=%s h=%d a=%d %s impl=%s want=%s", k.name, h, a, what, got, want)
	}
	e.w.Add(lib.Case{
		Coq:    fmt.Sprintf("CVerify %s %s %s %s %s", k.coq(), lib.Bytes(msg), dsigCoq(h, a, sig), o.coq(), coqOutcome(got)),
		Input:  map[string]interface{}{"api": "tls.VerifySignature", "key": k.name, "hash": h, "sigalg": a, "msg": hx(msg), "sig": hx(sig), "what": what, "direct": o.note},
		Impl:   map[string]interface{}{"outcome": got, "error": emsg, "want": want},
		PropOK: ok, Note: note,
		Tags: append([]string{"api:VerifySignature", "key:" + k.name, "impl:" + got, "class:" + strings.SplitN(what, ":", 2)[0]}, tags...),
	})
}

func sampleCodes(rnd *mrand.Rand, n int) []int {
	set := map[int]bool{}
	boundary := []int{0, 1, 2, 3, 4, 5, 6, 7, 8, 127, 128, 254, 255}
	if n < len(boundary) {
		boundary = []int{0, 1, 3, 4, 6, 7, 255}
	}
	for _, c := range boundary {
		set[c] = true
	}
	for len(set) < n && len(set) < 256 {
		set[rnd.Intn(256)] = true
	}
	var out []int
	for c := 0; c < 256; c++ {
		if set[c] {
			out = append(out, c)
		}
	}
	return out
}

func randMsg(rnd *mrand.Rand) []byte {
	sizes := []int{0, 1, 5, 20, 32, 55}
	if lib.Tier() == "thorough" {
		sizes = []int{0, 1, 5, 32, 55, 56, 64, 119, 200}
	}
	n := sizes[rnd.Intn(len(sizes))]
	b := make([]byte, n)
	rnd.Read(b)
	return b
}

func (e *emitter) verifyStream() {
	thorough := lib.Tier() == "thorough"
	for ki, k := range e.ks.signing {
		e.historyTick(false)
		// one PRNG per key, seeded from the master: the scenario of a case id does not depend on
		// how many draws earlier cases made with run-time random signature lengths
		rnd := mrand.New(mrand.NewSource(e.rnd.Int63()))
		a := sigAlgOf[k.kind]
		hashes := []int{4, 1 + (ki % 6)}
		if hashes[1] == 4 {
			hashes[1] = 6
		}
		if thorough {
			hashes = []int{1, 2, 3, 4, 5, 6}
		}
		for hi, h := range hashes {
			msg := randMsg(rnd)
			if len(msg) == 0 && hi == 0 {
				msg = []byte("signed message")
			}
			viaRepo := k.kind != "dsa" && (hi+ki)%2 == 0
			sig, r, s := sign(k, h, msg, viaRepo)
			src := "stdlib"
			if viaRepo {
				src = "tls.CreateSignature"
			}
			e.verifyCase(k, h, a, msg, sig, "valid:"+src, "ok", "valid")
			// message mutations
			if len(msg) > 0 {
				e.verifyCase(k, h, a, flipBit(rnd, msg), sig, "msg:bitflip", "err")
				e.verifyCase(k, h, a, msg[:len(msg)-1], sig, "msg:truncated", "err")
			}
			e.verifyCase(k, h, a, cat(msg, []byte{0}), sig, "msg:extended", "err")
			e.verifyCase(k, h, a, cat([]byte{0}, msg), sig, "msg:prefixed", "err")
			// declared hash code: everything else must fail (the digest or its DigestInfo differs)
			big := k.bits > 1024 || k.curve == "P521"
			hcodes := sampleCodes(rnd, 24)
			if big || hi > 0 {
				hcodes = sampleCodes(rnd, 9)
			}
			if thorough && hi == 0 {
				hcodes = sampleCodes(rnd, 256)
			}
			for _, hc := range hcodes {
				if hc != h {
					e.verifyCase(k, hc, a, msg, sig, fmt.Sprintf("hashcode:%d", hc), "err")
				}
			}
			// declared signature algorithm
			acodes := sampleCodes(rnd, 20)
			if big || hi > 0 {
				acodes = sampleCodes(rnd, 9)
			}
			if thorough && hi == 0 {
				acodes = sampleCodes(rnd, 256)
			}
			for _, ac := range acodes {
				if ac != a {
					e.verifyCase(k, h, ac, msg, sig, fmt.Sprintf("sigalg:%d", ac), "err", "mismatch")
				}
			}
			// other key of the same parameters
			e.verifyCase(e.ks.alt[k.name], h, a, msg, sig, "key:other-same-kind", "err")
			// keys of every other kind, with the signature's algorithm and with their own
			for _, k2 := range append(append([]*keyInfo{}, e.ks.signing...), e.ks.nonsig...) {
				if k2.kind == k.kind {
					continue
				}
				if (hi == 0 && !big) || thorough || rnd.Intn(4) == 0 {
					e.verifyCase(k2, h, a, msg, sig, "key:other-kind-"+k2.kind, "err", "mismatch")
					if a2, ok := sigAlgOf[k2.kind]; ok {
						e.verifyCase(k2, h, a2, msg, sig, "key:other-kind-own-alg-"+k2.kind, "err")
					}
				}
			}
			// signature value
			if k.kind == "rsa" {
				for _, m := range rsaMutations(rnd, sig) {
					e.verifyCase(k, h, a, msg, m.b, "sig:"+m.name, "err")
				}
			} else {
				for _, m := range derMutations(rnd, r, s, orderOf(k)) {
					mustBe := ""
					switch {
					case strings.HasPrefix(m.name, "trailing-"), strings.HasPrefix(m.name, "inner-"), m.name == "s-complement" && k.kind == "ecdsa":
						mustBe = "ok"
					case m.name == "s-complement":
						mustBe = "" // DSA has no (r, q-s) symmetry; whatever the primitive says
					case strings.HasPrefix(m.name, "bitflip"), m.name == "swap-r-s", m.name == "r-plus-order":
						mustBe = "" // whatever the primitive says about the resulting (r, s)
					default:
						mustBe = "err"
					}
					if !thorough && hi > 0 && mustBe == "err" && rnd.Intn(3) != 0 {
						continue
					}
					e.verifyCase(k, h, a, msg, m.b, "sig:"+m.name, mustBe)
				}
			}
		}
	}
	rnd := mrand.New(mrand.NewSource(e.rnd.Int63()))
	// keys that cannot verify anything
	for _, k := range e.ks.nonsig {
		msg := []byte("message")
		ecSig, _, _ := sign(e.ks.byName["p256"], 4, msg, false)
		rsaSig, _, _ := sign(e.ks.byName["rsa2048"], 4, msg, false)
		for _, a := range []int{0, 1, 2, 3, 4, 255} {
			sig := ecSig
			if a == 1 {
				sig = rsaSig
			}
			e.verifyCase(k, 4, a, msg, sig, fmt.Sprintf("nonkey:alg-%d", a), "err", "mismatch")
		}
		e.verifyCase(k, 0, 1, msg, rsaSig, "nonkey:hash-0", "err")
	}
	// malformed stream: random signature bytes under every algorithm code of interest
	n := lib.Count(60, 3000)
	for i := 0; i < n; i++ {
		k := e.ks.signing[rnd.Intn(len(e.ks.signing))]
		a := []int{1, 2, 3, sigAlgOf[k.kind], sigAlgOf[k.kind]}[rnd.Intn(5)]
		h := []int{4, 4, 1 + rnd.Intn(6), rnd.Intn(256)}[rnd.Intn(4)]
		sig := make([]byte, []int{0, 1, 8, 70, 128, 256}[rnd.Intn(6)])
		rnd.Read(sig)
		if len(sig) > 2 && rnd.Intn(2) == 0 {
			sig[0], sig[1] = 0x30, byte(len(sig)-2)
		}
		e.verifyCase(k, h, a, randMsg(rnd), sig, "random:sig", "err")
	}
}

// ---------------------------------------------------------------- declared algorithm identifiers
//
// Adversarial stream for the class "declared algorithm identifier outside the RFC 5246 / RFC 6962
// set" (and "declared hash is not the hash that was signed").  A garbage signature under an
// undefined code is rejected by almost any implementation; the case that tells a table of the
// RFC's code points from an arithmetic / registry-driven mapping is a signature that IS
// cryptographically valid, by the verifier's own key, over SOME digest of exactly the signed
// bytes.  So for every undefined hash code the stream presents, made with the standard library
// only, a valid signature over the digest of the data under EVERY hash function registered with
// Go's crypto package in this binary (crypto.Hash(i).Available(), whatever gets linked in) and
// over the data itself (identity "hash"); all of them must be refused, and tls.CreateSignature
// must refuse to produce them.

type digestFn struct {
	name string
	h    crypto.Hash // 0: the identity (the data itself is used as the digest)
}

func (d digestFn) sum(m []byte) []byte {
	if d.h == 0 {
		return append([]byte{}, m...)
	}
	return digest(d.h, m)
}

// digestFns: every hash function registered in this binary, by crypto.Hash id, then the identity
func digestFns() []digestFn {
	var fs []digestFn
	for h := crypto.Hash(1); h < 64; h++ {
		if h.Available() {
			fs = append(fs, digestFn{strings.ReplaceAll(h.String(), "/", "_"), h})
		}
	}
	return append(fs, digestFn{"identity", 0})
}

// rawSign signs a given digest with the real key using the standard library directly (this file's
// DER writer for (r, s)).  For RSA, prefix selects the PKCS#1 v1.5 DigestInfo (0: none, the bytes
// are signed as they are); ok=false when the library has no DigestInfo prefix for that hash or
// the digest does not fit.  The result is checked with the library's own verification primitive.
func rawSign(k *keyInfo, prefix crypto.Hash, dg []byte) (sig []byte, ok bool) {
	switch p := k.priv.(type) {
	case *rsa.PrivateKey:
		b, err := rsa.SignPKCS1v15(rand.Reader, p, prefix, dg)
		if err != nil {
			return nil, false
		}
		if !primRSA(k, prefix, dg, b) {
			panic("rawSign: rsa.VerifyPKCS1v15 refuses the library's own signature")
		}
		return b, true
	case *ecdsa.PrivateKey:
		r, s, err := ecdsa.Sign(rand.Reader, p, dg)
		must(err)
		if !primRS(k, dg, r, s) {
			panic("rawSign: ecdsa.Verify refuses the library's own signature")
		}
		return derSig(r, s, nil), true
	case *dsa.PrivateKey:
		r, s, err := dsa.Sign(rand.Reader, p, dg)
		must(err)
		if !primRS(k, dg, r, s) {
			panic("rawSign: dsa.Verify refuses the library's own signature")
		}
		return derSig(r, s, nil), true
	}
	panic("rawSign: not a signing key")
}

type sigVariant struct {
	name string
	sig  []byte
	h    crypto.Hash // the hash function under whose declaration the value is valid (0: none)
}

// validOverSomeDigest: signatures by k that are valid over msg under each registered hash function
// (and the identity).  RSA: with that hash's DigestInfo where PKCS#1 v1.5 defines one, and
// without any DigestInfo (all of them in the thorough tier).
func validOverSomeDigest(k *keyInfo, msg []byte, fns []digestFn, allUnprefixed bool) []sigVariant {
	var vs []sigVariant
	for _, f := range fns {
		dg := f.sum(msg)
		if k.kind != "rsa" {
			sig, _ := rawSign(k, 0, dg)
			vs = append(vs, sigVariant{f.name, sig, f.h})
			continue
		}
		if sig, ok := rawSign(k, f.h, dg); ok {
			vs = append(vs, sigVariant{"pkcs1-" + f.name, sig, f.h})
		}
		if f.h != 0 && (allUnprefixed || f.h == crypto.SHA256) {
			if sig, ok := rawSign(k, 0, dg); ok {
				vs = append(vs, sigVariant{"pkcs1-unprefixed-" + f.name, sig, 0})
			}
		}
	}
	return vs
}

func undefinedHashCodes() []int {
	var cs []int
	for c := 0; c < 256; c++ {
		if _, ok := hashByCode[c]; !ok {
			cs = append(cs, c)
		}
	}
	return cs
}

// fit cuts or zero-extends a digest to n octets
func fit(dg []byte, n int) []byte {
	o := make([]byte, n)
	copy(o, dg)
	return o
}

// ---- sweeps: one key, one signed message, one signature value, many declared code pairs

type codePair struct{ h, a int }

// codeSweep: all 256 hash codes with a fixed signature code, or all 256 signature codes with a
// fixed hash code
type codeSweep struct {
	overHash bool
	fixed    int
}

func hashSweep(a int) codeSweep { return codeSweep{true, a} }
func sigSweep(h int) codeSweep  { return codeSweep{false, h} }

func (w codeSweep) pairs() []codePair {
	var ps []codePair
	for c := 0; c < 256; c++ {
		if w.overHash {
			ps = append(ps, codePair{c, w.fixed})
		} else {
			ps = append(ps, codePair{w.fixed, c})
		}
	}
	return ps
}

func (w codeSweep) coq() string {
	if w.overHash {
		return fmt.Sprintf("(HashCodes %d)", w.fixed)
	}
	return fmt.Sprintf("(SigCodes %d)", w.fixed)
}

func (w codeSweep) String() string {
	if w.overHash {
		return fmt.Sprintf("hash codes 0..255 with signature code %d", w.fixed)
	}
	return fmt.Sprintf("signature codes 0..255 with hash code %d", w.fixed)
}

// sweep runs call (one of VerifySignature / VerifySCTSignature / VerifySTHSignature on the object
// carrying sig and the given codes) for every pair and compares with the property's sentence
// (expectVerify: RFC table + standard-library primitive).  mustOK: pairs under which the value is
// valid by construction.  Returns the Coq observation (accepted pairs, panicking pairs), the
// JSON mirror and the verdict.
func sweep(k *keyInfo, msg, sig []byte, w codeSweep, mustOK []codePair, api, what string, call func(h, a int) error) (obs string, impl map[string]interface{}, ok bool, note string, tags []string) {
	var oks, panics []string
	accepted, disagreements := []interface{}{}, []interface{}{}
	byConstruction := map[codePair]bool{}
	for _, p := range mustOK {
		byConstruction[p] = true
	}
	ok = true
	seen := map[string]bool{}
	for _, p := range w.pairs() {
		p := p
		got, emsg := guard(func() error { return call(p.h, p.a) })
		want := expectVerify(k, p.h, p.a, msg, sig)
		switch got {
		case "ok":
			oks = append(oks, fmt.Sprintf("(%d, %d)", p.h, p.a))
			accepted = append(accepted, []int{p.h, p.a})
		case "panic":
			panics = append(panics, fmt.Sprintf("(%d, %d)", p.h, p.a))
		}
		if !seen[got] {
			seen[got] = true
			tags = append(tags, "impl:"+got)
		}
		if byConstruction[p] && want != "ok" {
			if ok {
				note = fmt.Sprintf("%s key=%s h=%d a=%d %s: constructed to be ok but the direct primitive says %s", api, k.name, p.h, p.a, what, want)
			}
			ok = false
		}
		if got != want {
			if ok {
				note = fmt.Sprintf("%s key=%s h=%d a=%d %s impl=%s want=%s", api, k.name, p.h, p.a, what, got, want)
			}
			ok = false
			disagreements = append(disagreements, map[string]interface{}{"hash": p.h, "sigalg": p.a, "impl": got, "error": emsg, "want": want})
		}
	}
	impl = map[string]interface{}{"calls": 256, "accepted_hash_sigalg_pairs": accepted, "panicked": len(panics), "every_other_pair": "error", "disagreements_with_the_property": disagreements}
	return w.coq() + " " + lib.List(oks) + " " + lib.List(panics), impl, ok, note, tags
}

func (e *emitter) verifySweep(k *keyInfo, msg, sig []byte, w codeSweep, mustOK []codePair, what string, tags ...string) {
	o := buildOracle(k, msg, sig, 0, true)
	obs, impl, ok, note, itags := sweep(k, msg, sig, w, mustOK, "verify", what, func(h, a int) error { return tls.VerifySignature(k.pub, msg, mkDS(h, a, sig)) })
	e.w.Add(lib.Case{
		Coq:    fmt.Sprintf("CVerifyCodes %s %s %s %s %s", k.coq(), lib.Bytes(msg), lib.Bytes(sig), o.coq(), obs),
		Input:  map[string]interface{}{"api": "tls.VerifySignature", "key": k.name, "msg": hx(msg), "sig": hx(sig), "what": what, "declared": w.String(), "direct": o.note},
		Impl:   impl,
		PropOK: ok, Note: note,
		Tags: append(append([]string{"api:VerifySignature", "key:" + k.name, "class:" + strings.SplitN(what, ":", 2)[0]}, itags...), tags...),
	})
}

func (e *emitter) sctSweep(k *keyInfo, s sctObj, en entryObj, w codeSweep, mustOK []codePair, what string, tags ...string) {
	msg := rfcSCTInput(s, en)
	o := buildOracle(k, msg, s.sig, 0, true)
	o.withMsg = true
	sv := ct.SignatureVerifier{PubKey: k.pub}
	obs, impl, ok, note, itags := sweep(k, msg, s.sig, w, mustOK, "sct", what, func(h, a int) error {
		m := s
		m.h, m.a = h, a
		return sv.VerifySCTSignature(m.toGo(), en.toGo())
	})
	e.w.Add(lib.Case{
		Coq:    fmt.Sprintf("CSctCodes %s %s %s %s %s", k.coq(), s.coq(), en.coq(), o.coq(), obs),
		Input:  map[string]interface{}{"api": "SignatureVerifier.VerifySCTSignature", "key": k.name, "what": what, "declared": w.String(), "timestamp": s.ts, "ext": hx(s.ext), "sig": hx(s.sig), "shape": en.shape, "cert": hx(en.cert), "signed_bytes": hx(msg), "direct": o.note},
		Impl:   impl,
		PropOK: ok, Note: note,
		Tags: append(append([]string{"api:VerifySCTSignature", "key:" + k.name, "shape:" + en.shape, "class:" + strings.SplitN(what, ":", 2)[0]}, itags...), tags...),
	})
}

func (e *emitter) sthSweep(k *keyInfo, s sthObj, w codeSweep, mustOK []codePair, what string, tags ...string) {
	msg := rfcSTHInput(s)
	o := buildOracle(k, msg, s.sig, 0, true)
	o.withMsg = true
	sv := ct.SignatureVerifier{PubKey: k.pub}
	obs, impl, ok, note, itags := sweep(k, msg, s.sig, w, mustOK, "sth", what, func(h, a int) error {
		m := s
		m.h, m.a = h, a
		return sv.VerifySTHSignature(m.toGo())
	})
	e.w.Add(lib.Case{
		Coq:    fmt.Sprintf("CSthCodes %s %s %s %s", k.coq(), s.coq(), o.coq(), obs),
		Input:  map[string]interface{}{"api": "SignatureVerifier.VerifySTHSignature", "key": k.name, "what": what, "declared": w.String(), "tree_size": s.size, "timestamp": s.ts, "root": hx(s.root[:]), "sig": hx(s.sig), "signed_bytes": hx(msg), "direct": o.note},
		Impl:   impl,
		PropOK: ok, Note: note,
		Tags: append(append([]string{"api:VerifySTHSignature", "key:" + k.name, "class:" + strings.SplitN(what, ":", 2)[0]}, itags...), tags...),
	})
}

// the codes under which a signature over the digest of hash function h is valid by construction
func codesOf(h crypto.Hash, a int) []codePair {
	for c, hh := range hashByCode {
		if hh == h && h != 0 {
			return []codePair{{c, a}}
		}
	}
	return nil
}

var definedSizes = []int{16, 20, 28, 32, 48, 64} // md5 sha1 sha224 sha256 sha384 sha512

func (e *emitter) algIDStream() {
	thorough := lib.Tier() == "thorough"
	fns := digestFns()
	names := []string{"p256", "dsa1024", "rsa2048"}
	if thorough {
		names = nil
		for _, k := range e.ks.signing {
			names = append(names, k.name)
		}
	}
	for _, kn := range names {
		e.historyTick(false)
		k := e.ks.byName[kn]
		a := sigAlgOf[k.kind]
		rnd := mrand.New(mrand.NewSource(e.rnd.Int63()))
		msg := randBytes(rnd, 20)

		// (1) every hash code 0..255 x a signature valid over each registered digest of msg: accepted
		// under the code of that hash function if RFC 5246 has one, under no other code
		for _, v := range validOverSomeDigest(k, msg, fns, true) {
			e.verifySweep(k, msg, v.sig, hashSweep(a), codesOf(v.h, a), "declared-hash:valid-over-"+v.name, "algid:hash", "signed-over:"+v.name)
		}
		// (2) ... and over each of those digests cut / zero-extended to the size of a defined hash
		// function (RSA: inside that function's DigestInfo): two sizes drawn per digest in the quick tier
		for _, f := range fns {
			dg := f.sum(msg)
			pick := map[int]bool{rnd.Intn(len(definedSizes)): true, rnd.Intn(len(definedSizes)): true}
			for i, n := range definedSizes {
				if n == len(dg) || (!thorough && !pick[i]) {
					continue
				}
				prefix := crypto.Hash(0)
				if k.kind == "rsa" {
					prefix = allHashes[i]
				}
				if sig, ok := rawSign(k, prefix, fit(dg, n)); ok {
					e.verifySweep(k, msg, sig, hashSweep(a), nil, fmt.Sprintf("declared-hash:valid-over-%s-fitted-to-%d", f.name, n), "algid:hash", "signed-over:fitted")
				}
			}
		}
		// (3) every signature code 0..255 x a signature valid under a defined hash
		h := 1 + rnd.Intn(6)
		good, _, _ := sign(k, h, msg, false)
		e.verifySweep(k, msg, good, sigSweep(h), []codePair{{h, a}}, "declared-sigalg:valid", "algid:sigalg")
		// under an undefined hash code no signature code helps
		e.verifySweep(k, msg, good, sigSweep(undefinedHashCodes()[rnd.Intn(250)]), nil, "declared-sigalg:undefined-hash", "algid:sigalg")
	}

	// (4) a key type RFC 6962 does not define, with real signatures of that key, under every code
	rnd := mrand.New(mrand.NewSource(e.rnd.Int63()))
	edk := e.ks.byName["ed25519"]
	edPriv := pki.Key("ed25519", 0).(ed25519.PrivateKey)
	msg := randBytes(rnd, 20)
	overMsg := ed25519.Sign(edPriv, msg)
	if !ed25519.Verify(edk.pub.(ed25519.PublicKey), msg, overMsg) {
		panic("ed25519 self-check")
	}
	for _, h := range []int{4, 6, 0, 8} { // 8: "Intrinsic" in the later IANA registry
		e.verifySweep(edk, msg, overMsg, sigSweep(h), nil, "declared-sigalg:ed25519-over-message", "algid:sigalg", "mismatch")
	}
	for _, f := range fns {
		if f.h == crypto.SHA256 || f.h == crypto.SHA512 {
			e.verifySweep(edk, msg, ed25519.Sign(edPriv, f.sum(msg)), sigSweep(4), nil, "declared-sigalg:ed25519-over-"+f.name, "algid:sigalg", "mismatch")
		}
	}
	e.verifySweep(edk, msg, overMsg, hashSweep(7), nil, "declared-hash:ed25519-over-message", "algid:hash", "mismatch") // 7: ed25519 in the later IANA registry

	// (5) the same through SignatureVerifier.VerifySCTSignature / VerifySTHSignature, which hand the
	// DigitallySigned's algorithm bytes through: every hash code, signatures valid over the RFC 6962
	// signature input under every registered digest
	names = []string{"p256"}
	if thorough {
		names = []string{"p256", "rsa2048", "dsa1024", "p384"}
	}
	for _, kn := range names {
		k := e.ks.byName[kn]
		a := sigAlgOf[k.kind]
		s := sctObj{version: 0, ts: 1500000000000 + uint64(rnd.Intn(1000000)), a: a}
		rnd.Read(s.logID[:])
		en := entryObj{shape: "x509", leafTS: s.ts, cert: randBytes(rnd, 40)}
		if rnd.Intn(2) == 0 {
			en = entryObj{shape: "precert", etype: 1, leafTS: s.ts, tbs: randBytes(rnd, 40)}
			rnd.Read(en.ikh[:])
		}
		for _, v := range validOverSomeDigest(k, rfcSCTInput(s, en), fns, false) {
			s.sig = v.sig
			e.sctSweep(k, s, en, hashSweep(a), codesOf(v.h, a), "declared-hash:valid-over-"+v.name, "algid:hash", "signed-over:"+v.name)
			if v.h == crypto.SHA256 {
				e.sctSweep(k, s, en, sigSweep(4), []codePair{{4, a}}, "declared-sigalg:valid", "algid:sigalg")
			}
		}
		t := sthObj{version: 0, size: uint64(rnd.Int63n(1 << 40)), ts: 1600000000000 + uint64(rnd.Intn(1000000)), a: a}
		rnd.Read(t.root[:])
		for _, v := range validOverSomeDigest(k, rfcSTHInput(t), fns, false) {
			t.sig = v.sig
			e.sthSweep(k, t, hashSweep(a), codesOf(v.h, a), "declared-hash:valid-over-"+v.name, "algid:hash", "signed-over:"+v.name)
			if v.h == crypto.SHA256 {
				e.sthSweep(k, t, sigSweep(4), []codePair{{4, a}}, "declared-sigalg:valid", "algid:sigalg")
			}
		}
	}

	e.createStream()
}

// ---- tls.CreateSignature

type privInfo struct {
	name string
	priv crypto.PrivateKey // what is handed to tls.CreateSignature
	kind string            // PrivRSA PrivECDSA PrivOther: the dynamic type as the type switch sees it
	pub  *keyInfo          // the matching public key (nil: none)
}

// createCase: one call of tls.CreateSignature.  Property: whatever it returns without error
// declares RFC 5246 code points - the hash code it was asked for, which must be a defined one,
// and the key type's signature code - and is valid under them by the standard library's
// primitive over the declared hash function's digest of exactly the data; it is not a panic;
// and an RSA / ECDSA key value with a defined hash code the library can sign with is not refused.
func (e *emitter) createCase(p privInfo, h int, msg []byte) {
	var ds tls.DigitallySigned
	got, emsg := guard(func() error {
		var err error
		ds, err = tls.CreateSignature(p.priv, tls.HashAlgorithm(h), msg)
		return err
	})
	hh, defined := hashByCode[h]
	signOK := true
	if defined && p.pub != nil {
		_, signOK = rawSign(p.pub, hh, digest(hh, msg))
	}
	dh, da := int(ds.Algorithm.Hash), int(ds.Algorithm.Signature)
	ok, note, obs := true, "", "Err"
	switch got {
	case "ok":
		obs = fmt.Sprintf("(Ok (%d, %d))", dh, da)
		switch {
		case !defined || dh != h:
			ok, note = false, fmt.Sprintf("create key=%s h=%d: produced a DigitallySigned declaring hash code %d (not an RFC 5246 code point / not the one asked for)", p.name, h, dh)
		case p.pub == nil || p.kind == "PrivOther" || da != sigAlgOf[p.pub.kind]:
			ok, note = false, fmt.Sprintf("create key=%s h=%d: declares signature code %d for this key type", p.name, h, da)
		case expectVerify(p.pub, dh, da, msg, ds.Signature) != "ok":
			ok, note = false, fmt.Sprintf("create key=%s h=%d: the produced value is not valid under the declared algorithms (standard library)", p.name, h)
		}
	case "err":
		if defined && p.kind != "PrivOther" && signOK {
			ok, note = false, fmt.Sprintf("create key=%s h=%d: refused a defined hash code", p.name, h)
		}
	default:
		obs, ok, note = "Panic", false, fmt.Sprintf("create key=%s h=%d: panic", p.name, h)
	}
	e.w.Add(lib.Case{
		Coq:    fmt.Sprintf("CCreate %s %d %s %s", p.kind, h, lib.Bool(signOK), obs),
		Key:    fmt.Sprintf("CCreate %s %d %s", p.name, h, obs),
		Input:  map[string]interface{}{"api": "tls.CreateSignature", "key": p.name, "key_type": p.kind, "hash": h, "msg": hx(msg), "stdlib_can_sign": signOK},
		Impl:   map[string]interface{}{"outcome": got, "error": emsg, "declared_hash": dh, "declared_sigalg": da, "sig": hx(ds.Signature)},
		PropOK: ok, Note: note,
		Tags: []string{"api:CreateSignature", "key:" + p.name, "impl:" + got, fmt.Sprintf("hash-defined:%v", defined)},
	})
}

func (e *emitter) createStream() {
	rnd := mrand.New(mrand.NewSource(e.rnd.Int63()))
	msg := randBytes(rnd, 20)
	val := func(k *keyInfo) privInfo {
		switch p := k.priv.(type) {
		case *rsa.PrivateKey:
			return privInfo{k.name, *p, "PrivRSA", k}
		case *ecdsa.PrivateKey:
			return privInfo{k.name, *p, "PrivECDSA", k}
		case *dsa.PrivateKey:
			return privInfo{k.name + "-value", *p, "PrivOther", k}
		}
		panic("createStream: key")
	}
	// every hash code with an ECDSA and an RSA key value
	names := []string{"p256", "rsa2048"}
	if lib.Tier() == "thorough" {
		names = []string{"p256", "rsa2048", "p384", "p521", "p224", "rsa1024", "rsa3072"}
	}
	for _, kn := range names {
		p := val(e.ks.byName[kn])
		for h := 0; h < 256; h++ {
			e.createCase(p, h, msg)
		}
	}
	// key values the type switch does not know: refused under every sampled code
	others := []privInfo{
		val(e.ks.byName["dsa1024"]),
		{"rsa2048-pointer", e.ks.byName["rsa2048"].priv, "PrivOther", e.ks.byName["rsa2048"]},
		{"p256-pointer", e.ks.byName["p256"].priv, "PrivOther", e.ks.byName["p256"]},
		{"dsa1024-pointer", e.ks.byName["dsa1024"].priv, "PrivOther", e.ks.byName["dsa1024"]},
		{"ed25519", pki.Key("ed25519", 0), "PrivOther", nil},
		{"nil", nil, "PrivOther", nil},
		{"rsa-public-value", *e.ks.byName["rsa2048"].pub.(*rsa.PublicKey), "PrivOther", nil},
	}
	for _, p := range others {
		for _, h := range sampleCodes(rnd, 16) {
			e.createCase(p, h, msg)
		}
	}
}

// ---- asn1.Unmarshal on the signature value, observed directly

type rsPair struct{ R, S *big.Int }

func (e *emitter) derCase(sig []byte, what string) {
	var v rsPair
	var rest []byte
	got, emsg := guard(func() error {
		var err error
		rest, err = asn1.Unmarshal(sig, &v)
		return err
	})
	r, s, restLen, ok := refDER(sig)
	obs := "None"
	propOK := true
	note := ""
	switch got {
	case "ok":
		obs = lib.Some(lib.Pair(lib.ZBig(v.R), lib.ZBig(v.S), lib.Nn(uint64(len(rest)))))
		if !ok || r.Cmp(v.R) != 0 || s.Cmp(v.S) != 0 || restLen != len(rest) {
			propOK = false
		}
	case "err":
		propOK = !ok
	default:
		propOK = false
	}
	if !propOK {
		note = fmt.Sprintf("der %s sig=%s impl=%s reference-accepts=%v", what, hx(sig), got, ok)
	}
	if got == "panic" {
		// the model has no panicking arm here: make the disagreement visible
		obs = lib.Some(lib.Pair(lib.Z(0), lib.Z(0), lib.Nn(1<<40)))
	}
	e.w.Add(lib.Case{
		Coq:    fmt.Sprintf("CDer %s %s", lib.Bytes(sig), obs),
		Input:  map[string]interface{}{"api": "asn1.Unmarshal(sig, &struct{R,S *big.Int})", "sig": hx(sig), "what": what},
		Impl:   map[string]interface{}{"outcome": got, "error": emsg, "reference_accepts": ok},
		PropOK: propOK, Note: note,
		Tags: []string{"api:asn1.Unmarshal", "impl:" + got, "class:der-" + strings.SplitN(what, ":", 2)[0]},
	})
}

func (e *emitter) derStream() {
	rnd := e.rnd
	vals := []*big.Int{big.NewInt(1), big.NewInt(127), big.NewInt(128), big.NewInt(255), big.NewInt(256), big.NewInt(32767), big.NewInt(32768),
		big.NewInt(0), big.NewInt(-1), big.NewInt(-128), big.NewInt(-129), big.NewInt(-32768), big.NewInt(-32769),
		new(big.Int).Lsh(big.NewInt(1), 255), new(big.Int).Sub(new(big.Int).Lsh(big.NewInt(1), 256), big.NewInt(1)),
		new(big.Int).Lsh(big.NewInt(1), 1015), // 127-byte contents + sign octet = 128: long-form length
		new(big.Int).Lsh(big.NewInt(1), 2047), new(big.Int).Neg(new(big.Int).Lsh(big.NewInt(1), 1023))}
	for _, r := range vals {
		for _, s := range []*big.Int{big.NewInt(2), vals[rnd.Intn(len(vals))]} {
			e.derCase(derSig(r, s, nil), "value:canonical")
			e.derCase(derSig(r, s, []byte{1, 2, 3}), "value:inner-junk")
			e.derCase(cat(derSig(r, s, nil), []byte{9, 9}), "value:trailing")
		}
	}
	for _, r := range []*big.Int{big.NewInt(5), new(big.Int).Lsh(big.NewInt(1), 255), new(big.Int).Lsh(big.NewInt(3), 1030)} {
		for _, m := range derMutations(rnd, r, new(big.Int).Add(r, big.NewInt(77)), nil) {
			e.derCase(m.b, "mutation:"+m.name)
		}
	}
	// length-octet boundaries: contents of 127, 128, 255, 256, 65535, 65536 octets
	for _, n := range []int{126, 127, 128, 129, 255, 256, 257, 65535, 65536} {
		junk := bytesOf(n, 0x5a)
		e.derCase(derSig(big.NewInt(1), big.NewInt(2), junk), fmt.Sprintf("length:body-%d", n+6))
		if n <= 300 { // (the observed integer is written as a decimal literal: keep it short)
			c := append([]byte{0x01}, bytesOf(n-1, 0)...)
			e.derCase(tlv(0x30, cat(tlv(0x02, c), derInt(big.NewInt(2)))), fmt.Sprintf("length:int-%d", n))
		}
	}
	// declared lengths at the reader's arithmetic limits (contents absent)
	for _, l := range [][]byte{{0x83, 0x7f, 0xff, 0xff}, {0x83, 0x80, 0x00, 0x00}, {0x84, 0x7f, 0xff, 0xff, 0xff}, {0x84, 0x80, 0, 0, 0}, {0x84, 0xff, 0xff, 0xff, 0xff},
		{0x85, 1, 0, 0, 0, 0}, {0x88, 1, 0, 0, 0, 0, 0, 0, 0}, {0xff}, {0x81}, {0x82, 0x01}, {0x81, 0x7f}, {0x81, 0x80}, {0x7f}} {
		e.derCase(cat([]byte{0x30}, l, []byte{0x02, 0x01, 0x01, 0x02, 0x01, 0x02}), "length:limit")
	}
	n := lib.Count(150, 20000)
	for i := 0; i < n; i++ {
		b := make([]byte, rnd.Intn(24))
		rnd.Read(b)
		switch rnd.Intn(4) {
		case 0: // random bytes
		case 1: // plausible header
			if len(b) >= 2 {
				b[0], b[1] = 0x30, byte(len(b)-2)
			}
		case 2: // plausible header and first integer
			if len(b) >= 6 {
				b[0], b[1], b[2], b[3] = 0x30, byte(len(b)-2), 0x02, byte(1+rnd.Intn(2))
			}
		case 3: // a valid value with one random octet overwritten
			b = derSig(big.NewInt(int64(rnd.Intn(70000))), big.NewInt(int64(rnd.Intn(70000))), nil)
			b[rnd.Intn(len(b))] = byte(rnd.Intn(256))
		}
		e.derCase(b, "random:bytes")
	}
}

// ---- ct.NewSignatureVerifier

func (e *emitter) newVerifierCase(k *keyInfo, allow bool) {
	ct.AllowVerificationWithNonCompliantKeys = allow
	var sv *ct.SignatureVerifier
	got, emsg := guard(func() error {
		var err error
		sv, err = ct.NewSignatureVerifier(k.pub)
		return err
	})
	ct.AllowVerificationWithNonCompliantKeys = false
	want := "err"
	if k.customCurve != nil {
		e.customCurveVerifierCase(k, allow, got, emsg, sv)
		return
	}
	switch k.kind {
	case "rsa":
		if k.bits >= 2048 || allow {
			want = "ok"
		}
	case "ecdsa":
		if k.curve == "P256" || allow {
			want = "ok"
		}
	}
	ok := got == want && (got != "ok" || (sv != nil && fmt.Sprintf("%p", sv.PubKey) == fmt.Sprintf("%p", k.pub)))
	note := ""
	if !ok {
		note = fmt.Sprintf("newverifier key=%s bits=%d curve=%s allow=%v impl=%s want=%s", k.name, k.bits, k.curve, allow, got, want)
	}
	e.w.Add(lib.Case{
		Coq:    fmt.Sprintf("CNewVerifier %s %s %s", lib.Bool(allow), k.coq(), coqOutcome(got)),
		Input:  map[string]interface{}{"api": "ct.NewSignatureVerifier", "key": k.name, "bits": k.bits, "curve": k.curve, "allow_noncompliant": allow},
		Impl:   map[string]interface{}{"outcome": got, "error": emsg, "want": want},
		PropOK: ok, Note: note,
		Tags: []string{"api:NewSignatureVerifier", "key:" + k.name, "impl:" + got, fmt.Sprintf("allow:%v", allow)},
	})
}

// ---- ct.NewSignatureVerifier on ECDSA keys whose curve is an elliptic.CurveParams value
//
// The named curves a key can be parsed onto differ from P-256 in EVERY attribute at once (size,
// name, every number), so a policy that recognises P-256 by one attribute only cannot be told from
// one that recognises the curve.  Here the curve is a hand-built CurveParams that coincides with
// P-256 in some attributes and not in others.
//
// Oracle (this file's own comparison, by VALUE, of the numbers that define the curve): without the
// opt-in a verifier may be built only if (P, N, B, Gx, Gy, BitSize) equal P-256's; with the opt-in
// every ECDSA key gets one.  Where the numbers do equal P-256's (a copy of the parameters) the
// property forbids nothing, so either answer passes the oracle.
//
// Model side: the generated condition compares the CurveParams STRUCT with *elliptic.P256().Params()
// (Go struct equality: the *big.Int fields by pointer, Name and BitSize by value); the case's curve
// is P256 exactly when that struct equality holds, CurveOther otherwise.

func hexInt(s string) *big.Int {
	v, ok := new(big.Int).SetString(s, 16)
	if !ok {
		panic("bad hex " + s)
	}
	return v
}

func sameCurveNumbers(a, b *elliptic.CurveParams) bool {
	eq := func(x, y *big.Int) bool { return x != nil && y != nil && x.Cmp(y) == 0 }
	return a.BitSize == b.BitSize && eq(a.P, b.P) && eq(a.N, b.N) && eq(a.B, b.B) && eq(a.Gx, b.Gx) && eq(a.Gy, b.Gy)
}

type customCurve struct {
	name string
	cp   *elliptic.CurveParams
}

func customCurves() []customCurve {
	p256 := elliptic.P256().Params()
	shallow := func() *elliptic.CurveParams { c := *p256; return &c }
	cp := func(v *big.Int) *big.Int { return new(big.Int).Set(v) }
	deep := func(src *elliptic.CurveParams) *elliptic.CurveParams {
		return &elliptic.CurveParams{P: cp(src.P), N: cp(src.N), B: cp(src.B), Gx: cp(src.Gx), Gy: cp(src.Gy), BitSize: src.BitSize, Name: src.Name}
	}
	out := []customCurve{
		// other curves of P-256's size
		{"sm2p256v1", &elliptic.CurveParams{Name: "sm2p256v1", BitSize: 256,
			P:  hexInt("FFFFFFFEFFFFFFFFFFFFFFFFFFFFFFFFFFFFFFFF00000000FFFFFFFFFFFFFFFF"),
			N:  hexInt("FFFFFFFEFFFFFFFFFFFFFFFFFFFFFFFF7203DF6B21C6052B53BBF40939D54123"),
			B:  hexInt("28E9FA9E9D9F5E344D5A9E4BCF6509A7F39789F515AB8F92DDBCBD414D940E93"),
			Gx: hexInt("32C4AE2C1F1981195F9904466A39C9948FE30BBFF2660BE1715A4589334C74C7"),
			Gy: hexInt("BC3736A2F4F6779C59BDCEE36B692153D0A9877CC62A474002DF32E52139F0A0")}},
		{"secp256k1", &elliptic.CurveParams{Name: "secp256k1", BitSize: 256,
			P:  hexInt("FFFFFFFFFFFFFFFFFFFFFFFFFFFFFFFFFFFFFFFFFFFFFFFFFFFFFFFEFFFFFC2F"),
			N:  hexInt("FFFFFFFFFFFFFFFFFFFFFFFFFFFFFFFEBAAEDCE6AF48A03BBFD25E8CD0364141"),
			B:  big.NewInt(7),
			Gx: hexInt("79BE667EF9DCBBAC55A06295CE870B07029BFCDB2DCE28D959F2815B16F81798"),
			Gy: hexInt("483ADA7726A3C4655DA4FBFC0E1108A8FD17B448A68554199C47D08FFB10D4B8")}},
	}
	// P-256 with exactly one number changed (name and size unchanged)
	one := func(what string, f func(c *elliptic.CurveParams)) {
		c := shallow()
		f(c)
		out = append(out, customCurve{"p256-but-" + what, c})
	}
	two := big.NewInt(2)
	one("P", func(c *elliptic.CurveParams) { c.P = new(big.Int).Add(p256.P, two) })
	one("N", func(c *elliptic.CurveParams) { c.N = new(big.Int).Sub(p256.N, two) })
	one("B", func(c *elliptic.CurveParams) { c.B = new(big.Int).Add(p256.B, big.NewInt(1)) })
	one("Gx", func(c *elliptic.CurveParams) { c.Gx = new(big.Int).Add(p256.Gx, big.NewInt(1)) })
	one("Gy", func(c *elliptic.CurveParams) { c.Gy = new(big.Int).Sub(p256.P, p256.Gy) })
	gx2, gy2 := p256.Double(p256.Gx, p256.Gy)
	one("G", func(c *elliptic.CurveParams) { c.Gx, c.Gy = gx2, gy2 })
	// P-256's numbers under another size
	for _, b := range []int{0, 249, 255, 257, 264, 384} {
		b := b
		one(fmt.Sprintf("BitSize-%d", b), func(c *elliptic.CurveParams) { c.BitSize = b })
	}
	// P-256's name (and size) on other numbers
	for _, src := range []elliptic.Curve{elliptic.P224(), elliptic.P384(), elliptic.P521()} {
		c := deep(src.Params())
		c.Name = "P-256"
		out = append(out, customCurve{"named-P-256-numbers-of-" + src.Params().Name, c})
		c2 := deep(src.Params())
		c2.Name, c2.BitSize = "P-256", 256
		out = append(out, customCurve{"named-and-sized-P-256-numbers-of-" + src.Params().Name, c2})
		// the named curve's own parameter object / a copy of it, as the key's curve
		out = append(out, customCurve{"params-object-of-" + src.Params().Name, src.Params()})
	}
	// P-256 itself, given as parameters
	out = append(out, customCurve{"params-object-of-P-256", p256})
	out = append(out, customCurve{"shallow-copy-of-P-256", shallow()})
	out = append(out, customCurve{"deep-copy-of-P-256", deep(p256)})
	one("Name-prime256v1", func(c *elliptic.CurveParams) { c.Name = "prime256v1" })
	one("Name-empty", func(c *elliptic.CurveParams) { c.Name = "" })
	dn := deep(p256)
	dn.Name = "secp256r1"
	out = append(out, customCurve{"deep-copy-of-P-256-renamed", dn})
	return out
}

func customCurveKeys() []*keyInfo {
	var keys []*keyInfo
	p256 := elliptic.P256().Params()
	for _, cc := range customCurves() {
		// the public point is the curve's stated base point (private scalar 1)
		pub := &ecdsa.PublicKey{Curve: cc.cp, X: new(big.Int).Set(cc.cp.Gx), Y: new(big.Int).Set(cc.cp.Gy)}
		curve := "CurveOther"
		if *cc.cp == *p256 {
			curve = "P256"
		}
		nextID++
		keys = append(keys, &keyInfo{name: "ec-custom-" + cc.name, kind: "ecdsa", pub: pub, curve: curve, bits: cc.cp.BitSize, id: nextID, customCurve: cc.cp})
	}
	return keys
}

func (e *emitter) customCurveVerifierCase(k *keyInfo, allow bool, got, emsg string, sv *ct.SignatureVerifier) {
	isP256 := sameCurveNumbers(k.customCurve, elliptic.P256().Params())
	want := "ok|err"
	switch {
	case allow:
		want = "ok"
	case !isP256:
		want = "err"
	}
	ok := strings.Contains(want, got) && got != "panic" && (got != "ok" || (sv != nil && fmt.Sprintf("%p", sv.PubKey) == fmt.Sprintf("%p", k.pub)))
	note := ""
	if !ok {
		note = fmt.Sprintf("newverifier key=%s curve-name=%q curve-bitsize=%d numbers-equal-P256=%v allow=%v impl=%s want=%s: a verifier for an ECDSA key off P-256 needs the opt-in", k.name, k.customCurve.Name, k.customCurve.BitSize, isP256, allow, got, want)
	}
	c := k.customCurve
	e.w.Add(lib.Case{
		Coq: fmt.Sprintf("CNewVerifier %s %s %s", lib.Bool(allow), k.coq(), coqOutcome(got)),
		Input: map[string]interface{}{"api": "ct.NewSignatureVerifier", "key": k.name, "allow_noncompliant": allow,
			"curve": map[string]interface{}{"Name": c.Name, "BitSize": c.BitSize, "P": c.P.Text(16), "N": c.N.Text(16), "B": c.B.Text(16), "Gx": c.Gx.Text(16), "Gy": c.Gy.Text(16)},
			"point": "(Gx,Gy)", "numbers_equal_p256": isP256, "struct_equal_p256": k.curve == "P256"},
		Impl:   map[string]interface{}{"outcome": got, "error": emsg, "want": want},
		PropOK: ok, Note: note,
		Tags: []string{"api:NewSignatureVerifier", "key:" + k.name, "impl:" + got, fmt.Sprintf("allow:%v", allow), "curve:custom-params"},
	})
}

func (e *emitter) newVerifierStream() {
	var keys []*keyInfo
	keys = append(keys, e.ks.signing...)
	keys = append(keys, e.ks.nonsig...)
	keys = append(keys, customCurveKeys()...)
	// public keys with a modulus of a chosen bit length (the constructor only looks at N.BitLen())
	for _, b := range []int{1, 8, 512, 1023, 1024, 2046, 2047, 2048, 2049, 3072, 4096, 8192} {
		n := new(big.Int).Lsh(big.NewInt(1), uint(b-1))
		n.Add(n, big.NewInt(1))
		if b == 1 {
			n = big.NewInt(1)
		}
		nextID++
		keys = append(keys, &keyInfo{name: fmt.Sprintf("rsa-synthetic-%d", b), kind: "rsa", pub: &rsa.PublicKey{N: n, E: 65537}, bits: n.BitLen(), id: nextID})
	}
	nextID++
	keys = append(keys, &keyInfo{name: "rsa-synthetic-0", kind: "rsa", pub: &rsa.PublicKey{N: big.NewInt(0), E: 3}, bits: 0, id: nextID})
	for _, k := range keys {
		for _, allow := range []bool{false, true} {
			e.newVerifierCase(k, allow)
		}
	}
}

// ---- SCT / STH

type sctObj struct {
	version uint64
	logID   [32]byte
	ts      uint64
	ext     []byte
	h, a    int
	sig     []byte
}

type entryObj struct {
	shape   string // x509 precert nilTE nilX509 nilPrecert other
	etype   uint64
	cert    []byte
	ikh     [32]byte
	tbs     []byte
	leafTS  uint64
	leafExt []byte
	leafVer uint64
	leafTy  uint64
	index   int64
	bothSet bool // the pointer of the other variant is set too (must be ignored)
}

func (s sctObj) toGo() ct.SignedCertificateTimestamp {
	return ct.SignedCertificateTimestamp{SCTVersion: ct.Version(s.version), LogID: ct.LogID{KeyID: s.logID}, Timestamp: s.ts,
		Extensions: s.ext, Signature: ct.DigitallySigned(mkDS(s.h, s.a, s.sig))}
}

func (s sctObj) coq() string {
	return fmt.Sprintf("(Build_sct %d %s %d %s %s)", s.version, lib.Hex(s.logID[:]), s.ts, lib.Bytes(s.ext), dsigCoq(s.h, s.a, s.sig))
}

func (en entryObj) toGo() ct.LogEntry {
	le := ct.LogEntry{Index: en.index, Leaf: ct.MerkleTreeLeaf{Version: ct.Version(en.leafVer), LeafType: ct.MerkleLeafType(en.leafTy)}}
	if en.shape == "nilTE" {
		return le
	}
	te := &ct.TimestampedEntry{Timestamp: en.leafTS, EntryType: ct.LogEntryType(en.etype), Extensions: en.leafExt}
	switch en.shape {
	case "x509":
		te.X509Entry = &ct.ASN1Cert{Data: en.cert}
		if en.bothSet {
			te.PrecertEntry = &ct.PreCert{IssuerKeyHash: en.ikh, TBSCertificate: en.tbs}
		}
	case "precert":
		te.PrecertEntry = &ct.PreCert{IssuerKeyHash: en.ikh, TBSCertificate: en.tbs}
		if en.bothSet {
			te.X509Entry = &ct.ASN1Cert{Data: en.cert}
		}
	case "other":
		te.X509Entry = &ct.ASN1Cert{Data: en.cert}
		te.JSONEntry = &ct.JSONDataEntry{Data: []byte("{}")}
	}
	le.Leaf.TimestampedEntry = te
	return le
}

func (en entryObj) coq() string {
	switch en.shape {
	case "nilTE":
		return "TNil"
	case "nilX509":
		return "(TX509 None)"
	case "nilPrecert":
		return "(TPrecert None)"
	case "x509":
		return fmt.Sprintf("(TX509 (Some %s))", lib.Bytes(en.cert))
	case "precert":
		return fmt.Sprintf("(TPrecert (Some (%s, %s)))", lib.Hex(en.ikh[:]), lib.Bytes(en.tbs))
	}
	return fmt.Sprintf("(TOther %d)", en.etype)
}

func u64(v uint64) []byte { b := make([]byte, 8); binary.BigEndian.PutUint64(b, v); return b }
func u24(v int) []byte    { return []byte{byte(v >> 16), byte(v >> 8), byte(v)} }
func u16(v int) []byte    { return []byte{byte(v >> 8), byte(v)} }

// RFC 6962 s3.2 signature input, written from the RFC (nil = not encodable / not defined)
func rfcSCTInput(s sctObj, en entryObj) []byte {
	if s.version != 0 || len(s.ext) > 65535 {
		return nil
	}
	b := cat([]byte{0, 0}, u64(s.ts))
	switch en.shape {
	case "x509":
		if len(en.cert) < 1 || len(en.cert) >= 1<<24 {
			return nil
		}
		b = cat(b, u16(0), u24(len(en.cert)), en.cert)
	case "precert":
		if len(en.tbs) < 1 || len(en.tbs) >= 1<<24 {
			return nil
		}
		b = cat(b, u16(1), en.ikh[:], u24(len(en.tbs)), en.tbs)
	default:
		return nil
	}
	return cat(b, u16(len(s.ext)), s.ext)
}

func (e *emitter) sctInputCase(s sctObj, en entryObj, what string) {
	var out []byte
	got, emsg := guard(func() error {
		var err error
		out, err = ct.SerializeSCTSignatureInput(s.toGo(), en.toGo())
		return err
	})
	want := rfcSCTInput(s, en)
	obs := "Err"
	ok := true
	switch got {
	case "ok":
		obs = "(Ok " + lib.Bytes(out) + ")"
		ok = want != nil && string(want) == string(out)
	case "err":
		ok = want == nil
	default:
		obs = "Panic"
		ok = en.shape == "nilTE" || en.shape == "nilPrecert" // the property is silent on nil pointers in the entry
	}
	note := ""
	if !ok {
		note = fmt.Sprintf("sctinput %s impl=%s rfc=%s got=%s", what, got, hx(want), hx(out))
	}
	e.w.Add(lib.Case{
		Coq:    fmt.Sprintf("CSctInput %s %s %s", s.coq(), en.coq(), obs),
		Input:  map[string]interface{}{"api": "ct.SerializeSCTSignatureInput", "what": what, "version": s.version, "timestamp": s.ts, "ext": hx(s.ext), "shape": en.shape, "entry_type": en.etype, "cert": hx(en.cert), "tbs": hx(en.tbs)},
		Impl:   map[string]interface{}{"outcome": got, "error": emsg, "bytes": hx(out), "rfc": hx(want)},
		PropOK: ok, Note: note,
		Tags: []string{"api:SerializeSCTSignatureInput", "impl:" + got, "shape:" + en.shape, "class:" + strings.SplitN(what, ":", 2)[0]},
	})
}

func (e *emitter) sctCase(k *keyInfo, s sctObj, en entryObj, what, mustBe string) {
	msg := rfcSCTInput(s, en)
	want := "err"
	var o *oracle
	if msg != nil {
		o = buildOracle(k, msg, s.sig, s.h, false)
		want = expectVerify(k, s.h, s.a, msg, s.sig)
	} else {
		o = buildOracle(k, nil, s.sig, s.h, false)
	}
	o.withMsg = true
	sv := ct.SignatureVerifier{PubKey: k.pub}
	got, emsg := guard(func() error { return sv.VerifySCTSignature(s.toGo(), en.toGo()) })
	ok := got == want
	if got == "panic" && (en.shape == "nilTE" || en.shape == "nilPrecert") {
		ok = true // caller handed an entry with a nil pointer; outside the property's sentence
	}
	note := ""
	if mustBe != "" && want != mustBe {
		ok = false
		note = fmt.Sprintf("sct key=%s %s: constructed to be %s but the direct computation says %s", k.name, what, mustBe, want)
	}
	if !ok && note == "" {
		note = fmt.Sprintf("sct key=%s %s impl=%s want=%s", k.name, what, got, want)
	}
	e.w.Add(lib.Case{
		Coq:    fmt.Sprintf("CSct %s %s %s %s %s", k.coq(), s.coq(), en.coq(), o.coq(), coqOutcome(got)),
		Input:  map[string]interface{}{"api": "SignatureVerifier.VerifySCTSignature", "key": k.name, "what": what, "version": s.version, "timestamp": s.ts, "ext": hx(s.ext), "hash": s.h, "sigalg": s.a, "sig": hx(s.sig), "shape": en.shape, "cert": hx(en.cert), "tbs": hx(en.tbs), "signed_bytes": hx(msg), "direct": o.note},
		Impl:   map[string]interface{}{"outcome": got, "error": emsg, "want": want},
		PropOK: ok, Note: note,
		Tags: []string{"api:VerifySCTSignature", "key:" + k.name, "impl:" + got, "shape:" + en.shape, "class:" + strings.SplitN(what, ":", 2)[0]},
	})
}

func randBytes(rnd *mrand.Rand, n int) []byte {
	b := make([]byte, n)
	rnd.Read(b)
	return b
}

func (e *emitter) sctStream() {
	rnd := e.rnd
	thorough := lib.Tier() == "thorough"
	// serialization only: shapes, ranges, boundaries
	base := sctObj{version: 0, ts: 1234567890123, ext: nil, h: 4, a: 3}
	rnd.Read(base.logID[:])
	x := entryObj{shape: "x509", etype: 0, cert: randBytes(rnd, 60), leafTS: 1}
	p := entryObj{shape: "precert", etype: 1, tbs: randBytes(rnd, 50), leafTS: 1}
	rnd.Read(p.ikh[:])
	e.sctInputCase(base, x, "shape:x509")
	e.sctInputCase(base, p, "shape:precert")
	for _, sh := range []string{"nilTE", "nilX509", "nilPrecert"} {
		en := entryObj{shape: sh}
		if sh == "nilPrecert" {
			en.etype = 1
		}
		e.sctInputCase(base, en, "shape:"+sh)
		v1 := base
		v1.version = 1
		e.sctInputCase(v1, en, "shape:"+sh+"-v2")
	}
	for _, ty := range []uint64{2, 0x8000, 0xffff, 0x10000} {
		e.sctInputCase(base, entryObj{shape: "other", etype: ty, cert: []byte{1}}, fmt.Sprintf("shape:type-%d", ty))
	}
	for _, v := range []uint64{1, 2, 255, 256} {
		s := base
		s.version = v
		e.sctInputCase(s, x, fmt.Sprintf("range:version-%d", v))
	}
	for _, ts := range []uint64{0, 1, 1<<63 - 1, 1 << 63, 1<<64 - 1} {
		s := base
		s.ts = ts
		e.sctInputCase(s, x, "range:timestamp")
		e.sctInputCase(s, p, "range:timestamp")
	}
	extLens := []int{0, 1, 255, 256, 65535, 65536}
	certLens := []int{0, 1, 2, 255, 256, 65535, 65536, 70000}
	for _, n := range extLens {
		s := base
		s.ext = bytesOf(n, 0xe7)
		e.sctInputCase(s, x, fmt.Sprintf("range:ext-%d", n))
	}
	for _, n := range certLens {
		en := x
		en.cert = bytesOf(n, 0xc3)
		e.sctInputCase(base, en, fmt.Sprintf("range:cert-%d", n))
		en2 := p
		en2.tbs = bytesOf(n, 0x7b)
		e.sctInputCase(base, en2, fmt.Sprintf("range:tbs-%d", n))
	}
	both := x
	both.bothSet, both.tbs = true, []byte{9}
	e.sctInputCase(base, both, "shape:x509-with-precert-pointer")
	both = p
	both.bothSet, both.cert = true, []byte{9}
	e.sctInputCase(base, both, "shape:precert-with-x509-pointer")

	// signed SCTs
	keys := []string{"p256", "rsa2048", "p384", "dsa1024"}
	if thorough {
		keys = []string{"p256", "rsa2048", "p384", "dsa1024", "rsa1024", "p521", "rsa3072", "p224"}
	}
	for ki, kn := range keys {
		k := e.ks.byName[kn]
		for _, shape := range []string{"x509", "precert"} {
			rnd := mrand.New(mrand.NewSource(e.rnd.Int63()))
			s := sctObj{version: 0, ts: 1500000000000 + uint64(rnd.Intn(1000000))*1000 + 1, h: 4, a: sigAlgOf[k.kind]}
			if rnd.Intn(2) == 0 {
				s.ext = randBytes(rnd, 1+rnd.Intn(5))
			}
			if ki%3 == 2 {
				s.h = 1 + rnd.Intn(6)
			}
			rnd.Read(s.logID[:])
			en := entryObj{shape: shape, leafTS: s.ts, cert: randBytes(rnd, 40+rnd.Intn(30)), tbs: randBytes(rnd, 30+rnd.Intn(30)), index: int64(rnd.Intn(1000))}
			rnd.Read(en.ikh[:])
			if shape == "precert" {
				en.etype = 1
			}
			msg := rfcSCTInput(s, en)
			sig, r, sv := sign(k, s.h, msg, false)
			s.sig = sig
			e.sctCase(k, s, en, "valid:signed", "ok")
			e.sctInputCase(s, en, "shape:"+shape+"-signed")

			// every signed field, one at a time
			m := s
			m.ts = s.ts ^ (1 << uint(rnd.Intn(64)))
			e.sctCase(k, m, en, "signed-field:timestamp-bit", "err")
			m = s
			m.ts = s.ts + 1
			e.sctCase(k, m, en, "signed-field:timestamp+1", "err")
			m = s
			m.ext = cat(s.ext, []byte{0})
			e.sctCase(k, m, en, "signed-field:extensions-appended", "err")
			if len(s.ext) > 0 {
				m = s
				m.ext = flipBit(rnd, s.ext)
				e.sctCase(k, m, en, "signed-field:extensions-bit", "err")
				m = s
				m.ext = nil
				e.sctCase(k, m, en, "signed-field:extensions-dropped", "err")
			}
			m = s
			m.version = 1
			e.sctCase(k, m, en, "signed-field:version", "err")
			me := en
			if shape == "x509" {
				me.cert = flipBit(rnd, en.cert)
				e.sctCase(k, s, me, "signed-field:cert-bit", "err")
				me = en
				me.cert = en.cert[:len(en.cert)-1]
				e.sctCase(k, s, me, "signed-field:cert-truncated", "err")
				me = en
				me.cert = cat(en.cert, []byte{0})
				e.sctCase(k, s, me, "signed-field:cert-extended", "err")
				// same bytes presented as the other entry type
				me = en
				me.shape, me.etype, me.tbs = "precert", 1, en.cert
				e.sctCase(k, s, me, "signed-field:entry-type", "err")
			} else {
				me.tbs = flipBit(rnd, en.tbs)
				e.sctCase(k, s, me, "signed-field:tbs-bit", "err")
				me = en
				me.ikh[rnd.Intn(32)] ^= 1 << uint(rnd.Intn(8))
				e.sctCase(k, s, me, "signed-field:issuer-key-hash-bit", "err")
				me = en
				me.tbs = en.tbs[:len(en.tbs)-1]
				e.sctCase(k, s, me, "signed-field:tbs-truncated", "err")
				me = en
				me.shape, me.etype, me.cert = "x509", 0, cat(en.ikh[:], en.tbs)
				e.sctCase(k, s, me, "signed-field:entry-type", "err")
			}
			me = en
			me.shape, me.etype = "other", 2
			e.sctCase(k, s, me, "signed-field:entry-type-unknown", "err")
			// fields that are not signed must not matter
			m = s
			m.logID[rnd.Intn(32)] ^= 0x40
			e.sctCase(k, m, en, "unsigned-field:log-id", "ok")
			me = en
			me.leafTS = en.leafTS + 12345
			e.sctCase(k, s, me, "unsigned-field:leaf-timestamp", "ok")
			me = en
			me.leafExt = []byte{1, 2, 3}
			e.sctCase(k, s, me, "unsigned-field:leaf-extensions", "ok")
			me = en
			me.leafVer, me.leafTy, me.index = 3, 7, -1
			e.sctCase(k, s, me, "unsigned-field:leaf-version-type-index", "ok")
			me = en
			me.bothSet, me.cert, me.tbs = true, en.cert, en.tbs
			e.sctCase(k, s, me, "unsigned-field:other-variant-pointer", "ok")
			// the DigitallySigned
			m = s
			m.sig = flipBit(rnd, s.sig)
			e.sctCase(k, m, en, "signature:bitflip", "")
			m = s
			m.h = 1 + (s.h % 6)
			e.sctCase(k, m, en, "signature:hash-code", "err")
			m = s
			m.h = []int{0, 7, 255}[rnd.Intn(3)]
			e.sctCase(k, m, en, "signature:hash-code-unknown", "err")
			m = s
			m.a = 1 + (s.a % 3)
			e.sctCase(k, m, en, "signature:sigalg", "err")
			m = s
			m.a = []int{0, 4, 255}[rnd.Intn(3)]
			e.sctCase(k, m, en, "signature:sigalg-unknown", "err")
			e.sctCase(e.ks.alt[k.name], s, en, "key:other-same-kind", "err")
			other := e.ks.byName["rsa2048"]
			if k.kind == "rsa" {
				other = e.ks.byName["p256"]
			}
			e.sctCase(other, s, en, "key:other-kind", "err")
			e.sctCase(e.ks.nonsig[rnd.Intn(len(e.ks.nonsig))], s, en, "key:non-key", "err")
			if k.kind != "rsa" {
				m = s
				m.sig = cat(s.sig, []byte{0xde, 0xad})
				e.sctCase(k, m, en, "signature:trailing", "ok")
				m.sig = derSig(r, sv, []byte{0xbe, 0xef})
				e.sctCase(k, m, en, "signature:inner-junk", "ok")
				muts := derMutations(rnd, r, sv, orderOf(k))
				for i := 0; i < 6; i++ {
					mu := muts[rnd.Intn(len(muts))]
					m.sig = mu.b
					e.sctCase(k, m, en, "signature:der-"+mu.name, "")
				}
			} else {
				m = s
				m.sig = cat(s.sig, []byte{0})
				e.sctCase(k, m, en, "signature:trailing-rsa", "err")
			}
			// nil pointers in the entry
			e.sctCase(k, s, entryObj{shape: "nilX509"}, "nil:x509-pointer", "err")
			e.sctCase(k, s, entryObj{shape: "nilTE"}, "nil:timestamped-entry", "")
			e.sctCase(k, s, entryObj{shape: "nilPrecert", etype: 1}, "nil:precert-pointer", "")
		}
	}
}

type sthObj struct {
	version uint64
	size    uint64
	ts      uint64
	root    [32]byte
	logID   [32]byte
	h, a    int
	sig     []byte
}

func (s sthObj) toGo() ct.SignedTreeHead {
	return ct.SignedTreeHead{Version: ct.Version(s.version), TreeSize: s.size, Timestamp: s.ts, SHA256RootHash: s.root,
		TreeHeadSignature: ct.DigitallySigned(mkDS(s.h, s.a, s.sig)), LogID: s.logID}
}

func (s sthObj) coq() string {
	return fmt.Sprintf("(Build_sth %d %d %d %s %s)", s.version, s.size, s.ts, lib.Hex(s.root[:]), dsigCoq(s.h, s.a, s.sig))
}

// RFC 6962 s3.5
func rfcSTHInput(s sthObj) []byte {
	if s.version != 0 {
		return nil
	}
	return cat([]byte{0, 1}, u64(s.ts), u64(s.size), s.root[:])
}

func (e *emitter) sthInputCase(s sthObj, what string) {
	var out []byte
	got, emsg := guard(func() error {
		var err error
		out, err = ct.SerializeSTHSignatureInput(s.toGo())
		return err
	})
	want := rfcSTHInput(s)
	obs := "Err"
	ok := true
	switch got {
	case "ok":
		obs = "(Ok " + lib.Bytes(out) + ")"
		ok = want != nil && string(want) == string(out)
	case "err":
		ok = want == nil
	default:
		obs, ok = "Panic", false
	}
	note := ""
	if !ok {
		note = fmt.Sprintf("sthinput %s impl=%s rfc=%s got=%s", what, got, hx(want), hx(out))
	}
	e.w.Add(lib.Case{
		Coq:    fmt.Sprintf("CSthInput %s %s", s.coq(), obs),
		Input:  map[string]interface{}{"api": "ct.SerializeSTHSignatureInput", "what": what, "version": s.version, "tree_size": s.size, "timestamp": s.ts, "root": hx(s.root[:])},
		Impl:   map[string]interface{}{"outcome": got, "error": emsg, "bytes": hx(out), "rfc": hx(want)},
		PropOK: ok, Note: note,
		Tags: []string{"api:SerializeSTHSignatureInput", "impl:" + got, "class:" + strings.SplitN(what, ":", 2)[0]},
	})
}

func (e *emitter) sthCase(k *keyInfo, s sthObj, what, mustBe string) {
	msg := rfcSTHInput(s)
	want := "err"
	o := buildOracle(k, msg, s.sig, s.h, false)
	o.withMsg = true
	if msg != nil {
		want = expectVerify(k, s.h, s.a, msg, s.sig)
	}
	sv := ct.SignatureVerifier{PubKey: k.pub}
	got, emsg := guard(func() error { return sv.VerifySTHSignature(s.toGo()) })
	ok := got == want
	note := ""
	if mustBe != "" && want != mustBe {
		ok = false
		note = fmt.Sprintf("sth key=%s %s: constructed to be %s but the direct computation says %s", k.name, what, mustBe, want)
	}
	if !ok && note == "" {
		note = fmt.Sprintf("sth key=%s %s impl=%s want=%s", k.name, what, got, want)
	}
	e.w.Add(lib.Case{
		Coq:    fmt.Sprintf("CSth %s %s %s %s", k.coq(), s.coq(), o.coq(), coqOutcome(got)),
		Input:  map[string]interface{}{"api": "SignatureVerifier.VerifySTHSignature", "key": k.name, "what": what, "version": s.version, "tree_size": s.size, "timestamp": s.ts, "root": hx(s.root[:]), "hash": s.h, "sigalg": s.a, "sig": hx(s.sig), "signed_bytes": hx(msg), "direct": o.note},
		Impl:   map[string]interface{}{"outcome": got, "error": emsg, "want": want},
		PropOK: ok, Note: note,
		Tags: []string{"api:VerifySTHSignature", "key:" + k.name, "impl:" + got, "class:" + strings.SplitN(what, ":", 2)[0]},
	})
}

func (e *emitter) sthStream() {
	rnd := e.rnd
	for _, v := range []uint64{0, 1, 255, 256} {
		for _, n := range []uint64{0, 1, 1<<63 - 1, 1<<64 - 1} {
			s := sthObj{version: v, size: n, ts: ^n, h: 4, a: 3}
			rnd.Read(s.root[:])
			e.sthInputCase(s, fmt.Sprintf("range:version-%d", v))
		}
	}
	keys := []string{"p256", "rsa2048", "p384", "dsa1024"}
	if lib.Tier() == "thorough" {
		keys = []string{"p256", "rsa2048", "p384", "dsa1024", "rsa1024", "p521", "rsa3072", "p224"}
	}
	for ki, kn := range keys {
		k := e.ks.byName[kn]
		rnd := mrand.New(mrand.NewSource(e.rnd.Int63()))
		s := sthObj{version: 0, size: uint64(rnd.Int63n(1 << 40)), ts: 1600000000000 + uint64(rnd.Intn(1000000)), h: 4, a: sigAlgOf[k.kind]}
		if ki%2 == 1 {
			s.h = 1 + rnd.Intn(6)
		}
		rnd.Read(s.root[:])
		rnd.Read(s.logID[:])
		sig, r, sv := sign(k, s.h, rfcSTHInput(s), false)
		s.sig = sig
		e.sthCase(k, s, "valid:signed", "ok")
		e.sthInputCase(s, "shape:signed")
		m := s
		m.size = s.size + 1
		e.sthCase(k, m, "signed-field:tree-size+1", "err")
		m = s
		m.size = s.size ^ (1 << uint(rnd.Intn(64)))
		e.sthCase(k, m, "signed-field:tree-size-bit", "err")
		m = s
		m.ts = s.ts ^ (1 << uint(rnd.Intn(64)))
		e.sthCase(k, m, "signed-field:timestamp-bit", "err")
		m = s
		m.size, m.ts = s.ts, s.size
		e.sthCase(k, m, "signed-field:size-timestamp-swapped", "err")
		m = s
		m.root[rnd.Intn(32)] ^= 1 << uint(rnd.Intn(8))
		e.sthCase(k, m, "signed-field:root-bit", "err")
		m = s
		m.version = 1
		e.sthCase(k, m, "signed-field:version", "err")
		m = s
		m.logID[3] ^= 0xff
		e.sthCase(k, m, "unsigned-field:log-id", "ok")
		m = s
		m.sig = flipBit(rnd, s.sig)
		e.sthCase(k, m, "signature:bitflip", "")
		m = s
		m.h = 1 + (s.h % 6)
		e.sthCase(k, m, "signature:hash-code", "err")
		m = s
		m.a = 1 + (s.a % 3)
		e.sthCase(k, m, "signature:sigalg", "err")
		e.sthCase(e.ks.alt[k.name], s, "key:other-same-kind", "err")
		if k.kind != "rsa" {
			m = s
			m.sig = cat(s.sig, []byte{1})
			e.sthCase(k, m, "signature:trailing", "ok")
			muts := derMutations(rnd, r, sv, orderOf(k))
			for i := 0; i < 6; i++ {
				mu := muts[rnd.Intn(len(muts))]
				m.sig = mu.b
				e.sthCase(k, m, "signature:der-"+mu.name, "")
			}
		}
		// an SCT signature input signed by the same key is not an STH signature
		sct := sctObj{version: 0, ts: s.ts, h: s.h, a: s.a}
		en := entryObj{shape: "x509", cert: cat(u64(s.size), s.root[:])}
		ssig, _, _ := sign(k, s.h, rfcSCTInput(sct, en), false)
		m = s
		m.sig = ssig
		e.sthCase(k, m, "signature:of-sct-input", "err")
	}
}

// ---- ctutil.VerifySCT

func (e *emitter) utilStream() {
	rnd := e.rnd
	root := pki.Issue(pki.Opts{CN: "c05 root", IsCA: true}, nil)
	leaf := pki.Issue(pki.Opts{CN: "c05 leaf", DNSNames: []string{"c05.example"}}, root)
	pre := pki.Issue(pki.Opts{CN: "c05 precert", ExtraExt: []pkix.Extension{pki.PoisonExt()}}, root)
	for _, kn := range []string{"p256", "rsa2048", "p384", "rsa1024", "dsa1024", "ed25519"} {
		k := e.ks.byName[kn]
		for ci, chain := range [][]*x509.Certificate{{leaf.Cert, root.Cert}, {pre.Cert, root.Cert}} {
			ts := uint64(1700000000000 + rnd.Intn(1000000))
			etype := ct.X509LogEntryType
			if ci == 1 {
				etype = ct.PrecertLogEntryType
			}
			mleaf, err := ct.MerkleTreeLeafFromChain(chain, etype, ts)
			must(err)
			en := entryObj{leafTS: ts}
			if ci == 0 {
				en.shape, en.cert = "x509", mleaf.TimestampedEntry.X509Entry.Data
			} else {
				en.shape, en.etype = "precert", 1
				en.ikh, en.tbs = mleaf.TimestampedEntry.PrecertEntry.IssuerKeyHash, mleaf.TimestampedEntry.PrecertEntry.TBSCertificate
			}
			s := sctObj{version: 0, ts: ts, h: 4, a: 3}
			rnd.Read(s.logID[:])
			signer := k
			if _, can := sigAlgOf[k.kind]; !can {
				signer = e.ks.byName["p256"]
			}
			s.a = sigAlgOf[signer.kind]
			s.sig, _, _ = sign(signer, s.h, rfcSCTInput(s, en), false)
			for _, allow := range []bool{false, true} {
				variants := []string{"valid", []string{"timestamp+1", "sig-bitflip"}[rnd.Intn(2)]}
				if lib.Tier() == "thorough" {
					variants = []string{"valid", "timestamp+1", "sig-bitflip"}
				}
				for _, variant := range variants {
					m := s
					switch variant {
					case "timestamp+1":
						m.ts++ // also moves the leaf timestamp: createLeaf uses sct.Timestamp
					case "sig-bitflip":
						m.sig = flipBit(rnd, s.sig)
					}
					men := en
					men.leafTS = m.ts
					msg := rfcSCTInput(m, men)
					o := buildOracle(k, msg, m.sig, m.h, false)
					o.withMsg = true
					want := "err"
					policy := (k.kind == "rsa" && (k.bits >= 2048 || allow)) || (k.kind == "ecdsa" && (k.curve == "P256" || allow))
					if policy {
						want = expectVerify(k, m.h, m.a, msg, m.sig)
					}
					ct.AllowVerificationWithNonCompliantKeys = allow
					g := m.toGo()
					got, emsg := guard(func() error { return ctutil.VerifySCT(k.pub, chain, &g, false) })
					ct.AllowVerificationWithNonCompliantKeys = false
					ok := got == want
					if variant == "valid" && policy && k == signer && want != "ok" {
						ok = false
					}
					note := ""
					if !ok {
						note = fmt.Sprintf("ctutil.VerifySCT key=%s allow=%v chain=%d %s impl=%s want=%s", k.name, allow, ci, variant, got, want)
					}
					e.w.Add(lib.Case{
						Coq:    fmt.Sprintf("CUtil %s %s %s %s %s %s", lib.Bool(allow), k.coq(), m.coq(), men.coq(), o.coq(), coqOutcome(got)),
						Input:  map[string]interface{}{"api": "ctutil.VerifySCT", "key": k.name, "allow_noncompliant": allow, "entry": en.shape, "variant": variant, "timestamp": m.ts, "sig": hx(m.sig), "signed_bytes": hx(msg), "direct": o.note},
						Impl:   map[string]interface{}{"outcome": got, "error": emsg, "want": want},
						PropOK: ok, Note: note,
						Tags: []string{"api:ctutil.VerifySCT", "key:" + k.name, "impl:" + got, fmt.Sprintf("allow:%v", allow), "class:util-" + variant},
					})
				}
			}
		}
	}
}

// ---- loglist3.NewFromSignedJSON

const sampleList = `{"version":"1.2","operators":[{"name":"Op","email":["a@b.example"],"logs":[{"description":"L","url":"https://ct.example/log/","mmd":86400}]}]}`

func (e *emitter) jsonCase(k *keyInfo, data, raw []byte, what, mustBe string) {
	o := buildOracle(k, data, raw, 4, false)
	var tmp loglist3.LogList
	o.json = json.Unmarshal(data, &tmp) == nil
	want := "err"
	if (k.kind == "rsa" || k.kind == "ecdsa") && expectVerify(k, 4, sigAlgOf[k.kind], data, raw) == "ok" && o.json {
		want = "ok"
	}
	var ll *loglist3.LogList
	got, emsg := guard(func() error {
		var err error
		ll, err = loglist3.NewFromSignedJSON(data, raw, k.pub)
		return err
	})
	ok := got == want && (got != "ok" || ll != nil) && (got == "ok" || ll == nil)
	note := ""
	if mustBe != "" && want != mustBe {
		ok = false
		note = fmt.Sprintf("signedjson key=%s %s: constructed to be %s but the direct computation says %s", k.name, what, mustBe, want)
	}
	if !ok && note == "" {
		note = fmt.Sprintf("signedjson key=%s %s impl=%s want=%s json_ok=%v", k.name, what, got, want, o.json)
	}
	e.w.Add(lib.Case{
		Coq:    fmt.Sprintf("CJson %s %s %s %s %s", k.coq(), lib.Bytes(data), lib.Bytes(raw), o.coq(), coqOutcome(got)),
		Input:  map[string]interface{}{"api": "loglist3.NewFromSignedJSON", "key": k.name, "what": what, "data": hx(data), "sig": hx(raw), "json_parses": o.json, "direct": o.note},
		Impl:   map[string]interface{}{"outcome": got, "error": emsg, "want": want},
		PropOK: ok, Note: note,
		Tags: []string{"api:NewFromSignedJSON", "key:" + k.name, "impl:" + got, "class:" + strings.SplitN(what, ":", 2)[0], fmt.Sprintf("json:%v", o.json)},
	})
}

func (e *emitter) jsonStream() {
	good := []byte(sampleList)
	docs := []named{{"good", good}, {"empty-object", []byte(`{}`)}, {"not-json", []byte(`{"operators": [`)}, {"wrong-type", []byte(`{"operators": 7}`)}, {"empty", nil}}
	for _, kn := range []string{"p256", "rsa2048", "p384", "rsa1024", "p521", "dsa1024"} {
		k := e.ks.byName[kn]
		rnd := mrand.New(mrand.NewSource(e.rnd.Int63()))
		for _, doc := range docs {
			dn, d := doc.name, doc.b
			sig, r, s := sign(k, 4, d, false)
			mb := "err"
			var tmp loglist3.LogList
			if json.Unmarshal(d, &tmp) == nil && k.kind != "dsa" {
				mb = "ok"
			}
			e.jsonCase(k, d, sig, "signed:"+dn, mb)
			if dn != "good" {
				continue
			}
			e.jsonCase(k, d, flipBit(rnd, sig), "badsig:bitflip", "")
			e.jsonCase(k, flipBit(rnd, d), sig, "baddata:bitflip", "err")
			e.jsonCase(k, cat(d, []byte(" ")), sig, "baddata:space-appended", "err")
			e.jsonCase(e.ks.alt[k.name], d, sig, "badkey:other-same-kind", "err")
			sha1sig, _, _ := sign(k, 2, d, false)
			e.jsonCase(k, d, sha1sig, "badsig:sha1", "err")
			sha512sig, _, _ := sign(k, 6, d, false)
			e.jsonCase(k, d, sha512sig, "badsig:sha512", "err")
			e.jsonCase(k, d, nil, "badsig:empty", "err")
			if k.kind == "ecdsa" {
				e.jsonCase(k, d, cat(sig, []byte{0, 0}), "sig:trailing", "ok")
				e.jsonCase(k, d, derSig(r, s, []byte{7}), "sig:inner-junk", "ok")
				for _, mu := range derMutations(rnd, r, s, orderOf(k)) {
					if rnd.Intn(6) == 0 {
						e.jsonCase(k, d, mu.b, "sig:der-"+mu.name, "")
					}
				}
			}
			if k.kind == "rsa" {
				e.jsonCase(k, d, cat(sig, []byte{0}), "badsig:trailing-rsa", "err")
			}
		}
	}
	sig, _, _ := sign(e.ks.byName["p256"], 4, good, false)
	for _, k := range e.ks.nonsig {
		e.jsonCase(k, good, sig, "nonkey:"+k.name, "err")
	}
}

func main() {
	flag.Parse()
	log.SetOutput(io.Discard) // the code under test logs "Garbage following signature" / WARNING lines
	rnd := lib.Rand()
	e := &emitter{w: lib.NewWriter(header, shardSize), rnd: rnd, ks: makeKeys()}
	defer e.w.Guard()
	e.historyTick(false)
	e.newVerifierStream()
	e.derStream()
	e.historyTick(false)
	e.verifyStream()
	e.sctStream()
	e.historyTick(false)
	e.sthStream()
	e.utilStream()
	e.historyTick(false)
	e.jsonStream()
	e.historyTick(false)
	e.algIDStream()
	e.historyTick(true)
	e.w.Close()
	fmt.Printf("c05: %d cases\n", e.w.Len())
}
