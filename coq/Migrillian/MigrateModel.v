(* C20 - executable model of the Migrillian copy loop
   (trillian/migrillian/core/controller.go, trillian.go; scanner/fetcher.go as used by it;
   Trillian v1.7.1 client/backoff Retry / IsRetryable).  DEFINITIONS ONLY.

   External things are Section variables: SHA-256, the X.509 parser verdict, the RFC 6962
   tree hash and the consistency-proof verifier (transparency-dev/merkle).  The destination
   is the reference pre-ordered log behind trillian.TrillianLogClient: a table index -> leaf fed
   by AddSequencedLeaves (request validation as in Trillian's server/validate.go, per-leaf
   status OK / AlreadyExists(identical) / conflict) plus the integrated tree size, which only
   ever covers a gap-free prefix of the table. *)
From Coq Require Import ZArith NArith Bool List.
From Coq.Strings Require Import Byte.
From V Require Import Base.Bytes Base.CaseLib.
Import ListNotations.
Open Scope Z_scope.

(* ------------------------------------------------------------------ source entries *)

Record entry := { e_input : bytes; e_extra : bytes }.       (* ct.LeafEntry *)

(* the first n bytes and the rest *)
Definition take (n : N) (bs : bytes) : option (bytes * bytes) :=
  if (N.of_nat (length bs) <? n)%N then None
  else Some (firstn (N.to_nat n) bs, skipn (N.to_nat n) bs).

(* opaque<minl..2^(8w)-1> *)
Definition read_vec (w : nat) (minl : N) (bs : bytes) : option (bytes * bytes) :=
  match take (N.of_nat w) bs with
  | None => None
  | Some (lb, r) => let n := be_dec lb in if (n <? minl)%N then None else take n r
  end.

(* the body of a vector of ASN1Cert (each opaque<1..2^24-1>), consumed exactly *)
Fixpoint certs_ok (fuel : nat) (bs : bytes) : bool :=
  match bs with
  | [] => true
  | _ => match fuel with
         | O => false
         | S f => match read_vec 3 1 bs with Some (_, r) => certs_ok f r | None => false end
         end
  end.

Inductive etype := EX509 | EPrecert.

(* tls.Unmarshal(entry.LeafInput, &MerkleTreeLeaf) + "trailing data" check, as far as
   RawLogEntryFromLeaf cares: the entry type and the certificate / TBS bytes of the leaf.
   version(1, any) leaf_type(1, must select timestamped_entry = 0) timestamp(8)
   entry_type(2): 0 -> ASN1Cert, 1 -> issuer_key_hash[32] + TBS; extensions<0..2^16-1>.
   Entry type 32768 (JSON) parses or not but is then refused as "unknown entry type";
   every other value has no variant: all are errors, i.e. None here. *)
Definition parse_leaf_input (bs : bytes) : option (etype * bytes) :=
  match take 12 bs with
  | None => None
  | Some (h, r) =>
      match h with
      | _ :: lt :: rest10 =>
          if negb (byte_eqb lt x00) then None else
          let et := be_dec (skipn 8 rest10) in
          if (et =? 0)%N then
            match read_vec 3 1 r with
            | None => None
            | Some (cert, r2) => match read_vec 2 0 r2 with Some (_, []) => Some (EX509, cert) | _ => None end
            end
          else if (et =? 1)%N then
            match take 32 r with
            | None => None
            | Some (_, r1) =>
                match read_vec 3 1 r1 with
                | None => None
                | Some (tbs, r2) => match read_vec 2 0 r2 with Some (_, []) => Some (EPrecert, tbs) | _ => None end
                end
            end
          else None
      | _ => None
      end
  end.

(* ct.RawLogEntryFromLeaf: Some (rle.Cert.Data, bytes handed to the X.509 parser) or None = error.
   X509 entry: Cert = the leaf's certificate, extra_data must be a CertificateChain;
   precert entry: Cert = the submitted precertificate from extra_data (PrecertChainEntry). *)
Definition raw_log_entry (e : entry) : option (bytes * bytes) :=
  match parse_leaf_input (e_input e) with
  | None => None
  | Some (EX509, cert) =>
      match read_vec 3 0 (e_extra e) with
      | Some (body, []) => if certs_ok (length body) body then Some (cert, cert) else None
      | _ => None
      end
  | Some (EPrecert, tbs) =>
      match read_vec 3 1 (e_extra e) with
      | None => None
      | Some (pre, r) =>
          match read_vec 3 0 r with
          | Some (body, []) => if certs_ok (length body) body then Some (pre, tbs) else None
          | _ => None
          end
      end
  end.

Definition raw_cert_data (e : entry) : option bytes :=
  match raw_log_entry e with Some (cd, _) => Some cd | None => None end.

(* ------------------------------------------------------------------ leaves *)

Record leaf := { lf_index : Z; lf_value : bytes; lf_extra : bytes; lf_id : bytes }.   (* trillian.LogLeaf *)

Definition leaf_eqb (a b : leaf) : bool :=
  (lf_index a =? lf_index b) && bytes_eqb (lf_value a) (lf_value b)
  && bytes_eqb (lf_extra a) (lf_extra b) && bytes_eqb (lf_id a) (lf_id b).

Inductive idfunc := IdCertData | IdLeafIndex.     (* configpb.IdentityFunction *)
Inductive xverdict := XOk | XNonFatal | XFatal.   (* rle.ToLogEntry(): nil / non-fatal / x509.IsFatal *)

(* binary.LittleEndian.PutUint64(data, uint64(index)) *)
Definition le64 (i : Z) : bytes := rev (be_enc 8 (Z.to_N (i mod 18446744073709551616))).

(* ------------------------------------------------------------------ destination *)

Definition dmap := list (Z * leaf).
Fixpoint lookup (m : dmap) (i : Z) : option leaf :=
  match m with
  | [] => None
  | (j, l) :: r => if j =? i then Some l else lookup r i
  end.

Inductive lstatus := LOk | LExists | LConflict.
Definition lstatus_eqb (a b : lstatus) : bool :=
  match a, b with LOk, LOk | LExists, LExists | LConflict, LConflict => true | _, _ => false end.

Definition put (m : dmap) (l : leaf) : dmap * lstatus :=
  match lookup m (lf_index l) with
  | None => ((lf_index l, l) :: m, LOk)
  | Some l' => if leaf_eqb l l' then (m, LExists) else (m, LConflict)
  end.

Fixpoint put_all (m : dmap) (ls : list leaf) : dmap * list lstatus :=
  match ls with
  | [] => (m, [])
  | l :: r => let '(m1, s) := put m l in let '(m2, ss) := put_all m1 r in (m2, s :: ss)
  end.

Record dest := { d_leaves : dmap; d_size : Z }.

(* the sequencer integrates only a gap-free run that starts at the current tree size *)
Fixpoint contiguous (fuel : nat) (m : dmap) (from : Z) : Z :=
  match fuel with
  | O => from
  | S f => match lookup m from with Some _ => contiguous f m (from + 1) | None => from end
  end.
Definition integrate (k : Z) (d : dest) : dest :=
  let top := contiguous (length (d_leaves d)) (d_leaves d) (d_size d) in
  {| d_leaves := d_leaves d; d_size := Z.min top (d_size d + Z.max 0 k) |}.

Fixpoint indices_from (i : Z) (ls : list leaf) : bool :=
  match ls with [] => true | l :: r => (lf_index l =? i) && indices_from (i + 1) r end.

Inductive rpc := RpcOk (st : list lstatus) | RpcCode (c : Z) | RpcNil.

(* AddSequencedLeaves on the reference backend: empty -> InvalidArgument(3),
   non-contiguous indices -> FailedPrecondition(9), else per-leaf statuses *)
Definition dest_add (d : dest) (ls : list leaf) : dest * rpc :=
  match ls with
  | [] => (d, RpcCode 3)
  | l0 :: _ =>
      if indices_from (lf_index l0) ls
      then let '(m, st) := put_all (d_leaves d) ls in ({| d_leaves := m; d_size := d_size d |}, RpcOk st)
      else (d, RpcCode 9)
  end.

(* ------------------------------------------------------------------ backoff.Retry / IsRetryable *)

Inductive err := ENil | EStatus (code : Z) | ERetriable | EPlain.

(* Trillian v1.7.1 client/backoff.IsRetryable (no extra codes passed) *)
Definition is_retryable (e : err) : bool :=
  match e with
  | ENil => false
  | EStatus c => (c =? 4) || (c =? 8) || (c =? 14) || (c =? 10)
  | ERetriable => true       (* _, ok := err.(RetriableError) *)
  | EPlain => false
  end.

(* THE ONE DEFINITION that differs between the tree before and after pending_fixes/C20-1:
   the package-level value `errRetry` of trillian.go.
   before: errors.New("retry") = a plain error;  after: backoff.RetriableError("retry"). *)
Definition errRetry_prefix : err := EPlain.
Definition errRetry_patched : err := ERetriable.
Definition errRetry : err := errRetry_patched.

(* pause bounds of backoff.Backoff{Min: 1s, Max: 1m, Factor: 3, Jitter: true}: the k-th call of
   Duration() (k = 0, 1, ...) returns base_k + [0, base_k) *)
Definition second : Z := 1000000000.
Definition bo_min : Z := 1 * second.
Definition bo_max : Z := 60 * second.
Definition bo_factor : Z := 3.
Fixpoint backoff_base (k : nat) : Z :=
  match k with
  | O => bo_min
  | S k' => let np := backoff_base k' * bo_factor in
            if (np >? bo_max) || (np <? bo_min) then bo_max else np
  end.
Definition delay_ok (k : nat) (d : Z) : bool := (backoff_base k <=? d) && (d <? 2 * backoff_base k).

(* ------------------------------------------------------------------ scripts (faults, schedule of the world) *)

Inductive action := ANone | ACancel | ALoseMaster.  (* what else the destination call triggers: the caller's
                                                      context is cancelled / mastership is lost *)
Inductive basic := BOk | BNil | BCode (c : Z).      (* store and answer OK / (nil, nil) / gRPC error c *)
Record dreply := { dr_act : action; dr_basic : basic }.
Definition reply_ok := {| dr_act := ANone; dr_basic := BOk |}.

Inductive root_reply := RootOk | RootErr (a : action).
Inductive sth_reply (proof : Type) := SthErr | SthOk (n : Z) (r : bytes).
Inductive cons_reply (proof : Type) := ConsErr | ConsProof (pf : proof).
Arguments SthErr {proof}. Arguments SthOk {proof}. Arguments ConsErr {proof}. Arguments ConsProof {proof}.

Record pscript (proof : Type) := {
  ps_grow : list entry;                  (* the source log appends these before the pass *)
  ps_integrate : Z;                      (* the destination sequencer integrates up to this many leaves before the pass *)
  ps_root : root_reply;                  (* GetLatestSignedLogRoot *)
  ps_sth : sth_reply proof;              (* get-sth *)
  ps_cons : cons_reply proof;            (* get-sth-consistency *)
  ps_short : list (Z * Z);               (* get-entries that starts at key returns at most this many entries *)
  ps_srcerr : list (Z * Z);              (* get-entries that starts at key fails this many times first *)
  ps_replies : list (Z * list dreply)    (* replies of AddSequencedLeaves to the batch that starts at key; then OK *)
}.
Arguments ps_grow {proof}. Arguments ps_integrate {proof}. Arguments ps_root {proof}. Arguments ps_sth {proof}.
Arguments ps_cons {proof}. Arguments ps_short {proof}. Arguments ps_srcerr {proof}. Arguments ps_replies {proof}.

Fixpoint assoc {A} (m : list (Z * A)) (k : Z) : option A :=
  match m with [] => None | (j, v) :: r => if j =? k then Some v else assoc r k end.

Record config := {
  c_batch : Z; c_start : Z; c_end : Z; c_continuous : bool; c_nocheck : bool; c_idf : idfunc
}.

Record reqrec := { rr_start : Z; rr_leaves : list leaf; rr_reply : rpc; rr_attempt : nat }.

Inductive pres := POk (next : Z) | PErr | PStuck.

Record pass_out := {
  po_res : pres;
  po_act : action;                 (* cancellation / loss of mastership triggered during the pass *)
  po_sth_req : bool;               (* get-sth was requested *)
  po_cons_req : option (Z * Z);    (* get-sth-consistency first, second *)
  po_get_entries : list (Z * Z);   (* get-entries start, end (in a failed pass: up to the last submitted batch) *)
  po_stream : list reqrec;         (* the AddSequencedLeaves request stream *)
  po_dest : dest;
  po_ver : Z                       (* ghost: the largest STH size under which anything was submitted *)
}.

Record world := { w_src : list entry; w_dest : dest; w_ver : Z }.

Definition slice {A} (l : list A) (pos k : Z) : list A := firstn (Z.to_nat k) (skipn (Z.to_nat pos) l).

Section Model.
  Variable proof : Type.
  Variable sha256 : bytes -> bytes.
  Variable x509v : bytes -> xverdict.
  Variable mth : list bytes -> bytes.                                  (* RFC 6962 tree hash of leaf values *)
  Variable vcons : Z -> Z -> proof -> bytes -> bytes -> bool.           (* proof.VerifyConsistency(size1,size2,pf,root1,root2) = nil *)

  (* idHashCertData / idHashLeafIndex *)
  Definition id_hash (idf : idfunc) (index : Z) (cert_data : bytes) : bytes :=
    match idf with IdCertData => sha256 cert_data | IdLeafIndex => sha256 (le64 index) end.

  (* buildLogLeaf: the leaf, and what ToLogEntry said (only logged) *)
  Definition build_log_leaf_v (idf : idfunc) (index : Z) (e : entry) : option (leaf * xverdict) :=
    match raw_log_entry e with
    | None => None
    | Some (cd, parsed) =>
        Some ({| lf_index := index; lf_value := e_input e; lf_extra := e_extra e; lf_id := id_hash idf index cd |},
              x509v parsed)
    end.
  Definition build_log_leaf (idf : idfunc) (index : Z) (e : entry) : option leaf :=
    match build_log_leaf_v idf index e with Some (l, _) => Some l | None => None end.

  Fixpoint build_leaves (idf : idfunc) (i : Z) (es : list entry) : option (list leaf) :=
    match es with
    | [] => Some []
    | e :: r => match build_log_leaf idf i e with
                | None => None
                | Some l => match build_leaves idf (i + 1) r with None => None | Some ls => Some (l :: ls) end
                end
    end.

  Definition dest_root (d : dest) : bytes :=
    mth (map (fun i => match lookup (d_leaves d) (Z.of_nat i) with Some l => lf_value l | None => [] end)
             (seq 0 (Z.to_nat (d_size d)))).

  (* ---- addSequencedLeaves: bo.Retry(ctx, f) with f as written ---- *)
  Definition mkrec (s : Z) (ls : list leaf) (r : rpc) (n : nat) : reqrec :=
    {| rr_start := s; rr_leaves := ls; rr_reply := r; rr_attempt := n |}.

  (* result: requests made, destination, addSequencedLeaves returned nil, action triggered *)
  Fixpoint attempts (eRetry : err) (fuel : nat) (script : list dreply) (n : nat) (s : Z) (ls : list leaf) (d : dest)
    : list reqrec * dest * bool * action :=
    match fuel with
    | O => ([], d, false, ANone)
    | S f =>
        let r := match script with [] => reply_ok | r :: _ => r end in
        match dr_basic r with
        | BOk =>                                   (* case codes.OK: return nil *)
            let '(d', rp) := dest_add d ls in
            ([mkrec s ls rp n], d', match rp with RpcOk _ => true | _ => false end, dr_act r)
        | BNil => ([mkrec s ls RpcNil n], d, false, dr_act r)       (* rsp == nil: "missing response" *)
        | BCode c =>
            if c =? 0 then ([mkrec s ls RpcNil n], d, false, dr_act r)
            else if c =? 8 then                    (* case codes.ResourceExhausted: return errRetry *)
              if is_retryable eRetry then
                match dr_act r with
                | ANone =>                         (* <-time.After(b.Duration()) then call f again *)
                    let '(rs, d', ok, a) := attempts eRetry f (tl script) (S n) s ls d in
                    (mkrec s ls (RpcCode 8) n :: rs, d', ok, a)
                | a => ([mkrec s ls (RpcCode 8) n], d, false, a)    (* <-ctx.Done(): err = ResourceExhausted *)
                end
              else ([mkrec s ls (RpcCode 8) n], d, false, dr_act r) (* Retry returns f's error at once; err != nil is returned *)
            else ([mkrec s ls (RpcCode c) n], d, false, dr_act r)   (* default: return nil, err as is *)
        end
    end.

  Definition script_of (replies : list (Z * list dreply)) (s : Z) : list dreply :=
    match assoc replies s with Some l => l | None => [] end.

  (* the submitters, in the order in which one fetcher and one submitter process the batches;
     everything stops at the first batch that fails or triggers a cancellation *)
  Fixpoint submit_all (eRetry : err) (idf : idfunc) (replies : list (Z * list dreply))
           (bs : list (Z * list entry)) (d : dest) : list reqrec * dest * bool * action :=
    match bs with
    | [] => ([], d, true, ANone)
    | (s, es) :: r =>
        match build_leaves idf s es with
        | None => ([], d, false, ANone)            (* buildLogLeaf error: no request *)
        | Some ls =>
            let sc := script_of replies s in
            let '(rs, d1, ok, a) := attempts eRetry (S (length sc)) sc 0%nat s ls d in
            match a, ok with
            | ANone, true => let '(rs2, d2, ok2, a2) := submit_all eRetry idf replies r d1 in (rs ++ rs2, d2, ok2, a2)
            | _, _ => (rs, d1, false, a)
            end
        end
    end.

  (* ---- the fetcher as used by fetchTail (non-continuous): genRanges + runWorker with short reads ---- *)
  (* inclusive end of the generated range that contains pos *)
  Definition range_end (lo hi batch pos : Z) : Z := Z.min (lo + ((pos - lo) / batch + 1) * batch) hi - 1.

  (* steps (start, requested end, entries received); true = reached E *)
  Fixpoint walk (src_len : Z) (short : list (Z * Z)) (lo hi batch : Z) (fuel : nat) (pos : Z) : list (Z * Z * Z) * bool :=
    if hi <=? pos then ([], true) else
    match fuel with
    | O => ([], false)
    | S f =>
        let rend := range_end lo hi batch pos in
        let want := rend - pos + 1 in
        let k0 := match assoc short pos with Some v => v | None => want end in
        let k := Z.min (Z.min k0 want) (src_len - pos) in
        if k <=? 0 then ([(pos, rend, 0)], false)
        else let '(st, c) := walk src_len short lo hi batch f (pos + k) in ((pos, rend, k) :: st, c)
    end.

  Definition get_entries_log (srcerr : list (Z * Z)) (steps : list (Z * Z * Z)) : list (Z * Z) :=
    flat_map (fun t => let '(p, e, _) := t in
                       repeat (p, e) (S (Z.to_nat (match assoc srcerr p with Some v => v | None => 0 end)))) steps.

  (* when a pass is cut short, only the get-entries traffic up to the last submitted batch is determined *)
  Definition last_start (rs : list reqrec) : Z := fold_left (fun acc r => Z.max acc (rr_start r)) rs (-1).

  Definition batches_of (src : list entry) (steps : list (Z * Z * Z)) : list (Z * list entry) :=
    map (fun t => let '(p, _, k) := t in (p, slice src p k)) steps.

  (* ---- verifyConsistency ---- *)
  Definition gate (cfg : config) (ts : Z) (droot : bytes) (n : Z) (r : bytes) (cons : cons_reply proof) : bool * option (Z * Z) :=
    if ts =? 0 then (true, None)
    else if c_nocheck cfg then (true, None)
    else match cons with
         | ConsErr => (false, Some (ts, n))
         | ConsProof pf => (vcons ts n pf droot r, Some (ts, n))
         end.

  (* fo.StartIndex after the adjustments at the top of fetchTail *)
  Definition start_index (cfg : config) (ts begin : Z) : Z :=
    let s0 := if c_continuous cfg then ts else if c_start cfg <? 0 then ts else c_start cfg in
    if begin >? s0 then begin else s0.
  (* fo.EndIndex after Fetcher.Prepare *)
  Definition end_index (cfg : config) (n : Z) : Z :=
    let e0 := if c_continuous cfg then 0 else c_end cfg in
    if (e0 =? 0) || (e0 >? n) then n else e0.

  Definition fail (w : world) (a : action) (sth : bool) (cons : option (Z * Z)) : pass_out :=
    {| po_res := PErr; po_act := a; po_sth_req := sth; po_cons_req := cons; po_get_entries := [];
       po_stream := []; po_dest := w_dest w; po_ver := w_ver w |}.

  (* ---- Controller.fetchTail(ctx, begin) ---- *)
  Definition fetch_tail_gen (eRetry : err) (cfg : config) (begin : Z) (w : world) (ps : pscript proof) : pass_out :=
    let d := w_dest w in
    match ps_root ps with
    | RootErr a => fail w a false None
    | RootOk =>
        let ts := d_size d in
        let lo := start_index cfg ts begin in
        match ps_sth ps with
        | SthErr => fail w ANone true None
        | SthOk n r =>
            let hi := end_index cfg n in
            if n <=? begin then
              {| po_res := POk begin; po_act := ANone; po_sth_req := true; po_cons_req := None; po_get_entries := [];
                 po_stream := []; po_dest := d; po_ver := w_ver w |}
            else
              let '(okg, creq) := gate cfg ts (dest_root d) n r (ps_cons ps) in
              if negb okg then fail w ANone true creq
              else if c_batch cfg <=? 0 then
                {| po_res := PStuck; po_act := ANone; po_sth_req := true; po_cons_req := creq; po_get_entries := [];
                   po_stream := []; po_dest := d; po_ver := w_ver w |}
              else
                let src := w_src w in
                let '(steps, complete) := walk (Z.of_nat (length src)) (ps_short ps) lo hi (c_batch cfg) (Z.to_nat (hi - lo)) lo in
                let '(rs, d', ok, a) := submit_all eRetry (c_idf cfg) (ps_replies ps) (batches_of src steps) d in
                let good := ok && complete in
                {| po_res := if good then POk n else if ok then PStuck else PErr;
                   po_act := a; po_sth_req := true; po_cons_req := creq;
                   po_get_entries := if good then get_entries_log (ps_srcerr ps) steps
                                     else get_entries_log (ps_srcerr ps) (filter (fun t => fst (fst t) <=? last_start rs) steps);
                   po_stream := rs; po_dest := d'; po_ver := Z.max (w_ver w) n |}
        end
    end.

  Definition fetch_tail := fetch_tail_gen errRetry.

  (* the world moves between passes: the source grows, the destination sequencer integrates *)
  Definition pre_pass (ps : pscript proof) (w : world) : world :=
    {| w_src := w_src w ++ ps_grow ps; w_dest := integrate (ps_integrate ps) (w_dest w); w_ver := w_ver w |}.

  Definition post_pass (w : world) (o : pass_out) : world :=
    {| w_src := w_src w; w_dest := po_dest o; w_ver := po_ver o |}.

  (* ---- Run / runWithRestarts / RunWhenMaster as a driver over the per-pass scripts ---- *)
  Inductive entry_point := EpRun | EpRunWhenMaster.
  Inductive final := FNil | FErr | FOutOfScript.

  (* begin = the `pos` of the Run loop (0 for the first pass of every Run) *)
  Fixpoint drive_gen (eRetry : err) (ep : entry_point) (cfg : config) (scripts : list (pscript proof)) (begin : Z) (w : world)
    : list pass_out * world * final :=
    match scripts with
    | [] => ([], w, FOutOfScript)
    | ps :: rest =>
        let w1 := pre_pass ps w in
        let o := fetch_tail_gen eRetry cfg begin w1 ps in
        let w2 := post_pass w1 o in
        let continue_with b := let '(os, w3, f) := drive_gen eRetry ep cfg rest b w2 in (o :: os, w3, f) in
        match po_act o with
        | ACancel => ([o], w2, FErr)                               (* the caller's context is done *)
        | ALoseMaster =>
            match ep with
            | EpRun => ([o], w2, FErr)                             (* no election: same as a cancellation *)
            | EpRunWhenMaster => continue_with 0                  (* mctx done, ctx not: Await again, new Run *)
            end
        | ANone =>
            match po_res o with
            | POk next => if c_continuous cfg then continue_with next else ([o], w2, FNil)
            | PErr | PStuck =>
                if c_continuous cfg then
                  match ep with
                  | EpRun => ([o], w2, FErr)                       (* Run returns the error *)
                  | EpRunWhenMaster => continue_with 0            (* runWithRestarts: Run again *)
                  end
                else ([o], w2, FErr)
            end
        end
    end.
  Definition drive := drive_gen errRetry.

End Model.
