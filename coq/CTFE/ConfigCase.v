(* Correspondence cases for C15: observed behaviour of ctfe.ValidateLogConfig,
   ValidateLogConfigs, BuildLogBackendMap, ValidateLogMultiConfig, LogConfigFromFile /
   MultiLogConfigFromFile (+ ToMultiLogConfig), SetUpInstance -> Handlers key set, get-sth. *)
From Coq Require Import ZArith Bool List String Ascii.
From V Require Import Base.GoInt Base.CaseLib gen.Config gen.ConfigTables CTFE.ConfigModel.
Import ListNotations.
Open Scope string_scope.
Open Scope Z_scope.

(* strings with bytes outside printable ASCII are written as byte lists *)
Definition bstr (l : list N) : string := string_of_list_ascii (map ascii_of_N l).

(* what the real DSN parsers said about every string the validator could hand them *)
Definition conn_table := list (string * bool).
Definition tbl_fn (t : conn_table) (s : string) : bool :=
  match find (fun kv => String.eqb (fst kv) s) t with Some kv => snd kv | None => false end.

(* scripted MirrorSTHStorage *)
Inductive policy := PHonest | PIgnoreMax | PNil | PErr.
Definition storage_of (p : policy) (sths : list (Z * Z)) (max : Z) : storage_reply :=
  match p with
  | PHonest => honest_storage sths max
  | PIgnoreMax => honest_storage sths max_i64
  | PNil => SNil
  | PErr => SErr
  end.

Inductive bbm_obs := ONames (names : list string) | OReject | OPanic.

Inductive case :=
| CValidate (c : LogConfig) (my pg : conn_table) (obs : outcome)
| CConfigs (cfgs : list LogConfig) (my pg : conn_table) (obs : outcome)
| CBackends (lbs : option (list LogBackend)) (obs : bbm_obs)
| CMulti (m : LogMultiConfig) (my pg : conn_table) (obs : outcome)
| CFileSingle (parsed : option (list LogConfig)) (spec : string) (my pg : conn_table) (obs obs_as_multi : outcome)
| CFileMulti (parsed : option LogMultiConfig) (my pg : conn_table) (obs : outcome)
| CInstance (c : LogConfig) (e : setup_env) (keys : option (list string))
| CGetSth (c : LogConfig) (e : setup_env) (backend : backend_reply) (p : policy) (sths : list (Z * Z))
          (sign_ok : bool) (res : sth_result) (calls : Z) (arg : option Z).

Definition incl_b (a b : list string) : bool := forallb (fun x => mem_str x b) a.
Definition set_eqb (a b : list string) : bool :=
  incl_b a b && incl_b b a && Nat.eqb (List.length a) (List.length b).

Definition sth_result_eqb (a b : sth_result) : bool :=
  match a, b with
  | SthOk s t, SthOk s' t' => (s =? s') && (t =? t')
  | SthErr, SthErr | SthPanic, SthPanic => true
  | _, _ => false
  end.

Definition bbm_eqb (r : bbm_result) (o : bbm_obs) : bool :=
  match r, o with
  | BOk ns, ONames os => set_eqb ns os
  | BReject, OReject | BPanic, OPanic => true
  | _, _ => false
  end.

Definition run_instance (c : LogConfig) (e : setup_env) : option (list string) :=
  option_map i_handlers (set_up_instance c e).

Definition run_get_sth (c : LogConfig) (e : setup_env) (b : backend_reply) (p : policy) (sths : list (Z * Z)) (sign_ok : bool) : option sth_run :=
  option_map (fun i => get_sth (i_getter i) b (storage_of p sths) sign_ok) (set_up_instance c e).

Definition check (c : case) : bool :=
  match c with
  | CValidate cfg my pg obs => outcome_eqb (validate_log_config (tbl_fn my) (tbl_fn pg) cfg) obs
  | CConfigs cfgs my pg obs => outcome_eqb (validate_log_configs (tbl_fn my) (tbl_fn pg) cfgs) obs
  | CBackends lbs obs => bbm_eqb (build_backend_map lbs) obs
  | CMulti m my pg obs => outcome_eqb (validate_log_multi_config (tbl_fn my) (tbl_fn pg) m) obs
  | CFileSingle parsed spec my pg obs obs2 =>
      outcome_eqb (file_single (tbl_fn my) (tbl_fn pg) parsed) obs
      && outcome_eqb (file_single_as_multi (tbl_fn my) (tbl_fn pg) parsed spec) obs2
  | CFileMulti parsed my pg obs => outcome_eqb (file_multi (tbl_fn my) (tbl_fn pg) parsed) obs
  | CInstance cfg e keys => opt_eqb set_eqb (run_instance cfg e) keys
  | CGetSth cfg e b p sths sign_ok res calls arg =>
      match run_get_sth cfg e b p sths sign_ok with
      | None => false
      | Some r => sth_result_eqb (r_result r) res && (r_backend_calls r =? calls)
                  && opt_eqb Z.eqb (r_storage_arg r) arg
      end
  end.

(* what the model computes, for replay files *)
Inductive explanation :=
| EOutcome (o : outcome)
| EOutcomes (o o2 : outcome)
| EBackends (r : bbm_result)
| EInstance (keys : option (list string))
| ESth (r : option sth_run).

Definition explain (c : case) : explanation :=
  match c with
  | CValidate cfg my pg _ => EOutcome (validate_log_config (tbl_fn my) (tbl_fn pg) cfg)
  | CConfigs cfgs my pg _ => EOutcome (validate_log_configs (tbl_fn my) (tbl_fn pg) cfgs)
  | CBackends lbs _ => EBackends (build_backend_map lbs)
  | CMulti m my pg _ => EOutcome (validate_log_multi_config (tbl_fn my) (tbl_fn pg) m)
  | CFileSingle parsed spec my pg _ _ =>
      EOutcomes (file_single (tbl_fn my) (tbl_fn pg) parsed) (file_single_as_multi (tbl_fn my) (tbl_fn pg) parsed spec)
  | CFileMulti parsed my pg _ => EOutcome (file_multi (tbl_fn my) (tbl_fn pg) parsed)
  | CInstance cfg e _ => EInstance (run_instance cfg e)
  | CGetSth cfg e b p sths sign_ok _ _ _ => ESth (run_get_sth cfg e b p sths sign_ok)
  end.
