(* C03 - the precertificate route and the embedded-SCT route yield the identical log entry.
   Property theorems only.  TLV-level model of the TBSCertificate transformations
   (X509/PrecertModel.v) over the DER TLV layer (X509/Der.v); the SCT list over the
   GENERATED TLS descriptors. *)
From Coq Require Import String NArith Bool List.
From V Require Import Base.Bytes TLS.TlsModel TLS.TlsRoundTripA gen.CtTypes X509.Der X509.PrecertModel X509.PrecertProofs X509.SctListModel.
Import ListNotations.
Local Open Scope N_scope.

(* the canonical encoding of a TBS record parses back to the record (the model's parser and
   encoder are mutually inverse on well-formed records of ANY size below 2^31) *)
Theorem tbs_parse_encode : forall t, tbs_ok t -> parse_tbs (enc_tbs t) = Some t.
Proof. exact parse_enc_tbs. Qed.
Print Assumptions tbs_parse_encode.

(* removes exactly the one targeted extension, keeps every other TLV and every other
   extension unchanged and in order, re-encodes only the enclosing lengths *)
Theorem removes_exactly_one : forall oid t l, tbs_ok t -> t_exts t = Some l ->
  remove_extension oid (enc_tbs t) =
    match count_oid oid l with
    | 1%nat => Ok (enc_tbs {| t_head := t_head t; t_exts := Some (drop_oid oid l) |})
    | _ => ErrStruct
    end.
Proof. exact remove_extension_spec. Qed.
Print Assumptions removes_exactly_one.

Theorem other_extensions_untouched : forall oid a x b,
  has_oid oid x = true -> count_oid oid a = 0%nat -> count_oid oid b = 0%nat ->
  count_oid oid (a ++ x :: b) = 1%nat /\ drop_oid oid (a ++ x :: b) = a ++ b.
Proof. exact drop_unique. Qed.
Print Assumptions other_extensions_untouched.

Theorem fails_if_absent : forall oid t l, tbs_ok t -> t_exts t = Some l -> count_oid oid l = 0%nat ->
  remove_extension oid (enc_tbs t) = ErrStruct.
Proof. exact PrecertProofs.fails_if_absent. Qed.
Print Assumptions fails_if_absent.

Theorem fails_if_no_extensions : forall oid t, tbs_ok t -> t_exts t = None -> remove_extension oid (enc_tbs t) = ErrStruct.
Proof. exact remove_extension_none. Qed.
Print Assumptions fails_if_no_extensions.

Theorem fails_if_twice : forall oid t l, tbs_ok t -> t_exts t = Some l -> (2 <= count_oid oid l)%nat ->
  remove_extension oid (enc_tbs t) = ErrStruct.
Proof. exact PrecertProofs.fails_if_twice. Qed.
Print Assumptions fails_if_twice.

(* direct issuer: for every TBS content (any head TLVs), the same other extensions in the same
   order, the poison at ANY position and the SCT list at ANY position, the two routes give
   byte-identical entries - and the issuer / authority key id are NOT touched *)
Theorem routes_commute : forall head a b a' b' sct poison,
  has_oid oid_sctlist sct = true -> has_oid oid_poison poison = true ->
  a ++ b = a' ++ b' ->
  count_oid oid_sctlist (a ++ b) = 0%nat -> count_oid oid_poison (a' ++ b') = 0%nat ->
  tbs_ok {| t_head := head; t_exts := Some (a ++ sct :: b) |} ->
  tbs_ok {| t_head := head; t_exts := Some (a' ++ poison :: b') |} ->
  tbs_ok {| t_head := head; t_exts := Some (a ++ b) |} ->
  build_precert_tbs (enc_tbs {| t_head := head; t_exts := Some (a' ++ poison :: b') |}) None
  = remove_sct_list (enc_tbs {| t_head := head; t_exts := Some (a ++ sct :: b) |}).
Proof. exact routes_commute_direct. Qed.
Print Assumptions routes_commute.

Theorem precert_route_is_depoisoned_tbs : forall head a b a' b' poison,
  has_oid oid_poison poison = true -> a ++ b = a' ++ b' -> count_oid oid_poison (a' ++ b') = 0%nat ->
  tbs_ok {| t_head := head; t_exts := Some (a' ++ poison :: b') |} ->
  tbs_ok {| t_head := head; t_exts := Some (a ++ b) |} ->
  build_precert_tbs (enc_tbs {| t_head := head; t_exts := Some (a' ++ poison :: b') |}) None
  = Ok (enc_tbs {| t_head := head; t_exts := Some (a ++ b) |}).
Proof. exact precert_route_direct. Qed.
Print Assumptions precert_route_is_depoisoned_tbs.

(* dedicated precert-signing issuer: poison removed, issuer TLV replaced by the pre-issuer's
   issuer, authority key id following the pre-issuer's (four presence combinations below),
   everything else unchanged; refused when the claimed pre-issuer lacks the CT EKU *)
Theorem preissuer_route : forall head a' b' poison p,
  has_oid oid_poison poison = true -> count_oid oid_poison (a' ++ b') = 0%nat -> pi_ct_eku p = true ->
  tbs_ok {| t_head := head; t_exts := Some (a' ++ poison :: b') |} ->
  tbs_ok {| t_head := head; t_exts := Some (a' ++ b') |} ->
  build_precert_tbs (enc_tbs {| t_head := head; t_exts := Some (a' ++ poison :: b') |}) (Some p)
  = Ok (enc_tbs {| t_head := replace_nth (issuer_index head) (pi_issuer p) head; t_exts := Some (aki_edit p (a' ++ b')) |}).
Proof. exact precert_route_preissuer. Qed.
Print Assumptions preissuer_route.

Theorem preissuer_requires_ct_eku : forall head a' b' poison,
  has_oid oid_poison poison = true -> count_oid oid_poison (a' ++ b') = 0%nat ->
  tbs_ok {| t_head := head; t_exts := Some (a' ++ poison :: b') |} ->
  tbs_ok {| t_head := head; t_exts := Some (a' ++ b') |} ->
  forall p', pi_ct_eku p' = false ->
  build_precert_tbs (enc_tbs {| t_head := head; t_exts := Some (a' ++ poison :: b') |}) (Some p') = ErrStruct.
Proof. exact preissuer_needs_ct_eku. Qed.
Print Assumptions preissuer_requires_ct_eku.

Theorem aki_both_present : forall p v x y e,
  pi_aki p = Some v -> existsb (has_oid oid_aki) x = false -> has_oid oid_aki e = true ->
  aki_edit p (x ++ e :: y) = x ++ {| e_oid := e_oid e; e_crit := e_crit e; e_val := v |} :: y.
Proof. exact aki_edit_both. Qed.
Print Assumptions aki_both_present.
Theorem aki_only_in_precert : forall p x y e,
  pi_aki p = None -> existsb (has_oid oid_aki) x = false -> has_oid oid_aki e = true ->
  aki_edit p (x ++ e :: y) = x ++ y.
Proof. exact aki_edit_only_precert. Qed.
Print Assumptions aki_only_in_precert.
Theorem aki_only_in_preissuer : forall p v es,
  pi_aki p = Some v -> existsb (has_oid oid_aki) es = false ->
  aki_edit p es = es ++ [{| e_oid := oid_aki; e_crit := false; e_val := v |}].
Proof. exact aki_edit_only_preissuer. Qed.
Print Assumptions aki_only_in_preissuer.
Theorem aki_in_neither : forall p es,
  pi_aki p = None -> existsb (has_oid oid_aki) es = false -> aki_edit p es = es.
Proof. exact aki_edit_neither. Qed.
Print Assumptions aki_in_neither.

(* the SCT list read back from a certificate equals, element for element, the list embedded *)
Theorem sct_list_roundtrip : forall l v,
  asn1_marshal_scts l = Ok v ->
  Forall (wt gen_SignedCertificateTimestamp) l ->
  Forall (fun s => forall b, marshal gen_SignedCertificateTimestamp None s = Ok b -> short b) l ->
  len v < max_len ->
  parse_sct_extension v = Ok l.
Proof. exact sct_list_roundtrip_lemma. Qed.
Print Assumptions sct_list_roundtrip.

(* non-vacuity: a small TBS with three extensions (poison in the middle) *)
Definition ex_head : list (Byte.byte * bytes) :=
  [(Byte.xa0, hex "020102"); (Byte.x02, hex "05"); (Byte.x30, hex "0609"); (Byte.x30, hex "aa");
   (Byte.x30, hex "bb"); (Byte.x30, hex "cc"); (Byte.x30, hex "dd")].
Definition ex_e1 := {| e_oid := hex "551d0f"; e_crit := true; e_val := hex "03020780" |}.
Definition ex_poison := {| e_oid := oid_poison; e_crit := true; e_val := hex "0500" |}.
Definition ex_e2 := {| e_oid := oid_aki; e_crit := false; e_val := hex "30028000" |}.
Example ex_routes :
  build_precert_tbs (enc_tbs {| t_head := ex_head; t_exts := Some [ex_e1; ex_poison; ex_e2] |}) None
  = Ok (enc_tbs {| t_head := ex_head; t_exts := Some [ex_e1; ex_e2] |})
  /\ remove_extension oid_poison (enc_tbs {| t_head := ex_head; t_exts := Some [ex_e1; ex_e2] |}) = ErrStruct
  /\ remove_extension oid_poison (enc_tbs {| t_head := ex_head; t_exts := Some [ex_poison; ex_e1; ex_poison] |}) = ErrStruct.
Proof. vm_compute. repeat split. Qed.
