(* L4 lemmas, part 4: parseField never panics or hangs; allocation is justified by the input. *)
From Coq Require Import ZArith NArith List Bool Lia.
From Coq.Strings Require Import Byte.
From V Require Import Base.Bytes ASN1.DerBase ASN1.DerHeader ASN1.DerHeaderProofs ASN1.DerPrim ASN1.DerPrimProofs ASN1.DerModel ASN1.DerStructProofs ASN1.DerSimProofs.
Import ListNotations.
Local Open Scope Z_scope.

(* ------------------------------------------------------------------ no panic, no hang *)

Section Total.
  Variables (v0 v1 : variant) (L : bool -> leaves).
  Hypothesis HLb : forall b, l_b128 (L b) = parse_base128 v1.
  Hypothesis HLt : forall b, leaves_total (L b).

  Lemma total_parse_tl_with d : total (parse_tl_with (parse_base128 v1) d).
  Proof. apply parse_tl_total. Qed.

  Lemma total_explicit t p h r1 : wf_params p -> total (explicit_phase (parse_base128 v1) t p h r1).
  Proof.
    intros Hwf. unfold explicit_phase. destruct (p_explicit p) eqn:Ee; cbn [negb]; [|auto with der].
    destruct r1 as [|b0 r0]; [auto with der|]. destruct (p_tag p) as [tg|] eqn:Et; [|exfalso; apply (Hwf Ee); exact Et].
    destruct (_ && _ && _); [|destruct (p_optional p); auto with der].
    destruct (is_raw t); [auto with der|]. destruct (0 <? t_len h); [|destruct (is_flag t); auto with der].
    apply total_bind; [apply total_parse_tl_with|]. auto with der.
  Qed.

  Lemma total_match t p h r1 : total (match_phase t p h r1).
  Proof.
    unfold match_phase. destruct (universal t) as [[[ma ut] ct]|]; [|auto with der].
    destruct (_ || _); [destruct (p_optional p); auto with der|]. destruct (_ <? _); auto with der.
  Qed.

  Lemma total_header t p d : wf_params p -> total (header_phase (parse_base128 v1) t p d).
  Proof.
    intros Hwf. unfold header_phase. apply total_bind; [apply total_parse_tl_with|]. intros [h r1] _. cbn [fst snd].
    apply total_bind; [apply total_explicit; exact Hwf|]. intros [st|[h' r']] _; [auto with der|apply total_match].
  Qed.

  Lemma total_rmap {A B} (f : A -> B) r : total r -> total (rmap f r).
  Proof. intros H. unfold rmap. apply total_bind; [exact H|]. auto with der. Qed.

  Lemma total_string b utag c : total (parse_string (L b) utag c).
  Proof.
    destruct (HLt b) as (_ & _ & _ & Hp & _). unfold parse_string.
    destruct (utag =? 19); [apply Hp|]. destruct (utag =? 18); [apply parse_numeric_total|].
    destruct (utag =? 22); [apply parse_ia5_total|]. destruct (utag =? 20); [unfold parse_t61; auto with der|].
    destruct (utag =? 12); [apply parse_utf8_total|]. destruct (utag =? 27); [unfold parse_t61; auto with der|].
    destruct (utag =? 30); [apply parse_bmp_total|auto with der].
  Qed.

  Lemma total_prim_body b t utag h c full :
    (forall rc fs, t <> TStruct rc fs) -> (forall sn e, t <> TSeqOf sn e) -> t <> TAny ->
    total (prim_body (L b) t utag h c full).
  Proof.
    intros Hns Hnq Hna. destruct (HLt b) as (_ & Hi & Ho & Hp & Hg).
    destruct t; cbn [prim_body]; auto with der; try apply total_rmap.
    - apply parse_bool_total.
    - destruct w64; [apply parse_int64_total|apply parse_int32_total]; apply Hi.
    - apply parse_bigint_total, Hi.
    - apply parse_bitstring_total.
    - apply Ho.
    - apply parse_int32_total, Hi.
    - destruct (utag =? 23); [apply parse_utctime_total|apply Hg].
    - apply total_string.
    - congruence.
    - exfalso; eapply Hnq; reflexivity.
    - exfalso; eapply Hns; reflexivity.
  Qed.

  Lemma total_any_value b tag c : total (any_value (L b) tag c).
  Proof.
    destruct (HLt b) as (_ & Hi & Ho & Hp & Hg). unfold any_value.
    destruct (tag =? 19); [apply total_rmap, Hp|]. destruct (tag =? 18); [apply total_rmap, parse_numeric_total|].
    destruct (tag =? 22); [apply total_rmap, parse_ia5_total|]. destruct (tag =? 20); [apply total_rmap; unfold parse_t61; auto with der|].
    destruct (tag =? 12); [apply total_rmap, parse_utf8_total|]. destruct (tag =? 2); [apply total_rmap, parse_int64_total, Hi|].
    destruct (tag =? 3); [apply total_rmap, parse_bitstring_total|]. destruct (tag =? 6); [apply total_rmap, Ho|].
    destruct (tag =? 23); [apply total_rmap, parse_utctime_total|]. destruct (tag =? 24); [apply total_rmap, Hg|].
    destruct (tag =? 4); [auto with der|]. destruct (tag =? 30); [apply total_rmap, parse_bmp_total|auto with der].
  Qed.

  Lemma total_parse_any b d : total (parse_any (L b) d).
  Proof.
    unfold parse_any. rewrite HLb. apply total_bind; [apply total_parse_tl_with|]. intros [h r] _. cbn [fst snd].
    destruct (_ <? _); [auto with der|]. apply total_bind; [|auto with der].
    destruct (_ && _); [apply total_any_value|auto with der].
  Qed.

  Lemma total_seq_count ma et ec fuel : forall d n, (length d <= fuel)%nat -> total (seq_count (parse_base128 v1) ma et ec fuel d n).
  Proof.
    induction fuel as [|f IH]; intros d n Hf; destruct d as [|b0 d0]; cbn [seq_count]; auto with der; [cbn in Hf; lia|].
    apply total_bind; [apply total_parse_tl_with|]. intros [h r] E. cbn [fst snd].
    destruct (_ && _); [auto with der|]. destruct (_ <? _); [auto with der|].
    apply IH. change (parse_tl_with (parse_base128 v1)) with (parse_tl v1) in E.
    apply parse_tl_suffix in E. destruct E as (hb & Hd & _ & Hl). unfold zdrop. rewrite skipn_length.
    assert (length (b0 :: d0) = length hb + length r)%nat by (rewrite Hd, app_length; reflexivity). lia.
  Qed.

  Lemma total_seq_elems pe : (forall d, total (pe d)) -> forall n d, total (seq_elems pe n d).
  Proof.
    intros Hpe. induction n as [|n IH]; intros d; cbn [seq_elems]; auto with der.
    apply total_bind; [apply Hpe|]. intros [x r] _. apply total_bind; [apply IH|auto with der].
  Qed.

  Definition PN (t : aty) : Prop := forall p d, wf_params p -> total (parse_field v0 L t p d).
  Definition QN (fs : fields) : Prop := forall lax d, total (parse_fields v0 L lax fs d).

  Lemma total_leaf_field t p d :
    (forall rc fs, t <> TStruct rc fs) -> (forall sn e, t <> TSeqOf sn e) -> wf_params p -> total (parse_field v0 L t p d).
  Proof.
    intros Hns Hnq Hwf. destruct d as [|b0 d0]; [destruct t; cbn; destruct (p_optional p); auto with der|].
    assert (Hgen : forall t', t' = t -> t' <> TAny ->
              total (bind (header_phase (l_b128 (L (p_lax p))) t' p (b0 :: d0)) (fun st => match st with
                 | HDefault => Ok (default_val t' p, b0 :: d0) | HFlagSet r => Ok (VBool true, r)
                 | HBody h utag inner rest => bind (prim_body (L (p_lax p)) t' utag h inner (consumed (b0 :: d0) rest)) (fun x => Ok (x, rest)) end))).
    { intros t' -> Hna. rewrite HLb. apply total_bind; [apply total_header; exact Hwf|]. intros [|r|h utag inner rest] _; auto with der.
      apply total_bind; [apply total_prim_body; assumption|auto with der]. }
    destruct t; cbn [parse_field]; try (apply Hgen; [reflexivity|discriminate]).
    - apply total_parse_any.
    - exfalso; eapply Hnq; reflexivity.
    - exfalso; eapply Hns; reflexivity.
  Qed.

  Lemma parse_field_total_all : (forall t, PN t) /\ (forall fs, QN fs).
  Proof.
    apply aty_fields_ind; unfold PN, QN; intros; try (apply total_leaf_field; [intros; discriminate|intros; discriminate|assumption]).
    - (* TSeqOf *)
      destruct d as [|b0 d0]; [cbn; destruct (p_optional p); auto with der|]. cbn [parse_field]. rewrite HLb.
      apply total_bind; [apply total_header; assumption|]. intros [|r|h utag inner rest] _; auto with der.
      apply total_bind; [|auto with der]. unfold parse_seq_of. destruct (universal e) as [[[ma et] ec]|]; [|auto with der].
      apply total_bind; [apply total_seq_count; lia|]. intros n _. apply total_seq_elems. intros d'. apply H. apply elem_params_wf.
    - (* TStruct *)
      destruct d as [|b0 d0]; [cbn; destruct (p_optional p); auto with der|]. cbn [parse_field]. rewrite HLb.
      apply total_bind; [apply total_header; assumption|]. intros [|r|h utag inner rest] _; auto with der.
      apply total_bind; [apply H|auto with der].
    - cbn. auto with der.
    - cbn [parse_fields]. apply total_bind; [apply H, field_params_wf|]. intros [x r] _. apply total_bind; [apply H0|auto with der].
  Qed.
End Total.

Theorem unmarshal_total v t toks d : total (unmarshal v t toks d).
Proof.
  unfold unmarshal. apply (proj1 (parse_field_total_all v v (leaves_of v) (fun _ => eq_refl) (leaves_of_total v))).
  apply parse_params_wf.
Qed.

(* ------------------------------------------------------------------ allocation is justified by the input *)

Lemma seq_count_bound v ma et ec fuel : forall d n0 n,
  seq_count (parse_base128 v) ma et ec fuel d n0 = Ok n -> (2 * n <= 2 * n0 + length d)%nat.
Proof.
  induction fuel as [|f IH]; intros d n0 n H; destruct d as [|b0 d0]; cbn [seq_count] in H; try discriminate;
    try (inversion H; subst; cbn; lia).
  apply bind_ok in H. destruct H as ([h r] & E & H). cbn [fst snd] in H.
  destruct (_ && _); [discriminate|]. destruct (_ <? _); [discriminate|].
  apply IH in H. change (parse_tl_with (parse_base128 v)) with (parse_tl v) in E.
  apply parse_tl_suffix in E. destruct E as (hb & Hd & _ & Hl).
  assert (length (b0 :: d0) = length hb + length r)%nat by (rewrite Hd, app_length; reflexivity).
  unfold zdrop in H. rewrite skipn_length in H. lia.
Qed.

Lemma seq_elems_length pe : forall n d l, seq_elems pe n d = Ok l -> length l = n.
Proof.
  induction n as [|n IH]; intros d l H; cbn [seq_elems] in H; [inversion H; reflexivity|].
  apply bind_ok in H. destruct H as ([x r] & _ & H). apply bind_ok in H. destruct H as (l' & E & H). inversion H; subst.
  cbn [length]. f_equal. eapply IH. exact E.
Qed.

(* MakeSlice(numElements): at most one element per two octets of the enclosing content *)
Theorem seq_of_alloc_bound v e pe inner vs :
  parse_seq_of (parse_base128 v) e pe inner = Ok vs -> (2 * length vs <= length inner)%nat.
Proof.
  unfold parse_seq_of. destruct (universal e) as [[[ma et] ec]|]; [|discriminate]. intros H.
  apply bind_ok in H. destruct H as (n & E & H). apply seq_count_bound in E. apply seq_elems_length in H. lia.
Qed.

Theorem unmarshal_seq_alloc_bound v sn e toks d vs rest :
  unmarshal v (TSeqOf sn e) toks d = Ok (VList vs, rest) -> (2 * length vs <= length d)%nat.
Proof.
  unfold unmarshal. intros H. destruct d as [|b0 d0].
  - cbn [parse_field] in H. destruct (p_optional _); [|discriminate]. inversion H.
  - cbn [parse_field] in H. apply bind_ok in H. destruct H as (st & Eh & H). destruct st as [|r|h utag inner rest'].
    + inversion H.
    + inversion H.
    + apply bind_ok in H. destruct H as (vs' & E & H). inversion H; subst.
      change (l_b128 (leaves_of v (p_lax (parse_params v toks)))) with (parse_base128 v) in *.
      apply seq_of_alloc_bound in E. apply header_phase_body in Eh. destruct Eh as (pre & hb & Hd & _).
      rewrite Hd. repeat rewrite app_length. lia.
Qed.

(* every declared length is compared with what is left of the input before the content is sliced *)
Theorem content_within_input v t p d h utag inner rest :
  header_phase (parse_base128 v) t p d = Ok (HBody h utag inner rest) ->
  t_len h = zlen inner /\ infix inner d /\ zlen inner + zlen rest + 2 <= zlen d.
Proof.
  intros H. apply header_phase_body in H. destruct H as (pre & hb & -> & _ & Hl & Hh).
  split; [auto|]. split; [exists (pre ++ hb), rest; rewrite <- app_assoc; reflexivity|].
  rewrite !zlen_app. unfold zlen in *. lia.
Qed.
