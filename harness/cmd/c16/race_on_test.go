//go:build race

package main

// built with the race detector (thorough tier)
const raceBuild = true
