(* C06 proofs, part C: histories.  Invariants of every reachable state (de-duplication, provenance
   of every stored leaf, validity of the cached signature, the sequenced list only grows at its
   end) by induction over the op list, and the statements of Props/C06.v about STHs, consistency
   proofs and audit paths. *)
From Coq Require Import String ZArith NArith Bool List Lia PeanoNat.
From Coq.Strings Require Import Byte.
From V Require Import Base.GoInt Base.Bytes Merkle.Merkle Merkle.MerkleProofs TLS.TlsModel TLS.TlsRoundTripA gen.CtTypes
  CT.Rfc6962Spec CT.Rfc6962Proofs CT.CtFuncs CT.CtFuncsProofs
  gen.HttpStatus gen.GetEntries gen.HandlerConds CTFE.HandlersModel CTFE.HandlersProofs CTFE.LogModel CTFE.LogProofsA CTFE.LogProofsB.
Import ListNotations.
Open Scope Z_scope.
Open Scope bool_scope.

Definition all_leaves (b : bstate) : list bleaf := bs b ++ bq b.

(* clock values are what Go can hold: a uint64 root timestamp *)
Definition op_ok (o : op) : Prop := match o with OSeq _ ns => 0 <= ns < two64 | _ => True end.
Definition hist_ok (ns0 : Z) (ops : list op) : Prop := 0 <= ns0 < two64 /\ Forall op_ok ops.

Lemma find_id_some id l x : find_id id l = Some x -> In x l /\ lid x = id.
Proof.
  induction l as [|y l IH]; cbn [find_id]; [discriminate|].
  destruct (bytes_eqb (lid y) id) eqn:E.
  - intros Hx. injection Hx as <-. apply bytes_eqb_eq in E. split; [left; reflexivity|exact E].
  - intros Hx. destruct (IH Hx). split; [right; assumption|assumption].
Qed.

Lemma find_id_none id l : find_id id l = None -> forall x, In x l -> lid x <> id.
Proof.
  induction l as [|y l IH]; cbn [find_id]; intros Hn x Hx; [destruct Hx|].
  destruct (bytes_eqb (lid y) id) eqn:E; [discriminate|].
  destruct Hx as [<-|Hx]; [|apply IH; assumption].
  intros Hc. apply bytes_eqb_eq in Hc. congruence.
Qed.

Lemma NoDup_app_single {A} (l : list A) x : NoDup l -> ~ In x l -> NoDup (l ++ [x]).
Proof.
  induction l as [|a l IH]; intros Hn Hx; cbn [app].
  - constructor; [intros []|constructor].
  - inversion Hn as [|a' l' Ha Hl]; subst. constructor.
    + intros Hi. apply in_app_or in Hi. destruct Hi as [Hi|[<-|[]]]; [exact (Ha Hi)|apply Hx; left; reflexivity].
    + apply IH; [exact Hl|]. intros Hi. apply Hx. right. exact Hi.
Qed.

Lemma nth_error_firstn_lt {A} (l : list A) : forall n j, (j < n)%nat -> nth_error (firstn n l) j = nth_error l j.
Proof.
  induction l as [|a l IH]; intros n j Hj.
  - rewrite firstn_nil. reflexivity.
  - destruct n; [lia|]. destruct j; cbn [firstn nth_error]; [reflexivity|]. apply IH. lia.
Qed.

Lemma nth_error_skipn_add {A} (l : list A) : forall n j, nth_error (skipn n l) j = nth_error l (n + j).
Proof.
  induction l as [|a l IH]; intros n j.
  - rewrite skipn_nil. destruct j, n; reflexivity.
  - destruct n; cbn [skipn plus nth_error]; [reflexivity|]. apply IH.
Qed.

Section Hist.
  Variable H : bytes -> bytes.
  Variable sign : bytes -> N -> bytes.
  Variable sig_ok : bytes -> bytes -> bool.
  Variable is_precert : bytes -> bool.
  Variable cfg : config.
  Variable trusted : list bytes.
  Hypothesis H_len : forall x, length (H x) = 32%nat.
  Hypothesis sign_ok : forall m r, sig_ok m (sign m r) = true.
  Hypothesis sign_nonempty : forall m r, sign m r <> [].
  Hypothesis cfg_log : c_sth cfg = SthLog.
  Hypothesis cfg_direct : c_indirect cfg = false.
  Hypothesis cfg_maxr : 1 <= c_maxr cfg <= max_i64.

  Set Default Proof Using "All".

  Notation stepf := (step H sign is_precert cfg trusted wiring_ok).
  Notation afterf := (after H sign is_precert cfg trusted wiring_ok).
  Notation ans := (answer_at H sign is_precert cfg trusted wiring_ok).
  Notation fe_submit := (fe_submit H sign is_precert).
  Notation fe_get_sth := (fe_get_sth H sign cfg).
  Notation values := LogModel.values.
  Notation bsize := LogModel.bsize.
  (* part A's lemmas, all closed over the same section context *)
  Notation consistency_zero := (consistency_zero H sign is_precert cfg trusted H_len cfg_log cfg_direct cfg_maxr).
  Notation consistency_200 := (consistency_200 H sign is_precert cfg trusted H_len cfg_log cfg_direct cfg_maxr).
  Notation entry_and_proof_200 := (entry_and_proof_200 H sign is_precert cfg trusted H_len cfg_log cfg_direct cfg_maxr).
  Notation entries_200 := (entries_200 H sign is_precert cfg trusted H_len cfg_log cfg_direct cfg_maxr).
  Notation get_sth_200 := (get_sth_200 H sign is_precert cfg trusted H_len cfg_log cfg_direct cfg_maxr).

  (* the leaf the front end builds for an admissible submission *)
  Definition built (lf : bleaf) (pre : bool) (cert : bytes) (chain : list bytes) (pe : option (bytes * bytes)) (now : Z) : Prop :=
    is_precert cert = pre /\
    exists e x, entry_of pre cert pe = Some e /\ entry_okb e = true /\
      marshal (extra_ty pre) None (extra_val pre cert chain) = Ok x /\
      lf = {| lv := enc_leaf (ms_of_ns now) e []; lx := x; lid := H cert |}.

  (* ---------------------------------------------------------------- one step *)

  Lemma after_snoc s0 ops o : afterf s0 (ops ++ [o]) = fst (stepf (afterf s0 ops) o).
  Proof. unfold after. rewrite fold_left_app. reflexivity. Qed.

  Lemma after_app s0 a b : afterf s0 (a ++ b) = afterf (afterf s0 a) b.
  Proof. unfold after. apply fold_left_app. Qed.

  Lemma after_cons s0 o r : afterf s0 (o :: r) = afterf (fst (stepf s0 o)) r.
  Proof. reflexivity. Qed.

  (* what a submission does to the backend, and what it answers *)
  Lemma submit_cases st pre cert chain pe now rnd :
    (fst (fe_submit st pre cert chain pe now rnd) = st /\ a_status (snd (fe_submit st pre cert chain pe now rnd)) <> 200)
    \/ exists e x, is_precert cert = pre /\ entry_of pre cert pe = Some e /\ entry_okb e = true /\
         marshal (extra_ty pre) None (extra_val pre cert chain) = Ok x /\
         let lf := {| lv := enc_leaf (ms_of_ns now) e []; lx := x; lid := H cert |} in
         fst (fe_submit st pre cert chain pe now rnd) = {| be := fst (rpc_queue (be st) lf); cache := cache st |} /\
         snd (fe_submit st pre cert chain pe now rnd)
         = match sct_input_of (lv (snd (rpc_queue (be st) lf))) with
           | Some (ts, inp) => ok200 (BSct ts (sign inp rnd))
           | None => fail 500
           end.
  Proof.
    unfold LogModel.fe_submit.
    destruct (Bool.eqb (is_precert cert) pre) eqn:Ep; cbn [negb]; [|left; split; [reflexivity|cbn; lia]].
    apply Bool.eqb_prop in Ep.
    destruct (entry_of pre cert pe) as [e|] eqn:Ee; [|left; split; [reflexivity|cbn; lia]].
    destruct (entry_okb e) eqn:Eo; cbn [negb]; [|left; split; [reflexivity|cbn; lia]].
    destruct (marshal (extra_ty pre) None (extra_val pre cert chain)) as [x| | | |] eqn:Em;
      try (left; split; [reflexivity|cbn; lia]).
    right. exists e, x. split; [exact Ep|]. split; [reflexivity|]. split; [exact Eo|]. split; [reflexivity|].
    cbv zeta.
    destruct (rpc_queue (be st) {| lv := enc_leaf (ms_of_ns now) e []; lx := x; lid := H cert |}) as [b' stored].
    cbn [fst snd].
    destruct (sct_input_of (lv stored)) as [[ts inp]|]; split; reflexivity.
  Qed.

  Lemma rpc_queue_cases b lf :
    (exists old, find_id (lid lf) (all_leaves b) = Some old /\ rpc_queue b lf = (b, old))
    \/ (find_id (lid lf) (all_leaves b) = None /\
        rpc_queue b lf = ({| bq := bq b ++ [lf]; bs := bs b; bns := bns b |}, lf)).
  Proof.
    unfold rpc_queue, all_leaves. destruct (find_id (lid lf) (bs b ++ bq b)) as [old|].
    - left. exists old. split; reflexivity.
    - right. split; reflexivity.
  Qed.

  (* every step either leaves the leaves alone or appends one at the very end; the sequenced
     list only grows at its end; the backend's leaves are never reordered *)
  Lemma step_leaves st o :
    exists added, all_leaves (be (fst (stepf st o))) = all_leaves (be st) ++ added
      /\ exists tail, bs (be (fst (stepf st o))) = bs (be st) ++ tail.
  Proof.
    destruct o; cbn [step fst be].
    - destruct (submit_cases st pre cert chain pe now_ns rnd) as [[-> _]|(e & x & _ & _ & _ & _ & Hst & _)].
      + exists []. rewrite app_nil_r. split; [reflexivity|]. exists []. rewrite app_nil_r. reflexivity.
      + cbv zeta in Hst. rewrite Hst. cbn [be].
        destruct (rpc_queue_cases (be st) {| lv := enc_leaf (ms_of_ns now_ns) e []; lx := x; lid := H cert |})
          as [(old & _ & ->)|(_ & ->)]; cbn [fst].
        * exists []. rewrite app_nil_r. split; [reflexivity|]. exists []. rewrite app_nil_r. reflexivity.
        * exists [{| lv := enc_leaf (ms_of_ns now_ns) e []; lx := x; lid := H cert |}].
          unfold all_leaves. cbn [bs bq]. rewrite app_assoc. split; [reflexivity|].
          exists []. rewrite app_nil_r. reflexivity.
    - exists []. rewrite app_nil_r. split; [reflexivity|]. exists []. rewrite app_nil_r. reflexivity.
    - exists []. rewrite app_nil_r. unfold all_leaves, rpc_sequence. cbn [bs bq]. split.
      + rewrite <- app_assoc. rewrite firstn_skipn. reflexivity.
      + exists (firstn k (bq (be st))). reflexivity.
    - exists []. rewrite app_nil_r. split; [reflexivity|]. exists []. rewrite app_nil_r. reflexivity.
    - unfold LogModel.fe_get_sth.
      destruct (serialize_sth_siginput gen_V1 _ _ _); cbn [fst be];
        exists []; rewrite app_nil_r; (split; [reflexivity|]); exists []; rewrite app_nil_r; reflexivity.
    - exists []. rewrite app_nil_r. split; [reflexivity|]. exists []. rewrite app_nil_r. reflexivity.
    - exists []. rewrite app_nil_r. split; [reflexivity|]. exists []. rewrite app_nil_r. reflexivity.
    - exists []. rewrite app_nil_r. split; [reflexivity|]. exists []. rewrite app_nil_r. reflexivity.
    - exists []. rewrite app_nil_r. split; [reflexivity|]. exists []. rewrite app_nil_r. reflexivity.
    - exists []. rewrite app_nil_r. split; [reflexivity|]. exists []. rewrite app_nil_r. reflexivity.
  Qed.

  Lemma after_leaves : forall ops st,
    exists added, all_leaves (be (afterf st ops)) = all_leaves (be st) ++ added
      /\ exists tail, bs (be (afterf st ops)) = bs (be st) ++ tail.
  Proof.
    induction ops as [|o r IH]; intros st.
    - exists []. rewrite app_nil_r. split; [reflexivity|]. exists []. rewrite app_nil_r. reflexivity.
    - rewrite after_cons. destruct (IH (fst (stepf st o))) as (a2 & E2 & t2 & F2).
      destruct (step_leaves st o) as (a1 & E1 & t1 & F1).
      exists (a1 ++ a2). rewrite E2, E1, app_assoc. split; [reflexivity|].
      exists (t1 ++ t2). rewrite F2, F1, app_assoc. reflexivity.
  Qed.

  (* the tree of size n never changes once n leaves are sequenced *)
  Lemma root_of_stable st ops n :
    (n <= bsize (be st))%N -> root_of H (be (afterf st ops)) n = root_of H (be st) n.
  Proof.
    intros Hn. destruct (after_leaves ops st) as (_ & _ & tail & E).
    unfold root_of, values. rewrite E, map_app. rewrite firstN_app_le; [reflexivity|].
    rewrite lenN_map. exact Hn.
  Qed.

  Lemma root_of_full b : root_of H b (bsize b) = broot H b.
  Proof. unfold root_of, broot. rewrite firstN_all; [reflexivity|]. rewrite bsize_values. lia. Qed.

  Lemma bsize_mono st ops : (bsize (be st) <= bsize (be (afterf st ops)))%N.
  Proof.
    destruct (after_leaves ops st) as (_ & _ & tail & E). unfold bsize. rewrite E, lenN_app. lia.
  Qed.

  Lemma nth_error_stable st ops i lf :
    nth_error (bs (be st)) i = Some lf -> nth_error (bs (be (afterf st ops))) i = Some lf.
  Proof.
    intros Hn. destruct (after_leaves ops st) as (_ & _ & tail & E). rewrite E.
    rewrite nth_error_app1; [exact Hn|]. apply nth_error_Some. congruence.
  Qed.

  Lemma leaves_persist st ops lf : In lf (all_leaves (be st)) -> In lf (all_leaves (be (afterf st ops))).
  Proof.
    intros Hi. destruct (after_leaves ops st) as (a & E & _). rewrite E. apply in_or_app. left. exact Hi.
  Qed.

  (* ---------------------------------------------------------------- invariants *)

  Record inv (ops : list op) (st : state) : Prop := {
    inv_nodup : NoDup (map lid (all_leaves (be st)));
    inv_prov : forall lf, In lf (all_leaves (be st)) ->
               exists pre cert chain pe now rnd, In (OSubmit pre cert chain pe now rnd) ops /\ built lf pre cert chain pe now;
    inv_cache : forall i s, cache st = Some (i, s) -> sig_ok i s = true /\ s <> [];
    inv_ns : 0 <= bns (be st) < two64
  }.

  Lemma inv_weaken ops o st : inv ops st -> inv (ops ++ [o]) st.
  Proof.
    intros [A B C D]. split; auto.
    intros lf Hl. destruct (B lf Hl) as (pre & cert & chain & pe & now & rnd & Hin & Hb).
    exists pre, cert, chain, pe, now, rnd. split; [apply in_or_app; left; exact Hin|exact Hb].
  Qed.

  Lemma inv_step ops st o : inv ops st -> op_ok o -> inv (ops ++ [o]) (fst (stepf st o)).
  Proof.
    intros Hinv Hok. pose proof (inv_weaken ops o st Hinv) as Hw. destruct Hw as [A B C D].
    destruct o; cbn [step fst]; try (split; assumption).
    - (* submission *)
      destruct (submit_cases st pre cert chain pe now_ns rnd) as [[-> _]|(e & x & Hp & He & Ho & Hm & Hst & _)];
        [split; assumption|].
      cbv zeta in Hst. rewrite Hst.
      destruct (rpc_queue_cases (be st) {| lv := enc_leaf (ms_of_ns now_ns) e []; lx := x; lid := H cert |})
        as [(old & _ & ->)|(Hnone & ->)]; cbn [fst]; [split; assumption|].
      cbn [lid] in Hnone.
      split; cbn [be cache]; try assumption.
      + unfold all_leaves. cbn [bs bq]. rewrite app_assoc, map_app. cbn [map lid].
        apply NoDup_app_single; [exact A|].
        intros Hin. apply in_map_iff in Hin. destruct Hin as (y & Hy & Hiny).
        exact (find_id_none _ _ Hnone y Hiny Hy).
      + unfold all_leaves. cbn [bs bq]. rewrite app_assoc. intros lf Hl. apply in_app_or in Hl.
        destruct Hl as [Hl|[<-|[]]]; [apply B; exact Hl|].
        exists pre, cert, chain, pe, now_ns, rnd. split; [apply in_or_app; right; left; reflexivity|].
        split; [exact Hp|]. exists e, x. auto.
    - (* sequencing *)
      split; cbn [be cache]; try assumption.
      + replace (all_leaves (rpc_sequence (be st) k ns)) with (all_leaves (be st)); [exact A|].
        unfold all_leaves, rpc_sequence. cbn [bs bq]. rewrite <- app_assoc, firstn_skipn. reflexivity.
      + replace (all_leaves (rpc_sequence (be st) k ns)) with (all_leaves (be st)); [exact B|].
        unfold all_leaves, rpc_sequence. cbn [bs bq]. rewrite <- app_assoc, firstn_skipn. reflexivity.
    - (* a concurrent thread's SetSignature *)
      split; cbn [be cache]; try assumption.
      intros i s Hc. injection Hc as <- <-. split; [apply sign_ok|apply sign_nonempty].
    - (* get-sth *)
      unfold LogModel.fe_get_sth.
      destruct (serialize_sth_siginput gen_V1 _ _ _) as [inp| | | |]; cbn [fst]; try (split; assumption).
      split; cbn [be cache]; try assumption.
      destruct (cache st) as [[i0 s0]|] eqn:Ec.
      + destruct (bytes_eqb inp i0); [intros i s Hc; apply C; exact Hc|].
        intros i s Hc. injection Hc as <- <-. split; [apply sign_ok|apply sign_nonempty].
      + intros i s Hc. injection Hc as <- <-. split; [apply sign_ok|apply sign_nonempty].
  Qed.

  Lemma inv_init ns0 : 0 <= ns0 < two64 -> inv [] (init ns0).
  Proof.
    intros Hn. split.
    - cbn. constructor.
    - cbn. intros lf [].
    - cbn. discriminate.
    - cbn. exact Hn.
  Qed.

  Lemma inv_after ns0 ops : hist_ok ns0 ops -> inv ops (afterf (init ns0) ops).
  Proof.
    intros [Hn Hf]. induction ops as [|o ops IH] using rev_ind.
    - apply inv_init. exact Hn.
    - rewrite after_snoc. apply Forall_app in Hf. destruct Hf as [Hf Ho].
      apply inv_step; [apply IH; exact Hf|]. inversion Ho; assumption.
  Qed.

  Lemma hist_ok_prefix ns0 a b : hist_ok ns0 (a ++ b) -> hist_ok ns0 a.
  Proof. intros [A B]. apply Forall_app in B. split; tauto. Qed.

  (* ---------------------------------------------------------------- STHs *)

  Lemma get_sth_inv st rnd n t r sg :
    snd (fe_get_sth st rnd) = ok200 (BSth n t r sg) ->
    n = bsize (be st) /\ t = Z.to_N (bns (be st) / 1000 / 1000) /\ r = broot H (be st)
    /\ be (fst (fe_get_sth st rnd)) = be st.
  Proof.
    unfold LogModel.fe_get_sth.
    destruct (serialize_sth_siginput gen_V1 _ _ _) as [inp| | | |]; cbn [snd fst be];
      try (unfold fail; intros Hc; destruct (fe_status _ _ _ _); discriminate).
    destruct (fe_status _ _ _ _ =? 200); [|discriminate].
    unfold ok200. intros Hc. injection Hc as <- <- <- <-. auto.
  Qed.

  Lemma sth_input_ok b :
    (bsize b < 18446744073709551616)%N -> 0 <= bns b < two64 ->
    serialize_sth_siginput gen_V1 (Z.to_N (bns b / 1000 / 1000)) (bsize b) (broot H b)
    = Ok (enc_sth_siginput (Z.to_N (bns b / 1000 / 1000)) (bsize b) (broot H b)).
  Proof.
    intros Hs Hn. apply sth_siginput_is_rfc.
    - unfold ts_ok. change two64 with 18446744073709551616 in Hn.
      assert (bns b / 1000 / 1000 <= bns b).
      { rewrite Z.div_div by lia. apply Z.div_le_upper_bound; lia. }
      assert (0 <= bns b / 1000 / 1000) by (rewrite Z.div_div by lia; apply Z.div_pos; lia). lia.
    - exact Hs.
    - unfold broot. apply (mth_length H 32 H_len).
  Qed.

  (* get-sth reports the backend's size, root and ns/10^6, and its signature verifies: for EVERY
     cache content that satisfies the invariant (so whichever signature the cache serves) *)
  Lemma get_sth_answer st rnd :
    (bsize (be st) < 18446744073709551616)%N -> 0 <= bns (be st) < two64 ->
    (forall i s, cache st = Some (i, s) -> sig_ok i s = true /\ s <> []) ->
    let size := bsize (be st) in let ts := Z.to_N (bns (be st) / 1000000) in let root := broot H (be st) in
    exists sg, snd (fe_get_sth st rnd) = ok200 (BSth size ts root sg)
      /\ sig_ok (enc_sth_siginput ts size root) sg = true
      /\ client_verify_sth sig_ok size ts root sg = true.
  Proof.
    intros Hs Hn Hc size ts root.
    assert (Ets : Z.to_N (bns (be st) / 1000 / 1000) = ts) by (unfold ts; rewrite Z.div_div by lia; reflexivity).
    pose proof (sth_input_ok (be st) Hs Hn) as Hser. rewrite Ets in Hser. fold size root in Hser.
    destruct (get_sth_200 st rnd (enc_sth_siginput ts size root)) as (sg & Ha & _ & Hsg).
    - rewrite Ets. exact Hser.
    - exact sign_nonempty.
    - intros i s Hcs. apply (Hc i s Hcs).
    - exists sg. rewrite Ets in Ha. split; [exact Ha|].
      assert (Hv : sig_ok (enc_sth_siginput ts size root) sg = true).
      { destruct Hsg as [[-> _]|[Hcs _]]; [apply sign_ok|apply (Hc _ _ Hcs)]. }
      split; [exact Hv|]. unfold client_verify_sth. rewrite Hser. exact Hv.
  Qed.

  Lemma sth_reports_backend_lemma ns0 ops rnd :
    hist_ok ns0 ops ->
    let st := afterf (init ns0) ops in
    (bsize (be st) < 18446744073709551616)%N ->
    exists sg, ans (init ns0) ops (OGetSTH rnd)
               = ok200 (BSth (bsize (be st)) (Z.to_N (bns (be st) / 1000000)) (broot H (be st)) sg).
  Proof.
    intros Hh st Hs. pose proof (inv_after ns0 ops Hh) as [_ _ C D].
    destruct (get_sth_answer st rnd Hs D C) as (sg & Ha & _). exists sg. exact Ha.
  Qed.

  Lemma sth_signature_verifies_lemma ns0 ops rnd n t r sg :
    hist_ok ns0 ops ->
    (bsize (be (afterf (init ns0) ops)) < 18446744073709551616)%N ->
    ans (init ns0) ops (OGetSTH rnd) = ok200 (BSth n t r sg) ->
    client_verify_sth sig_ok n t r sg = true /\ sig_ok (enc_sth_siginput t n r) sg = true.
  Proof.
    intros Hh Hs Ha. pose proof (inv_after ns0 ops Hh) as [_ _ C D].
    destruct (get_sth_answer (afterf (init ns0) ops) rnd Hs D C) as (sg' & Ha' & Hv & Hc).
    unfold answer_at in Ha. cbn [step] in Ha. rewrite Ha' in Ha. injection Ha as <- <- <- <-. auto.
  Qed.

  (* the cache is transparent: two front ends over the same backend state whose caches hold
     ANY valid signatures serve the same (size, timestamp, root), each with a verifying signature *)
  Lemma sig_cache_transparent_lemma st1 st2 rnd1 rnd2 :
    be st1 = be st2 ->
    (bsize (be st1) < 18446744073709551616)%N -> 0 <= bns (be st1) < two64 ->
    (forall i s, cache st1 = Some (i, s) -> sig_ok i s = true /\ s <> []) ->
    (forall i s, cache st2 = Some (i, s) -> sig_ok i s = true /\ s <> []) ->
    exists size ts root sg1 sg2,
      snd (fe_get_sth st1 rnd1) = ok200 (BSth size ts root sg1) /\
      snd (fe_get_sth st2 rnd2) = ok200 (BSth size ts root sg2) /\
      client_verify_sth sig_ok size ts root sg1 = true /\ client_verify_sth sig_ok size ts root sg2 = true.
  Proof.
    intros Hb Hs Hn C1 C2.
    destruct (get_sth_answer st1 rnd1 Hs Hn C1) as (sg1 & A1 & _ & V1).
    rewrite Hb in Hs, Hn.
    destruct (get_sth_answer st2 rnd2 Hs Hn C2) as (sg2 & A2 & _ & V2).
    rewrite <- Hb in A2, V2.
    do 3 eexists. exists sg1, sg2. repeat split; eassumption.
  Qed.

  (* ---------------------------------------------------------------- any two STHs are linked *)

  Lemma ans_get_sth_inv s0 ops rnd n t r sg :
    ans s0 ops (OGetSTH rnd) = ok200 (BSth n t r sg) ->
    n = bsize (be (afterf s0 ops)) /\ r = broot H (be (afterf s0 ops))
    /\ t = Z.to_N (bns (be (afterf s0 ops)) / 1000 / 1000)
    /\ be (afterf s0 (ops ++ [OGetSTH rnd])) = be (afterf s0 ops).
  Proof.
    unfold answer_at. cbn [step]. intros Ha.
    destruct (get_sth_inv _ _ _ _ _ _ Ha) as (A & B & C & D).
    rewrite after_snoc. cbn [step]. auto.
  Qed.

  Lemma any_two_sths_linked_lemma s0 p1 mid mid' r1 r2 n1 t1 root1 sg1 n2 t2 root2 sg2 pf ps :
    ans s0 p1 (OGetSTH r1) = ok200 (BSth n1 t1 root1 sg1) ->
    ans s0 (p1 ++ OGetSTH r1 :: mid) (OGetSTH r2) = ok200 (BSth n2 t2 root2 sg2) ->
    parse_int64 pf = Some (Z.of_N n1) -> parse_int64 ps = Some (Z.of_N n2) ->
    (n1 <= n2)%N /\
    exists proof, ans s0 (p1 ++ OGetSTH r1 :: mid ++ OGetSTH r2 :: mid') (OConsistency pf ps) = ok200 (BProof proof)
                  /\ client_verify_consistency H n1 n2 root1 root2 proof = true.
  Proof.
    intros A1 A2 Hf Hs.
    destruct (ans_get_sth_inv _ _ _ _ _ _ _ A1) as (E1 & R1 & _ & _).
    destruct (ans_get_sth_inv _ _ _ _ _ _ _ A2) as (E2 & R2 & _ & _).
    set (st1 := afterf s0 p1) in *.
    set (st2 := afterf s0 (p1 ++ OGetSTH r1 :: mid)) in *.
    set (st3 := afterf s0 (p1 ++ OGetSTH r1 :: mid ++ OGetSTH r2 :: mid')).
    assert (S12 : st2 = afterf st1 (OGetSTH r1 :: mid)) by (unfold st2, st1; apply after_app).
    assert (S23 : st3 = afterf st2 (OGetSTH r2 :: mid')).
    { unfold st3, st2. rewrite <- after_app. rewrite <- app_assoc. reflexivity. }
    assert (L12 : (n1 <= n2)%N) by (subst n1 n2; rewrite S12; apply bsize_mono).
    assert (L23 : (n2 <= bsize (be st3))%N) by (subst n2; rewrite S23; apply bsize_mono).
    split; [exact L12|].
    (* the genuine roots, as prefixes of the final sequenced list *)
    assert (Rt2 : root2 = root_of H (be st3) n2).
    { rewrite S23, root_of_stable by (subst n2; lia). subst n2 root2. symmetry. apply root_of_full. }
    assert (Rt1 : root1 = root_of H (be st3) n1).
    { rewrite S23, root_of_stable by lia. rewrite S12, root_of_stable by (subst n1; lia).
      subst n1 root1. symmetry. apply root_of_full. }
    unfold answer_at. fold st3. cbn [step snd].
    destruct (N.eq_dec n1 0) as [Z1|NZ1].
    - (* first = 0: the empty proof *)
      exists []. split.
      + assert (Hf0 : parse_int64 pf = Some 0) by (rewrite Hf, Z1; reflexivity).
        apply (consistency_zero st3 pf ps (Z.of_N n2) Hf0 Hs); lia.
      + unfold client_verify_consistency, verify_consistency. rewrite Z1.
        replace (n2 <? 0)%N with false by (symmetry; apply N.ltb_ge; lia).
        destruct (0 =? n2)%N eqn:E0; [|reflexivity].
        apply N.eqb_eq in E0. apply bytes_eqb_eq. rewrite Rt1, Rt2, Z1, <- E0. reflexivity.
    - exists (cproof H (Z.to_N (Z.of_N n1)) (firstN (Z.to_N (Z.of_N n2)) (values (be st3)))). split.
      + apply consistency_200; try assumption; lia.
      + rewrite !N2Z.id. unfold client_verify_consistency.
        set (l := firstN n2 (values (be st3))).
        assert (Ll : lenN l = n2) by (unfold l; apply lenN_firstN; rewrite bsize_values; exact L23).
        rewrite Rt1, Rt2. unfold root_of. fold l.
        replace (firstN n1 (values (be st3))) with (firstN n1 l) by (unfold l; apply firstN_firstN; exact L12).
        rewrite <- Ll at 1. apply verify_consistency_complete; lia.
  Qed.

  (* ---------------------------------------------------------------- entries and audit paths *)

  Lemma built_nonempty lf pre cert chain pe now : built lf pre cert chain pe now -> lv lf <> [].
  Proof. intros (_ & e & x & _ & _ & _ & ->). cbn [lv]. apply enc_leaf_nonempty. Qed.

  Lemma seq_leaf_nonempty ops st i lf : inv ops st -> nth_error (bs (be st)) i = Some lf -> lv lf <> [].
  Proof.
    intros [_ B _ _] Hn. apply nth_error_In in Hn.
    destruct (B lf) as (pre & cert & chain & pe & now & rnd & _ & Hb); [apply in_or_app; left; exact Hn|].
    eapply built_nonempty; eauto.
  Qed.

  Lemma nth_values b i lf : nth_error (bs b) (Z.to_nat i) = Some lf -> 0 <= i -> nthN (Z.to_N i) (values b) [] = lv lf.
  Proof.
    intros Hn H0. unfold nthN. rewrite Z_N_nat. apply nth_error_values. exact Hn.
  Qed.

  (* get-entry-and-proof for (i, n), n the size of ANY STH served before: the stored leaf of
     index i with an audit path that verifies against THAT STH's root *)
  Lemma served_entry_has_verifying_path_lemma ns0 p1 mid r n t root sg pli pts i :
    hist_ok ns0 (p1 ++ OGetSTH r :: mid) ->
    ans (init ns0) p1 (OGetSTH r) = ok200 (BSth n t root sg) ->
    parse_int64 pli = Some i -> parse_int64 pts = Some (Z.of_N n) -> 0 <= i < Z.of_N n ->
    exists lf p, nth_error (bs (be (afterf (init ns0) (p1 ++ OGetSTH r :: mid)))) (Z.to_nat i) = Some lf
      /\ ans (init ns0) (p1 ++ OGetSTH r :: mid) (OEntryAndProof pli pts) = ok200 (BEap (lv lf) (lx lf) p)
      /\ p = path H (Z.to_N i) (firstN n (values (be (afterf (init ns0) (p1 ++ OGetSTH r :: mid)))))
      /\ client_verify_inclusion H (Z.to_N i) n (leaf_hash H (lv lf)) root p = true.
  Proof.
    intros Hh A1 Hi Ht Hr.
    destruct (ans_get_sth_inv _ _ _ _ _ _ _ A1) as (E1 & R1 & _ & _).
    set (st1 := afterf (init ns0) p1) in *.
    set (st3 := afterf (init ns0) (p1 ++ OGetSTH r :: mid)).
    assert (S13 : st3 = afterf st1 (OGetSTH r :: mid)) by (unfold st3, st1; apply after_app).
    assert (L : (n <= bsize (be st3))%N) by (subst n; rewrite S13; apply bsize_mono).
    assert (Rt : root = root_of H (be st3) n).
    { rewrite S13, root_of_stable by (subst n; lia). subst n root. symmetry. apply root_of_full. }
    assert (Hlt : (Z.to_nat i < length (bs (be st3)))%nat).
    { unfold bsize, lenN in L. lia. }
    destruct (nth_error (bs (be st3)) (Z.to_nat i)) as [lf|] eqn:Hn; [|apply nth_error_None in Hn; lia].
    exists lf. eexists. split; [reflexivity|].
    pose proof (inv_after ns0 _ Hh) as Hinv. fold st3 in Hinv.
    unfold answer_at. fold st3. cbn [step snd]. split; [|split; [reflexivity|]].
    - assert (Hne : lv lf <> []) by (eapply seq_leaf_nonempty; eauto).
      rewrite (entry_and_proof_200 st3 pli pts i (Z.of_N n) lf); try assumption; try lia.
      rewrite N2Z.id. reflexivity.
    - unfold client_verify_inclusion. rewrite Rt. unfold root_of.
      set (l := firstN n (values (be st3))).
      assert (Ll : lenN l = n) by (unfold l; apply lenN_firstN; rewrite bsize_values; exact L).
      assert (Hnth : nthN (Z.to_N i) l [] = lv lf).
      { unfold l. rewrite nthN_firstN by lia. apply nth_values; [exact Hn|lia]. }
      rewrite <- Hnth. rewrite <- Ll at 1. apply vpath_complete. unfold bytes, lenN in *. lia.
  Qed.

  (* get-entries serves the stored bytes of consecutive sequenced indices from start *)
  Lemma entries_are_sequenced_lemma s0 ops ps pe st0 e0 :
    parse_int64 ps = Some st0 -> parse_int64 pe = Some e0 -> 0 <= st0 <= e0 ->
    st0 < Z.of_N (bsize (be (afterf s0 ops))) ->
    exists es, ans s0 ops (OEntries ps pe) = ok200 (BEntries es) /\ es <> [] /\
      Z.of_nat (length es) <= e0 - st0 + 1 /\ Z.of_nat (length es) <= c_maxr cfg /\
      forall j v x, nth_error es j = Some (v, x) ->
        exists lf, nth_error (bs (be (afterf s0 ops))) (Z.to_nat st0 + j) = Some lf /\ v = lv lf /\ x = lx lf.
  Proof.
    intros Hs He H0 Hlt. set (st := afterf s0 ops) in *.
    destruct (entries_200 st ps pe st0 e0 Hs He H0 Hlt) as (en & _ & Hen & Hmax & Ha).
    cbv zeta in Ha. eexists. split; [unfold answer_at; fold st; cbn [step snd]; exact Ha|].
    set (cnt := Z.min (en - st0 + 1) (Z.of_N (bsize (be st)) - st0)) in *.
    set (ls := firstn (Z.to_nat cnt) (skipn (Z.to_nat st0) (bs (be st)))).
    assert (Hlen : length ls = Z.to_nat cnt).
    { unfold ls. rewrite firstn_length, skipn_length. unfold bsize, lenN in *. unfold cnt. lia. }
    rewrite map_length, Hlen. repeat split.
    - intros Hc. apply (f_equal (@length _)) in Hc. rewrite map_length, Hlen in Hc. cbn in Hc. unfold cnt in Hc. lia.
    - unfold cnt. lia.
    - unfold cnt. lia.
    - intros j v x Hj. rewrite nth_error_map in Hj.
      destruct (nth_error ls j) as [lf|] eqn:El; [|discriminate]. cbn in Hj. injection Hj as <- <-.
      exists lf. split; [|split; reflexivity].
      unfold ls in El. assert (Hjl : (j < Z.to_nat cnt)%nat).
      { rewrite <- Hlen. apply nth_error_Some. unfold ls. congruence. }
      rewrite nth_error_firstn_lt in El by exact Hjl. rewrite nth_error_skipn_add in El. exact El.
  Qed.

End Hist.
