// C01 correspondence harness: HISTORIES of add-chain / add-pre-chain requests over HTTP against
// a real ctfe.Instance whose backend de-duplicates by LeafIdentityHash exactly as Trillian does
// (a repeat answers the STORED leaf with status AlreadyExists).
//
// Shapes: leaf key kinds, 0-2 intermediates, root included or omitted in the submission,
// precertificates issued directly or by a dedicated precert-signing issuer (CT EKU), random
// other extensions with the poison at any position, cross-certified issuers (two trusted roots),
// a root carrying the CT EKU, lines of CAs in which ANY certificate (the precertificate's signer,
// the CA above it, the one above that, the root) may list the CT EKU next to or instead of
// serverAuth and may lack a subject key id (so that the final issuer is not "the first CA without
// the CT EKU" and the pre-issuer comes with and without an authority key id), with 0-3
// certificates above the final issuer; log keys ECDSA P-256 / P-384 / P-521 and RSA 2048 / 3072 /
// 4096 (the SCT's signature is verified with the standard library under the hash its
// DigitallySigned header DECLARES, which in turn has to be SHA-256); instance options that must
// not influence the entry drawn per history (certificate and remote quota users, masked internal
// errors, the production request log behind the recording one, the RPC deadline) next to the
// plain configuration; clock values at millisecond
// boundaries, with nanosecond remainders, far in the future, not monotone; histories that mix
// first-time and repeated submissions of the same leaf with the same / a longer / a shorter /
// another chain.  CA (and some leaf) subject names are given as hand-encoded RawSubject bytes in
// forms pkix.Name does not emit (names.go), so that copying a name and re-encoding the parsed name
// differ; every history submits a trusted certificate on its own (validated path = the leaf alone,
// extra data = the encoding of an EMPTY chain).  Two in three RSA keys of CAs and leaves stand in
// their certificates in a SubjectPublicKeyInfo encoding that an encoder of the parsed key does not
// emit (no NULL parameters, padded INTEGERs; spki.go), so that hashing / copying the bytes as they
// stand and re-encoding the key differ.  Every history also contains two rounds of requests that
// are IN FLIGHT TOGETHER on the one instance (overlap.go): a lock-step round (exact, replayable
// interleaving at the points where the instance calls its surroundings) and a free round (own
// goroutines; the harness is built with the race detector); every answer is judged against the
// chain submitted in that same request.
//
// For every request the harness records the QueueLeafRequest, RequestLog.IssueSCT and the
// response, and evaluates the property's sentence directly (independent of the Coq model):
// id = SHA-256(log SPKI); the real signature verifies (Go crypto, log key) over the signature
// input a client derives (a) with the library's client path from the SUBMITTED chain at the
// SCT's timestamp and (b) by hand from the RFC text - for precertificates from the FINAL
// certificate (same content, SCT list instead of poison, issued by the final CA) with its SCT
// list removed and the final issuer's key hash, and (c) field by field on the queued entry with a
// hand-written DER walk: issuer_key_hash = SHA-256(SPKI of the certificate the PKI construction
// knows to be the final issuer, the bytes as they stand in that certificate's DER), TBSCertificate.issuer = that certificate's subject, authority key
// id = its subject key id, no poison; LeafValue = that entry at the request's own
// timestamp; LeafIdentityHash = SHA-256(submitted leaf); ExtraData = the validated chain with
// the root (hand encoding; and a get-entries client's decoder gets the leaf and that chain back
// out of LeafValue + ExtraData); a repeat carries the first submission's timestamp, a first submission the clock's.
package main

import (
	"bytes"
	"crypto"
	"crypto/ecdsa"
	"crypto/rsa"
	"crypto/sha1"
	"crypto/sha256"
	"crypto/sha512"
	"encoding/base64"
	"encoding/binary"
	"encoding/json"
	"flag"
	"fmt"
	"io"
	"math/big"
	mrand "math/rand"
	"net/http"
	"sort"
	"strings"
	"time"

	ct "github.com/google/certificate-transparency-go"
	"github.com/google/certificate-transparency-go/asn1"
	"github.com/google/certificate-transparency-go/tls"
	"github.com/google/certificate-transparency-go/trillian/ctfe"
	"github.com/google/certificate-transparency-go/x509"
	"github.com/google/certificate-transparency-go/x509/pkix"
	"github.com/google/trillian"
	"k8s.io/klog/v2"

	"verif/harness/ctfeenv"
	"verif/harness/lib"
	"verif/harness/pki"
)

const header = `From Coq Require Import String NArith ZArith List. Import ListNotations.
From V Require Import Base.Bytes TLS.TlsModel X509.PrecertModel CTFE.AddChainModel CTFE.AddChainCase.
Local Open Scope N_scope.
`

// ---------------------------------------------------------------- PKI items

// item is one thing a client can submit.
type item struct {
	name      string
	pre       bool
	submitted []*pki.Entity // what goes into the request
	validated []*pki.Entity // what verifyAddChain must come back with (submitted + root if omitted)
	// for precertificates: the certificate the CA finally issues and its issuer
	final       *pki.Entity
	finalIssuer *pki.Entity
	shape       string
	issuance    string   // which of several issuers' chains this submission names (cross-certified pre-issuer)
	expectOK    bool     // the content path is expected to succeed
	invalid     bool     // expected to be refused by chain validation (never reaches the model)
	tags        []string // input classes, counted when the item is submitted
}

func randBytes(r *mrand.Rand, n int) []byte {
	b := make([]byte, n)
	r.Read(b)
	return b
}

func randExt(r *mrand.Rand, k int) pkix.Extension {
	v := randBytes(r, 1+r.Intn(20))
	return pkix.Extension{Id: asn1.ObjectIdentifier{1, 3, 6, 1, 4, 1, 55555, 1, 10 + k}, Critical: false, Value: append([]byte{0x04, byte(len(v))}, v...)}
}

func insertAt(l []pkix.Extension, i int, e pkix.Extension) []pkix.Extension {
	out := append([]pkix.Extension{}, l[:i]...)
	out = append(out, e)
	return append(out, l[i:]...)
}

// dummySCTListExt is a syntactically valid SignedCertificateTimestampList extension (one SCT of
// another log); only its presence matters to the embedded-SCT route.
func dummySCTListExt(r *mrand.Rand) pkix.Extension {
	sct := []byte{0}
	sct = append(sct, randBytes(r, 32)...)
	sct = binary.BigEndian.AppendUint64(sct, uint64(r.Int63()))
	sct = append(sct, 0, 0, 4, 3, 0, 8)
	sct = append(sct, randBytes(r, 8)...)
	list := binary.BigEndian.AppendUint16(nil, uint16(len(sct)))
	list = append(list, sct...)
	outer := binary.BigEndian.AppendUint16(nil, uint16(len(list)))
	outer = append(outer, list...)
	val, err := asn1.Marshal(outer)
	if err != nil {
		panic(err)
	}
	return pkix.Extension{Id: x509.OIDExtensionCTSCT, Value: val}
}

var leafKinds = []string{"p256", "p256", "p384", "rsa2048", "ed25519"}
var caKinds = []string{"p256", "p256", "p384", "rsa2048", "rsa2048"}

type world struct {
	r       *mrand.Rand
	id      int
	roots   []*pki.Entity
	items   []*item
	logKind string
	logKey  crypto.Signer
	opts    instOpts
	tags    []string
	// subject names: common name -> hand-encoded DER (nil = left to pkix.Name) and its style
	nameRaw   map[string][]byte
	nameStyle map[string]string
	styleOf   map[*pki.Entity]string
	spkiOf    map[*pki.Entity]string // how the certificate's SubjectPublicKeyInfo is encoded (spki.go)
	alone     []*item                // trusted certificates submitted on their own (validated path of length 1)
	pool      []*item                // every other item
}

// subject decides once per common name (cross-certified twins share it) how the subject is
// encoded: by harness/pki from a pkix.Name ("go") or as RawSubject bytes assembled in names.go.
func (w *world) subject(cn string, handOneIn, outOf int) ([]byte, string) {
	if w.nameStyle == nil {
		w.nameRaw, w.nameStyle, w.styleOf, w.spkiOf = map[string][]byte{}, map[string]string{}, map[*pki.Entity]string{}, map[*pki.Entity]string{}
	}
	if st, ok := w.nameStyle[cn]; ok {
		return w.nameRaw[cn], st
	}
	style := "go"
	if w.r.Intn(outOf) < handOneIn {
		style = nameStyles[1+w.r.Intn(len(nameStyles)-1)]
	}
	var raw []byte
	if style != "go" {
		raw = handName(w.r, style, cn)
	}
	w.nameRaw[cn], w.nameStyle[cn] = raw, style
	return raw, style
}

func withRawSubject(raw []byte) func(*x509.Certificate) {
	if raw == nil {
		return nil
	}
	return func(t *x509.Certificate) { t.RawSubject = raw }
}

func ski(r *mrand.Rand) []byte { return randBytes(r, 20) }

func (w *world) ca(cn string, parent *pki.Entity, ekus []x509.ExtKeyUsage, keyIdx int, kind string, skid []byte) *pki.Entity {
	raw, style := w.subject(cn, 3, 4)
	e := pki.Issue(pki.Opts{CN: cn, IsCA: true, KeyKind: kind, KeyIdx: keyIdx, SKI: skid, EKUs: ekus, Mutate: withRawSubject(raw)}, parent)
	// the same key in an encoding of its SubjectPublicKeyInfo that no encoder of the parsed key
	// emits (cross-certified twins draw independently: one key, two encodings)
	spkiStyle := drawSPKIStyle(w.r, kind)
	signer := e.Key
	if parent != nil {
		signer = parent.Key
	}
	e = respki(e, signer, spkiStyle)
	w.styleOf[e], w.spkiOf[e] = style, spkiStyle
	if raw != nil && !bytes.Equal(handSubject(e.DER), raw) {
		panic("harness/pki did not issue the certificate with the subject bytes it was given")
	}
	if parent != nil && !bytes.Equal(handIssuer(e.DER), handSubject(parent.DER)) {
		panic("harness/pki did not issue the certificate with its issuer's subject bytes")
	}
	return e
}

// leafPair issues a certificate or a precertificate (+ its final certificate) under `signer`;
// finalSigner is the CA that issues the final certificate (differs with a pre-issuer).
func (w *world) leaf(k int, pre bool, signer, finalSigner *pki.Entity) (leaf, final *pki.Entity, desc string) {
	r := w.r
	kind := leafKinds[r.Intn(len(leafKinds))]
	nExtra := r.Intn(4)
	var others []pkix.Extension
	for j := 0; j < nExtra; j++ {
		others = append(others, randExt(r, j))
	}
	cn := fmt.Sprintf("leaf-%d-%d.example", w.id, k)
	rawSubj, subjStyle := w.subject(cn, 1, 3)
	serialBytes := randBytes(r, 1+r.Intn(16))
	serialBytes[0] = serialBytes[0]&0x7f | 1
	var leafSKI []byte
	if r.Intn(2) == 0 {
		leafSKI = ski(r)
	}
	// the leaf's own SubjectPublicKeyInfo (copied into the entry's TBSCertificate byte for byte)
	leafSPKI := drawSPKIStyle(r, kind)
	mk := func(extra []pkix.Extension, parent *pki.Entity) *pki.Entity {
		e := pki.Issue(pki.Opts{CN: cn, KeyKind: kind, KeyIdx: 4 + r.Intn(2), Serial: newInt(serialBytes), ExtraExt: extra, SKI: leafSKI,
			DNSNames: []string{cn}, EKUs: []x509.ExtKeyUsage{x509.ExtKeyUsageServerAuth}, Mutate: withRawSubject(rawSubj)}, parent)
		return respki(e, parent.Key, leafSPKI)
	}
	if !pre {
		leaf = mk(others, signer)
		w.spkiOf[leaf] = leafSPKI
		return leaf, nil, fmt.Sprintf("cert key=%s ext=%d subject-dn=%s spki=%s", kind, nExtra, subjStyle, leafSPKI)
	}
	// same key slot for precert and final certificate
	slot := 4 + r.Intn(2)
	mk = func(extra []pkix.Extension, parent *pki.Entity) *pki.Entity {
		e := pki.Issue(pki.Opts{CN: cn, KeyKind: kind, KeyIdx: slot, Serial: newInt(serialBytes), ExtraExt: extra, SKI: leafSKI,
			DNSNames: []string{cn}, EKUs: []x509.ExtKeyUsage{x509.ExtKeyUsageServerAuth}, Mutate: withRawSubject(rawSubj)}, parent)
		return respki(e, parent.Key, leafSPKI)
	}
	order := "go"
	if r.Intn(3) > 0 {
		// EXPLICIT ORDER of the whole extension list.  CreateCertificate emits key usage, extended key
		// usage, basic constraints, subject key id, authority key id, subject alternative name in that
		// order and the ExtraExtensions (poison included) after them: the poison never preceded the
		// authority key id and never stood among the standard extensions.  Here the standard
		// extensions are taken (Id, Critical, Value) from a template issue, put together with the
		// unknown ones in a drawn order and handed over as ExtraExtensions one and all
		// (CreateCertificate then adds none of its own); the position of the poison relative to the
		// authority key id is drawn on its own.  The final certificate has the same list in the same
		// order (authority key id = the final issuer's; SCT list anywhere).
		var akiAt = -1
		all := append([]pkix.Extension{}, others...)
		for _, e := range mk(nil, signer).Cert.Extensions {
			all = append(all, pkix.Extension{Id: e.Id, Critical: e.Critical, Value: e.Value})
		}
		r.Shuffle(len(all), func(a, b int) { all[a], all[b] = all[b], all[a] })
		for j, e := range all {
			if e.Id.Equal(x509.OIDExtensionAuthorityKeyId) {
				akiAt = j
			}
		}
		if akiAt >= 0 && r.Intn(4) == 0 { // authority key id last (nothing after it) / first
			e := all[akiAt]
			all = append(all[:akiAt:akiAt], all[akiAt+1:]...)
			if r.Intn(2) == 0 {
				all, akiAt = append(all, e), len(all)
			} else {
				all, akiAt = insertAt(all, 0, e), 0
			}
		}
		place := []string{"first", "before-aki", "after-aki", "last", "random"}[r.Intn(5)]
		var pAt int
		switch {
		case place == "first":
			pAt = 0
		case place == "before-aki" && akiAt >= 0:
			pAt = akiAt
		case place == "after-aki" && akiAt >= 0:
			pAt = akiAt + 1
		case place == "last":
			pAt = len(all)
		default:
			pAt = r.Intn(len(all) + 1)
		}
		rel := "no-aki"
		if akiAt >= 0 {
			rel = "poison-after-aki"
			if pAt <= akiAt {
				rel = "poison-before-aki"
				if akiAt == len(all)-1 {
					rel = "poison-before-aki-last"
				}
			}
		}
		order = fmt.Sprintf("explicit/%s/%s", place, rel)
		leaf = mk(insertAt(all, pAt, pki.PoisonExt()), signer)
		var finalExt []pkix.Extension
		for _, e := range all {
			if e.Id.Equal(x509.OIDExtensionAuthorityKeyId) {
				if len(finalSigner.Cert.SubjectKeyId) == 0 {
					continue // the final issuer has no key id to name
				}
				e = handAKIExt(finalSigner.Cert.SubjectKeyId)
			}
			finalExt = append(finalExt, e)
		}
		if akiAt < 0 && len(finalSigner.Cert.SubjectKeyId) > 0 {
			finalExt = append(finalExt, handAKIExt(finalSigner.Cert.SubjectKeyId)) // see below
		}
		sj := r.Intn(len(finalExt) + 1)
		if akiAt < 0 && len(finalSigner.Cert.SubjectKeyId) > 0 {
			sj = r.Intn(len(finalExt)) // the added authority key id stays last once the SCT list is gone
		}
		final = mk(insertAt(finalExt, sj, dummySCTListExt(r)), finalSigner)
		w.spkiOf[leaf] = leafSPKI
		w.tags = append(w.tags, "ext-order="+order)
		return leaf, final, fmt.Sprintf("precert key=%s ext=%d order=%s poison@%d/%d sct@%d subject-dn=%s spki=%s", kind, nExtra, order, pAt, len(all)+1, sj, subjStyle, leafSPKI)
	}
	pi := r.Intn(len(others) + 1)
	sj := r.Intn(len(others) + 1)
	leaf = mk(insertAt(others, pi, pki.PoisonExt()), signer)
	finalExt := insertAt(others, sj, dummySCTListExt(r))
	if signer != finalSigner && len(signer.Cert.SubjectKeyId) == 0 && len(finalSigner.Cert.SubjectKeyId) > 0 {
		// The precertificate has no authority key id (its signer has no subject key id) but the
		// final certificate names its issuer's key: the only final certificate whose extension
		// order is that of the precertificate carries the authority key id LAST (an explicit
		// extension; CreateCertificate then does not add its own).
		finalExt = append(finalExt, handAKIExt(finalSigner.Cert.SubjectKeyId))
	}
	final = mk(finalExt, finalSigner)
	w.spkiOf[leaf] = leafSPKI
	return leaf, final, fmt.Sprintf("precert key=%s ext=%d poison@%d sct@%d subject-dn=%s spki=%s", kind, nExtra, pi, sj, subjStyle, leafSPKI)
}

// handAKIExt is AuthorityKeyIdentifier ::= SEQUENCE { keyIdentifier [0] IMPLICIT OCTET STRING } by hand.
func handAKIExt(keyID []byte) pkix.Extension {
	if len(keyID) > 100 {
		panic("key id too long for the short form")
	}
	v := append([]byte{0x30, byte(len(keyID) + 2), 0x80, byte(len(keyID))}, keyID...)
	return pkix.Extension{Id: x509.OIDExtensionAuthorityKeyId, Value: v}
}

func newInt(b []byte) *big.Int { return new(big.Int).SetBytes(b) }

func kindOf(e *pki.Entity) string {
	switch k := e.Key.Public().(type) {
	case *ecdsa.PublicKey:
		if k.Curve.Params().BitSize == 384 {
			return "p384"
		}
		return "p256"
	case *rsa.PublicKey:
		return "rsa2048"
	}
	return "p256"
}

func chainOf(es ...*pki.Entity) []*pki.Entity { return es }

// build populates roots and items for one scenario.
func (w *world) build() {
	r := w.r
	scenario := []string{"plain", "plain", "plain", "cross-intermediate", "cross-preissuer", "root-ct-eku", "eku-ladder", "eku-ladder"}[r.Intn(8)]
	if w.id < 7 {
		scenario = []string{"plain", "cross-intermediate", "cross-preissuer", "root-ct-eku", "eku-ladder", "eku-ladder", "plain"}[w.id]
	}
	w.tags = append(w.tags, "scenario:"+scenario)
	rootKind := caKinds[r.Intn(len(caKinds))]
	root := w.ca(fmt.Sprintf("root-%d", w.id), nil, nil, 0, rootKind, ski(r))
	w.roots = []*pki.Entity{root}
	untrusted := w.ca(fmt.Sprintf("untrusted-%d", w.id), nil, nil, 3, "p256", ski(r))

	add := func(name string, pre bool, submitted, validated []*pki.Entity, final, finalIssuer *pki.Entity, shape string) *item {
		it := &item{name: name, pre: pre, submitted: submitted, validated: validated, final: final, finalIssuer: finalIssuer, shape: shape, expectOK: true}
		w.items = append(w.items, it)
		return it
	}
	// with and without the root in the submission
	both := func(name string, pre bool, path []*pki.Entity, final, finalIssuer *pki.Entity, shape string) {
		add(name+"+root", pre, path, path, final, finalIssuer, shape+" root=included")
		add(name+"-root", pre, path[:len(path)-1], path, final, finalIssuer, shape+" root=omitted")
	}

	switch scenario {
	case "plain":
		nInter := r.Intn(3)
		path := []*pki.Entity{root}
		issuer := root
		for j := 0; j < nInter; j++ {
			issuer = w.ca(fmt.Sprintf("inter-%d-%d", w.id, j), issuer, nil, 1+j, caKinds[r.Intn(len(caKinds))], ski(r))
			path = append([]*pki.Entity{issuer}, path...)
		}
		nLeaves := 2 + r.Intn(2)
		for k := 0; k < nLeaves; k++ {
			switch r.Intn(3) {
			case 0:
				l, _, d := w.leaf(k, false, issuer, nil)
				both(fmt.Sprintf("L%d", k), false, append([]*pki.Entity{l}, path...), nil, nil, fmt.Sprintf("%s inter=%d", d, nInter))
			case 1:
				l, f, d := w.leaf(k, true, issuer, issuer)
				both(fmt.Sprintf("P%d", k), true, append([]*pki.Entity{l}, path...), f, issuer, fmt.Sprintf("%s direct inter=%d", d, nInter))
			default:
				var piSKI []byte
				if r.Intn(4) != 0 {
					piSKI = ski(r)
				}
				pi := w.ca(fmt.Sprintf("preissuer-%d-%d", w.id, k), issuer, []x509.ExtKeyUsage{x509.ExtKeyUsageCertificateTransparency}, 3, kindOf(issuer), piSKI)
				l, f, d := w.leaf(k, true, pi, issuer) // piSKI == nil: the authority key id moves to the end of the entry
				both(fmt.Sprintf("Q%d", k), true, append([]*pki.Entity{l, pi}, path...), f, issuer, fmt.Sprintf("%s preissuer(ski=%v) inter=%d", d, piSKI != nil, nInter))
			}
		}
		if r.Intn(2) == 0 {
			// a trusted certificate that is NOT self-signed (a CA certified by somebody the log does
			// not trust, accepted in its own right): the validated path ends at it, and submitted on
			// its own it is a validated path of length 1
			xt := w.ca(fmt.Sprintf("xtrusted-%d", w.id), untrusted, nil, 6, caKinds[r.Intn(len(caKinds))], ski(r))
			w.roots = append(w.roots, xt)
			lx, _, dx := w.leaf(80, false, xt, nil)
			both("T", false, chainOf(lx, xt), nil, nil, dx+" issuer=trusted-not-self-signed")
		}
		// a few things that must be refused before the content path
		l, _, _ := w.leaf(90, false, untrusted, nil)
		w.items = append(w.items, &item{name: "untrusted", submitted: chainOf(l, untrusted), invalid: true, shape: "untrusted root"})
		if len(w.items) > 0 {
			first := w.items[0]
			w.items = append(w.items, &item{name: "wrong-endpoint", pre: !first.pre, submitted: first.submitted, invalid: true, shape: "cert / precert mismatch"})
		}
	case "cross-intermediate":
		// the issuing CA's key is certified under two trusted roots
		root2 := w.ca(fmt.Sprintf("root2-%d", w.id), nil, nil, 1, caKinds[r.Intn(len(caKinds))], ski(r))
		w.roots = append(w.roots, root2)
		caSKI := ski(r)
		ia := w.ca(fmt.Sprintf("xinter-%d", w.id), root, nil, 2, "p256", caSKI)
		ib := w.ca(fmt.Sprintf("xinter-%d", w.id), root2, nil, 2, "p256", caSKI)
		for k := 0; k < 2; k++ {
			pre := r.Intn(2) == 0
			l, f, d := w.leaf(k, pre, ia, ia)
			n := fmt.Sprintf("X%d", k)
			add(n+"/a+root", pre, chainOf(l, ia, root), chainOf(l, ia, root), f, ia, d+" cross=a root=included")
			add(n+"/a-root", pre, chainOf(l, ia), chainOf(l, ia, root), f, ia, d+" cross=a root=omitted")
			add(n+"/b+root", pre, chainOf(l, ib, root2), chainOf(l, ib, root2), f, ib, d+" cross=b root=included")
			add(n+"/b-root", pre, chainOf(l, ib), chainOf(l, ib, root2), f, ib, d+" cross=b root=omitted")
		}
	case "cross-preissuer":
		// the precert-signing key is certified by two different CAs (both trusted roots)
		root2 := w.ca(fmt.Sprintf("root2-%d", w.id), nil, nil, 1, rootKind, ski(r))
		w.roots = append(w.roots, root2)
		piSKI := ski(r)
		ekus := []x509.ExtKeyUsage{x509.ExtKeyUsageCertificateTransparency}
		pa := w.ca(fmt.Sprintf("xpre-%d", w.id), root, ekus, 2, rootKind, piSKI)
		pb := w.ca(fmt.Sprintf("xpre-%d", w.id), root2, ekus, 2, rootKind, piSKI)
		for k := 0; k < 2; k++ {
			l, fa, d := w.leaf(k, true, pa, root)
			n := fmt.Sprintf("Y%d", k)
			add(n+"/a+root", true, chainOf(l, pa, root), chainOf(l, pa, root), fa, root, d+" xpre=a root=included").issuance = "a"
			add(n+"/a-root", true, chainOf(l, pa), chainOf(l, pa, root), fa, root, d+" xpre=a root=omitted").issuance = "a"
			// the final certificate of the other issuance differs (other issuer): no twin at hand
			add(n+"/b+root", true, chainOf(l, pb, root2), chainOf(l, pb, root2), nil, root2, d+" xpre=b root=included").issuance = "b"
			add(n+"/b-root", true, chainOf(l, pb), chainOf(l, pb, root2), nil, root2, d+" xpre=b root=omitted").issuance = "b"
		}
	case "root-ct-eku":
		// a trusted root that itself carries the CT EKU: a precertificate issued directly by it
		// has no "issuer of the pre-issuer" -> the leaf cannot be built (400)
		rootCT := w.ca(fmt.Sprintf("rootct-%d", w.id), nil, []x509.ExtKeyUsage{x509.ExtKeyUsageCertificateTransparency}, 1, "p256", ski(r))
		w.roots = append(w.roots, rootCT)
		l, _, d := w.leaf(0, true, rootCT, rootCT)
		it := add("Z0-root", true, chainOf(l), chainOf(l, rootCT), nil, nil, d+" issuer=root-with-ct-eku root=omitted")
		it.expectOK = false
		it = add("Z0+root", true, chainOf(l, rootCT), chainOf(l, rootCT), nil, nil, d+" issuer=root-with-ct-eku root=included")
		it.expectOK = false
		c, _, d2 := w.leaf(1, false, rootCT, nil)
		both("Z1", false, chainOf(c, rootCT), nil, nil, d2+" issuer=root-with-ct-eku")
		l2, f2, d3 := w.leaf(2, true, root, root)
		both("Z2", true, chainOf(l2, root), f2, root, d3+" direct inter=0")
	case "eku-ladder":
		// A line of CAs  line[0] <- line[1] <- ... <- line[n] (trusted root)  in which EVERY
		// certificate independently may list the CT EKU (alone, or next to serverAuth as an
		// EKU-constrained CA above a precertificate signing certificate has to) and may lack a
		// subject key id; precertificates and certificates are issued at every depth.  RFC 6962
		// 3.1: a CA certificate with the CT EKU that signs a precertificate IS the precertificate
		// signing certificate, and the final issuer is the CA that certified it - whatever that
		// CA's own EKUs are and however many certificates follow it.
		ctOnly := []x509.ExtKeyUsage{x509.ExtKeyUsageCertificateTransparency}
		ekuSets := []struct {
			name string
			ekus []x509.ExtKeyUsage
			ct   bool
		}{
			{"none", nil, false},
			{"sa", []x509.ExtKeyUsage{x509.ExtKeyUsageServerAuth}, false},
			{"ct", ctOnly, true},
			{"sa+ct", []x509.ExtKeyUsage{x509.ExtKeyUsageServerAuth, x509.ExtKeyUsageCertificateTransparency}, true},
			{"ct+sa", []x509.ExtKeyUsage{x509.ExtKeyUsageCertificateTransparency, x509.ExtKeyUsageServerAuth}, true},
		}
		nCA := 1 + r.Intn(3)
		cls := make([]int, nCA+1) // index into ekuSets per line position; cls[nCA] is the root's
		hasSKI := make([]bool, nCA+1)
		for j := 0; j <= nCA; j++ {
			cls[j] = r.Intn(len(ekuSets))
			hasSKI[j] = r.Intn(4) != 0
		}
		if r.Intn(3) != 0 {
			cls[nCA] = 0 // most roots have no EKU extension
		}
		if r.Intn(2) == 0 {
			// two neighbours that both list the CT EKU (a pre-issuer under an EKU-constrained CA)
			p := r.Intn(nCA)
			if !ekuSets[cls[p]].ct {
				cls[p] = 2 + r.Intn(3)
			}
			if !ekuSets[cls[p+1]].ct {
				cls[p+1] = 3 + r.Intn(2)
			}
		}
		mkSKI := func(j int) []byte {
			if hasSKI[j] {
				return ski(r)
			}
			return nil
		}
		line := make([]*pki.Entity, nCA+1)
		line[nCA] = w.ca(fmt.Sprintf("lroot-%d", w.id), nil, ekuSets[cls[nCA]].ekus, 0, rootKind, mkSKI(nCA))
		w.roots = []*pki.Entity{line[nCA]}
		for j := nCA - 1; j >= 0; j-- {
			kind := caKinds[r.Intn(len(caKinds))]
			if ekuSets[cls[j]].ct {
				// a precertificate signing certificate signs with its issuer's algorithm: the final
				// TBSCertificate differs from the precertificate's in issuer and key id only
				kind = kindOf(line[j+1])
			}
			line[j] = w.ca(fmt.Sprintf("lca-%d-%d", w.id, j), line[j+1], ekuSets[cls[j]].ekus, 1+j, kind, mkSKI(j))
		}
		var names []string
		for j := 0; j <= nCA; j++ {
			n := ekuSets[cls[j]].name
			if !hasSKI[j] {
				n += "/noski"
			}
			names = append(names, n)
		}
		lineDesc := "line=[" + strings.Join(names, " ") + "]"
		one := func(name string, pre bool, path []*pki.Entity, final, finalIssuer *pki.Entity, shape string) *item {
			// validation hands the same path to the entry builder with the root submitted or not
			if r.Intn(2) == 0 {
				return add(name+"+root", pre, path, path, final, finalIssuer, shape+" root=included")
			}
			return add(name+"-root", pre, path[:len(path)-1], path, final, finalIssuer, shape+" root=omitted")
		}
		for j := 0; j <= nCA; j++ {
			signer := line[j]
			path := func(l *pki.Entity) []*pki.Entity { return append([]*pki.Entity{l}, line[j:]...) }
			switch {
			case !ekuSets[cls[j]].ct:
				l, f, d := w.leaf(j, true, signer, signer)
				it := one(fmt.Sprintf("D%d", j), true, path(l), f, signer, fmt.Sprintf("%s direct %s depth=%d above-final=%d", d, lineDesc, j, nCA-j))
				it.tags = []string{"ladder:direct"}
			case j == nCA:
				// signed by a trusted root that lists the CT EKU: no final issuer in the chain -> 400
				l, _, d := w.leaf(j, true, signer, signer)
				it := one(fmt.Sprintf("N%d", j), true, path(l), nil, nil, fmt.Sprintf("%s issuer=root-with-ct-eku %s depth=%d", d, lineDesc, j))
				it.expectOK = false
				it.tags = []string{"ladder:preissuer-is-root"}
			default:
				fin := line[j+1]
				l, f, d := w.leaf(j, true, signer, fin)
				it := one(fmt.Sprintf("Q%d", j), true, path(l), f, fin, fmt.Sprintf("%s preissuer(ski=%v aki=%v) final-issuer-eku=%s %s depth=%d above-final=%d",
					d, hasSKI[j], hasSKI[j+1], ekuSets[cls[j+1]].name, lineDesc, j, nCA-j-1))
				it.tags = []string{"ladder:final-issuer-eku=" + ekuSets[cls[j+1]].name, fmt.Sprintf("ladder:above-final=%d", nCA-j-1),
					fmt.Sprintf("ladder:preissuer-ski=%v-aki=%v", hasSKI[j], hasSKI[j+1])}
				if j+2 <= nCA && ekuSets[cls[j+1]].ct && ekuSets[cls[j+2]].ct {
					it.tags = append(it.tags, "ladder:three-ct-ekus-in-a-row")
				}
			}
		}
		jc := r.Intn(nCA + 1)
		c, _, dc := w.leaf(9, false, line[jc], nil)
		one("C", false, append([]*pki.Entity{c}, line[jc:]...), nil, nil, fmt.Sprintf("%s %s depth=%d", dc, lineDesc, jc))
	}
	// The boundary chain length: a trusted certificate submitted ON ITS OWN to add-chain.  The
	// validated path is the leaf alone; the entry is an x509_entry of the root and the extra data
	// the encoding of an EMPTY certificate_chain (00 00 00), not "no extra data".
	w.pool = append([]*item{}, w.items...)
	for k, t := range w.roots {
		kind := "self-signed"
		if !bytes.Equal(handSubject(t.DER), handIssuer(t.DER)) {
			kind = "not-self-signed"
		}
		it := add(fmt.Sprintf("R%d", k), false, chainOf(t), chainOf(t), nil, nil, fmt.Sprintf("cert trusted-root-as-leaf(%s) key=%s subject-dn=%s validated=leaf-only", kind, kindOf(t), w.styleOf[t]))
		it.tags = []string{"validated:leaf-only", "leaf-only:" + kind}
		w.alone = append(w.alone, it)
	}
}

// ---------------------------------------------------------------- clocks

func clockValue(r *mrand.Rand) (time.Time, string) {
	base := int64(1500000000000) + r.Int63n(400000000000) // ms, 2017..2030
	if r.Intn(40) == 0 {
		// a clock before the epoch: Go's int64 division truncates towards zero and the uint64 conversion wraps
		return time.Unix(0, -int64(r.Intn(5000000))-1), "pre-epoch"
	}
	switch r.Intn(9) {
	case 0:
		return time.Unix(0, base*1e6), "ms-exact"
	case 1:
		return time.Unix(0, base*1e6+999999), "ms+999999ns"
	case 2:
		return time.Unix(0, base*1e6+1), "ms+1ns"
	case 3:
		return time.Unix(0, (base/1000)*1e9), "s-exact"
	case 4:
		return time.Unix(0, base*1e6+int64(r.Intn(1000000))), "ns-remainder"
	case 5:
		return time.Date(2200+r.Intn(60), 3, 4, 5, 6, 7, r.Intn(1e9), time.UTC), "far-future"
	case 6:
		return time.Unix(0, 9223372036854775807-int64(r.Intn(3))), "max-int64-ns"
	case 7:
		return time.Unix(0, int64(r.Intn(2000000))), "epoch"
	default:
		return time.Unix(0, base*1e6+int64(r.Intn(1000000))), "ns-remainder"
	}
}

// ---------------------------------------------------------------- Coq rendering

func preissuerCoq(c *x509.Certificate) string {
	var rv asn1.RawValue
	if _, err := asn1.Unmarshal(c.RawIssuer, &rv); err != nil {
		panic(err)
	}
	aki := "None"
	for _, e := range c.Extensions {
		if e.Id.Equal(x509.OIDExtensionAuthorityKeyId) {
			aki = lib.Some(lib.Bytes(e.Value))
			break
		}
	}
	ctEKU := false
	for _, u := range c.ExtKeyUsage {
		if u == x509.ExtKeyUsageCertificateTransparency {
			ctEKU = true
		}
	}
	return fmt.Sprintf("{| pi_issuer := (n2b %d, %s); pi_aki := %s; pi_ct_eku := %s |}", c.RawIssuer[0], lib.Bytes(rv.Bytes), aki, lib.Bool(ctEKU))
}

func certInfoCoq(e *pki.Entity) string {
	return fmt.Sprintf("{| c_der := %s; c_spki := %s; c_pi := %s |}", lib.Bytes(e.DER), lib.Bytes(handSPKI(e.DER)), preissuerCoq(e.Cert))
}

func optBytes(b []byte, ok bool) string {
	if !ok {
		return "None"
	}
	return lib.Some(lib.Bytes(b))
}

// ---------------------------------------------------------------- independent encoders (RFC 6962, by hand)

func u24(n int) []byte { return []byte{byte(n >> 16), byte(n >> 8), byte(n)} }

func handExtraData(pre bool, validated []*pki.Entity) []byte {
	var inner []byte
	for _, e := range validated[1:] {
		inner = append(inner, u24(len(e.DER))...)
		inner = append(inner, e.DER...)
	}
	var out []byte
	if pre {
		out = append(out, u24(len(validated[0].DER))...)
		out = append(out, validated[0].DER...)
	}
	out = append(out, u24(len(inner))...)
	return append(out, inner...)
}

// handEntry: the body of the RFC 6962 entry (after the entry type) a client derives.
func handEntry(it *item) ([]byte, uint16, bool) {
	if !it.pre {
		d := it.submitted[0].DER
		return append(u24(len(d)), d...), 0, true
	}
	if it.final == nil {
		return nil, 1, false
	}
	// the reference itself: the final certificate the harness issued names its issuer byte for byte
	if !bytes.Equal(handIssuer(it.final.DER), handSubject(it.finalIssuer.DER)) {
		panic("the final-certificate twin does not carry its issuer's subject bytes")
	}
	tbs, err := x509.RemoveSCTList(it.final.Cert.RawTBSCertificate)
	if err != nil {
		return nil, 1, false
	}
	// issuer_key_hash: SHA-256 over the SubjectPublicKeyInfo bytes as they stand in the final
	// issuer's certificate (read out by hand; not a parser's field, not an encoding of the key)
	h := sha256.Sum256(handSPKI(it.finalIssuer.DER))
	out := append([]byte{}, h[:]...)
	out = append(out, u24(len(tbs))...)
	return append(out, tbs...), 1, true
}

// ---- a hand-written DER walk (definite lengths), used to read the queued entry field by field

// derNext splits the first element off b: its tag byte, its content and the whole element.
func derNext(b []byte) (tag byte, content, whole, rest []byte, ok bool) {
	if len(b) < 2 {
		return 0, nil, nil, nil, false
	}
	n, hdr := int(b[1]), 2
	if b[1]&0x80 != 0 {
		k := int(b[1] & 0x7f)
		if k == 0 || k > 3 || len(b) < 2+k {
			return 0, nil, nil, nil, false
		}
		n = 0
		for _, x := range b[2 : 2+k] {
			n = n<<8 | int(x)
		}
		hdr = 2 + k
	}
	if len(b) < hdr+n {
		return 0, nil, nil, nil, false
	}
	return b[0], b[hdr : hdr+n], b[:hdr+n], b[hdr+n:], true
}

func derChildren(content []byte) ([][]byte, bool) {
	var out [][]byte
	for len(content) > 0 {
		_, _, whole, rest, ok := derNext(content)
		if !ok {
			return nil, false
		}
		out = append(out, whole)
		content = rest
	}
	return out, true
}

var (
	derOIDPoison = []byte{0x06, 0x0a, 0x2b, 0x06, 0x01, 0x04, 0x01, 0xd6, 0x79, 0x02, 0x04, 0x03} // 1.3.6.1.4.1.11129.2.4.3
	derOIDAKI    = []byte{0x06, 0x03, 0x55, 0x1d, 0x23}                                           // 2.5.29.35
)

// precertEntryFacts reads an RFC 6962 PreCert entry body (issuer_key_hash, opaque TBSCertificate<1..2^24-1>)
// and says what is wrong with it for a final certificate issued by finalIssuer; "" = nothing.
func precertEntryFacts(entry []byte, finalIssuer *pki.Entity, precertDER []byte) string {
	if len(entry) < 35 {
		return "the precertificate entry is too short"
	}
	want := sha256.Sum256(handSPKI(finalIssuer.DER))
	if !bytes.Equal(entry[:32], want[:]) {
		return "issuer_key_hash is not SHA-256 of the FINAL issuer's SubjectPublicKeyInfo as it stands in that CA's certificate"
	}
	n := int(entry[32])<<16 | int(entry[33])<<8 | int(entry[34])
	if len(entry) != 35+n {
		return "the TBSCertificate length prefix does not cover the rest of the entry"
	}
	tag, content, _, rest, ok := derNext(entry[35:])
	if !ok || tag != 0x30 || len(rest) != 0 {
		return "the entry's TBSCertificate is not one DER SEQUENCE"
	}
	fields, i, ok := splitTBS(content)
	if !ok {
		return "the entry's TBSCertificate does not split into its fields"
	}
	// [version] serialNumber signature issuer validity subject subjectPublicKeyInfo [uids] [extensions]
	// issuer: the final issuer's subject as it stands in that CA's certificate, byte for byte
	// (read out of the DER by hand: no parser, no encoder in between)
	if !bytes.Equal(fields[i+2], handSubject(finalIssuer.DER)) {
		return "the entry's TBSCertificate.issuer is not the final issuer's subject name byte for byte"
	}
	// everything but issuer and extensions is the precertificate's, byte for byte
	pf, pi, ok := tbsFields(precertDER)
	if !ok {
		return "the submitted precertificate does not split into its fields"
	}
	if i != pi || len(fields) != len(pf) {
		return "the entry's TBSCertificate does not have the precertificate's fields"
	}
	for k, name := range []string{"serialNumber", "signature", "", "validity", "subject", "subjectPublicKeyInfo"} {
		if name != "" && !bytes.Equal(fields[i+k], pf[i+k]) {
			return "the entry's TBSCertificate." + name + " is not the precertificate's byte for byte"
		}
	}
	if i == 1 && !bytes.Equal(fields[0], pf[0]) {
		return "the entry's TBSCertificate.version is not the precertificate's"
	}
	var akiValue []byte
	nAKI := 0
	if last := fields[len(fields)-1]; last[0] == 0xa3 { // [3] EXPLICIT Extensions
		_, inner, _, _, ok := derNext(last)
		if !ok {
			return "extensions do not parse"
		}
		_, seq, _, _, ok := derNext(inner)
		if !ok {
			return "extensions do not parse"
		}
		exts, ok := derChildren(seq)
		if !ok {
			return "extensions do not parse"
		}
		for _, e := range exts {
			_, ec, _, _, ok := derNext(e)
			parts, ok2 := derChildren(ec)
			if !ok || !ok2 || len(parts) < 2 {
				return "an extension does not parse"
			}
			if bytes.Equal(parts[0], derOIDPoison) {
				return "the entry's TBSCertificate still carries the poison extension"
			}
			if bytes.Equal(parts[0], derOIDAKI) {
				_, v, _, _, ok := derNext(parts[len(parts)-1]) // extnValue OCTET STRING
				if !ok {
					return "authority key id does not parse"
				}
				akiValue = v
				nAKI++
			}
		}
	}
	// every other extension is the precertificate's, byte for byte and in the precertificate's
	// order (RFC 6962 3.2: nothing but the poison, the issuer and the authority key id changes)
	extList := func(fs [][]byte) ([][]byte, bool) {
		last := fs[len(fs)-1]
		if last[0] != 0xa3 {
			return nil, true
		}
		_, inner, _, _, ok := derNext(last)
		if !ok {
			return nil, false
		}
		_, seq, _, _, ok := derNext(inner)
		if !ok {
			return nil, false
		}
		exts, ok := derChildren(seq)
		if !ok {
			return nil, false
		}
		var out [][]byte
		for _, e := range exts {
			_, ec, _, _, ok := derNext(e)
			parts, ok2 := derChildren(ec)
			if !ok || !ok2 || len(parts) < 2 {
				return nil, false
			}
			if bytes.Equal(parts[0], derOIDPoison) || bytes.Equal(parts[0], derOIDAKI) {
				continue
			}
			out = append(out, e)
		}
		return out, true
	}
	got, ok1 := extList(fields)
	wantExt, ok2 := extList(pf)
	if !ok1 || !ok2 {
		return "extensions do not parse"
	}
	if len(got) != len(wantExt) {
		return "the entry's TBSCertificate does not carry the precertificate's other extensions (their number differs)"
	}
	for k := range got {
		if !bytes.Equal(got[k], wantExt[k]) {
			return fmt.Sprintf("extension %d (poison and authority key id not counted) of the entry's TBSCertificate is not the precertificate's byte for byte / in the precertificate's order", k)
		}
	}
	ski := finalIssuer.Cert.SubjectKeyId
	switch {
	case len(ski) == 0 && nAKI != 0:
		return "the entry's TBSCertificate has an authority key id but the final issuer has no subject key id"
	case len(ski) > 0 && nAKI != 1:
		return "the entry's TBSCertificate does not carry exactly one authority key id (the final issuer has a subject key id)"
	case len(ski) > 0 && !bytes.Equal(akiValue, handAKIExt(ski).Value):
		return "the entry's authority key id is not the final issuer's subject key id"
	}
	return ""
}

func handSigInput(ts uint64, etype uint16, entry, ext []byte) []byte {
	out := []byte{0, 0}
	out = binary.BigEndian.AppendUint64(out, ts)
	out = binary.BigEndian.AppendUint16(out, etype)
	out = append(out, entry...)
	out = binary.BigEndian.AppendUint16(out, uint16(len(ext)))
	return append(out, ext...)
}

// verifyRaw verifies a DigitallySigned signature with the standard library alone: the digest of
// the input under the hash algorithm the signature's header DECLARES (TLS 1.2 HashAlgorithm
// code), ECDSA (ASN.1) or RSASSA-PKCS1-v1_5 by the type of the log key.  (That the declared hash
// is SHA-256, as RFC 6962 2.1.4 demands, is a separate clause of the oracle.)
func verifyRaw(pub crypto.PublicKey, declared tls.HashAlgorithm, input, sig []byte) bool {
	var h crypto.Hash
	var d []byte
	switch declared {
	case tls.SHA1:
		x := sha1.Sum(input)
		h, d = crypto.SHA1, x[:]
	case tls.SHA224:
		x := sha256.Sum224(input)
		h, d = crypto.SHA224, x[:]
	case tls.SHA256:
		x := sha256.Sum256(input)
		h, d = crypto.SHA256, x[:]
	case tls.SHA384:
		x := sha512.Sum384(input)
		h, d = crypto.SHA384, x[:]
	case tls.SHA512:
		x := sha512.Sum512(input)
		h, d = crypto.SHA512, x[:]
	default:
		return false
	}
	switch k := pub.(type) {
	case *ecdsa.PublicKey:
		return ecdsa.VerifyASN1(k, d, sig)
	case *rsa.PublicKey:
		return rsa.VerifyPKCS1v15(k, h, d, sig) == nil
	}
	return false
}

// ---------------------------------------------------------------- log keys and instance options

// logKinds: the key types and sizes a log may sign with.  The large keys live in slot 0 of the
// harness/pki pool (one key of each per run: generating them is slow), the others in slot 7
// (slots 0-6 of those kinds are the CAs' and the leaves').
var logKinds = []string{"p256", "rsa2048", "p384", "rsa3072", "p521", "rsa4096"}

func logKeyOf(kind string) crypto.Signer {
	switch kind {
	case "p521", "rsa3072", "rsa4096":
		return pki.Key(kind, 0)
	}
	return pki.Key(kind, 7)
}

// instOpts: InstanceOptions that must not influence the entry, the SCT or the queued leaf.
type instOpts struct {
	CertQuota   string `json:"certificate_quota_user"` // "" | "ct_server" (ctfe.QuotaUserForCert) | "spki"
	RemoteQuota bool   `json:"remote_quota_user"`
	Mask        bool   `json:"mask_internal_errors"`
	ProdReqLog  bool   `json:"default_request_log_behind_recorder"`
	DeadlineSec int    `json:"deadline_s"`
}

func drawOpts(r *mrand.Rand, plain bool) instOpts {
	o := instOpts{DeadlineSec: 10}
	if plain {
		return o
	}
	o.CertQuota = []string{"", "ct_server", "spki"}[r.Intn(3)]
	o.RemoteQuota = r.Intn(2) == 0
	o.Mask = r.Intn(2) == 0
	o.ProdReqLog = r.Intn(2) == 0
	o.DeadlineSec = []int{1, 10, 60, 86400}[r.Intn(4)]
	return o
}

func (o instOpts) tags() []string {
	cq := o.CertQuota
	if cq == "" {
		cq = "none"
	}
	return []string{"opt:cert-quota=" + cq, fmt.Sprintf("opt:remote-quota=%v", o.RemoteQuota), fmt.Sprintf("opt:mask=%v", o.Mask),
		fmt.Sprintf("opt:prod-request-log=%v", o.ProdReqLog), fmt.Sprintf("opt:deadline=%ds", o.DeadlineSec)}
}

func (o instOpts) apply(e *ctfeenv.Options, sc *sched) {
	switch o.CertQuota {
	case "ct_server":
		// what ct_server installs with --quota_intermediate (its default)
		e.CertificateQuotaUser = func(c *x509.Certificate) string { sc.park("quota.cert"); return ctfe.QuotaUserForCert(c) }
	case "spki":
		e.CertificateQuotaUser = func(c *x509.Certificate) string {
			sc.park("quota.cert")
			h := sha256.Sum256(c.RawSubjectPublicKeyInfo)
			return fmt.Sprintf("@ca %x", h[:8])
		}
	}
	if o.RemoteQuota {
		e.RemoteQuotaUser = func(rq *http.Request) string { sc.park("quota.remote"); return "@remote " + rq.RemoteAddr }
	}
	e.Mask = o.Mask
	if o.ProdReqLog {
		e.RequestLogInner = new(ctfe.DefaultRequestLog)
	}
	e.Deadline = time.Duration(o.DeadlineSec) * time.Second
}

// ---------------------------------------------------------------- one history

type stepRec struct {
	Item     string   `json:"item"`
	Shape    string   `json:"shape"`
	Pre      bool     `json:"pre"`
	ChainLen int      `json:"chain_len"`
	ClockNs  int64    `json:"clock_ns"`
	Clock    string   `json:"clock_class"`
	Repeat   bool     `json:"repeat_of_stored_leaf"`
	Round    string   `json:"in_flight_with,omitempty"` // the round of overlapping requests it was part of
	Chain    []string `json:"chain_b64,omitempty"`      // filled when the step fails the direct oracle
}

type stepObs struct {
	Status    int    `json:"status"`
	Timestamp uint64 `json:"timestamp,omitempty"`
	Dup       bool   `json:"already_exists,omitempty"`
	Queued    bool   `json:"queued"`
	Issued    int    `json:"issue_sct_calls"`
	Problem   string `json:"problem,omitempty"`
}

// roundRec: one round of requests in flight together; Schedule lists, for a lock-step round, which
// request (position in Members) went on from which park point (letters: overlap.go parkPoints; "n."
// = request n finished).
type roundRec struct {
	Kind     string   `json:"kind"`
	Policy   string   `json:"policy"`
	First    int      `json:"first_step"`
	Members  []string `json:"members"`
	Schedule string   `json:"schedule,omitempty"`
}

func runHistory(w *world, nSteps int, out *lib.Writer) {
	r := w.r
	sc := &sched{}
	eopts := ctfeenv.Options{Roots: w.roots, LogKey: w.logKey, Dir: *lib.OutDir}
	w.opts.apply(&eopts, sc)
	// the instance's surroundings park the running request of a lock-step round (overlap.go)
	eopts.RequestLogInner = &hookLog{s: sc, inner: eopts.RequestLogInner}
	eopts.WrapSigner = func(k crypto.Signer) crypto.Signer { return parkSigner{Signer: k, s: sc} }
	env, err := ctfeenv.New(eopts)
	if err != nil {
		panic(err)
	}
	logSPKI, err := x509.MarshalPKIXPublicKey(w.logKey.Public())
	if err != nil {
		panic(err)
	}
	logID := sha256.Sum256(logSPKI)
	htab := map[string][]byte{}
	var htabOrder []string
	hash := func(b []byte) []byte {
		d := sha256.Sum256(b)
		if _, ok := htab[string(b)]; !ok {
			htab[string(b)] = d[:]
			htabOrder = append(htabOrder, string(b))
		}
		return d[:]
	}
	hash(logSPKI)

	// the de-duplicating backend (overlap.go): every call is booked on the request it is made for
	backend := &dedupBackend{s: sc, stored: map[string]*trillian.LogLeaf{}}
	env.Backend.QueueLeafFn = backend.queueLeaf
	run := &runner{env: env, s: sc}

	firstIssuance := map[string]string{} // leaf DER -> issuance variant of its first accepted submission
	conflictProblems, otherProblems := 0, 0
	firstTS := map[string]uint64{}     // leaf DER -> timestamp of its first accepted submission
	firstSigned := map[string][]byte{} // leaf DER -> bytes the log signed the first time
	var coqSteps []string
	var recs []stepRec
	var obss []stepObs
	var rounds []roundRec
	propOK := true
	var notes []string
	tags := append([]string{}, w.tags...)
	tags = append(tags, "logkey:"+w.logKind)
	tags = append(tags, w.opts.tags()...)
	var used []*item
	tried, triedLeaf := map[string]bool{}, map[string]bool{}
	s := -1 // number of the request being judged, in the order of the history

	// siblings: the items that submit the same leaf certificate (the same or another chain)
	siblings := func(prev *item) []*item {
		var same []*item
		for _, x := range w.items {
			if !x.invalid && len(x.submitted) > 0 && bytes.Equal(x.submitted[0].DER, prev.submitted[0].DER) {
				same = append(same, x)
			}
		}
		return same
	}
	pick := func(aloneStep bool) *item {
		var it *item
		if aloneStep && len(w.alone) > 0 {
			it = w.alone[r.Intn(len(w.alone))]
		} else if len(used) > 0 && r.Intn(2) == 0 {
			// resubmit something related to an earlier step: same item, or another chain for the same leaf
			same := siblings(used[r.Intn(len(used))])
			it = same[r.Intn(len(same))]
		} else {
			// (the trusted certificates on their own have their step, and come back as repeats)
			it = w.pool[r.Intn(len(w.pool))]
			if r.Intn(3) != 0 {
				// prefer a leaf this history has not submitted yet, so that one history walks
				// through most of its world's shapes
				var fresh []*item
				for _, x := range w.pool {
					if !tried[x.name] && (x.invalid || !triedLeaf[string(x.submitted[0].DER)]) {
						fresh = append(fresh, x)
					}
				}
				if len(fresh) > 0 {
					it = fresh[r.Intn(len(fresh))]
				}
			}
		}
		return it
	}
	mark := func(it *item) {
		tried[it.name] = true
		if !it.invalid {
			triedLeaf[string(it.submitted[0].DER)] = true
		}
	}
	newRequest := func(it *item) *request {
		mark(it)
		now, clockClass := clockValue(r)
		return &request{it: it, now: now, clockClass: clockClass}
	}

	// judge: the property's sentence on ONE request - its own answer against its own submission -
	// and the request's step of the model's history.  Requests are judged in the order in which
	// the backend saw them.
	judge := func(q *request) {
		s++
		it, now, clockClass, rec, issued, lastDup := q.it, q.now, q.clockClass, q.rec, q.issued, q.dup
		var chainB64 []string
		for _, e := range it.submitted {
			chainB64 = append(chainB64, base64.StdEncoding.EncodeToString(e.DER))
		}
		nQueue := len(q.queue)
		var qreq *trillian.QueueLeafRequest
		if nQueue > 0 {
			qreq = q.queue[nQueue-1]
		}
		status := -1
		if !q.panicked && rec != nil {
			status = rec.Code
		}
		leafKey := string(it.submitted[0].DER)
		_, seen := firstTS[leafKey]
		sr := stepRec{Item: it.name, Shape: it.shape, Pre: it.pre, ChainLen: len(it.submitted), ClockNs: now.UnixNano(), Clock: clockClass, Repeat: seen, Round: q.round}
		so := stepObs{Status: status, Queued: nQueue > 0, Issued: len(issued), Dup: lastDup}
		if q.round == "" {
			tags = append(tags, "in-flight:alone")
		} else {
			tags = append(tags, "in-flight:"+strings.SplitN(q.round, "#", 2)[0])
		}
		// the stored entry of this leaf was derived from ANOTHER issuer chain (cross-certified pre-issuer)
		conflict := seen && firstIssuance[leafKey] != it.issuance
		problem := func(f string, a ...interface{}) {
			if conflict && (strings.HasPrefix(f, "the SCT's signature does not verify") || strings.HasPrefix(f, "repeated submission: the signed bytes differ")) {
				conflictProblems++
			} else {
				otherProblems++
			}
			if so.Problem == "" {
				so.Problem = fmt.Sprintf(f, a...)
			}
			propOK = false
			notes = append(notes, fmt.Sprintf("step %d (%s; %s; clock=%d): %s", s, it.name, it.shape, now.UnixNano(), fmt.Sprintf(f, a...)))
			sr.Chain = chainB64
		}
		tags = append(tags, "clock:"+clockClass, fmt.Sprintf("status:%d", status), fmt.Sprintf("chainlen:%d", len(it.submitted)))
		tags = append(tags, it.tags...)
		if strings.Contains(it.shape, "root=omitted") {
			tags = append(tags, "root:omitted")
		} else if strings.Contains(it.shape, "root=included") {
			tags = append(tags, "root:included")
		}
		if conflict {
			tags = append(tags, "submission:repeat-other-issuer-chain")
		} else if seen {
			tags = append(tags, "submission:repeat")
		} else {
			tags = append(tags, "submission:first")
		}
		if !it.invalid && len(it.validated) > 1 {
			tags = append(tags, "issuer-dn:"+w.styleOf[it.validated[1]])
		}
		if !it.invalid {
			tags = append(tags, fmt.Sprintf("validated-len:%d", len(it.validated)))
			tags = append(tags, "leaf-spki:"+w.spkiOf[it.submitted[0]])
			if it.pre && it.finalIssuer != nil {
				// the bytes issuer_key_hash is taken over
				tags = append(tags, "precert-final-issuer-spki:"+w.spkiOf[it.finalIssuer])
			}
		}
		switch {
		case it.pre && strings.Contains(it.shape, "preissuer("), it.pre && strings.Contains(it.shape, "xpre="):
			if it.finalIssuer != nil {
				// the name BuildPrecertTBS has to copy into the entry
				tags = append(tags, "preissuer-final-issuer-dn:"+w.styleOf[it.finalIssuer], "preissuer-final-issuer-dn:"+goWouldReencode(handSubject(it.finalIssuer.DER)))
			}
			tags = append(tags, "kind:precert-preissuer")
		case it.pre:
			tags = append(tags, "kind:precert-direct")
		default:
			tags = append(tags, "kind:cert")
		}

		if it.invalid {
			if status == 200 {
				problem("a chain that must be refused was answered 200")
			}
			if len(issued) > 0 || nQueue > 0 {
				problem("refused request reached the backend or issued an SCT")
			}
			coqSteps = append(coqSteps, fmt.Sprintf("Invalid %s %s %s", lib.Z(int64(status)), lib.Bool(nQueue > 0), lib.Bool(len(issued) > 0)))
			recs, obss = append(recs, sr), append(obss, so)
			return
		}
		used = append(used, it)

		// ---- the model's input: the validated path as the PKI construction says it must be
		var rest []string
		for _, e := range it.validated[1:] {
			rest = append(rest, certInfoCoq(e))
			hash(handSPKI(e.DER))
		}
		hash(it.submitted[0].DER)
		subCoq := fmt.Sprintf("{| s_pre := %s; s_leaf := %s; s_tbs := %s; s_rest := %s; s_now := %s |}",
			lib.Bool(it.pre), lib.Bytes(it.submitted[0].DER), lib.Bytes(it.submitted[0].Cert.RawTBSCertificate), lib.List(rest), lib.Z(now.UnixNano()))

		// ---- observations
		obsQueued := "None"
		if qreq != nil && qreq.Leaf != nil {
			obsQueued = lib.Some(lib.Pair(lib.Bytes(qreq.Leaf.LeafValue), lib.Bytes(qreq.Leaf.ExtraData), lib.Bytes(qreq.Leaf.LeafIdentityHash)))
		}
		obsSCT, obsSigned, obsIssue := "None", "None", "None"
		if len(issued) > 0 {
			obsIssue = lib.Some(lib.Bytes(issued[0]))
		}
		if len(issued) > 1 {
			problem("IssueSCT recorded %d times for one request", len(issued))
		}

		if status != 200 {
			if len(issued) > 0 {
				problem("status %d but an SCT was issued", status)
			}
			if it.expectOK && !conflict {
				problem("a valid submission was answered %d: %s", status, strings.TrimSpace(rec.Body.String()))
			}
		} else {
			if !it.expectOK {
				problem("a submission whose entry cannot be built was answered 200")
			}
			var rsp ct.AddChainResponse
			if err := json.Unmarshal(rec.Body.Bytes(), &rsp); err != nil {
				problem("response is not an AddChainResponse: %v", err)
			}
			sct, err := rsp.ToSignedCertificateTimestamp()
			if err != nil {
				problem("response does not convert to an SCT: %v", err)
				sct = &ct.SignedCertificateTimestamp{}
			}
			so.Timestamp = sct.Timestamp
			obsSCT = lib.Some(lib.Pair(lib.Bytes(sct.LogID.KeyID[:]), lib.Nn(sct.Timestamp), lib.Bytes(sct.Extensions),
				lib.Nn(uint64(sct.Signature.Algorithm.Hash)), lib.Nn(uint64(sct.Signature.Algorithm.Signature)), lib.Bytes(sct.Signature.Signature)))
			// (1) id
			if !bytes.Equal(sct.LogID.KeyID[:], logID[:]) || !bytes.Equal(rsp.ID, logID[:]) {
				problem("SCT id is not SHA-256 of the log's SubjectPublicKeyInfo")
			}
			if sct.SCTVersion != ct.V1 {
				problem("SCT version %d", sct.SCTVersion)
			}
			// (2a) the library's client path on the submitted chain (the root is public: get-roots)
			etype := ct.X509LogEntryType
			if it.pre {
				etype = ct.PrecertLogEntryType
			}
			var raw []ct.ASN1Cert
			for _, e := range it.validated {
				raw = append(raw, ct.ASN1Cert{Data: e.DER})
			}
			var libInput []byte
			cleaf, cerr := ct.MerkleTreeLeafFromRawChain(raw, etype, sct.Timestamp)
			if cerr != nil {
				problem("the client cannot derive an entry from the submitted chain: %v", cerr)
			} else {
				libInput, err = ct.SerializeSCTSignatureInput(*sct, ct.LogEntry{Leaf: *cleaf})
				if err != nil {
					problem("client signature input: %v", err)
				} else if !verifyRaw(w.logKey.Public(), sct.Signature.Algorithm.Hash, libInput, sct.Signature.Signature) {
					problem("the SCT's signature does not verify over the entry the client derives from the submitted chain (library client path)")
					// what DID the log sign?  (observed for the model comparison only)
					if fs := firstSigned[leafKey]; fs != nil && verifyRaw(w.logKey.Public(), sct.Signature.Algorithm.Hash, fs, sct.Signature.Signature) {
						obsSigned = lib.Some(lib.Bytes(fs))
					}
				} else {
					obsSigned = lib.Some(lib.Bytes(libInput))
				}
			}
			wantSig := tls.ECDSA
			if strings.HasPrefix(w.logKind, "rsa") {
				wantSig = tls.RSA
			}
			if sct.Signature.Algorithm.Hash != tls.SHA256 || sct.Signature.Algorithm.Signature != wantSig {
				problem("signature algorithm %v/%v does not match the log key", sct.Signature.Algorithm.Hash, sct.Signature.Algorithm.Signature)
			}
			// (2b) the entry derived by hand from the RFC text (precert: from the FINAL certificate)
			entry, et16, have := handEntry(it)
			if have {
				hi := handSigInput(sct.Timestamp, et16, entry, sct.Extensions)
				if !verifyRaw(w.logKey.Public(), sct.Signature.Algorithm.Hash, hi, sct.Signature.Signature) {
					problem("the SCT's signature does not verify over the RFC 6962 entry derived independently (final certificate without its SCT list, final issuer's key hash)")
				}
				tags = append(tags, "oracle:hand-entry")
			}
			// (3) the queued leaf
			if qreq == nil || qreq.Leaf == nil || nQueue != 1 {
				problem("200 without exactly one QueueLeaf request")
			} else {
				lv := qreq.Leaf.LeafValue
				if len(lv) < 10 {
					problem("LeafValue too short")
				} else {
					reqTS := binary.BigEndian.Uint64(lv[2:10])
					if now.UnixNano() >= 0 && reqTS != uint64(now.UnixNano())/1000000 {
						problem("queued leaf timestamp %d is not the clock's %d ns / 10^6", reqTS, now.UnixNano())
					}
					if have {
						want := handSigInput(reqTS, et16, entry, nil) // MerkleTreeLeaf v1 / timestamped_entry has the same layout
						if !bytes.Equal(lv, want) {
							problem("LeafValue is not the TLS encoding of the independently derived entry at the request's timestamp")
						}
					}
					if it.pre && it.finalIssuer != nil {
						// (2c) field by field against the certificate the PKI construction knows to be the final issuer
						if len(lv) < 14 || lv[0] != 0 || lv[1] != 0 || lv[10] != 0 || lv[11] != 1 {
							problem("LeafValue is not a v1 timestamped precert_entry")
						} else if len(lv) < 16 || lv[len(lv)-2] != 0 || lv[len(lv)-1] != 0 {
							problem("LeafValue does not end with empty CtExtensions")
						} else if what := precertEntryFacts(lv[12:len(lv)-2], it.finalIssuer, it.submitted[0].DER); what != "" {
							problem("queued precertificate entry (final issuer %s): %s", it.finalIssuer.Cert.Subject.CommonName, what)
						}
						tags = append(tags, "oracle:entry-fields")
					}
					if l2, e2 := ct.MerkleTreeLeafFromRawChain(raw, etype, reqTS); e2 == nil {
						if b2, e3 := tls.Marshal(*l2); e3 != nil || !bytes.Equal(b2, lv) {
							problem("LeafValue is not the TLS encoding of the client-derived entry at the request's timestamp")
						}
					}
				}
				want := sha256.Sum256(it.submitted[0].DER)
				if !bytes.Equal(qreq.Leaf.LeafIdentityHash, want[:]) {
					problem("LeafIdentityHash is not SHA-256 of the submitted leaf certificate")
				}
				if !bytes.Equal(qreq.Leaf.ExtraData, handExtraData(it.pre, it.validated)) {
					problem("ExtraData (%d bytes) is not the RFC 6962 4.6 encoding of the validated chain after the leaf (%d certificates, root included)", len(qreq.Leaf.ExtraData), len(it.validated)-1)
				}
				// what a get-entries client makes of the stored pair (leaf_input, extra_data)
				if rle, derr := ct.RawLogEntryFromLeaf(0, &ct.LeafEntry{LeafInput: qreq.Leaf.LeafValue, ExtraData: qreq.Leaf.ExtraData}); derr != nil {
					problem("a get-entries client cannot decode the queued leaf with its extra data: %v", derr)
				} else {
					if !bytes.Equal(rle.Cert.Data, it.submitted[0].DER) {
						problem("the decoded entry's certificate is not the submitted leaf")
					}
					same := len(rle.Chain) == len(it.validated)-1
					for k := 0; same && k < len(rle.Chain); k++ {
						same = bytes.Equal(rle.Chain[k].Data, it.validated[k+1].DER)
					}
					if !same {
						problem("the decoded entry's chain is not the validated chain after the leaf")
					}
				}
			}
			// (4) timestamps: a repeat carries the stored timestamp, a first submission the clock's
			if first, ok := firstTS[leafKey]; ok {
				if sct.Timestamp != first {
					problem("repeated submission got timestamp %d, the stored entry has %d", sct.Timestamp, first)
				}
				if !lastDup {
					problem("backend did not see a duplicate for a repeated leaf")
				}
				if libInput != nil && !bytes.Equal(libInput, firstSigned[leafKey]) {
					problem("repeated submission: the signed bytes differ from the first submission's")
				}
			} else {
				if now.UnixNano() >= 0 && sct.Timestamp != uint64(now.UnixNano())/1000000 {
					problem("first submission got timestamp %d, the clock says %d ns", sct.Timestamp, now.UnixNano())
				}
				if lastDup {
					problem("backend reported a duplicate for a first submission")
				}
				firstTS[leafKey] = sct.Timestamp
				firstSigned[leafKey] = libInput
				firstIssuance[leafKey] = it.issuance
			}
			// (5) RequestLog.IssueSCT carries that SCT
			if len(issued) != 1 {
				problem("IssueSCT recorded %d times on success", len(issued))
			} else {
				var logged ct.SignedCertificateTimestamp
				if rest, err := tls.Unmarshal(issued[0], &logged); err != nil || len(rest) != 0 {
					problem("IssueSCT bytes do not decode")
				} else if logged.Timestamp != sct.Timestamp || logged.LogID != sct.LogID || !bytes.Equal(logged.Signature.Signature, sct.Signature.Signature) ||
					!bytes.Equal(logged.Extensions, sct.Extensions) {
					problem("IssueSCT records another SCT than the response carries")
				}
			}
		}
		coqSteps = append(coqSteps, fmt.Sprintf("Valid %s {| o_status := %s; o_queued := %s; o_dup := %s; o_sct := %s; o_signed := %s; o_issue := %s |}",
			subCoq, lib.Z(int64(status)), obsQueued, lib.Bool(lastDup), obsSCT, obsSigned, obsIssue))
		recs, obss = append(recs, sr), append(obss, so)
	}

	// a round of requests that are in flight together (overlap.go)
	round := func(kind string) bool {
		k := 2 + r.Intn(3)
		distinct := kind == "free"
		if distinct {
			k = 2 + r.Intn(2)
		}
		var reqs []*request
		inRound := map[string]bool{}
		twice := false
		for tries := 0; len(reqs) < k && tries < 40; tries++ {
			var it *item
			if len(reqs) > 0 && !distinct && r.Intn(3) == 0 && !reqs[len(reqs)-1].it.invalid {
				// the same leaf certificate twice in one round, with the same or another chain:
				// the later of the two (as the backend sees them) is a repeat
				same := siblings(reqs[r.Intn(len(reqs))].it)
				if len(same) == 0 {
					continue
				}
				it = same[r.Intn(len(same))]
			} else {
				it = pick(false)
			}
			leaf := string(it.submitted[0].DER)
			if inRound[leaf] {
				if distinct {
					continue
				}
				twice = true
			}
			inRound[leaf] = true
			q := newRequest(it)
			q.idx = len(reqs)
			reqs = append(reqs, q)
		}
		if len(reqs) < 2 {
			return true
		}
		rr := roundRec{Kind: kind, First: s + 1}
		finished := true
		switch kind {
		case "lockstep":
			policy, choose := "random", func(live []*request) *request { return live[r.Intn(len(live))] }
			switch r.Intn(4) {
			case 0, 1:
				policy, choose = "rendezvous", rendezvous(false)
			case 2:
				policy, choose = "rendezvous-reverse", rendezvous(true)
			}
			rr.Policy = policy
			rr.Schedule, finished = run.lockstep(reqs, choose)
		case "free":
			// one clock value: any serial order of requests for distinct leaves is the same history
			now, clockClass := clockValue(r)
			for _, q := range reqs {
				q.now, q.clockClass = now, clockClass
			}
			rr.Policy = "go-scheduler"
			finished = run.free(reqs, now)
		}
		name := fmt.Sprintf("%s/%s#%d", kind, rr.Policy, len(rounds))
		for _, q := range reqs {
			q.round = name
			rr.Members = append(rr.Members, q.it.name)
		}
		rounds = append(rounds, rr)
		tags = append(tags, "round:"+kind+"/"+rr.Policy, fmt.Sprintf("round-size:%d", len(reqs)))
		if twice {
			tags = append(tags, "round:same-leaf-twice")
		}
		env.Backend.Reset()
		env.ReqLog.Reset()
		if !finished {
			propOK = false
			otherProblems++
			notes = append(notes, fmt.Sprintf("round %s of %d requests %v did not finish within %v (schedule so far: %s)", name, len(reqs), rr.Members, roundPatience, rr.Schedule))
			return false
		}
		// the order in which the backend saw them is the order of the history
		sort.SliceStable(reqs, func(a, b int) bool {
			qa, qb := reqs[a], reqs[b]
			if (len(qa.queue) > 0) != (len(qb.queue) > 0) {
				return len(qa.queue) > 0
			}
			return len(qa.queue) > 0 && qa.queueSeq < qb.queueSeq
		})
		for _, q := range reqs {
			judge(q)
		}
		return true
	}

	// one step of every history (besides what the random picks bring) submits a trusted certificate
	// on its own; one lock-step round and one free round stand somewhere between the steps
	nSteps++
	aloneAt := r.Intn(nSteps)
	lockAt, freeAt := r.Intn(nSteps+1), r.Intn(nSteps+1)
	for k := 0; k <= nSteps; k++ {
		if k == lockAt && !round("lockstep") {
			break
		}
		if k == freeAt && !round("free") {
			break
		}
		if k == nSteps {
			break
		}
		q := newRequest(pick(k == aloneAt))
		run.alone(q)
		env.Backend.Reset()
		env.ReqLog.Reset()
		judge(q)
	}

	var tab []string
	for _, k := range htabOrder {
		tab = append(tab, lib.Pair(lib.Bytes([]byte(k)), lib.Bytes(htab[k])))
	}
	kind := "KEcdsa"
	if strings.HasPrefix(w.logKind, "rsa") {
		kind = "KRsa"
	}
	note := strings.Join(notes, " | ")
	if otherProblems == 0 && conflictProblems > 0 {
		// the one known way to violate the property: see pending_fixes/C01-1.md
		note = "cross-certified-preissuer-dedup: " + notes[0]
	}
	out.Add(lib.Case{
		Coq:    fmt.Sprintf("CHistory %s %s %s %s", lib.Bytes(logSPKI), kind, lib.List(tab), "["+strings.Join(coqSteps, "; ")+"]"),
		Input:  map[string]interface{}{"log_key": w.logKind, "options": w.opts, "roots": len(w.roots), "steps": recs, "rounds": rounds},
		Impl:   obss,
		PropOK: propOK, Note: note, Tags: tags,
	})
}

func main() {
	flag.Parse()
	klog.LogToStderr(false)
	klog.SetOutput(io.Discard)
	r := lib.Rand()
	out := lib.NewWriter(header, 2)
	defer out.Guard()
	// (a history is 5-10 requests on their own plus two rounds of 2-4 requests in flight together)
	n := lib.Count(26, 150)
	for i := 0; i < n; i++ {
		w := &world{r: r, id: i}
		w.logKind = logKinds[i%len(logKinds)]
		if r.Intn(5) == 0 {
			w.logKind = logKinds[r.Intn(len(logKinds))]
		}
		w.logKey = logKeyOf(w.logKind)
		w.build()
		w.opts = drawOpts(r, i%5 == 4) // every fifth history runs the plain configuration (5 and the 6 key kinds are coprime)
		runHistory(w, 4+r.Intn(6), out)
	}
	out.Close()
	fmt.Printf("c01: wrote %d histories\n", out.Len())
}
