package main

import (
	"bytes"
	"crypto/sha256"
	"fmt"
	"sort"
	"strings"
	"sync/atomic"

	"verif/harness/lib"
)

// world = the logs and the tree family of one case
type world struct {
	logs  []*logT // A, B configured; K configured under a key string that is not base64; U not configured
	trees []*tree // T0 honest, F1 forks late, F2 forks early, F3 unrelated
	// roots the harness itself built by hashing a node preimage that is not 0x01 || 32 bytes || 32 bytes
	// (directly or further down the chain): not the root of any RFC 6962 tree.  root -> how it was built
	nonTree map[string]string
	// unconfigured id strings that are alternative spellings of a configured id (spelling.go)
	aliases map[*logT][]*logT
}

func (h *harness) newWorld() *world {
	w := &world{}
	// log ids are base64 text; A's id is drawn until it contains both characters that the URL-safe
	// alphabet spells differently (about one key in four), B's is whatever comes
	both := func(id string) bool { return strings.Contains(id, "/") && strings.Contains(id, "+") }
	w.logs = []*logT{newLogWith("A", true, false, both), newLog("B", true, false), newLog("K", true, true), newLog("U", false, false)}
	n := 6 + h.r.Intn(30)
	base := h.randLeaves(n)
	fork := func(at int) [][]byte {
		ls := make([][]byte, n)
		copy(ls, base)
		for i := at; i < n; i++ {
			ls[i] = append([]byte{0xf0, byte(at)}, base[i]...)
		}
		return ls
	}
	late := n/2 + h.r.Intn(n-n/2)
	early := h.r.Intn(n/2 + 1)
	w.trees = []*tree{newTree("T0", base), newTree(fmt.Sprintf("F1@%d", late), fork(late)), newTree(fmt.Sprintf("F2@%d", early), fork(early)), newTree("F3", h.randLeaves(n))}
	return w
}

// which known trees have this root at this size
func (w *world) owners(size uint64, root []byte) []*tree {
	var out []*tree
	for _, t := range w.trees {
		if size <= t.size() && bytes.Equal(t.root(size), root) {
			out = append(out, t)
		}
	}
	return out
}

// heldT = what the harness has OBSERVED to be held for a log (via GetSTH / accepted updates)
type heldT struct {
	p   psth
	raw []byte
}

type step struct {
	op  *opT
	obs *obsT
}

// ---- the direct oracle: the property's sentences on the observed history ----

type oracle struct {
	w         *world
	in        *instance
	held      map[string]*heldT // by log id
	submitted map[string]bool
	ok        bool
	note      string
	tags      map[string]bool
	strict    bool
	// restart histories only (restart.go): what was held for a log when a restart took it out of the
	// configuration.  The property says nothing about such a row until the log is configured again.
	dormant map[string]*heldT
}

func (o *oracle) fail(format string, a ...interface{}) {
	if o.ok {
		o.ok, o.note = false, fmt.Sprintf(format, a...)
	}
}

func sthKey(p psth) string {
	return fmt.Sprintf("size=%d root=%x time=%d", p.Size, p.Root[:4], p.Time)
}

// afterUpdate: u = the update step, g = the GetSTH issued right after it on the same log.
func (o *oracle) afterUpdate(u, g step, ri *rawInfo) {
	l := u.op.log
	before := o.held[l.id]
	if u.obs.kind == "panic" || g.obs.kind == "panic" {
		o.fail("panic or hang: %s %s", u.obs.note, g.obs.note)
		return
	}
	// what is held now, as GetSTH reports it
	var after *psth
	switch {
	case g.obs.class == "EOk" && g.obs.cosigned:
		after = &g.obs.p
		if !g.obs.verified {
			o.fail("GetSTH cosignature does not verify (%s)", sthKey(g.obs.p))
		}
	case g.obs.class == "ENotFound":
	default:
		if l.configured && l.idHash != nil {
			o.fail("GetSTH on log %s answered %s", l.name, g.obs.class)
		}
	}
	// cosignatures the witness produced verify, over the STH it now holds
	if u.obs.cosigned {
		if !u.obs.verified {
			o.fail("Update cosignature does not verify (%s)", sthKey(u.obs.p))
		}
		if after == nil || !after.sameSigned(u.obs.p) {
			o.fail("Update returned a cosigned STH (%s) that is not the held one", sthKey(u.obs.p))
		}
	}
	if u.obs.junkSigs {
		o.tags["finding:C19-2:echoed-foreign-witness-signature"] = true
		if o.strict {
			o.fail("C19-2 response body carries a witness signature that does not verify (stored raw echoed verbatim)")
		}
	}
	changed := (before == nil) != (after == nil) || (before != nil && !before.p.sameSigned(*after))
	// an id string that is not byte-identical to a configured one names an unknown log, however
	// close it comes (another spelling of a configured id included): refused, nothing held under it
	if !l.configured {
		what := "not a configured log id"
		if l.aliasOf != nil {
			what = fmt.Sprintf("not a configured log id, only another spelling (%s) of log %s's id %q", l.spelling, l.aliasOf.name, l.aliasOf.id)
		}
		if u.obs.class == "EOk" || u.obs.body != nil {
			o.fail("update addressed to log id %q (%s) was not refused as an unknown log (answer %s): %s", l.id, what, u.obs.class, u.op.desc)
		}
		if after != nil {
			o.fail("an STH (%s) is held under log id %q (%s): %s", sthKey(*after), l.id, what, u.op.desc)
		}
	}
	// a candidate that carries the configured log's signature and is stale or inconsistent with the held
	// STH is refused AND answered with the held one - whatever is wrong with it (smaller, same size with
	// another root, or larger with a proof that does not prove it: wrong hashes, wrong NUMBER of nodes,
	// no proof at all).  "Does not prove it" is decided here by the RFC 9162 2.1.4.2 algorithm written
	// out by hand (rfcRoots), not by the library the witness calls.  No excuse unless a database
	// refusal was possible (fault is set by the concurrent stream only, see dbFaultPossible).
	if l.configured && l.idHash != nil && ri.ok && ri.verdict[l.id] && before != nil && u.op.fault == "NoFault" &&
		(bytes.Equal(ri.p.LogID, make([]byte, 32)) || bytes.Equal(ri.p.LogID, l.idHash)) {
		why := ""
		switch {
		case ri.p.Size < before.p.Size:
			why = "stale"
		case ri.p.Size == before.p.Size && !bytes.Equal(ri.p.Root, before.p.Root):
			why = "same size, other root"
		case ri.p.Size > before.p.Size && before.p.Size > 0 && !proofProves(before.p.Size, ri.p.Size, u.op.proof, before.p.Root, ri.p.Root):
			why = fmt.Sprintf("inconsistent: %s", proofShape(o.w, before.p.Size, ri.p.Size, u.op.proof))
			o.tags["refusal-proof-shape:"+proofShapeTag(o.w, before.p.Size, ri.p.Size, u.op.proof)] = true
			// (with VERIF_C19_STRICT=0, odd-sized nodes are finding C19-1 and only tagged, further down)
			if u.obs.class == "EOk" && changed && (o.strict || proofShapeTag(o.w, before.p.Size, ri.p.Size, u.op.proof) != "odd-sized-node") {
				o.fail("held (%d,%x) replaced by (%d,%x) on a proof that does not prove consistency (%s): %s", before.p.Size, before.p.Root[:4], ri.p.Size, ri.p.Root[:4], why, u.op.desc)
			}
		}
		if why != "" && u.obs.class != "EFailedPre" && u.obs.class != "EOk" {
			o.fail("candidate refused as %s was answered %s%s instead of FailedPrecondition / 409 with the held STH (%s) cosigned: %s",
				why, u.obs.class, httpNote(u.obs), sthKey(before.p), u.op.desc)
		}
	}
	switch {
	case changed && before == nil:
		o.tags["outcome:first-use-stored"] = true
	case changed:
		o.tags["outcome:extended"] = true
	case u.obs.class == "EOk":
		o.tags["outcome:same-sth-noop"] = true
	case u.obs.class == "EFailedPre" && ri.ok && before != nil && ri.p.Size < before.p.Size:
		o.tags["outcome:refused-stale"] = true
	case u.obs.class == "EFailedPre" && ri.ok && before != nil && ri.p.Size == before.p.Size:
		o.tags["outcome:refused-same-size-other-root"] = true
	case u.obs.class == "EFailedPre":
		o.tags["outcome:refused-proof"] = true
	case u.obs.class == "ENotFound":
		o.tags["outcome:unknown-log"] = true
	case u.op.fault != "NoFault":
		o.tags["outcome:db-refusal"] = true
	default:
		o.tags["outcome:refused-unparsable-or-unsigned"] = true
	}
	if u.obs.class == "EOk" && (!ri.ok || after == nil || after.Size != ri.p.Size || !bytes.Equal(after.Root, ri.p.Root)) {
		o.fail("success answer, but the candidate is not what the witness holds afterwards: %s", u.op.desc)
	}
	if u.obs.class != "EOk" && changed {
		o.fail("refused update (%s) changed the held STH of log %s: %s", u.obs.class, l.name, u.op.desc)
	}
	if u.obs.class == "EFailedPre" {
		heldCosigned := before != nil && u.obs.cosigned && u.obs.verified && u.obs.p.sameSigned(before.p)
		if before == nil || !(bytes.Equal(u.obs.body, before.raw) || heldCosigned) {
			o.fail("FailedPrecondition not answered with the held STH: %s", u.op.desc)
		}
	}
	if before != nil && after == nil {
		o.fail("held STH of log %s disappeared", l.name)
	}
	if changed && after != nil {
		// stored only if signed by the configured log, and only what was submitted
		if !ri.ok || !ri.verdict[l.id] || !l.configured {
			o.fail("stored an STH without a valid signature of log %s: %s", l.name, u.op.desc)
		}
		if ri.ok && !after.sameSigned(ri.p) {
			o.fail("held STH is not the submitted candidate: %s", u.op.desc)
		}
		if ri.ok && !bytes.Equal(ri.p.LogID, make([]byte, 32)) && !bytes.Equal(ri.p.LogID, l.idHash) {
			o.fail("stored an STH naming another log: %s", u.op.desc)
		}
		if before != nil {
			if after.Size < before.p.Size {
				o.fail("held size shrank %d -> %d on log %s: %s", before.p.Size, after.Size, l.name, u.op.desc)
			}
			if after.Size == before.p.Size && !bytes.Equal(after.Root, before.p.Root) {
				o.fail("same size %d, different root on log %s: %s", after.Size, l.name, u.op.desc)
			}
			// genuine extension, recomputed from the known leaves
			if own := o.w.owners(after.Size, after.Root); len(own) > 0 && before.p.Size > 0 {
				good := false
				for _, t := range own {
					if bytes.Equal(t.root(before.p.Size), before.p.Root) {
						good = true
					}
				}
				if !good {
					if len(o.w.owners(before.p.Size, before.p.Root)) == 0 {
						// the earlier root is not a tree root at all (the log signed something else):
						// outside the property's family of honest and forked trees - finding C19-1
						o.tags["finding:C19-1:non-tree-root-extended"] = true
						if o.strict {
							o.fail("C19-1 held (%d, non-tree root) replaced by (%d, %s root) on a proof with odd-length nodes", before.p.Size, after.Size, own[0].name)
						}
					} else {
						o.fail("held (%d,%x) replaced by (%d,%x) of tree %s which does not extend it: %s", before.p.Size, before.p.Root[:4], after.Size, after.Root[:4], own[0].name, u.op.desc)
					}
				}
			}
			// a root that is not a tree root is neither an extension of anything nor extensible
			if before.p.Size > 0 && after.Size > before.p.Size {
				why, bad := o.w.nonTree[string(after.Root)]
				side := "new"
				if !bad {
					why, bad = o.w.nonTree[string(before.p.Root)]
					side = "held"
				}
				if bad {
					o.tags["finding:C19-1:non-tree-root-chained"] = true
					if o.strict {
						o.fail("held (%d,%x) replaced by (%d,%x) which is not a genuine extension: the %s root is %s: %s", before.p.Size, before.p.Root[:4], after.Size, after.Root[:4], side, why, u.op.desc)
					}
				}
			}
		}
		o.held[l.id] = &heldT{p: *after, raw: u.op.raw}
	}
	// a candidate the generator knows not to be a genuine extension of what is held
	if u.op.mustRefuse != "" && before != nil && u.obs.class == "EOk" {
		o.tags["finding:C19-1:non-tree-root-chained"] = true
		if o.strict {
			o.fail("accepted a successor that is not a genuine extension (%s): %s", u.op.mustRefuse, u.op.desc)
		}
	}
}

func (o *oracle) onGetSTH(s step) {
	l := s.op.log
	hd := o.held[l.id]
	if s.obs.kind == "panic" {
		o.fail("panic or hang in GetSTH: %s", s.obs.note)
		return
	}
	switch {
	case hd == nil:
		if s.obs.class == "EOk" {
			o.fail("GetSTH returned an STH for log %s which holds none", l.name)
		}
	default:
		if !(s.obs.class == "EOk" && s.obs.cosigned && s.obs.verified && s.obs.p.sameSigned(hd.p)) {
			o.fail("GetSTH on log %s did not return the held STH cosigned", l.name)
		}
	}
}

func (o *oracle) onGetLogs(s step) {
	if s.obs.kind == "panic" {
		o.fail("panic or hang in GetLogs: %s", s.obs.note)
		return
	}
	var want []string
	for id := range o.held {
		want = append(want, id)
	}
	sort.Strings(want)
	got := s.obs.logs
	if len(o.dormant) > 0 { // rows of logs that a restart took out of the configuration may or may not be listed
		got = nil
		for _, id := range s.obs.logs {
			if o.dormant[id] == nil || o.held[id] != nil {
				got = append(got, id)
			}
		}
	}
	if s.obs.logsErr || strings.Join(want, "|") != strings.Join(got, "|") {
		o.fail("GetLogs = %v, logs with a held STH = %v", s.obs.logs, want)
	}
}

// ---- candidate generation ----

type scenario struct {
	name string
	w    int
}

var scenarios = []scenario{
	{"advance", 30}, {"advance-badproof", 26}, {"fork", 10}, {"stale", 7}, {"replay", 5}, {"resigned-same", 3},
	{"same-size-other-root", 5}, {"bad-sig", 6}, {"wrong-id", 4}, {"unknown-log", 3}, {"badkey-log", 2},
	{"malformed", 4}, {"zero-size", 2}, {"garbage-root", 3}, {"huge-size", 2}, {"junk-cosig", 3}, {"version", 1},
	{"alt-spelling", 6},
}

func (h *harness) pickScenario() string {
	tot := 0
	for _, s := range scenarios {
		tot += s.w
	}
	k := h.r.Intn(tot)
	for _, s := range scenarios {
		if k < s.w {
			return s.name
		}
		k -= s.w
	}
	return "advance"
}

var proofKinds = []string{"other-sizes", "other-fork", "truncated-front", "truncated-back", "padded-back", "padded-front", "random", "empty",
	"bitflip", "duplicate", "reversed", "swapped", "short-node", "long-node", "for-smaller-held", "for-larger-next"}

func (h *harness) mutateProof(kind string, w *world, t *tree, m, n uint64) [][]byte {
	good := cloneProof(t.cons(m, n))
	rnd := func() []byte { b := make([]byte, 32); h.r.Read(b); return b }
	switch kind {
	case "other-sizes":
		a := uint64(h.r.Intn(int(t.size()) + 1))
		b := a + uint64(h.r.Intn(int(t.size()-a)+1))
		return cloneProof(t.cons(a, b))
	case "other-fork":
		o := w.trees[1+h.r.Intn(len(w.trees)-1)]
		if o == t {
			o = w.trees[0]
		}
		return cloneProof(o.cons(m, n))
	case "truncated-front":
		if len(good) > 0 {
			return good[1:]
		}
	case "truncated-back":
		if len(good) > 0 {
			return good[:len(good)-1]
		}
	case "padded-back":
		return append(good, rnd())
	case "padded-front":
		return append([][]byte{rnd()}, good...)
	case "random":
		k := h.r.Intn(8)
		var p [][]byte
		for i := 0; i < k; i++ {
			p = append(p, rnd())
		}
		return p
	case "empty":
		return nil
	case "bitflip":
		if len(good) > 0 {
			i := h.r.Intn(len(good))
			good[i][h.r.Intn(32)] ^= 1 << uint(h.r.Intn(8))
		}
	case "duplicate":
		if len(good) > 0 {
			i := h.r.Intn(len(good))
			good = append(good[:i+1], good[i:]...)
		}
	case "reversed":
		for i, j := 0, len(good)-1; i < j; i, j = i+1, j-1 {
			good[i], good[j] = good[j], good[i]
		}
	case "swapped":
		if len(good) > 1 {
			i := h.r.Intn(len(good) - 1)
			good[i], good[i+1] = good[i+1], good[i]
		}
	case "short-node":
		if len(good) > 0 {
			i := h.r.Intn(len(good))
			good[i] = good[i][:31]
		}
	case "long-node":
		if len(good) > 0 {
			i := h.r.Intn(len(good))
			good[i] = append(good[i], 0)
		}
	case "for-smaller-held":
		if m > 1 {
			return cloneProof(t.cons(m-1, n))
		}
	case "for-larger-next":
		if n < t.size() {
			return cloneProof(t.cons(m, n+1))
		}
	}
	return good
}

// nextOp builds one update for log l given what the harness has observed to be held.
func (h *harness) nextUpdate(w *world, l *logT, hd *heldT, ts *uint64) *opT {
	return h.nextUpdateOf(h.pickScenario(), w, l, hd, ts)
}

// nextUpdateOf: the update of scenario sc (one of `scenarios`).
func (h *harness) nextUpdateOf(sc string, w *world, l *logT, hd *heldT, ts *uint64) *opT {
	*ts++
	T0 := w.trees[0]
	// the tree the held STH belongs to (if any)
	cur := T0
	var m uint64
	if hd != nil {
		m = hd.p.Size
		if own := w.owners(hd.p.Size, hd.p.Root); len(own) > 0 {
			cur = own[h.r.Intn(len(own))]
		}
	}
	spec := sthSpec{ts: *ts, signer: l, sigMode: "good", idMode: []string{"absent", "absent", "own"}[h.r.Intn(3)], idOwner: l,
		form: []string{"std", "std", "getsth", "spaced"}[h.r.Intn(4)]}
	op := &opT{kind: "update", log: l, fault: "NoFault"}
	pickLarger := func(t *tree) uint64 {
		if m >= t.size() {
			return t.size()
		}
		switch h.r.Intn(4) {
		case 0:
			return m + 1
		case 1:
			return t.size()
		}
		return m + 1 + uint64(h.r.Intn(int(t.size()-m)))
	}
	setTree := func(t *tree, n uint64) {
		if n > t.size() { // beyond every known tree (a huge STH is held): the log signs an arbitrary root
			g := sha256.Sum256([]byte(fmt.Sprintf("beyond %s %d", t.name, n)))
			spec.size, spec.root = n, g[:]
			return
		}
		spec.size, spec.root = n, t.root(n)
		if m > 0 && m <= n {
			op.proof = cloneProof(t.cons(m, n))
		}
	}
	switch sc {
	case "advance":
		n := pickLarger(cur)
		setTree(cur, n)
		if hd == nil && h.r.Intn(3) > 0 { // leave room to grow after first use
			n = 1 + uint64(h.r.Intn(int(cur.size())/2+1))
			setTree(cur, n)
		}
	case "advance-badproof":
		n := pickLarger(cur)
		setTree(cur, n)
		kind := proofKinds[h.r.Intn(len(proofKinds))]
		op.proof = h.mutateProof(kind, w, cur, m, n)
		sc += ":" + kind
	case "fork":
		t := w.trees[1+h.r.Intn(3)]
		setTree(t, pickLarger(t))
		sc += ":" + t.name
	case "stale":
		if m > 0 {
			mm := m
			if mm > cur.size() {
				mm = cur.size()
			}
			n := uint64(h.r.Intn(int(mm)))
			if h.r.Intn(3) == 0 {
				n = m - 1
			}
			setTree(cur, n)
			op.proof = cloneProof(cur.cons(n, mm))
		} else {
			setTree(cur, pickLarger(cur))
		}
	case "replay":
		if hd != nil {
			op.raw = hd.raw
			if h.r.Intn(2) == 0 {
				op.proof = [][]byte{make([]byte, 32)}
			}
		} else {
			setTree(cur, pickLarger(cur))
		}
	case "resigned-same":
		setTree(cur, m)
		if hd != nil {
			spec.root = hd.p.Root
		}
	case "same-size-other-root":
		t := w.trees[1+h.r.Intn(3)]
		n := m
		if n == 0 || n > t.size() {
			n = t.size()
		}
		setTree(t, n)
	case "bad-sig":
		setTree(cur, pickLarger(cur))
		switch h.r.Intn(3) {
		case 0:
			spec.sigMode = "flip"
		case 1:
			spec.sigMode = "othersize"
		default:
			spec.signer = w.logs[(indexOf(w.logs, l)+1)%len(w.logs)]
			sc += ":other-key"
		}
	case "wrong-id":
		setTree(cur, pickLarger(cur))
		spec.form = "std"
		switch h.r.Intn(3) {
		case 0:
			spec.idMode, spec.idOwner = "other", w.logs[1-indexOf(w.logs[:2], l)&1]
			if h.r.Intn(2) == 0 {
				// a genuine STH of the OTHER configured log (its id, its signature) sent to this log's endpoint
				spec.signer = spec.idOwner
				sc += ":other-logs-sth"
			}
		case 1:
			spec.idMode = "random"
		default: // the right id with one bit flipped somewhere
			spec.idMode = "near"
			sc += ":near"
		}
	case "unknown-log":
		op.log = w.logs[3]
		spec.signer, spec.idOwner = op.log, op.log
		setTree(cur, pickLarger(cur))
	case "alt-spelling":
		// a genuinely signed STH of this log (successor with its proof, stale, forked, or the held bytes
		// again) addressed to a string that is not the configured id but another spelling of it
		as := w.aliasesOf(l)
		al := as[h.r.Intn(len(as))]
		if h.r.Intn(2) == 0 { // half of the draws: the spellings other software produces routinely
			var common []*logT
			for _, a := range as {
				switch a.spelling {
				case "urlsafe", "urlsafe-nopad", "nopad", "percent-query", "percent-path", "hex", "lower-case", "trailing-newline":
					common = append(common, a)
				}
			}
			al = common[h.r.Intn(len(common))]
		}
		op.log = al
		sc += ":" + al.spelling
		switch x := h.r.Intn(4); {
		case x == 0 && m > 0:
			mm := m
			if mm > cur.size() {
				mm = cur.size()
			}
			setTree(cur, uint64(h.r.Intn(int(mm))))
			op.proof = nil
			sc += ":stale"
		case x == 1:
			t := w.trees[1+h.r.Intn(3)]
			setTree(t, pickLarger(t))
			sc += ":fork"
		case x == 2 && hd != nil:
			op.raw = hd.raw
			sc += ":replay"
		default:
			setTree(cur, pickLarger(cur))
			sc += ":successor"
		}
	case "badkey-log":
		op.log = w.logs[2]
		spec.signer, spec.idOwner, spec.idMode = op.log, op.log, "absent"
		setTree(cur, pickLarger(cur))
	case "malformed":
		setTree(cur, pickLarger(cur))
		raw := h.buildSTH(spec)
		switch h.r.Intn(5) {
		case 0:
			raw = raw[:len(raw)/2]
		case 1:
			raw = []byte("not json")
		case 2:
			raw = nil
		case 3:
			raw = bytes.Replace(raw, []byte(`"tree_size":`), []byte(`"tree_size":-`), 1)
		default: // a 31-byte root
			raw = []byte(fmt.Sprintf(`{"tree_size":%d,"timestamp":1,"sha256_root_hash":"AAAAAAAAAAAAAAAAAAAAAAAAAAAAAAAAAAAAAAAAAA==","tree_head_signature":"BAMAAA=="}`, spec.size))
		}
		op.raw = raw
		if raw == nil {
			op.raw = []byte{}
		}
	case "zero-size":
		spec.size, spec.root = 0, cur.root(0)
		if h.r.Intn(2) == 0 {
			g := sha256.Sum256([]byte{byte(h.r.Intn(256))})
			spec.root = g[:]
		}
	case "garbage-root":
		g := make([]byte, 32)
		h.r.Read(g)
		spec.size, spec.root = pickLarger(cur), g
		if m <= spec.size {
			op.proof = cloneProof(cur.cons(m, spec.size))
		}
	case "huge-size":
		g := make([]byte, 32)
		h.r.Read(g)
		spec.size = []uint64{1 << 63, 1<<64 - 1, 1<<63 + 5, 1 << 40, 1<<32 + 1}[h.r.Intn(5)]
		spec.root = g
		k := h.r.Intn(6)
		if h.r.Intn(6) == 0 {
			k = 60 + h.r.Intn(10)
		}
		for i := 0; i < k; i++ {
			b := make([]byte, 32)
			h.r.Read(b)
			op.proof = append(op.proof, b)
		}
	case "junk-cosig":
		setTree(cur, pickLarger(cur))
		spec.form = "junk-cosig"
	case "version":
		setTree(cur, pickLarger(cur))
		spec.version = 1
		spec.form = "junk-cosig"
	}
	if op.raw == nil {
		op.raw = h.buildSTH(spec)
	}
	op.desc = fmt.Sprintf("%s log=%s held=%d cand=%d proof=%d", sc, op.log.name, m, spec.size, len(op.proof))
	return op
}

func indexOf(ls []*logT, l *logT) int {
	for i, x := range ls {
		if x == l {
			return i
		}
	}
	return 0
}

// ---- emitting a CHist case ----

type histCase struct {
	w       *world
	steps   []step
	raws    []*rawInfo
	tab     *hashTab
	mode    string
	tags    map[string]bool
	propOK  bool
	note    string
	extraIn map[string]interface{}
	// restart histories: the epochs that are over (steps = the epoch that is running); the case is then a
	// CEpochs term
	epochs []*epochT
}

// epochT = one Witness value over the database: from one witness.New to the next
type epochT struct {
	how   string  // how the Witness value came to be: first | same-handle | reopened-file | second-instance
	cfg   []*logT // the configured logs
	steps []step
}

// coqLogs: the configuration as the model's table (id string, what it decodes to), and the names.
// all = false: the members of ls that are configured now.
func coqLogs(ls []*logT, all bool) (string, []string) {
	var logs, names []string
	for _, l := range ls {
		if !all && !l.configured {
			continue
		}
		idh := "None"
		if l.idHash != nil {
			idh = lib.Some(hx(l.idHash))
		}
		logs = append(logs, lib.Pair(hx([]byte(l.id)), idh))
		names = append(names, l.name)
	}
	return lib.List(logs), names
}

func (h *harness) emitHist(hc *histCase) {
	cb := newCaseBuilder()
	curCB = cb
	logs, _ := coqLogs(hc.w.logs, false)
	var raws []string
	seen := map[string]bool{}
	for _, ri := range hc.raws {
		if seen[string(ri.raw)] {
			continue
		}
		seen[string(ri.raw)] = true
		if !ri.ok {
			raws = append(raws, lib.Pair(rawTag(ri.raw), "None"))
			continue
		}
		var vs []string
		for _, l := range hc.w.logs {
			if l.configured || l.pool {
				vs = append(vs, lib.Pair(hx([]byte(l.id)), lib.Bool(ri.verdict[l.id])))
			}
		}
		raws = append(raws, lib.Pair(rawTag(ri.raw), lib.Some(lib.Pair(ri.p.coq(), lib.List(vs)))))
	}
	var inJ, obJ []interface{}
	coqSteps := func(steps []step) string {
		var ops []string
		for _, s := range steps {
			ops = append(ops, lib.Pair(s.op.coq(), s.obs.coq()))
			inJ = append(inJ, s.op.json())
			obJ = append(obJ, s.obs.json())
		}
		return lib.List(ops)
	}
	var ctor, body string
	if hc.epochs == nil {
		ctor, body = "CHist", coqSteps(hc.steps)
	} else {
		// the JSON mirror keeps one flat list with an entry per witness.New (the Coq term has one list per epoch)
		var eps []string
		for _, ep := range hc.epochs {
			cfg, names := coqLogs(ep.cfg, true)
			inJ = append(inJ, map[string]interface{}{"op": "witness.New", "how": ep.how, "configured_logs": names})
			obJ = append(obJ, map[string]interface{}{"kind": "witness.New"})
			eps = append(eps, lib.Pair(cfg, coqSteps(ep.steps)))
		}
		ctor, logs, body = "CEpochs", "[]", lib.List(eps)
	}
	env := fmt.Sprintf("{| e_logs := %s; e_raws := %s; e_hashes := %s; e_strict := code_is_strict; e_cosign_held := code_cosigns_held |}", logs, lib.List(raws), hc.tab.coq())
	term := cb.wrap(ctor + " " + env + " " + body)
	var tags []string
	for t := range hc.tags {
		tags = append(tags, t)
	}
	sort.Strings(tags)
	var trees []string
	for _, t := range hc.w.trees {
		trees = append(trees, fmt.Sprintf("%s(%d leaves)", t.name, t.size()))
	}
	in := map[string]interface{}{"mode": hc.mode, "trees": trees, "ops": inJ}
	for k, v := range hc.extraIn {
		in[k] = v
	}
	h.w.Add(lib.Case{Coq: term, Input: in, Impl: obJ, PropOK: hc.propOK, Note: hc.note, Tags: tags})
}

func tagsOfStep(tags map[string]bool, s step) {
	if s.op.kind == "update" {
		tags["op:update"] = true
		sc := strings.SplitN(s.op.desc, " ", 2)[0]
		if i := strings.Index(sc, "@"); i >= 0 {
			sc = sc[:i]
		}
		if strings.HasPrefix(sc, "alt-spelling:") {
			if parts := strings.Split(sc, ":"); len(parts) > 1 {
				tags["id-spelling:"+parts[1]] = true
			}
			sc = "alt-spelling"
		}
		if strings.HasPrefix(sc, "wrong-count:") {
			if parts := strings.Split(sc, ":"); len(parts) > 1 {
				tags["wrong-count-proof:"+parts[1]] = true
			}
			sc = "wrong-count"
		}
		tags["update:"+sc] = true
		tags["update-class:"+s.obs.class] = true
		switch {
		case s.obs.cosigned:
			tags["update-body:cosigned"] = true
		case s.obs.body != nil:
			tags["update-body:raw-echo"] = true
		default:
			tags["update-body:none"] = true
		}
	} else {
		tags["op:"+s.op.kind] = true
	}
	if s.obs.kind == "panic" {
		tags["obs:panic-or-hang"] = true
	}
}

// ---- sequential histories ----

var seqModes = []string{"memory-1conn", "memory-1conn", "memory-1conn", "file-1conn", "file-pool"}

func (h *harness) sequentialCase(i int) {
	w := h.newWorld()
	mode := seqModes[h.r.Intn(len(seqModes))]
	viaHTTP := h.r.Intn(4) == 0
	in := h.newInstance(mode, w.logs, viaHTTP)
	defer in.close()
	orc := &oracle{w: w, in: in, held: map[string]*heldT{}, submitted: map[string]bool{}, ok: true, tags: map[string]bool{}, strict: h.strict}
	hc := &histCase{w: w, tab: newHashTab(), mode: mode, tags: orc.tags}
	if viaHTTP {
		hc.mode += "+http"
	}
	hc.tags["db:"+mode] = true
	if viaHTTP {
		hc.tags["via:http"] = true
	} else {
		hc.tags["via:direct"] = true
	}
	nops := 4 + h.r.Intn(10)
	var ts uint64 = uint64(1000 + h.r.Intn(1000))
	for k := 0; k < nops && atomic.LoadInt32(&in.hung) == 0; k++ {
		switch x := h.r.Intn(20); {
		case x == 0:
			op := &opT{kind: "getlogs", fault: "NoFault", desc: "getlogs"}
			s := step{op, in.exec(op, orc.submitted)}
			orc.onGetLogs(s)
			hc.steps = append(hc.steps, s)
		case x == 1:
			l := w.logs[h.r.Intn(len(w.logs))]
			if h.r.Intn(4) == 0 { // under another spelling of a configured id: holds nothing
				as := w.aliasesOf(w.logs[h.r.Intn(2)])
				l = as[h.r.Intn(len(as))]
			}
			op := &opT{kind: "getsth", log: l, fault: "NoFault", desc: "getsth " + l.name}
			s := step{op, in.exec(op, orc.submitted)}
			orc.onGetSTH(s)
			hc.steps = append(hc.steps, s)
		default:
			l := w.logs[0]
			if h.r.Intn(4) == 0 {
				l = w.logs[1]
			}
			up := h.nextUpdate(w, l, orc.held[l.id], &ts)
			h.doUpdate(hc, orc, in, up)
			if up.log.aliasOf != nil { // the configured log's own row is left alone, nothing new is listed
				gop := &opT{kind: "getsth", log: l, fault: "NoFault", desc: "getsth " + l.name}
				s := step{gop, in.exec(gop, orc.submitted)}
				orc.onGetSTH(s)
				hc.steps = append(hc.steps, s)
				lop := &opT{kind: "getlogs", fault: "NoFault", desc: "getlogs"}
				s = step{lop, in.exec(lop, orc.submitted)}
				orc.onGetLogs(s)
				hc.steps = append(hc.steps, s)
			}
		}
	}
	// always end with GetLogs
	op := &opT{kind: "getlogs", fault: "NoFault", desc: "getlogs"}
	s := step{op, in.exec(op, orc.submitted)}
	orc.onGetLogs(s)
	hc.steps = append(hc.steps, s)
	for _, s := range hc.steps {
		tagsOfStep(hc.tags, s)
	}
	hc.propOK, hc.note = orc.ok, orc.note
	h.emitHist(hc)
}

// doUpdate: the update, then GetSTH on the same log; feeds the oracle and the model tables.
func (h *harness) doUpdate(hc *histCase, orc *oracle, in *instance, op *opT) {
	ri := h.inspect(op.raw, hc.w.logs)
	hc.raws = append(hc.raws, ri)
	orc.submitted[string(op.raw)] = true
	// hash evaluations the model's verifier will need (against what is observed to be held)
	if hd := orc.held[op.log.id]; hd != nil && ri.ok {
		hc.tab.recordVerify(hd.p.Size, ri.p.Size, op.proof, hd.p.Root)
	}
	u := step{op, in.exec(op, orc.submitted)}
	gop := &opT{kind: "getsth", log: op.log, fault: "NoFault", desc: "getsth after update"}
	g := step{gop, in.exec(gop, orc.submitted)}
	// No database refusal is possible here: one client, one operation at a time, nobody else holds a
	// lock.  An answer of class Other to an input that parses, names a configured log and carries its
	// signature is therefore NOT explained away as an environment event (only the concurrent stream
	// may do that, for overlapping transactions on a connection pool): the model and the oracle see it.
	if u.obs.kind != "panic" && u.obs.class == "EOther" && op.log.configured && op.log.idHash != nil && ri.ok && ri.verdict[op.log.id] &&
		(bytes.Equal(ri.p.LogID, make([]byte, 32)) || bytes.Equal(ri.p.LogID, op.log.idHash)) {
		hc.tags["unexplained-class-other:update"] = true
	}
	orc.afterUpdate(u, g, ri)
	hc.steps = append(hc.steps, u, g)
}

// ---- finding replays (fixed inputs, always first) ----

func (h *harness) findingReplays() {
	for _, viaHTTP := range []bool{false, true} {
		w := h.newWorld()
		l := w.logs[0]
		in := h.newInstance("memory-1conn", w.logs, viaHTTP)
		orc := &oracle{w: w, in: in, held: map[string]*heldT{}, submitted: map[string]bool{}, ok: true, tags: map[string]bool{}, strict: h.strict}
		hc := &histCase{w: w, tab: newHashTab(), mode: "memory-1conn", tags: orc.tags}
		hc.tags["stream:finding-replay"] = true
		// C19-1: four leaves; the log signs (3, H(01 || L || first 31 bytes of leafhash(d2)))
		ls := w.trees[0].leaves[:4]
		t4 := newTree("T4", ls)
		w.trees = append(w.trees, t4)
		tab := newHashTab()
		L := tab.node(tab.leaf(ls[0]), tab.leaf(ls[1]))
		l2, l3 := tab.leaf(ls[2]), tab.leaf(ls[3])
		s := append([]byte{}, l2[:31]...)
		t := append(append([]byte{}, l2[31:]...), l3...)
		r1 := tab.node(L, s)
		base := sthSpec{signer: l, sigMode: "good", idMode: "absent", idOwner: l, form: "std"}
		a := base
		a.size, a.root, a.ts = 3, r1, 1
		op1 := &opT{kind: "update", log: l, raw: h.buildSTH(a), fault: "NoFault", desc: "C19-1:first-use log=A held=0 cand=3 root=H(01||L||leafhash(d2)[:31])"}
		h.doUpdate(hc, orc, in, op1)
		b := base
		b.size, b.root, b.ts = 4, t4.root(4), 2
		op2 := &opT{kind: "update", log: l, raw: h.buildSTH(b), proof: [][]byte{s, t, L}, fault: "NoFault", desc: "C19-1:odd-length-proof log=A held=3 cand=4 proof=[31 bytes, 33 bytes, 32 bytes]"}
		h.doUpdate(hc, orc, in, op2)
		// C19-2: a log-signed STH travelling with a foreign witness_signatures member, then a stale update
		lb := w.logs[1]
		c := sthSpec{signer: lb, sigMode: "good", idMode: "absent", idOwner: lb, form: "junk-cosig", size: 5, root: w.trees[0].root(5), ts: 3}
		op3 := &opT{kind: "update", log: lb, raw: h.buildSTH(c), fault: "NoFault", desc: "C19-2:first-use-with-foreign-witness-signature log=B held=0 cand=5"}
		h.doUpdate(hc, orc, in, op3)
		d := sthSpec{signer: lb, sigMode: "good", idMode: "absent", idOwner: lb, form: "std", size: 2, root: w.trees[0].root(2), ts: 4}
		op4 := &opT{kind: "update", log: lb, raw: h.buildSTH(d), fault: "NoFault", desc: "C19-2:stale log=B held=5 cand=2"}
		h.doUpdate(hc, orc, in, op4)
		for _, s := range hc.steps {
			tagsOfStep(hc.tags, s)
		}
		hc.propOK, hc.note = orc.ok, orc.note
		if viaHTTP {
			hc.mode += "+http"
		}
		h.emitHist(hc)
		in.close()
	}
}

// ---- library verifier vs Merkle.v ----

func (h *harness) verifyCase(i int) {
	n := 2 + h.r.Intn(70)
	t := newTree("V", h.randLeaves(n))
	w := &world{trees: []*tree{t, newTree("V2", h.randLeaves(n))}}
	m := uint64(h.r.Intn(n + 1))
	nn := m + uint64(h.r.Intn(n-int(m)+1))
	r1, r2 := t.root(m), t.root(nn)
	var proof [][]byte
	kind := "correct"
	switch x := h.r.Intn(10); {
	case x < 3:
		proof = cloneProof(t.cons(m, nn))
	case x < 8:
		kind = proofKinds[h.r.Intn(len(proofKinds))]
		proof = h.mutateProof(kind, w, t, m, nn)
	case x == 8:
		kind = "wrong-root"
		proof = cloneProof(t.cons(m, nn))
		if h.r.Intn(2) == 0 {
			r1 = w.trees[1].root(m)
		} else {
			r2 = w.trees[1].root(nn)
		}
	default:
		kind = "sizes-off"
		proof = cloneProof(t.cons(m, nn))
		switch h.r.Intn(5) {
		case 0:
			m, nn = nn, m
		case 1:
			nn += uint64(1 + h.r.Intn(3))
		case 2:
			if m > 0 {
				m--
			}
		case 3:
			nn = []uint64{1 << 63, 1<<64 - 1, 1 << 32}[h.r.Intn(3)]
		default:
			m, nn = m+1<<40, nn+1<<40
		}
	}
	tab := newHashTab()
	tab.recordVerify(m, nn, proof, r1)
	ok, panicked := libVerify(m, nn, proof, r1, r2)
	// direct oracle: a correct proof is accepted; anything the library accepts between two
	// genuine roots of one tree with 32-byte nodes is fine, acceptance of a wrong root is not
	propOK, note := true, ""
	if panicked {
		propOK, note = false, fmt.Sprintf("VerifyConsistency panicked m=%d n=%d proof=%d", m, nn, len(proof))
	}
	if kind == "correct" && !ok {
		propOK, note = false, fmt.Sprintf("correct proof refused m=%d n=%d", m, nn)
	}
	if kind == "wrong-root" && ok && m > 0 && m < nn {
		propOK, note = false, fmt.Sprintf("proof accepted for a foreign root m=%d n=%d", m, nn)
	}
	curCB = newCaseBuilder()
	vterm := fmt.Sprintf("CVerify %s %s %s %s %s %s %s", tab.coq(), lib.Nn(m), lib.Nn(nn), hexList(proof), hx(r1), hx(r2), lib.Bool(ok))
	h.w.Add(lib.Case{
		Coq:   curCB.wrap(vterm),
		Input: map[string]interface{}{"m": m, "n": nn, "proof_kind": kind, "proof_len": len(proof)}, Impl: map[string]interface{}{"accepted": ok, "panic": panicked},
		PropOK: propOK, Note: note, Tags: []string{"stream:verify", "verify-proof:" + kind, fmt.Sprintf("verify-accepted:%v", ok)},
		Key: fmt.Sprintf("V %d %d %s %x %x", m, nn, proofKey(proof), r1, r2),
	})
}

// ---- library tree vs mth / cproof / path ----

func (h *harness) treeCase(i int) {
	n := 1 + h.r.Intn(24)
	if i < 24 {
		n = i + 1
	}
	ls := h.randLeaves(n)
	t := newTree("L", ls)
	m := uint64(1 + h.r.Intn(n))
	idx := uint64(h.r.Intn(n))
	tab := newHashTab()
	tab.mth(ls)
	tab.mth(ls[:m])
	tab.subproof(m, ls, true)
	tab.pathRec(idx, ls)
	cp := t.cons(m, uint64(n))
	ip, err := t.t.InclusionProof(idx, uint64(n))
	if err != nil {
		panic(err)
	}
	var lc []string
	for _, l := range ls {
		lc = append(lc, lib.Hex(l))
	}
	// direct oracle: the library's own proofs verify with the library's verifiers
	ok1, _ := libVerify(m, uint64(n), cp, t.root(m), t.root(uint64(n)))
	ok2 := libVerifyIncl(idx, uint64(n), ls[idx], ip, t.root(uint64(n)))
	note := ""
	if !(ok1 && ok2) {
		note = fmt.Sprintf("library proof does not verify leaves=%d m=%d index=%d", n, m, idx)
	}
	curCB = newCaseBuilder()
	tterm := fmt.Sprintf("CTree %s %s %s %s %s %s %s %s", tab.coq(), lib.List(lc), lib.Nn(m), lib.Nn(idx), hx(t.root(uint64(n))), hx(t.root(m)),
		hexList(cp), hexList(ip))
	h.w.Add(lib.Case{
		Coq: curCB.wrap(tterm),
		Input: map[string]interface{}{"leaves": n, "m": m, "index": idx}, Impl: map[string]interface{}{"cons_proof_len": len(cp), "incl_path_len": len(ip)},
		PropOK: ok1 && ok2, Note: note, Tags: []string{"stream:tree", fmt.Sprintf("tree-leaves:%02d", n/8*8)},
	})
}

func (t *hashTab) pathRec(i uint64, l [][]byte) {
	n := uint64(len(l))
	if n <= 1 {
		return
	}
	k := pow2lt(n)
	if i < k {
		t.pathRec(i, l[:k])
		t.mth(l[k:])
	} else {
		t.pathRec(i-k, l[k:])
		t.mth(l[:k])
	}
}
