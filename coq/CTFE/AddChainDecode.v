(* C01: the queued leaf READS BACK as the submission: the entry decoder of the library
   (ct.RawLogEntryFromLeaf, model CT/CtFuncs.v raw_log_entry_from_leaf - what get-entries clients
   run on leaf_input / extra_data) returns the submitted leaf certificate and the validated chain,
   root included. *)
From Coq Require Import String NArith ZArith List Bool Lia PeanoNat.
From V Require Import Base.Bytes TLS.TlsModel TLS.TlsLemmas TLS.TlsRoundTripA gen.CtTypes
  CT.Rfc6962Spec CT.Rfc6962Proofs CT.CtFuncs CT.CtFuncsProofs X509.PrecertModel
  CTFE.AddChainModel CTFE.AddChainSpec CTFE.AddChainCodec CTFE.AddChainStep CTFE.AddChainHistory.
Import ListNotations.
Local Open Scope N_scope.

Lemma certs_wt ders : Forall (wt gen_ASN1Cert) (map asn1cert ders).
Proof. induction ders as [|d r IH]; cbn [map]; constructor; auto. cbn. auto. Qed.

Lemma opaque24_len d : N.of_nat (length (opaque24 d)) = 3 + len d.
Proof. unfold opaque24, u24, len. rewrite app_length, be_enc_length. lia. Qed.

Lemma chain_sized : sized gen_CertificateChain None = true /\ sized gen_PrecertChainEntry None = true.
Proof. split; vm_compute; reflexivity. Qed.

Definition chain_val (ders : list bytes) : val := VList (map asn1cert ders).

Lemma cert_chain_decodes ders b :
  marshal gen_CertificateChain None (VStruct [Some (chain_val ders)]) = Ok b ->
  complete gen_CertificateChain b = Ok (VStruct [Some (chain_val ders)]).
Proof.
  intros Hm. pose proof (cert_chain_marshal_inv ders b Hm) as [[_ Hlen] Hb].
  assert (Hs : short b).
  { unfold short, two64N. rewrite Hb. unfold enc_cert_chain. rewrite opaque24_len. unfold Der.len, len in *. lia. }
  assert (Hw : wt gen_CertificateChain (VStruct [Some (chain_val ders)])).
  { cbn. split; [|exact I]. apply certs_wt. }
  unfold complete.
  pose proof (proj1 roundtripA gen_CertificateChain None _ b (proj1 chain_sized) Hm Hs Hw []) as Hp.
  rewrite app_nil_r in Hp. rewrite Hp. reflexivity.
Qed.

Lemma precert_chain_decodes leaf ders b :
  marshal gen_PrecertChainEntry None (VStruct [Some (asn1cert leaf); Some (chain_val ders)]) = Ok b ->
  complete gen_PrecertChainEntry b = Ok (VStruct [Some (asn1cert leaf); Some (chain_val ders)]).
Proof.
  intros Hm. pose proof (precert_chain_marshal_inv leaf ders b Hm) as (Hl & [_ Hlen] & Hb).
  assert (Hs : short b).
  { unfold short, two64N. rewrite Hb. unfold enc_precert_chain_entry, enc_cert_chain.
    rewrite app_length, Nat2N.inj_add, !opaque24_len. unfold Der.len, len in *. lia. }
  assert (Hw : wt gen_PrecertChainEntry (VStruct [Some (asn1cert leaf); Some (chain_val ders)])).
  { cbn. repeat split; auto. apply certs_wt. }
  unfold complete.
  pose proof (proj1 roundtripA gen_PrecertChainEntry None _ b (proj2 chain_sized) Hm Hs Hw []) as Hp.
  rewrite app_nil_r in Hp. rewrite Hp. reflexivity.
Qed.

Local Arguments complete : simpl never.

(* the decoder on a leaf / extra data whose complete parses are known *)
Lemma raw_entry_x509 li x ts c ch :
  complete gen_MerkleTreeLeaf li = Ok (embed_leaf ts (X509E c) []) ->
  complete gen_CertificateChain x = Ok (VStruct [Some ch]) ->
  raw_log_entry_from_leaf li x = Ok (embed_leaf ts (X509E c) [], asn1cert c, ch).
Proof. intros Hl Hx. unfold raw_log_entry_from_leaf. rewrite Hl. cbn. rewrite Hx. reflexivity. Qed.

Lemma raw_entry_precert li x ts h t leaf ch :
  complete gen_MerkleTreeLeaf li = Ok (embed_leaf ts (PrecertE h t) []) ->
  complete gen_PrecertChainEntry x = Ok (VStruct [Some leaf; Some ch]) ->
  raw_log_entry_from_leaf li x = Ok (embed_leaf ts (PrecertE h t) [], leaf, ch).
Proof. intros Hl Hx. unfold raw_log_entry_from_leaf. rewrite Hl. cbn. rewrite Hx. reflexivity. Qed.

Section Decode.
Variable H : bytes -> bytes.
Variable sign : N -> bytes -> option bytes.
Variable guard : val -> val -> bool.
Variable cfg : config.

(* extra_data succeeded for every Issued request; restate it on the encoded bytes *)
Lemma extra_data_decodes s b : extra_data s = Ok b ->
  if s_pre s
  then complete gen_PrecertChainEntry b = Ok (VStruct [Some (asn1cert (s_leaf s)); Some (chain_val (map c_der (s_rest s)))])
  else complete gen_CertificateChain b = Ok (VStruct [Some (chain_val (map c_der (s_rest s)))]).
Proof.
  unfold extra_data. rewrite <- (map_map c_der asn1cert). fold (chain_val (map c_der (s_rest s))).
  destruct (s_pre s); intros Hm; [apply precert_chain_decodes|apply cert_chain_decodes]; exact Hm.
Qed.

Lemma server_entry_kind s e : server_entry H s = Ok e ->
  if s_pre s then exists h t, e = PrecertE h t else e = X509E (s_leaf s).
Proof.
  unfold server_entry. destruct (s_pre s); cbn [negb].
  - destruct (s_rest s) as [|c1 more]; [discriminate|].
    destruct (if pi_ct_eku (c_pi c1) then _ else _) as [[pre issuer]|]; [|discriminate].
    destruct (build_precert_tbs (s_tbs s) pre); try discriminate. intros E; inversion E. eauto.
  - intros E; inversion E. reflexivity.
Qed.

Lemma decode_at before s after r :
  nth_error (log_of H sign guard cfg (before ++ s :: after)) (length before) = Some (s, Issued r) ->
  exists e, server_entry H s = Ok e /\
    raw_log_entry_from_leaf (l_value (i_queued r)) (l_extra (i_queued r)) =
      Ok (embed_leaf (time_millis (s_now s)) e [], asn1cert (s_leaf s), chain_val (map c_der (s_rest s))).
Proof.
  intros Hn. destruct (queued_at H sign guard cfg before s after r Hn) as (e & Hse & He & Hc & Hq).
  exists e. split; [exact Hse|]. rewrite Hq. cbn [built_leaf l_value l_extra].
  destruct (issued_at H sign guard cfg before s after r Hn) as (st1 & st2 & e' & ts0 & e0 & _ & F).
  pose proof (f_extra _ _ _ _ _ _ _ _ _ _ _ F) as Hb.
  pose proof (extra_data_decodes s _ Hb) as Hd.
  pose proof (leaf_decodes (time_millis (s_now s)) e [] (ts_ok_millis _) He nil_ext_ok) as Hl.
  pose proof (server_entry_kind s e Hse) as Hk.
  destruct (s_pre s).
  - destruct Hk as (h & t & ->). exact (raw_entry_precert _ _ _ _ _ _ _ Hl Hd).
  - subst e. exact (raw_entry_x509 _ _ _ _ _ Hl Hd).
Qed.
End Decode.
