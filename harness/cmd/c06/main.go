// C06 correspondence harness: a real ctfe.Instance wired to the in-process reference backend
// (verif/harness/reflog, written from RFC 6962 s2.1), driven through the REAL client stack
// (client.LogClient configured with the log's public key, ctutil.LogInfo / VerifySCT / LeafHash)
// over an in-memory http.RoundTripper that calls the instance's handlers.
//
// One case = one HISTORY: add-chain / add-pre-chain (fresh, duplicate, duplicate with another
// chain, twin precertificates, rejected), sequencing steps of random batch sizes, and reads of all
// eight endpoints with in-range (and some beyond-tree) parameters; sequential histories and
// concurrent ones (worker goroutines; the order in which their backend RPCs take effect is drawn
// from the PRNG by a gate inside the backend, so a seed replays the same linearisation).
// Every HTTP exchange becomes one step (operation, projected observation); the model replays the
// steps in linearisation order.  The direct oracle evaluates the property's sentences on what the
// client-side verifiers said about the observed answers, independently of the model.
//
// Two things are derived INDEPENDENTLY of the library code the front end itself runs:
//   - the RFC 6962 leaf of every submission (s3.4 MerkleTreeLeaf, hand-encoded) and the SCT
//     signature input (s3.2), from the harness's own PKI: for a precertificate the TBSCertificate
//     is the one of the FINAL certificate the issuing CA signs for the same contents (no poison, no
//     SCT list), and the issuer key hash is that CA's - also when the precertificate was signed by a
//     precertificate signing certificate.  The SCT must verify over it (crypto/ecdsa), the leaf hash
//     must be found by get-proof-by-hash, and the final certificate with the SCT embedded must
//     verify through ctutil (embedded route).
//   - the log's signer is wrapped (ctfeenv.Options.WrapSigner): requests can be held INSIDE
//     signer.Sign or made to fail there.  A dedicated stream overlaps several get-sth requests for
//     a new tree head inside the signer (and fails some, then retries); concurrent rounds are
//     either "parallel" (as before, with a slow signer) or "stepwise" (every backend RPC and every
//     signer call is a scheduling point, one request runs at a time, order drawn from the PRNG).
//     Every STH served with 200 must verify under the log key and report the backend's root.
//
// The client side is LONG-LIVED: one client.LogClient and one ctutil.LogInfo per history, as a
// monitor keeps them per log.  Issued SCTs are looked up through all three entry points of LogInfo
// (VerifyInclusionAt with an explicit tree, VerifyInclusion which fetches and keeps the current
// STH, VerifyInclusionLatest which uses the STH held), in the random stream, in concurrent rounds
// and in the audit; the backend's root timestamps include roots less than a millisecond (or no
// nanosecond) apart and steps at which the front end's clock stands still.  Oracle: a certificate
// with an SCT whose entry the reference backend has sequenced is found by the client, whatever the
// timestamps of the tree heads.
//
// CONFIGURATIONS.  The property quantifies over logs, not over one log: every history runs against
// an instance drawn from a table of configurations (main: hcfgTable, stratified so that a quick run
// covers every class) that varies
//   - the kind of LOG KEY: ECDSA P-256, RSA-2048, RSA-3072, ECDSA P-384.  Every SCT and every STH
//     is verified by the real client configured with that log's public key AND by the standard
//     library (crypto/rsa, crypto/ecdsa) over hand-encoded RFC 6962 inputs, under the algorithms
//     the DigitallySigned structure DECLARES (parsed by hand from the JSON answer), which must be
//     SHA-256 and the signature algorithm of the key's type (RFC 6962 s2.1.4);
//   - where ISSUANCE CHAINS are kept: inline in the backend's ExtraData, or in the external CTFE
//     storage (an in-memory store behind ctfeenv.Options.ChainStorage, with a noop or a small LRU
//     cache), where the backend holds only a hash of the chain.  Every entry served by
//     get-entries and by get-entry-and-proof must be, byte for byte, the RFC 6962 s3.4 leaf and the
//     s4.6 extra_data (hand-encoded) of an accepted submission of that certificate, and whatever
//     either endpoint serves for an index must be what was served for it before (by either).
//
// The handlers write to a ResponseWriter (pieceWriter) that, while requests overlap, takes a body
// over in pieces with a scheduling point between two pieces, so that responses interleave at the
// byte level as they do on real connections; every response must still be the answer to its own
// request.
package main

import (
	"bytes"
	"context"
	"crypto"
	"crypto/ecdsa"
	"crypto/rsa"
	"crypto/sha256"
	stdx509 "crypto/x509"
	stdasn1 "encoding/asn1"
	"encoding/base64"
	"encoding/binary"
	"encoding/json"
	"errors"
	"flag"
	"fmt"
	"io"
	stdlog "log"
	"math/big"
	"math/rand"
	"net/http"
	"net/http/httptest"
	"net/url"
	"runtime"
	"sort"
	"strconv"
	"strings"
	"sync"
	"time"

	ct "github.com/google/certificate-transparency-go"
	ctasn1 "github.com/google/certificate-transparency-go/asn1"
	"github.com/google/certificate-transparency-go/client"
	"github.com/google/certificate-transparency-go/ctutil"
	"github.com/google/certificate-transparency-go/jsonclient"
	cttls "github.com/google/certificate-transparency-go/tls"
	"github.com/google/certificate-transparency-go/trillian/ctfe"
	"github.com/google/certificate-transparency-go/trillian/ctfe/cache"
	ctx509 "github.com/google/certificate-transparency-go/x509"
	"github.com/google/certificate-transparency-go/x509/pkix"
	"github.com/google/trillian"
	"github.com/transparency-dev/merkle/proof"
	"github.com/transparency-dev/merkle/rfc6962"
	"k8s.io/klog/v2"

	"verif/harness/ctfeenv"
	"verif/harness/lib"
	"verif/harness/pki"
	"verif/harness/reflog"
)

const header = `From Coq Require Import String ZArith NArith List. Import ListNotations.
From V Require Import Base.Bytes CTFE.LogModel CTFE.LogCase.
Local Open Scope Z_scope.
`

// ---------------------------------------------------------------- PKI

type world struct {
	logKey         crypto.Signer
	keyKind        string // kind of the current history's log key (pki.Key)
	pubDER         []byte
	logID          [32]byte
	verifier       *ct.SignatureVerifier
	rootA, rootB   *pki.Entity
	interA, interB *pki.Entity // same subject and key, issued by rootA / rootB (cross-signed)
	preIssuer      *pki.Entity // precertificate signing certificate under interA
	untrusted      *pki.Entity
	serial         int64
	certs          [][]byte       // table of all DER certificates mentioned in a case
	certIdx        map[string]int // DER -> index
	precerts       map[int]bool
}

func (w *world) idx(der []byte) int {
	if i, ok := w.certIdx[string(der)]; ok {
		return i
	}
	w.certIdx[string(der)] = len(w.certs)
	w.certs = append(w.certs, der)
	return len(w.certs) - 1
}

// a certificate the harness can submit, with the path the front end is expected to validate
type subject struct {
	name   string
	pre    bool
	der    []byte
	submit [][]byte // chain as posted
	path   [][]byte // expected validated path after the leaf (issuer ... root)
	kind   string
	quirk  string // non-empty: the certificate has a peculiarity the lenient X.509 parser only complains about (see quirks)
	// reference data for a precertificate, from the harness's PKI (not from the library under test):
	// the CA that issues the final certificate, the contents it signs, the TBSCertificate of that
	// final certificate without SCT list (= the RFC 6962 s3.2 PreCert.tbs_certificate) and
	// SHA-256 of that CA's SubjectPublicKeyInfo
	finCA   *pki.Entity
	finOpts pki.Opts
	refTBS  []byte
	refIKH  []byte
}

// reference fills the RFC 6962 reference data of a precertificate issued with options o: the real
// CA ca issues the final certificate for the same contents (same serial, key, names, validity;
// no poison), parsed with the standard library.
func (w *world) reference(s *subject, o pki.Opts, ca *pki.Entity) *subject {
	fo := o
	fo.ExtraExt = nil
	for _, e := range o.ExtraExt {
		if !e.Id.Equal(pki.OIDPoison) {
			fo.ExtraExt = append(fo.ExtraExt, e)
		}
	}
	fin := pki.Issue(fo, ca)
	// the TBSCertificate is cut out by hand (encoding/asn1: Certificate ::= SEQUENCE { tbsCertificate, ... });
	// crypto/x509 must agree wherever it parses the certificate at all - it refuses some of the
	// peculiar certificates (quirks) that the log accepts
	tbs := cutTBS(fin.DER)
	if fc, err := stdx509.ParseCertificate(fin.DER); err == nil {
		if !bytes.Equal(fc.RawTBSCertificate, tbs) {
			panic("crypto/x509 and the hand cut disagree on the TBSCertificate of " + s.name)
		}
	} else if s.quirk == "" {
		panic(fmt.Sprintf("crypto/x509 does not parse the final certificate of %s: %v", s.name, err))
	}
	cc, err := stdx509.ParseCertificate(ca.DER)
	if err != nil {
		panic(err)
	}
	ikh := sha256.Sum256(cc.RawSubjectPublicKeyInfo)
	s.finCA, s.finOpts, s.refTBS, s.refIKH = ca, fo, tbs, ikh[:]
	return s
}

// cutTBS returns the bytes of the first element of the outer SEQUENCE of a certificate.
func cutTBS(der []byte) []byte {
	var c struct {
		TBS, Alg stdasn1.RawValue
		Sig      stdasn1.BitString
	}
	if rest, err := stdasn1.Unmarshal(der, &c); err != nil || len(rest) != 0 {
		panic(fmt.Sprintf("certificate is not SEQUENCE { tbs, algorithm, signature }: %v", err))
	}
	return c.TBS.FullBytes
}

// ---------------------------------------------------------------- peculiar certificates
//
// Real logs are full of certificates that are not quite RFC 5280.  This repository's X.509 parser
// is lenient on purpose: for a list of peculiarities it returns the parsed certificate TOGETHER
// with an error of type x509.NonFatalErrors, and the front end (ctfe.ValidateChain) accepts such a
// certificate, stores it and issues an SCT for it like for any other.  The property makes no
// exception for them: they must be found, served and DECODED like any other entry.  One leaf in
// four is therefore issued with one of the peculiarities below (built from raw extension values /
// a raw subject, so nothing here depends on what the parser makes of them).

type quirk struct {
	name   string
	x509   bool // only for certificates (not precertificates)
	modify func(r *rand.Rand, o *pki.Opts)
}

func tlv(tag byte, content ...[]byte) []byte {
	var c []byte
	for _, x := range content {
		c = append(c, x...)
	}
	switch {
	case len(c) < 128:
		return append([]byte{tag, byte(len(c))}, c...)
	case len(c) < 256:
		return append([]byte{tag, 0x81, byte(len(c))}, c...)
	}
	return append([]byte{tag, 0x82, byte(len(c) >> 8), byte(len(c))}, c...)
}

func extra(o *pki.Opts, oid ctasn1.ObjectIdentifier, val []byte) {
	o.ExtraExt = append(append([]pkix.Extension{}, o.ExtraExt...), pkix.Extension{Id: oid, Value: val})
}

var quirks = []quirk{
	// subjectAltName with an iPAddress that is neither 4 nor 16 octets long
	{name: "san-ip-odd-length", modify: func(r *rand.Rand, o *pki.Opts) {
		ip := make([]byte, []int{1, 3, 5, 8, 15, 17}[r.Intn(6)])
		for i := range ip {
			ip[i] = byte(10 + i)
		}
		extra(o, ctasn1.ObjectIdentifier{2, 5, 29, 17}, tlv(0x30, tlv(0x82, []byte(o.CN)), tlv(0x87, ip)))
	}},
	// extKeyUsage whose value is empty
	{name: "eku-empty", modify: func(r *rand.Rand, o *pki.Opts) {
		extra(o, ctasn1.ObjectIdentifier{2, 5, 29, 37}, nil)
	}},
	// authorityInfoAccess / subjectInfoAccess: SEQUENCE SIZE (1..MAX) with no element
	{name: "aia-empty", modify: func(r *rand.Rand, o *pki.Opts) {
		extra(o, ctasn1.ObjectIdentifier{1, 3, 6, 1, 5, 5, 7, 1, 1}, tlv(0x30))
	}},
	{name: "sia-empty", modify: func(r *rand.Rand, o *pki.Opts) {
		extra(o, ctasn1.ObjectIdentifier{1, 3, 6, 1, 5, 5, 7, 1, 11}, tlv(0x30))
	}},
	// an embedded SCT list that does not decode (not an OCTET STRING / a truncated TLS list)
	{name: "sct-list-undecodable", x509: true, modify: func(r *rand.Rand, o *pki.Opts) {
		v := tlv(0x04, []byte{0, 9, 0, 7, 1, 2, 3})
		if r.Intn(2) == 0 {
			v = tlv(0x0c, []byte("no list"))
		}
		extra(o, pki.OIDSCTList, v)
	}},
	// RFC 3779 extensions that do not decode
	{name: "rpki-addr-blocks-undecodable", modify: func(r *rand.Rand, o *pki.Opts) {
		extra(o, ctasn1.ObjectIdentifier{1, 3, 6, 1, 5, 5, 7, 1, 7}, tlv(0x30, tlv(0x30, tlv(0x04, []byte{0, 1, 1, 1, 1}), tlv(0x30, tlv(0x02, []byte{1})))))
	}},
	{name: "rpki-as-ids-undecodable", modify: func(r *rand.Rand, o *pki.Opts) {
		extra(o, ctasn1.ObjectIdentifier{1, 3, 6, 1, 5, 5, 7, 1, 8}, tlv(0x30, tlv(0xa0, tlv(0x30, tlv(0x04, []byte{7})))))
	}},
	// a subject whose PrintableString holds a character outside the PrintableString set
	{name: "subject-printablestring-underscore", modify: func(r *rand.Rand, o *pki.Opts) {
		cn := "id_" + o.CN
		o.CN = cn
		raw := tlv(0x30, tlv(0x31, tlv(0x30, tlv(0x06, []byte{0x55, 4, 3}), tlv(0x13, []byte(cn)))))
		o.Mutate = func(t *ctx509.Certificate) { t.RawSubject = raw }
	}},
}

// peculiar draws a peculiarity for the certificate described by o (one leaf in four).
func peculiar(r *rand.Rand, o *pki.Opts, pre bool) string {
	if r.Intn(4) != 0 {
		return ""
	}
	q := quirks[r.Intn(len(quirks))]
	for pre && q.x509 {
		q = quirks[r.Intn(len(quirks))]
	}
	q.modify(r, o)
	return q.name
}

func put24(b []byte, x []byte) []byte {
	return append(append(b, byte(len(x)>>16), byte(len(x)>>8), byte(len(x))), x...)
}

// refEntry: entry_type and signed_entry of RFC 6962 s3.2 / s3.4 for a submission
func (s *subject) refEntry(b []byte) []byte {
	if !s.pre {
		return put24(append(b, 0, 0), s.der) // x509_entry: ASN.1Cert<1..2^24-1>
	}
	b = append(append(b, 0, 1), s.refIKH...) // precert_entry: issuer_key_hash[32], TBSCertificate<1..2^24-1>
	return put24(b, s.refTBS)
}

// refLeaf is the MerkleTreeLeaf of RFC 6962 s3.4 (v1, timestamped_entry), hand-encoded.
func (s *subject) refLeaf(ts uint64, ext []byte) []byte {
	b := binary.BigEndian.AppendUint64([]byte{0, 0}, ts)
	b = s.refEntry(b)
	return append(append(b, byte(len(ext)>>8), byte(len(ext))), ext...)
}

// refSCTInput is the digitally-signed struct of RFC 6962 s3.2 (v1, certificate_timestamp), hand-encoded.
func (s *subject) refSCTInput(ts uint64, ext []byte) []byte {
	b := binary.BigEndian.AppendUint64([]byte{0, 0}, ts)
	b = s.refEntry(b)
	return append(append(b, byte(len(ext)>>8), byte(len(ext))), ext...)
}

// refExtra is the extra_data of RFC 6962 s4.6 for this submission, hand-encoded: for an X.509 entry
// `ASN.1Cert certificate_chain<0..2^24-1>`, for a precertificate entry PrecertChainEntry
// { ASN.1Cert pre_certificate; ASN.1Cert precertificate_chain<0..2^24-1> }, the chain being the
// validated path after the leaf, root included.
func (s *subject) refExtra() []byte {
	var chain []byte
	for _, c := range s.path {
		chain = put24(chain, c)
	}
	if !s.pre {
		return put24(nil, chain)
	}
	return put24(put24(nil, s.der), chain)
}

// refSTHInput is the digitally-signed struct of RFC 6962 s3.5 (v1, tree_hash), hand-encoded.
func refSTHInput(ts, size uint64, root []byte) []byte {
	b := binary.BigEndian.AppendUint64([]byte{0, 1}, ts)
	b = binary.BigEndian.AppendUint64(b, size)
	return append(b, root...)
}

// parseDS splits a TLS DigitallySigned (RFC 5246 s4.7: HashAlgorithm, SignatureAlgorithm,
// opaque signature<0..2^16-1>) by hand.
func parseDS(b []byte) (hashAlg, sigAlg byte, sig []byte, ok bool) {
	if len(b) < 4 || len(b) != 4+(int(b[2])<<8|int(b[3])) {
		return 0, 0, nil, false
	}
	return b[0], b[1], b[4:], true
}

// refSigCheck is the reference verdict on a signature of the log: the standard library verifies
// sig over input under the algorithms the structure DECLARES (RFC 5246 s7.4.1.4.1 code points), and
// the declaration must be what RFC 6962 s2.1.4 prescribes for a key of this type: SHA-256 with
// RSASSA-PKCS1-v1_5 for an RSA key, SHA-256 with ECDSA for an elliptic-curve key.  "" = verifies.
func refSigCheck(pub crypto.PublicKey, hashAlg, sigAlg byte, sig, input []byte) string {
	hashes := map[byte]crypto.Hash{1: crypto.MD5, 2: crypto.SHA1, 3: crypto.SHA224, 4: crypto.SHA256, 5: crypto.SHA384, 6: crypto.SHA512}
	ch, ok := hashes[hashAlg]
	if !ok || !ch.Available() {
		return fmt.Sprintf("declares hash algorithm %d", hashAlg)
	}
	hw := ch.New()
	hw.Write(input)
	d := hw.Sum(nil)
	const sigRSA, sigECDSA = 1, 3
	switch k := pub.(type) {
	case *rsa.PublicKey:
		if sigAlg != sigRSA {
			return fmt.Sprintf("is labelled with signature algorithm %d, the log key is RSA", sigAlg)
		}
		if rsa.VerifyPKCS1v15(k, ch, d, sig) != nil {
			return "does not verify (crypto/rsa, PKCS#1 v1.5) under the declared hash algorithm"
		}
	case *ecdsa.PublicKey:
		if sigAlg != sigECDSA {
			return fmt.Sprintf("is labelled with signature algorithm %d, the log key is ECDSA", sigAlg)
		}
		if !ecdsa.VerifyASN1(k, d, sig) {
			return "does not verify (crypto/ecdsa) under the declared hash algorithm"
		}
	default:
		panic("log key of an unexpected type")
	}
	if ch != crypto.SHA256 {
		return fmt.Sprintf("declares hash algorithm %d, RFC 6962 prescribes SHA-256", hashAlg)
	}
	return ""
}

// rawSCTCheck: the add-chain answer as it came over the wire (JSON and DigitallySigned decoded
// here, not by the client library) is a v1 SCT of this log that verifies over the hand-encoded
// RFC 6962 s3.2 input for the submission.  "" = it is.
func (w *world) rawSCTCheck(body []byte, s *subject) string {
	var rsp struct {
		Version    uint8  `json:"sct_version"`
		ID         []byte `json:"id"`
		Timestamp  uint64 `json:"timestamp"`
		Extensions string `json:"extensions"`
		Signature  []byte `json:"signature"`
	}
	if err := json.Unmarshal(body, &rsp); err != nil {
		return "answer is not JSON"
	}
	ext, err := base64.StdEncoding.DecodeString(rsp.Extensions)
	if err != nil {
		return "extensions are not base64"
	}
	if rsp.Version != 0 || !bytes.Equal(rsp.ID, w.logID[:]) {
		return "is not a v1 SCT carrying the log's id (SHA-256 of its SubjectPublicKeyInfo)"
	}
	ha, sa, sig, ok := parseDS(rsp.Signature)
	if !ok {
		return "signature is not a DigitallySigned structure"
	}
	return refSigCheck(w.logKey.Public(), ha, sa, sig, s.refSCTInput(rsp.Timestamp, ext))
}

// rawSTHCheck: the same for a get-sth answer and the RFC 6962 s3.5 input.
func (w *world) rawSTHCheck(body []byte) string {
	var rsp struct {
		Size      uint64 `json:"tree_size"`
		Timestamp uint64 `json:"timestamp"`
		Root      []byte `json:"sha256_root_hash"`
		Signature []byte `json:"tree_head_signature"`
	}
	if err := json.Unmarshal(body, &rsp); err != nil {
		return "answer is not JSON"
	}
	if len(rsp.Root) != 32 {
		return "root hash is not 32 bytes"
	}
	ha, sa, sig, ok := parseDS(rsp.Signature)
	if !ok {
		return "signature is not a DigitallySigned structure"
	}
	return refSigCheck(w.logKey.Public(), ha, sa, sig, refSTHInput(rsp.Timestamp, rsp.Size, rsp.Root))
}

// setLogKey makes the key of the given kind the log key of the next history.
func (w *world) setLogKey(kind string) {
	idx := 0
	if kind == "p256" {
		idx = 7
	}
	w.keyKind, w.logKey = kind, pki.Key(kind, idx)
	var err error
	if w.pubDER, err = stdx509.MarshalPKIXPublicKey(w.logKey.Public()); err != nil {
		panic(err)
	}
	w.logID = sha256.Sum256(w.pubDER)
	// RFC 6962 s2.1.4 names P-256 and RSA; a log on another curve is "technically non-compliant"
	// and the client library verifies for it only when told so
	ct.AllowVerificationWithNonCompliantKeys = kind == "p384"
	if w.verifier, err = ct.NewSignatureVerifier(w.logKey.Public()); err != nil {
		panic(err)
	}
}

func (w *world) nextSerial() int64 { w.serial++; return w.serial }

func (w *world) leaf(r *rand.Rand, n int) *subject {
	var s *subject
	switch k := r.Intn(10); {
	case k < 4: // certificate under the intermediate
		o := pki.Opts{CN: fmt.Sprintf("leaf%d.example", n), KeyIdx: 10 + r.Intn(3), DNSNames: []string{fmt.Sprintf("leaf%d.example", n)}}
		q := peculiar(r, &o, false)
		e := pki.Issue(o, w.interA)
		s = &subject{name: o.CN, der: e.DER, submit: [][]byte{e.DER, w.interA.DER}, path: [][]byte{w.interA.DER, w.rootA.DER}, kind: "x509", quirk: q}
	case k < 5: // certificate directly under the root, root included in the post
		o := pki.Opts{CN: fmt.Sprintf("direct%d.example", n), KeyIdx: 10 + r.Intn(3)}
		q := peculiar(r, &o, false)
		e := pki.Issue(o, w.rootA)
		s = &subject{name: o.CN, der: e.DER, submit: [][]byte{e.DER, w.rootA.DER}, path: [][]byte{w.rootA.DER}, kind: "x509-direct", quirk: q}
	case k < 8: // precertificate under the intermediate
		o := pki.Opts{CN: fmt.Sprintf("pre%d.example", n), KeyIdx: 10 + r.Intn(3), ExtraExt: []pkix.Extension{pki.PoisonExt()}, Serial: bigInt(500000 + int64(n))}
		q := peculiar(r, &o, true)
		e := pki.Issue(o, w.interA)
		s = w.reference(&subject{name: o.CN, pre: true, der: e.DER, submit: [][]byte{e.DER, w.interA.DER}, path: [][]byte{w.interA.DER, w.rootA.DER}, kind: "precert", quirk: q}, o, w.interA)
	default: // precertificate signed by a precertificate signing certificate
		// the final certificate is issued by the intermediate itself, never by the signing certificate
		o := pki.Opts{CN: fmt.Sprintf("prei%d.example", n), KeyIdx: 10 + r.Intn(3), ExtraExt: []pkix.Extension{pki.PoisonExt()}, Serial: bigInt(500000 + int64(n))}
		q := peculiar(r, &o, true)
		e := pki.Issue(o, w.preIssuer)
		s = w.reference(&subject{name: o.CN, pre: true, der: e.DER, submit: [][]byte{e.DER, w.preIssuer.DER, w.interA.DER},
			path: [][]byte{w.preIssuer.DER, w.interA.DER, w.rootA.DER}, kind: "precert-preissuer", quirk: q}, o, w.interA)
	}
	if s.quirk != "" {
		s.kind += "+" + s.quirk
	}
	return s
}

// the same certificate with the cross-signed intermediate: another valid chain for a duplicate
func (w *world) crossChain(s *subject) *subject {
	c := *s
	c.submit = [][]byte{s.der, w.interB.DER}
	c.path = [][]byte{w.interB.DER, w.rootB.DER}
	c.kind = s.kind + "+xchain"
	return &c
}

// two precertificates with the same TBSCertificate and different signature bytes
func (w *world) twins(n int) (*subject, *subject) {
	mk := func() *subject {
		o := pki.Opts{CN: fmt.Sprintf("twin%d.example", n), KeyIdx: 13, ExtraExt: []pkix.Extension{pki.PoisonExt()}, Serial: bigInt(900000 + int64(n))}
		e := pki.Issue(o, w.interA)
		return w.reference(&subject{name: e.Cert.Subject.CommonName, pre: true, der: e.DER, submit: [][]byte{e.DER, w.interA.DER}, path: [][]byte{w.interA.DER, w.rootA.DER}, kind: "precert-twin"}, o, w.interA)
	}
	a, b := mk(), mk()
	return a, b
}

// ---------------------------------------------------------------- in-memory transport

type tagKey struct{}

// retryStopKey: LogClient.AddChain retries for ever, with a real-time back-off, a POST whose answer
// is 408 / 429 / 503 or a 200 whose body is not JSON ("the caller should set a deadline").  The
// harness has no wall-clock deadlines; instead the transport cancels the submission's context as
// soon as it has delivered such an answer, so that the client gives up at once and the submission
// is reported as refused (a valid submission must be answered with an SCT the first time here:
// the reference backend never asks for a retry).
type retryStopKey struct{}

type callTag struct {
	worker int
	call   int
}

type exchange struct {
	id      int
	tag     callTag
	method  string
	path    string // endpoint path, e.g. /ct/v1/get-sth
	query   url.Values
	reqBody []byte
	status  int
	body    []byte
	paniced bool
	now     time.Time // front-end clock at the time of the request
	// what the log's signer saw of this request (written by the request's own goroutine)
	signCalls  int
	signFailed bool // the harness made a signer call of this request return an error
}

type memRT struct {
	env   *ctfeenv.Env
	mu    sync.Mutex
	exs   []*exchange
	byTag map[callTag]*exchange
	cur   sync.Map // goroutine id -> *exchange being served on that goroutine
	// yield, if set, is called by the ResponseWriter of a request between two pieces of a body it
	// is taking over (see pieceWriter); cutSeed varies the cuts from round to round
	yield   func(ex *exchange)
	cutSeed uint64
}

func (t *memRT) setYield(f func(ex *exchange), seed uint64) {
	t.mu.Lock()
	t.yield, t.cutSeed = f, seed
	t.mu.Unlock()
}

// pieceWriter is the http.ResponseWriter the handlers write to.  A connection does not take a
// response body over in one instant: net/http copies it into a 4 KB buffer and on to a socket, and
// the handler can be descheduled or blocked (slow reader) in the middle of Write while other
// requests are served.  When the transport has a yield function, Write therefore takes the slice
// it is given over in PIECES (a short first piece, then growing ones: a handful of pieces even for
// a body of hundreds of KB) with a scheduling point between two pieces - the gate of a stepwise
// round, runtime.Gosched in a parallel round, a channel in the held-inside-Write scenario - so that
// the responses of overlapping requests interleave at the byte level.  The bytes of a piece are
// read from the caller's slice only when the piece is taken: whoever changes the slice while
// Write has not returned changes what the client receives, as on a real connection.  Without a
// yield function (no overlapping requests) the body is taken in one piece, like
// httptest.ResponseRecorder does.
type pieceWriter struct {
	hdr   http.Header
	code  int
	body  bytes.Buffer
	yield func()
	rnd   uint64 // splitmix64 state for the cuts
}

func (w *pieceWriter) Header() http.Header { return w.hdr }

func (w *pieceWriter) WriteHeader(code int) {
	if w.code == 0 {
		w.code = code
	}
}

func (w *pieceWriter) next() uint64 {
	w.rnd += 0x9e3779b97f4a7c15
	z := w.rnd
	z = (z ^ (z >> 30)) * 0xbf58476d1ce4e5b9
	z = (z ^ (z >> 27)) * 0x94d049bb133111eb
	return z ^ (z >> 31)
}

func (w *pieceWriter) Write(p []byte) (int, error) {
	if w.code == 0 {
		w.code = http.StatusOK
	}
	if w.yield == nil {
		w.body.Write(p)
		return len(p), nil
	}
	piece := 1 + int(w.next()%48)
	for off := 0; off < len(p); {
		n := piece
		if n > len(p)-off {
			n = len(p) - off
		}
		w.body.Write(p[off : off+n])
		off += n
		if off < len(p) {
			w.yield()
		}
		piece = 3*piece + int(w.next()%64)
	}
	return len(p), nil
}

// goid is the id of the calling goroutine.  The handlers run synchronously on the goroutine that
// calls RoundTrip, and crypto.Signer.Sign carries no context: this is how a signer call is
// attributed to the request (and worker) it belongs to.
func goid() uint64 {
	var buf [64]byte
	f := strings.Fields(string(buf[:runtime.Stack(buf[:], false)]))
	if len(f) < 2 || f[0] != "goroutine" {
		panic("unexpected runtime.Stack header")
	}
	id, err := strconv.ParseUint(f[1], 10, 64)
	if err != nil {
		panic(err)
	}
	return id
}

// current returns the exchange being served on the calling goroutine (nil: none).
func (t *memRT) current() *exchange {
	if v, ok := t.cur.Load(goid()); ok {
		return v.(*exchange)
	}
	return nil
}

func (t *memRT) exchangeOf(tag callTag) *exchange {
	t.mu.Lock()
	defer t.mu.Unlock()
	return t.byTag[tag]
}

// hookedSigner is the log's signer as the instance sees it: the real key behind a hook that can
// hold a call (slow or remote signer, HSM) or make it fail.
type hookedSigner struct {
	inner  crypto.Signer
	mu     sync.Mutex
	before func(ex *exchange) error // nil: pass through
	rt     *memRT
}

var errSigner = errors.New("c06 harness: signer unavailable")

func (s *hookedSigner) Public() crypto.PublicKey { return s.inner.Public() }

func (s *hookedSigner) Sign(rnd io.Reader, digest []byte, opts crypto.SignerOpts) ([]byte, error) {
	s.mu.Lock()
	f, rt := s.before, s.rt
	s.mu.Unlock()
	if rt != nil {
		ex := rt.current()
		if ex != nil {
			ex.signCalls++
		}
		if f != nil {
			if err := f(ex); err != nil {
				if ex != nil {
					ex.signFailed = true
				}
				return nil, err
			}
		}
	}
	return s.inner.Sign(rnd, digest, opts)
}

func (s *hookedSigner) set(f func(ex *exchange) error) {
	s.mu.Lock()
	s.before = f
	s.mu.Unlock()
}

func (t *memRT) RoundTrip(req *http.Request) (*http.Response, error) {
	var body []byte
	if req.Body != nil {
		body, _ = io.ReadAll(req.Body)
		req.Body.Close()
	}
	tag, _ := req.Context().Value(tagKey{}).(callTag)
	ex := &exchange{tag: tag, method: req.Method, path: strings.TrimPrefix(req.URL.Path, t.env.Prefix), query: req.URL.Query(), reqBody: body, now: t.env.Clock.Now()}
	t.mu.Lock()
	ex.id = len(t.exs)
	t.exs = append(t.exs, ex)
	if t.byTag == nil {
		t.byTag = map[callTag]*exchange{}
	}
	t.byTag[tag] = ex
	yield, cutSeed := t.yield, t.cutSeed
	t.mu.Unlock()
	g := goid()
	t.cur.Store(g, ex)
	defer t.cur.Delete(g)
	w := &pieceWriter{hdr: http.Header{}, rnd: cutSeed ^ uint64(tag.worker)<<32 ^ uint64(tag.call)<<8 ^ uint64(len(body))}
	if yield != nil {
		w.yield = func() { yield(ex) }
	}
	h, ok := t.env.Inst.Handlers[req.URL.Path]
	if !ok {
		w.WriteHeader(http.StatusNotFound)
	} else {
		r2 := httptest.NewRequest(req.Method, req.URL.RequestURI(), bytes.NewReader(body))
		r2 = r2.WithContext(reflog.WithReqID(req.Context(), ex.id))
		func() {
			defer func() {
				if p := recover(); p != nil {
					ex.paniced = true
				}
			}()
			h.ServeHTTP(w, r2)
		}()
	}
	if w.code == 0 {
		w.code = http.StatusOK
	}
	ex.status, ex.body = w.code, w.body.Bytes()
	rec := httptest.NewRecorder()
	if ex.paniced {
		ex.status = 599
		rec.WriteHeader(599)
	} else {
		for k, v := range w.hdr {
			rec.Header()[k] = v
		}
		rec.WriteHeader(w.code)
		rec.Write(ex.body)
	}
	if cancel, ok := req.Context().Value(retryStopKey{}).(context.CancelFunc); ok {
		var probe ct.AddChainResponse
		switch {
		case ex.status == http.StatusRequestTimeout, ex.status == http.StatusTooManyRequests, ex.status == http.StatusServiceUnavailable,
			ex.status == http.StatusOK && json.Unmarshal(ex.body, &probe) != nil:
			cancel()
		}
	}
	res := rec.Result()
	res.Request = req
	return res, nil
}

// ---------------------------------------------------------------- one history

type submission struct {
	sub    *subject
	bad    string // non-empty: a request that must be rejected before the backend ("json", "empty", "untrusted")
	nowNS  int64
	sct    *ct.SignedCertificateTimestamp
	err    error
	chainP []*ctx509.Certificate // parsed validated path incl. leaf
	first  *submission           // the accepted submission that created the stored leaf (itself if fresh)
	leafH  [32]byte
	refH   []byte // SHA-256(0x00 || RFC 6962 leaf derived from the harness's PKI), see subject.refLeaf
}

type hist struct {
	w    *world
	r    *rand.Rand
	env  *ctfeenv.Env
	log  *reflog.Log
	rt   *memRT
	lc   *client.LogClient
	li   *ctutil.LogInfo
	maxr int64
	algn bool
	ns0  uint64
	// external: issuance chains are kept in the external CTFE storage (store), not in the backend
	cf       hcfg
	external bool
	store    *chainStore
	servedAt map[int]servedEntry // what either entry endpoint served for an index (under mu)

	mu        sync.Mutex
	subs      map[callTag]*submission
	accepted  []*submission // in call order (sequential phases) - only used by drivers to pick targets
	sths      []*ct.SignedTreeHead
	fails     []string
	twinFails []string
	subjects  []*subject
	nsub      int
	clockNS   int64
	conc      bool
	tags      map[string]int
	pool      []*subject
	inRound   bool
	stray     *pki.Entity
	signer    *hookedSigner
	sthBias   bool   // concurrent round in which most operations are get-sth
	rootNS    uint64 // timestamp of the backend's latest root (main goroutine)
}

// sequenceAt is a sequencing step of the backend made by the main goroutine.
func (h *hist) sequenceAt(k int, ns uint64) {
	h.log.Sequence(context.Background(), k, ns)
	h.rootNS = ns
	h.tagf("op:sequence-%d", min(k, 4))
}

// rootTime draws the timestamp of the next root.  Besides "some time after the front end's clock"
// (which the clock's next step may overtake or not) the backend publishes roots that follow the
// previous one within the same nanosecond reading or the same millisecond (two sequencing steps
// less than 1 ms apart, a clock that was not advanced), or exactly on the next millisecond: the
// RFC 6962 timestamps of two different tree heads may be equal.
func (h *hist) rootTime(r *rand.Rand) uint64 {
	switch r.Intn(8) {
	case 0:
		h.tagf("root-time:same-nanosecond")
		return h.rootNS
	case 1:
		h.tagf("root-time:same-millisecond")
		return h.rootNS + uint64(r.Int63n(int64(1000000-h.rootNS%1000000)))
	case 2:
		h.tagf("root-time:next-millisecond")
		return (h.rootNS/1000000 + 1) * 1000000
	}
	return uint64(h.clockNS) + uint64(r.Int63n(2e9))
}

func (h *hist) fail(f string, a ...interface{}) {
	h.mu.Lock()
	h.fails = append(h.fails, fmt.Sprintf(f, a...))
	h.mu.Unlock()
}

// twinFail records a failure of the literal property that is due to twin precertificates only.
func (h *hist) twinFail(f string, a ...interface{}) {
	h.mu.Lock()
	h.twinFails = append(h.twinFails, fmt.Sprintf(f, a...))
	h.mu.Unlock()
}

func (h *hist) tagf(f string, a ...interface{}) {
	h.mu.Lock()
	h.tags[fmt.Sprintf(f, a...)]++
	h.mu.Unlock()
}

func (h *hist) ctx(tag callTag) context.Context {
	return context.WithValue(context.Background(), tagKey{}, tag)
}

func asn1Chain(ders [][]byte) []ct.ASN1Cert {
	var out []ct.ASN1Cert
	for _, d := range ders {
		out = append(out, ct.ASN1Cert{Data: d})
	}
	return out
}

func parseAll(ders [][]byte) []*ctx509.Certificate {
	var out []*ctx509.Certificate
	for _, d := range ders {
		c, err := ctx509.ParseCertificate(d)
		if err != nil && ctx509.IsFatal(err) {
			panic(err)
		}
		out = append(out, c)
	}
	return out
}

// submit posts a chain through LogClient (which verifies the SCT signature with the log key).
func (h *hist) submit(tag callTag, s *subject, wrongEndpoint bool) *submission {
	sb := &submission{sub: s, nowNS: h.env.Clock.Now().UnixNano()}
	sb.chainP = parseAll(append([][]byte{s.der}, s.path...))
	h.mu.Lock()
	h.subs[tag] = sb
	h.mu.Unlock()
	pre := s.pre
	if wrongEndpoint {
		pre = !pre
		sb.bad = "endpoint"
	}
	var sct *ct.SignedCertificateTimestamp
	var err error
	cctx, cancel := context.WithCancel(h.ctx(tag))
	defer cancel()
	cctx = context.WithValue(cctx, retryStopKey{}, cancel)
	if pre {
		sct, err = h.lc.AddPreChain(cctx, asn1Chain(s.submit))
	} else {
		sct, err = h.lc.AddChain(cctx, asn1Chain(s.submit))
	}
	sb.sct, sb.err = sct, err
	if wrongEndpoint {
		if err == nil {
			h.fail("%s accepted on the wrong endpoint", s.name)
		}
		return sb
	}
	if err != nil {
		h.fail("valid submission %s (%s) refused: %v", s.name, s.kind, err)
		return sb
	}
	// the property's last sentence starts here: an SCT was issued
	if verr := ctutil.VerifySCT(h.w.logKey.Public(), sb.chainP, sct, false); verr != nil {
		h.fail("SCT for %s does not verify (ctutil.VerifySCT): %v", s.name, verr)
	}
	lh, lerr := ctutil.LeafHash(sb.chainP, sct, false)
	if lerr != nil {
		h.fail("ctutil.LeafHash for %s: %v", s.name, lerr)
	}
	sb.leafH = lh
	// the same two facts from the certificate and the SCT ALONE, without the library's chain
	// handling: RFC 6962 s3.2 / s3.4 hand-encoded over the harness's own reference data (for a
	// precertificate: the final certificate's TBSCertificate and the key of the CA that issues it)
	if !h.refSCTVerifies(s, sct) {
		h.fail("SCT for %s (%s) does not verify over the RFC 6962 s3.2 input built from the final certificate and its issuer's key", s.name, s.kind)
	}
	sb.refH = h.log.H.Sum(append([]byte{0}, s.refLeaf(sct.Timestamp, sct.Extensions)...))
	if !bytes.Equal(sb.refH, lh[:]) {
		h.fail("leaf hash for %s (%s): RFC 6962 s3.4 leaf built from the final certificate and its issuer's key differs from ctutil.LeafHash on the submitted chain", s.name, s.kind)
	}
	h.mu.Lock()
	h.accepted = append(h.accepted, sb)
	h.mu.Unlock()
	if s.quirk != "" {
		// the premise of the peculiar-certificate stream: the lenient parser complains, but not fatally
		if _, perr := ctx509.ParseCertificate(s.der); perr != nil && !ctx509.IsFatal(perr) {
			h.tagf("cert:accepted-with-non-fatal-parser-errors:" + s.quirk)
		} else {
			h.tagf("cert:peculiarity-not-reported-by-parser:" + s.quirk)
		}
	}
	return sb
}

// refSCTVerifies checks the SCT the client returned with the standard library over the hand-encoded
// signature input, under the algorithms it declares (see refSigCheck).
func (h *hist) refSCTVerifies(s *subject, sct *ct.SignedCertificateTimestamp) bool {
	if sct.SCTVersion != ct.V1 || sct.LogID.KeyID != h.w.logID {
		return false
	}
	return refSigCheck(h.w.logKey.Public(), byte(sct.Signature.Algorithm.Hash), byte(sct.Signature.Algorithm.Signature),
		sct.Signature.Signature, s.refSCTInput(sct.Timestamp, sct.Extensions)) == ""
}

// embeddedRoute: the CA issues the final certificate with the SCT embedded; a TLS client has only
// that certificate, its issuer and the SCT.  ctutil must verify the SCT for it and derive the
// leaf hash that get-proof-by-hash finds.  Main goroutine only (pki.Issue).
func (h *hist) embeddedRoute(sb *submission) {
	s := sb.sub
	sctBytes, err := cttls.Marshal(*sb.sct)
	if err != nil {
		h.fail("SCT of %s does not serialise: %v", s.name, err)
		return
	}
	list, err := cttls.Marshal(ctx509.SignedCertificateTimestampList{SCTList: []ctx509.SerializedSCT{{Val: sctBytes}}})
	if err != nil {
		panic(err)
	}
	val, err := ctasn1.Marshal(list)
	if err != nil {
		panic(err)
	}
	o := s.finOpts
	o.ExtraExt = append(append([]pkix.Extension{}, o.ExtraExt...), pkix.Extension{Id: pki.OIDSCTList, Value: val})
	fin := pki.Issue(o, s.finCA)
	chain := []*ctx509.Certificate{fin.Cert, s.finCA.Cert}
	if err := ctutil.VerifySCT(h.w.logKey.Public(), chain, sb.sct, true); err != nil {
		h.fail("SCT of %s (%s) embedded in the final certificate does not verify (ctutil.VerifySCT): %v", s.name, s.kind, err)
	}
	lh, err := ctutil.LeafHash(chain, sb.sct, true)
	if err != nil || !bytes.Equal(lh[:], sb.refH) {
		h.fail("leaf hash of the final certificate of %s (%s) with embedded SCT (ctutil.LeafHash) is not the RFC 6962 leaf hash: %v", s.name, s.kind, err)
	}
	h.tagf("audit:embedded-sct")
}

func (h *hist) submitBad(tag callTag, kind string, pre bool) {
	sb := &submission{bad: kind, nowNS: h.env.Clock.Now().UnixNano(), sub: &subject{pre: pre, kind: "bad-" + kind}}
	h.mu.Lock()
	h.subs[tag] = sb
	h.mu.Unlock()
	var body []byte
	switch kind {
	case "json":
		body = []byte(`{"chain": [`)
	case "empty":
		body = []byte(`{"chain": []}`)
	case "untrusted":
		body, _ = json.Marshal(ct.AddChainRequest{Chain: [][]byte{h.stray.DER, h.w.untrusted.DER}})
	}
	p := ct.AddChainPath
	if pre {
		p = ct.AddPreChainPath
	}
	req, _ := http.NewRequestWithContext(h.ctx(tag), http.MethodPost, "https://c06.test"+h.env.Prefix+p, bytes.NewReader(body))
	res, _ := h.rt.RoundTrip(req)
	if res.StatusCode < 400 || res.StatusCode > 499 {
		h.fail("bad submission (%s) answered %d", kind, res.StatusCode)
	}
}

func (h *hist) getSTH(tag callTag) *ct.SignedTreeHead {
	sth, err := h.lc.GetSTH(h.ctx(tag)) // verifies the signature with the log key
	if err != nil {
		h.fail("get-sth failed or did not verify: %v", err)
		return nil
	}
	h.mu.Lock()
	h.sths = append(h.sths, sth)
	h.mu.Unlock()
	return sth
}

// getSTHSignerMayFail is a get-sth during which the harness makes the signer fail: an error answer
// is expected when the signer was reached; a 200 (served from the signature cache without the
// signer) must be a verifying STH like any other.
func (h *hist) getSTHSignerMayFail(tag callTag) {
	sth, err := h.lc.GetSTH(h.ctx(tag))
	ex := h.rt.exchangeOf(tag)
	if err != nil {
		if ex == nil || !ex.signFailed {
			h.fail("get-sth failed or did not verify although the signer was not made to fail: %v", err)
		} else if ex.status == 200 {
			h.fail("get-sth answered 200 after the signer failed, and the STH does not verify: %v", err)
		} else {
			h.tagf("observed:get-sth-error-after-signer-failure")
		}
		return
	}
	h.mu.Lock()
	h.sths = append(h.sths, sth)
	h.mu.Unlock()
}

// consistency asks for (first, second); when both are within the tree it must be answered and verify.
func (h *hist) consistency(tag callTag, first, second uint64, inRange bool) {
	pr, err := h.lc.GetSTHConsistency(h.ctx(tag), first, second)
	if !inRange {
		if err == nil && first > 0 && second > uint64(h.log.Size()) {
			h.fail("get-sth-consistency(%d,%d) answered although the log has only %d entries", first, second, h.log.Size())
		}
		return
	}
	if err != nil {
		h.fail("get-sth-consistency(%d,%d) in range refused: %v", first, second, err)
		return
	}
	r1, r2 := h.log.RootAt(int(first)), h.log.RootAt(int(second))
	if verr := proof.VerifyConsistency(rfc6962.DefaultHasher, first, second, pr, r1, r2); verr != nil {
		h.fail("served consistency proof (%d,%d) does not verify: %v", first, second, verr)
	}
}

// chainStore is the external CTFE storage of issuance chains (storage.IssuanceChainStorage), in
// memory: what the MySQL / PostgreSQL tables do (insert unless present, select by key).
type chainStore struct {
	mu        sync.Mutex
	m         map[string][]byte
	adds, got int
}

func (s *chainStore) FindByKey(_ context.Context, key []byte) ([]byte, error) {
	s.mu.Lock()
	defer s.mu.Unlock()
	s.got++
	v, ok := s.m[string(key)]
	if !ok {
		return nil, errors.New("issuance chain not found")
	}
	return append([]byte{}, v...), nil
}

func (s *chainStore) Add(_ context.Context, key, chain []byte) error {
	s.mu.Lock()
	defer s.mu.Unlock()
	s.adds++
	if _, ok := s.m[string(key)]; !ok {
		s.m[string(key)] = append([]byte{}, chain...)
	}
	return nil
}

type servedEntry struct {
	li, x []byte
	by    string
}

// served is the oracle on ONE entry that an endpoint served for index idx (the property: "every
// entry served for index i ... whose stored entry decodes to the submitted certificate and chain"),
// wherever the instance keeps its issuance chains:
//   - leaf_input is the backend's leaf i, and is the RFC 6962 s3.4 leaf (hand-encoded from the
//     harness's reference data) of a submission of the certificate stored under that leaf's identity;
//   - extra_data is, byte for byte, the hand-encoded RFC 6962 s4.6 extra_data of such a submission
//     (several candidates only when the certificate was submitted with different chains); with
//     inline chains it is also the backend's ExtraData;
//   - it is what was served for idx before, by this or by the other endpoint.
func (h *hist) served(by string, idx int, li, x []byte) {
	st := h.log.LeafAt(idx)
	if !bytes.Equal(st.Value, li) {
		h.fail("%s: leaf_input served for index %d is not the stored leaf", by, idx)
	}
	if !h.external && !bytes.Equal(st.Extra, x) {
		h.fail("%s: extra_data served for index %d is not the stored extra data", by, idx)
	}
	h.mu.Lock()
	defer h.mu.Unlock()
	leafOK, extraOK, known := false, false, false
	for _, sb := range h.subs {
		if sb.bad != "" || sb.sub.der == nil {
			continue
		}
		if id := sha256.Sum256(sb.sub.der); !bytes.Equal(id[:], st.ID) {
			continue
		}
		known = true
		if len(li) > 10 && li[0] == 0 && li[1] == 0 && bytes.Equal(li[10:], append(sb.sub.refEntry(nil), 0, 0)) {
			leafOK = true
		}
		if bytes.Equal(x, sb.sub.refExtra()) {
			extraOK = true
		}
	}
	if !known {
		h.fails = append(h.fails, fmt.Sprintf("%s: index %d holds a leaf whose identity is not the SHA-256 of a submitted certificate", by, idx))
	} else {
		if !leafOK {
			h.fails = append(h.fails, fmt.Sprintf("%s: leaf_input served for index %d is not the RFC 6962 leaf of the certificate submitted under that identity", by, idx))
		}
		if !extraOK {
			h.fails = append(h.fails, fmt.Sprintf("%s: extra_data served for index %d (%d bytes) is not the RFC 6962 extra_data (certificate and chain) of a submission of that certificate", by, idx, len(x)))
		}
	}
	if old, ok := h.servedAt[idx]; ok {
		if !bytes.Equal(old.li, li) || !bytes.Equal(old.x, x) {
			h.fails = append(h.fails, fmt.Sprintf("%s: the entry served for index %d differs from the one %s served for it before", by, idx, old.by))
		}
		if old.by != by {
			h.tags["observed:entry-served-by-both-endpoints"]++
		}
	} else {
		h.servedAt[idx] = servedEntry{append([]byte{}, li...), append([]byte{}, x...), by}
	}
}

func (h *hist) entryAndProof(tag callTag, idx, size uint64, inRange bool) {
	rsp, err := h.lc.GetEntryAndProof(h.ctx(tag), idx, size)
	if !inRange {
		if err == nil && size > uint64(h.log.Size()) {
			h.fail("get-entry-and-proof(%d,%d) served an entry for a tree the log does not have (%d entries)", idx, size, h.log.Size())
		}
		return
	}
	if err != nil {
		h.fail("get-entry-and-proof(%d,%d) in range refused: %v", idx, size, err)
		return
	}
	lh := rfc6962.DefaultHasher.HashLeaf(rsp.LeafInput)
	if verr := proof.VerifyInclusion(rfc6962.DefaultHasher, idx, size, lh, rsp.AuditPath, h.log.RootAt(int(size))); verr != nil {
		h.fail("get-entry-and-proof(%d,%d): audit path does not verify: %v", idx, size, verr)
	}
	h.served("get-entry-and-proof", int(idx), rsp.LeafInput, rsp.ExtraData)
}

// getEntries reads [start, end] through the history's LogClient, in one of the two forms the client
// offers: GetRawEntries (JSON decoded, nothing else) or - decoded - GetEntries, which hands the
// entries back PARSED (ct.LogEntry: index, Merkle tree leaf, certificate or precertificate, chain),
// the form a monitor works with.  In the decoded form the raw answer is taken from the recorded
// exchange, so that every oracle on the served bytes applies to both forms, and the parsed entries
// are checked against the submissions (decodedEntries).  A 200 answer that the client then fails to
// hand back is a failure of the property's last clause ("... whose stored entry decodes to the
// submitted certificate and chain"), reported here; the raw answer is returned all the same.
func (h *hist) getEntries(tag callTag, start, end int64, decoded bool) (*ct.GetEntriesResponse, error) {
	if !decoded {
		return h.lc.GetRawEntries(h.ctx(tag), start, end)
	}
	h.tagf("client:get-entries-decoded")
	les, err := h.lc.GetEntries(h.ctx(tag), start, end)
	ex := h.rt.exchangeOf(tag)
	if ex == nil || ex.status != http.StatusOK {
		if err == nil {
			h.fail("LogClient.GetEntries(%d,%d) returned entries without a 200 answer of the log", start, end)
			err = errors.New("no 200 answer")
		}
		return nil, err
	}
	var raw ct.GetEntriesResponse
	if jerr := json.Unmarshal(ex.body, &raw); jerr != nil {
		if err == nil {
			h.fail("LogClient.GetEntries(%d,%d) returned entries for an answer that is not JSON", start, end)
			err = jerr
		}
		return nil, err
	}
	if err != nil {
		// which of the served entries hold a certificate the lenient parser complains about
		var odd []string
		for j := range raw.Entries {
			if q := h.quirkAt(int(start) + j); q != "" {
				odd = append(odd, fmt.Sprintf("%d:%s", int(start)+j, q))
			}
		}
		h.fail("LogClient.GetEntries(%d,%d): the log served %d entries, the client does not decode them to the submitted certificates and chains (entries with a peculiar certificate: %v): %s",
			start, end, len(raw.Entries), odd, errClass(err))
		return &raw, nil
	}
	h.decodedEntries(start, end, &raw, les)
	return &raw, nil
}

// errClass: the kind of an error of LogClient.GetEntries, without texts that vary.
func errClass(err error) string {
	var re client.RspError
	if errors.As(err, &re) {
		var nf ctx509.NonFatalErrors
		if errors.As(re.Err, &nf) {
			return fmt.Sprintf("RspError (status %d) carrying x509.NonFatalErrors only", re.StatusCode)
		}
		return fmt.Sprintf("RspError (status %d): %v", re.StatusCode, re.Err)
	}
	return err.Error()
}

// quirkAt: the peculiarity of the certificate stored at index idx ("" if none / unknown).
func (h *hist) quirkAt(idx int) string {
	if idx < 0 || idx >= h.log.Size() {
		return ""
	}
	st := h.log.LeafAt(idx)
	h.mu.Lock()
	defer h.mu.Unlock()
	for _, sb := range h.subs {
		if sb.bad != "" || sb.sub.der == nil {
			continue
		}
		if id := sha256.Sum256(sb.sub.der); bytes.Equal(id[:], st.ID) {
			return sb.sub.quirk
		}
	}
	return ""
}

// decodedEntries is the oracle on what LogClient.GetEntries(start, end) handed back for the raw
// answer raw: one parsed entry per served entry, in order, carrying its index; entry j is of the
// type of the submission stored under the identity of leaf start+j and decodes to THAT submission:
// the certificate (for a precertificate: the submitted precertificate, and the issuer key hash and
// TBSCertificate of the harness's reference data) byte for byte, and the chain of a submission of
// that certificate - whatever the lenient parser has to say about the certificate.
func (h *hist) decodedEntries(start, end int64, raw *ct.GetEntriesResponse, les []ct.LogEntry) {
	if len(les) != len(raw.Entries) {
		h.fail("LogClient.GetEntries(%d,%d) returned %d entries for an answer with %d", start, end, len(les), len(raw.Entries))
		return
	}
	for j := range les {
		e, idx := &les[j], int(start)+j
		if idx >= h.log.Size() {
			break // reported by the caller
		}
		if e.Index != int64(idx) {
			h.fail("LogClient.GetEntries(%d,%d): entry %d carries index %d", start, end, j, e.Index)
		}
		st := h.log.LeafAt(idx)
		h.mu.Lock()
		known, certOK, chainOK, quirk := false, false, false, ""
		for _, sb := range h.subs {
			if sb.bad != "" || sb.sub.der == nil {
				continue
			}
			if id := sha256.Sum256(sb.sub.der); !bytes.Equal(id[:], st.ID) {
				continue
			}
			known, quirk = true, sb.sub.quirk
			if sb.sub.pre {
				p := e.Precert
				certOK = certOK || p != nil && e.X509Cert == nil && bytes.Equal(p.Submitted.Data, sb.sub.der) && bytes.Equal(p.IssuerKeyHash[:], sb.sub.refIKH) &&
					p.TBSCertificate != nil && bytes.Equal(p.TBSCertificate.Raw, sb.sub.refTBS)
			} else {
				certOK = certOK || e.X509Cert != nil && e.Precert == nil && bytes.Equal(e.X509Cert.Raw, sb.sub.der)
			}
			chainOK = chainOK || chainEq(e.Chain, sb.sub.path)
		}
		if known && quirk != "" {
			h.tags["observed:peculiar-certificate-decoded-by-client"]++
		}
		h.mu.Unlock()
		if !known {
			continue // reported by served()
		}
		if !certOK {
			h.fail("LogClient.GetEntries(%d,%d): entry %d does not decode to the certificate submitted under that leaf's identity", start, end, idx)
		}
		if !chainOK {
			h.fail("LogClient.GetEntries(%d,%d): entry %d does not decode to the chain of a submission of that certificate", start, end, idx)
		}
	}
}

func (h *hist) entries(tag callTag, start, end int64, inRange, decoded bool) {
	rsp, err := h.getEntries(tag, start, end, decoded)
	if !inRange {
		if err == nil && start >= int64(h.log.Size()) {
			h.fail("get-entries(%d,%d) answered although the log has only %d entries", start, end, h.log.Size())
		}
		return
	}
	if err != nil {
		h.fail("get-entries(%d,%d) in range refused: %v", start, end, err)
		return
	}
	if len(rsp.Entries) == 0 || int64(len(rsp.Entries)) > end-start+1 || int64(len(rsp.Entries)) > h.maxr {
		h.fail("get-entries(%d,%d): %d entries", start, end, len(rsp.Entries))
	}
	for j, e := range rsp.Entries {
		if int(start)+j >= h.log.Size() {
			h.fail("get-entries(%d,%d): entry %d is beyond the log's %d entries", start, end, j, h.log.Size())
			break
		}
		h.served("get-entries", int(start)+j, e.LeafInput, e.ExtraData)
	}
}

func (h *hist) proofByHash(tag callTag, hash []byte, size uint64, expectIdx int64) {
	rsp, err := h.lc.GetProofByHash(h.ctx(tag), hash, size)
	if expectIdx < 0 {
		if err == nil && (expectIdx == -1 || size > uint64(h.log.Size())) {
			h.fail("get-proof-by-hash(size=%d) answered for an unknown hash or a tree the log does not have (%d entries)", size, h.log.Size())
		}
		return
	}
	if err != nil {
		h.fail("get-proof-by-hash(size=%d) for a leaf of that tree refused: %v", size, err)
		return
	}
	if verr := proof.VerifyInclusion(rfc6962.DefaultHasher, uint64(rsp.LeafIndex), size, hash, rsp.AuditPath, h.log.RootAt(int(size))); verr != nil {
		h.fail("get-proof-by-hash(size=%d): audit path does not verify: %v", size, verr)
	}
}

// ---------------------------------------------------------------- random operations

// freshSubject returns a certificate not submitted before.  Certificates are issued by the main
// goroutine only (pki.Issue and the history's PRNG are not safe for concurrent use): concurrent
// rounds draw from a pool filled beforehand.
func (h *hist) freshSubject() *subject {
	h.mu.Lock()
	defer h.mu.Unlock()
	var s *subject
	if len(h.pool) > 0 {
		s, h.pool = h.pool[0], h.pool[1:]
	} else if h.inRound {
		panic("subject pool exhausted in a concurrent round")
	} else {
		h.nsub++
		s = h.w.leaf(h.r, h.nsub)
	}
	h.subjects = append(h.subjects, s)
	return s
}

func (h *hist) fillPool(n int) {
	for i := 0; i < n; i++ {
		h.nsub++
		h.pool = append(h.pool, h.w.leaf(h.r, h.nsub))
	}
}

// op performs one random operation; rr is the PRNG stream of the calling worker.
func (h *hist) op(rr *rand.Rand, tag callTag) {
	size := uint64(h.log.Size())
	if h.sthBias && rr.Intn(100) < 55 { // a burst of get-sth traffic while the tree head changes
		h.tagf("op:get-sth")
		h.getSTH(tag)
		return
	}
	switch k := rr.Intn(100); {
	case k < 22:
		h.tagf("op:add-fresh")
		h.submit(tag, h.freshSubject(), false)
	case k < 29: // duplicate (same chain, or the cross-signed chain)
		h.mu.Lock()
		n := len(h.subjects)
		var s *subject
		if n > 0 {
			s = h.subjects[rr.Intn(n)]
		}
		h.mu.Unlock()
		if s == nil {
			h.submit(tag, h.freshSubject(), false)
			return
		}
		if rr.Intn(3) == 0 && !strings.Contains(s.kind, "preissuer") && !strings.Contains(s.kind, "direct") {
			h.tagf("op:add-dup-xchain")
			h.submit(tag, h.w.crossChain(s), false)
		} else {
			h.tagf("op:add-dup")
			h.submit(tag, s, false)
		}
	case k < 32:
		kind := []string{"json", "empty", "untrusted"}[rr.Intn(3)]
		h.tagf("op:add-bad-" + kind)
		h.submitBad(tag, kind, rr.Intn(2) == 0)
	case k < 34:
		h.tagf("op:add-wrong-endpoint")
		h.submit(tag, h.freshSubject(), true)
	case k < 45:
		h.tagf("op:get-sth")
		h.getSTH(tag)
	case k < 57:
		if size == 0 || rr.Intn(8) == 0 {
			// first = 0 (no backend call), or beyond the tree
			if rr.Intn(2) == 0 {
				h.tagf("op:consistency-first0")
				h.consistency(tag, 0, uint64(rr.Intn(int(size)+2)), false)
			} else {
				h.tagf("op:consistency-beyond")
				h.consistency(tag, 1+uint64(rr.Intn(int(size)+1)), size+1+uint64(rr.Intn(3)), false)
			}
			return
		}
		second := 1 + uint64(rr.Intn(int(size)))
		first := 1 + uint64(rr.Intn(int(second)))
		if rr.Intn(5) == 0 {
			first = second
		}
		h.tagf("op:consistency")
		h.consistency(tag, first, second, !h.conc || true)
	case k < 67:
		if size == 0 {
			h.tagf("op:proof-empty-tree")
			h.proofByHash(tag, make([]byte, 32), 1, -1)
			return
		}
		if rr.Intn(8) == 0 {
			h.tagf("op:proof-unknown-or-beyond")
			hh := sha256.Sum256([]byte{byte(rr.Intn(256))})
			ts := 1 + uint64(rr.Intn(int(size)+2))
			mode := int64(-1) // unknown hash
			if rr.Intn(2) == 0 {
				hh = [32]byte(h.log.LeafAt(rr.Intn(int(size))).MerkleHash)
				ts = size + 1
				mode = -2 // known leaf, tree size beyond the log
			}
			h.proofByHash(tag, hh[:], ts, mode)
			return
		}
		i := rr.Intn(int(size))
		ts := uint64(i) + 1 + uint64(rr.Intn(int(size)-i))
		h.tagf("op:proof-by-hash")
		h.proofByHash(tag, h.log.LeafAt(i).MerkleHash, ts, int64(i))
	case k < 77:
		if size == 0 || rr.Intn(8) == 0 {
			h.tagf("op:entries-beyond")
			h.entries(tag, int64(size)+int64(rr.Intn(3)), int64(size)+3, false, rr.Intn(2) == 0)
			return
		}
		s := int64(rr.Intn(int(size)))
		e := s + int64(rr.Intn(int(size)+3))
		h.tagf("op:get-entries")
		h.entries(tag, s, e, true, rr.Intn(2) == 0)
	case k < 89:
		if size == 0 || rr.Intn(8) == 0 {
			h.tagf("op:entry-and-proof-beyond")
			h.entryAndProof(tag, uint64(rr.Intn(int(size)+1)), size+1+uint64(rr.Intn(2)), false)
			return
		}
		ts := 1 + uint64(rr.Intn(int(size)))
		i := uint64(rr.Intn(int(ts)))
		h.tagf("op:get-entry-and-proof")
		h.entryAndProof(tag, i, ts, true)
	case k < 92:
		h.tagf("op:get-roots")
		roots, err := h.lc.GetAcceptedRoots(h.ctx(tag))
		if err != nil || len(roots) != 2 {
			h.fail("get-roots: %v (%d roots)", err, len(roots))
		}
	default: // ctutil.LogInfo: find an issued SCT's leaf in the current tree
		h.mu.Lock()
		var sb *submission
		if len(h.accepted) > 0 {
			sb = h.accepted[rr.Intn(len(h.accepted))]
		}
		h.mu.Unlock()
		if sb == nil || size == 0 {
			h.tagf("op:get-sth")
			h.getSTH(tag)
			return
		}
		how := rr.Intn(3)
		h.tagf("op:loginfo-verify-inclusion-" + viName[how])
		h.verifyInclusion(tag, sb, how, size)
	}
}

// The entry points of ctutil.LogInfo through which a client looks an SCT's leaf up.  The LogInfo
// (and the LogClient under it) is ONE object for the whole history, like the verifier a monitor or
// a browser keeps per log: it remembers the last STH it fetched.
const (
	viAt      = iota // VerifyInclusionAt: tree size and root given by the caller
	viCurrent        // VerifyInclusion: fetches the log's current STH, remembers it, looks the leaf up in that tree
	viLatest         // VerifyInclusionLatest: looks the leaf up in the tree of the STH the LogInfo holds (fetches one if it holds none)
)

var viName = []string{"at", "current", "latest"}

// seqIndex is the lowest index at which the reference backend has sequenced a leaf with the leaf
// hash derived (RFC 6962 s3.4, by hand) from the submission's certificate and SCT; -1: not sequenced.
func (h *hist) seqIndex(sb *submission) int64 {
	n := h.log.Size()
	for i := 0; i < n; i++ {
		if bytes.Equal(h.log.LeafAt(i).MerkleHash, sb.refH) {
			return int64(i)
		}
	}
	return -1
}

// verifyInclusion looks the leaf of an issued SCT up through the history's LogInfo.  The oracle is
// the property's last sentence on what the CLIENT reports: a certificate for which an SCT was
// issued and whose entry the backend has sequenced (reference backend, before the call started)
// is found - in the tree of the given size (viAt), in the log's current tree whatever the
// timestamps of its tree heads (viCurrent), in the tree of the STH the client holds (viLatest,
// sequential phases; in a concurrent round which STH another worker's call has just left there is
// not determined) - and the index reported is one at which the backend holds that leaf.
func (h *hist) verifyInclusion(tag callTag, sb *submission, how int, size uint64) int64 {
	etype := ct.X509LogEntryType
	if sb.sub.pre {
		etype = ct.PrecertLogEntryType
	}
	leaf, err := ct.MerkleTreeLeafFromChain(sb.chainP, etype, sb.sct.Timestamp)
	if err != nil {
		h.fail("MerkleTreeLeafFromChain(%s): %v", sb.sub.name, err)
		return -1
	}
	at := h.seqIndex(sb)
	var idx int64
	mustFind := false
	where := ""
	switch how {
	case viAt:
		mustFind = at >= 0 && uint64(at) < size
		where = fmt.Sprintf("tree %d (VerifyInclusionAt)", size)
		idx, err = h.li.VerifyInclusionAt(h.ctx(tag), *leaf, sb.sct.Timestamp, size, h.log.RootAt(int(size)))
	case viCurrent:
		mustFind = at >= 0
		where = "the log's current tree (VerifyInclusion)"
		idx, err = h.li.VerifyInclusion(h.ctx(tag), *leaf, sb.sct.Timestamp)
	case viLatest:
		held := h.li.LastSTH()
		h.mu.Lock()
		inRound := h.inRound
		h.mu.Unlock()
		if held == nil {
			mustFind = at >= 0
			where = "the tree of the STH it fetches (VerifyInclusionLatest, none held)"
		} else {
			mustFind = !inRound && at >= 0 && uint64(at) < held.TreeSize
			where = fmt.Sprintf("the tree of the STH it holds, size %d (VerifyInclusionLatest)", held.TreeSize)
		}
		idx, err = h.li.VerifyInclusionLatest(h.ctx(tag), *leaf, sb.sct.Timestamp)
	}
	if how != viAt {
		if held := h.li.LastSTH(); held != nil { // an STH the client was served and now relies on
			h.mu.Lock()
			h.sths = append(h.sths, held)
			h.mu.Unlock()
		}
	}
	if err != nil {
		if mustFind {
			h.fail("SCT leaf of %s (%s), sequenced at index %d, not found / not verified by ctutil.LogInfo in %s", sb.sub.name, sb.sub.kind, at, where)
		}
		return -1
	}
	if idx < 0 || idx >= int64(h.log.Size()) || !bytes.Equal(h.log.LeafAt(int(idx)).MerkleHash, sb.refH) {
		h.fail("SCT leaf of %s (%s): ctutil.LogInfo reports index %d in %s, where the backend does not hold that leaf", sb.sub.name, sb.sub.kind, idx, where)
		return -1
	}
	return idx
}

// ---------------------------------------------------------------- deterministic concurrency

// gate serialises the backend RPCs of concurrently running workers in an order drawn from the
// PRNG: rounds of (wait until every worker is blocked at its next RPC or has finished; release
// the blocked ones one by one in a random permutation).  Between rounds the workers run in
// parallel (handler code before / after the RPC, signing, JSON, the signature cache).
//
// stepwise mode: every signer call is a scheduling point as well (enterKey from the signer hook),
// and each scheduling round releases exactly ONE blocked worker, drawn from the PRNG, and waits
// until it blocks again or finishes: one request runs at a time, so the whole execution -
// including what happens between an RPC and the signer (the signature cache) - is the
// interleaving the PRNG drew.  A request stays inside signer.Sign for as long as the draw passes
// it over (a slow signer), while other requests read the new root and consult the cache.
type gate struct {
	mu       sync.Mutex
	cond     *sync.Cond
	n        int
	atGate   map[int]chan struct{}
	done     int
	passed   chan struct{}
	stepwise bool
}

type workerKey struct{}

func newGate(n int) *gate {
	g := &gate{n: n, atGate: map[int]chan struct{}{}, passed: make(chan struct{})}
	g.cond = sync.NewCond(&g.mu)
	return g
}

func (g *gate) enter(ctx context.Context) func() {
	wk := -1
	if t, ok := ctx.Value(tagKey{}).(callTag); ok {
		wk = t.worker
	}
	if v, ok := ctx.Value(workerKey{}).(int); ok {
		wk = v
	}
	return g.enterKey(wk)
}

func (g *gate) enterKey(wk int) func() {
	ch := make(chan struct{})
	g.mu.Lock()
	g.atGate[wk] = ch
	g.cond.Broadcast()
	g.mu.Unlock()
	<-ch
	return func() { g.passed <- struct{}{} }
}

func (g *gate) finish() {
	g.mu.Lock()
	g.done++
	g.cond.Broadcast()
	g.mu.Unlock()
}

func (g *gate) schedule(r *rand.Rand) {
	for {
		g.mu.Lock()
		for len(g.atGate)+g.done < g.n {
			g.cond.Wait()
		}
		if len(g.atGate) == 0 {
			g.mu.Unlock()
			return
		}
		var ws []int
		for wk := range g.atGate {
			ws = append(ws, wk)
		}
		sort.Ints(ws)
		if g.stepwise {
			ws = []int{ws[r.Intn(len(ws))]}
		}
		chans := map[int]chan struct{}{}
		for _, wk := range ws {
			chans[wk] = g.atGate[wk]
			delete(g.atGate, wk)
		}
		g.mu.Unlock()
		for _, i := range r.Perm(len(ws)) {
			close(chans[ws[i]])
			<-g.passed
		}
	}
}

// ---------------------------------------------------------------- get-sth inside the signer

// sthOverlap: some STH has been served (the signature cache holds its signature); the backend
// publishes a new tree head; then 1..4 get-sth requests are issued one after the other, each held
// INSIDE signer.Sign (or finished, if it never reached the signer) before the next one starts, so
// that they all read the root and consult the cache while the earlier ones are still signing; a
// sequencing step may fall between two of them; the signer fails for one of them (always, when
// there is only one); they are released in a drawn order; then the request is retried.  Every STH
// served with 200 must verify and report the backend's root (getSTH and the emit pass check it);
// an error answer is accepted only from the request whose signer call was made to fail.
// Deterministic: nothing here depends on the Go scheduler.
func (h *hist) sthOverlap(next func() callTag, advance func()) {
	r := h.r
	h.tagf("scenario:get-sth-inside-signer")
	advance()
	cur := h.getSTH(next())
	advance()
	if r.Intn(2) == 0 {
		h.submit(next(), h.freshSubject(), false)
	}
	newHead := func(k int) {
		ns := uint64(h.clockNS) + uint64(r.Int63n(2e9))
		if cur != nil && ns/1000000 == cur.Timestamp {
			ns += 1000000 // a tree head with other bytes even if no leaf is integrated
		}
		h.sequenceAt(k, ns)
	}
	newHead(h.log.Queued())
	n := 1 + r.Intn(4)
	failIdx, midSeq := -1, -1
	if n == 1 || r.Intn(3) == 0 {
		failIdx = r.Intn(n)
	}
	if n > 1 && r.Intn(3) == 0 {
		midSeq = 1 + r.Intn(n-1)
	}
	type inflight struct {
		entered, release, done chan struct{}
		fail                   bool
	}
	var mu sync.Mutex
	reg := map[callTag]*inflight{}
	h.signer.set(func(ex *exchange) error {
		if ex == nil || ex.path != ct.GetSTHPath {
			return nil
		}
		mu.Lock()
		f := reg[ex.tag]
		mu.Unlock()
		if f == nil {
			return nil
		}
		close(f.entered)
		<-f.release
		if f.fail {
			return errSigner
		}
		return nil
	})
	var fl []*inflight
	inside := 0
	for i := 0; i < n; i++ {
		if i == midSeq {
			newHead(r.Intn(2))
		}
		f := &inflight{entered: make(chan struct{}), release: make(chan struct{}), done: make(chan struct{}), fail: i == failIdx}
		tag := next()
		mu.Lock()
		reg[tag] = f
		mu.Unlock()
		fl = append(fl, f)
		go func() {
			defer close(f.done)
			if f.fail {
				h.getSTHSignerMayFail(tag)
			} else {
				h.getSTH(tag)
			}
		}()
		select {
		case <-f.entered:
			inside++
		case <-f.done:
		}
	}
	if inside >= 2 {
		h.tagf("observed:get-sth-requests-overlap-inside-signer")
	}
	for _, i := range r.Perm(n) {
		close(fl[i].release)
		<-fl[i].done
	}
	h.signer.set(nil)
	h.getSTH(next()) // the retry / the next request for the same tree head
}

// ---------------------------------------------------------------- tree heads within one millisecond

// headsInOneMillisecond: the history's long-lived LogInfo looks a sequenced certificate up in the
// current tree (and so holds that tree's STH); then once or twice: a further certificate is given an
// SCT (the front end's clock moves or stands still), the backend sequences it and publishes a
// root whose timestamp is the previous root's (same nanosecond reading), a later one within the
// same millisecond, the next millisecond exactly, or any later time; the client looks the new
// certificate up through VerifyInclusion and then through VerifyInclusionLatest.  It has an SCT
// and is sequenced: it must be found, whatever the timestamps of the tree heads.
func (h *hist) headsInOneMillisecond(next func() callTag, advance func()) {
	r := h.r
	h.tagf("scenario:tree-heads-in-one-millisecond")
	advance()
	// a certificate that is sequenced already, or a new one
	var a *submission
	for _, sb := range h.accepted {
		if h.seqIndex(sb) >= 0 {
			a = sb
			break
		}
	}
	ns := h.rootNS
	if a == nil {
		a = h.submit(next(), h.freshSubject(), false)
		if ns < uint64(h.clockNS) {
			ns = uint64(h.clockNS)
		}
		ns += uint64(r.Int63n(2e9))
		h.sequenceAt(h.log.Queued(), ns)
	}
	if a.sct != nil {
		h.verifyInclusion(next(), a, viCurrent, 0)
	}
	for i, k := 0, 1+r.Intn(2); i < k; i++ {
		if r.Intn(2) == 0 {
			advance()
		}
		b := h.submit(next(), h.freshSubject(), false)
		switch r.Intn(4) {
		case 0:
			h.tagf("root-time:same-nanosecond")
		case 1:
			h.tagf("root-time:same-millisecond")
			ns += uint64(r.Int63n(int64(1000000 - ns%1000000)))
		case 2:
			h.tagf("root-time:next-millisecond")
			ns = (ns/1000000 + 1) * 1000000
		default:
			ns += uint64(r.Int63n(2e9))
		}
		h.sequenceAt(h.log.Queued(), ns)
		if b.sct != nil {
			h.verifyInclusion(next(), b, viCurrent, 0)
			h.verifyInclusion(next(), b, viLatest, 0)
		}
	}
}

// ---------------------------------------------------------------- requests held inside Write

// heldInsideWrite: 1..2 requests (any operation of the random stream) are started one after the
// other and each is held INSIDE the ResponseWriter's Write, after the first piece of its body has
// been taken over (a slow reader, a full socket buffer); while they are held 1..2 other requests
// are served from beginning to end; then the held ones are released in a drawn order and finish.
// Every answer must be the answer to its own request (the per-request oracles of the operations,
// and the emit pass).  In half of the runs the Go runtime is given a single processor for the
// duration, so that what the handlers share per processor (sync.Pool and the like) is shared by
// all the requests; nothing else here depends on the Go scheduler.
func (h *hist) heldInsideWrite(next func() callTag, advance func()) {
	r := h.r
	h.tagf("scenario:requests-held-inside-write")
	advance()
	nheld, nother := 1+r.Intn(2), 1+r.Intn(2)
	h.fillPool(2 * (nheld + nother))
	h.mu.Lock()
	h.inRound = true
	h.mu.Unlock()
	if r.Intn(2) == 0 {
		h.tagf("processors:one")
		defer runtime.GOMAXPROCS(runtime.GOMAXPROCS(1))
	}
	type inflight struct {
		entered, release, done chan struct{}
		held                   bool
	}
	var mu sync.Mutex
	reg := map[callTag]*inflight{}
	h.rt.setYield(func(ex *exchange) {
		mu.Lock()
		f := reg[ex.tag]
		first := f != nil && !f.held
		if first {
			f.held = true
		}
		mu.Unlock()
		if first {
			close(f.entered)
			<-f.release
		}
	}, r.Uint64())
	var fl []*inflight
	inside := 0
	for i := 0; i < nheld; i++ {
		f := &inflight{entered: make(chan struct{}), release: make(chan struct{}), done: make(chan struct{})}
		tag := next()
		mu.Lock()
		reg[tag] = f
		mu.Unlock()
		fl = append(fl, f)
		rr := rand.New(rand.NewSource(r.Int63()))
		go func() {
			defer close(f.done)
			h.op(rr, tag)
		}()
		select {
		case <-f.entered:
			inside++
		case <-f.done:
		}
	}
	if inside > 0 {
		h.tagf("observed:request-held-inside-write")
	}
	for i := 0; i < nother; i++ {
		h.op(r, next())
	}
	for _, i := range r.Perm(nheld) {
		close(fl[i].release)
		<-fl[i].done
	}
	h.rt.setYield(nil, 0)
	h.mu.Lock()
	h.inRound, h.pool = false, nil
	h.mu.Unlock()
}

// ---------------------------------------------------------------- run one history

func bigU(v uint64) string      { return strconv.FormatUint(v, 10) }
func bigUint(v uint64) *big.Int { return new(big.Int).SetUint64(v) }
func bigInt(v int64) *big.Int   { return big.NewInt(v) }

// hcfg is the configuration of the log a history runs against.
type hcfg struct {
	key   string // kind of log key (pki.Key)
	store string // "inline": issuance chains in the backend's ExtraData; "external-noop" / "external-lru": external CTFE storage behind that cache
}

// hcfgTable: the configurations are dealt to the histories from this table in a drawn order, so
// that any ten consecutive histories (a quick run's sequential ones) and the first five (its
// concurrent ones) cover every kind of key, both places for the chains, and RSA / P-256 with each.
var hcfgTable = []hcfg{
	{"p256", "inline"}, {"rsa2048", "external-noop"}, {"p256", "external-lru"}, {"rsa2048", "inline"}, {"p384", "external-noop"},
	{"p256", "inline"}, {"rsa3072", "inline"}, {"p256", "external-noop"}, {"rsa2048", "external-lru"}, {"p384", "inline"},
}

// deal returns n configurations: the table repeated, in an order drawn from the PRNG.
func deal(r *rand.Rand, n int) []hcfg {
	out := make([]hcfg, n)
	for i, j := range r.Perm(n) {
		out[i] = hcfgTable[j%len(hcfgTable)]
	}
	return out
}

func runHistory(w *world, r *rand.Rand, conc bool, caseNo int, cf hcfg) lib.Case {
	w.certs, w.certIdx, w.precerts = nil, map[string]int{}, map[int]bool{}
	w.setLogKey(cf.key)
	var store *chainStore
	var chainCache cache.IssuanceChainCache
	if cf.store != "inline" {
		store = &chainStore{m: map[string][]byte{}}
		ctype, copt := cache.NOOP, cache.Option{}
		if cf.store == "external-lru" { // small: chains are evicted and read back from the store
			ctype, copt = cache.LRU, cache.Option{Size: 2, TTL: time.Hour}
		}
		var cerr error
		if chainCache, cerr = cache.NewIssuanceChainCache(context.Background(), ctype, copt); cerr != nil {
			panic(cerr)
		}
	}
	maxr := []int64{1, 2, 3, 5, 7, 50, 1000}[r.Intn(7)]
	algn := r.Intn(2) == 0
	ctfe.MaxGetEntriesAllowed = maxr
	if err := flag.Set("align_getentries", strconv.FormatBool(algn)); err != nil {
		panic(err)
	}
	var hs *hookedSigner
	eopts := ctfeenv.Options{Roots: []*pki.Entity{w.rootA, w.rootB}, Dir: *lib.OutDir, LogKey: w.logKey}
	if store != nil {
		eopts.ChainStorage, eopts.ChainCache = store, chainCache
	}
	eopts.WrapSigner = func(s crypto.Signer) crypto.Signer { hs = &hookedSigner{inner: s}; return hs }
	env, err := ctfeenv.New(eopts)
	if err != nil {
		panic(err)
	}
	if hs == nil {
		panic("ctfeenv did not hand the log's signer to WrapSigner")
	}
	clock0 := time.Date(2024, 5, 6, 7, 8, 9, 0, time.UTC).Add(time.Duration(r.Int63n(1e9)))
	env.Clock.Set(clock0)
	ns0 := uint64(clock0.UnixNano()) - uint64(r.Int63n(5e9))
	lg := reflog.New(ns0)
	env.Backend.QueueLeafFn = func(c context.Context, q *trillian.QueueLeafRequest) (*trillian.QueueLeafResponse, error) {
		return lg.QueueLeaf(c, q)
	}
	env.Backend.GetLatestSignedLogRootFn = func(c context.Context, q *trillian.GetLatestSignedLogRootRequest) (*trillian.GetLatestSignedLogRootResponse, error) {
		return lg.GetLatestSignedLogRoot(c, q)
	}
	env.Backend.GetConsistencyProofFn = func(c context.Context, q *trillian.GetConsistencyProofRequest) (*trillian.GetConsistencyProofResponse, error) {
		return lg.GetConsistencyProof(c, q)
	}
	env.Backend.GetInclusionProofByHashFn = func(c context.Context, q *trillian.GetInclusionProofByHashRequest) (*trillian.GetInclusionProofByHashResponse, error) {
		return lg.GetInclusionProofByHash(c, q)
	}
	env.Backend.GetLeavesByRangeFn = func(c context.Context, q *trillian.GetLeavesByRangeRequest) (*trillian.GetLeavesByRangeResponse, error) {
		return lg.GetLeavesByRange(c, q)
	}
	env.Backend.GetEntryAndProofFn = func(c context.Context, q *trillian.GetEntryAndProofRequest) (*trillian.GetEntryAndProofResponse, error) {
		return lg.GetEntryAndProof(c, q)
	}
	rt := &memRT{env: env}
	hs.rt = rt
	hc := &http.Client{Transport: rt}
	lc, err := client.New("https://c06.test"+env.Prefix, hc, jsonclient.Options{PublicKeyDER: w.pubDER})
	if err != nil {
		panic(err)
	}
	li := &ctutil.LogInfo{Description: "c06", Client: lc, Verifier: w.verifier, PublicKey: w.pubDER}
	h := &hist{w: w, r: r, env: env, log: lg, rt: rt, lc: lc, li: li, maxr: maxr, algn: algn, ns0: ns0,
		cf: cf, external: store != nil, store: store, servedAt: map[int]servedEntry{},
		subs: map[callTag]*submission{}, conc: conc, tags: map[string]int{}, clockNS: clock0.UnixNano(), signer: hs, rootNS: ns0}
	h.stray = pki.Issue(pki.Opts{CN: "stray.example", KeyIdx: 12}, w.untrusted)

	call := 0
	next := func() callTag { call++; return callTag{worker: 0, call: call} }
	advance := func() { // non-round clock values: ms != 0 and s != ms
		h.clockNS += 1 + r.Int63n(3e9)
		env.Clock.Set(time.Unix(0, h.clockNS).UTC())
	}
	sequence := func() {
		k := []int{0, 1, 1, 2, 2, 3, 5, 8}[r.Intn(8)]
		if r.Intn(4) == 0 {
			k = lg.Queued()
		}
		h.sequenceAt(k, h.rootTime(r))
	}

	if !conc {
		n := 30 + r.Intn(40)
		for i, burst := 0, r.Intn(8); i < burst; i++ { // some histories start with a backlog
			advance()
			h.submit(next(), h.freshSubject(), false)
		}
		for i := 0; i < n; i++ {
			if r.Intn(5) != 0 { // one step in five happens at the same clock reading as the one before
				advance()
			}
			if r.Intn(6) == 0 {
				sequence()
				continue
			}
			h.op(r, next())
		}
		// deliberate corner scenarios (one in three histories each)
		if r.Intn(3) == 0 { // also in the middle of a history, not only before the audit
			h.sthOverlap(next, advance)
			for i, k := 0, r.Intn(6); i < k; i++ {
				advance()
				h.op(r, next())
			}
		}
		if r.Intn(3) == 0 {
			a, b := w.twins(caseNo)
			advance()
			h.subjects = append(h.subjects, a, b)
			h.submit(next(), a, false)
			h.submit(next(), b, false) // same clock value: same millisecond
			h.tagf("scenario:twin-precertificates")
		}
	} else {
		// a sequential prefix so that there is a tree, then rounds of concurrent workers
		for i := 0; i < 6; i++ {
			advance()
			h.submit(next(), h.freshSubject(), false)
		}
		sequence()
		if r.Intn(4) != 0 { // the signature cache holds a signature when the rounds begin
			h.getSTH(next())
		}
		rounds := 2 + r.Intn(2)
		firstStepwise := r.Intn(rounds)
		for rd := 0; rd < rounds; rd++ {
			advance() // the clock stands still during a concurrent round
			nw := 3 + r.Intn(4)
			h.fillPool(7 * nw) // at most 6 operations per worker
			h.inRound = true
			g := newGate(nw + 1)
			g.stepwise = rd == firstStepwise || r.Intn(2) == 0
			h.sthBias = r.Intn(2) == 0
			procs := 0
			if g.stepwise {
				h.tagf("round:stepwise")
				hs.set(func(ex *exchange) error { // every signer call is a scheduling point
					if ex != nil {
						g.enterKey(ex.tag.worker)()
					}
					return nil
				})
				// ... and so is every piece of a response body the ResponseWriter takes over: a
				// request stays inside Write for as long as the draw passes it over, while other
				// requests are served from their backend RPC to the end of their response
				rt.setYield(func(ex *exchange) { g.enterKey(ex.tag.worker)() }, r.Uint64())
				// one request runs at a time anyway; on a single processor the requests also share
				// what the handlers keep per processor (sync.Pool and the like)
				if r.Intn(2) == 0 {
					h.tagf("processors:one")
					procs = runtime.GOMAXPROCS(1)
				}
			} else {
				h.tagf("round:parallel")
				hs.set(func(ex *exchange) error { // a slow signer; the Go runtime schedules
					if ex != nil && ex.path == ct.GetSTHPath {
						time.Sleep(150 * time.Microsecond)
					}
					return nil
				})
				// the handler is descheduled between two pieces of the body; the Go runtime decides
				// who runs meanwhile
				rt.setYield(func(ex *exchange) { runtime.Gosched() }, r.Uint64())
			}
			if h.sthBias {
				h.tagf("round:get-sth-burst")
			}
			lg.Gate = g.enter
			var wg sync.WaitGroup
			seeds := make([]int64, nw+1)
			for i := range seeds {
				seeds[i] = r.Int63()
			}
			for wk := 1; wk <= nw; wk++ {
				wg.Add(1)
				go func(wk int) {
					defer wg.Done()
					defer g.finish()
					rr := rand.New(rand.NewSource(seeds[wk]))
					if g.stepwise { // one worker at a time from its very first statement
						g.enterKey(100*(rd+1) + wk)()
					}
					nops := 3 + rr.Intn(4)
					for j := 0; j < nops; j++ {
						h.op(rr, callTag{worker: 100*(rd+1) + wk, call: j})
					}
				}(wk)
			}
			roundNS := h.rootNS
			wg.Add(1)
			go func() { // the backend's sequencer runs concurrently with the requests
				defer wg.Done()
				defer g.finish()
				rr := rand.New(rand.NewSource(seeds[0]))
				for j := 0; j < 2+rr.Intn(2); j++ {
					ns := uint64(h.clockNS) + uint64(rr.Int63n(2e9))
					switch rr.Intn(6) { // roots less than a millisecond apart
					case 0:
						ns = roundNS
					case 1:
						ns = roundNS + uint64(rr.Int63n(int64(1000000-roundNS%1000000)))
					}
					roundNS = ns
					lg.Sequence(context.WithValue(context.Background(), workerKey{}, -7), rr.Intn(4), ns)
					h.tagf("op:sequence-concurrent")
				}
			}()
			g.schedule(r)
			wg.Wait()
			h.rootNS = roundNS
			lg.Gate = nil
			hs.set(nil)
			rt.setYield(nil, 0)
			if procs > 0 {
				runtime.GOMAXPROCS(procs)
			}
			h.inRound, h.pool, h.sthBias = false, nil, false
		}
	}
	// get-sth requests for a new tree head that overlap inside the signer; signer failures and retries
	for i, k := 0, []int{0, 1, 1, 2}[r.Intn(4)]; i < k; i++ {
		h.sthOverlap(next, advance)
	}
	// requests held inside Write while other requests are served; tree heads less than 1 ms apart
	// seen by the long-lived client
	for _, sc := range r.Perm(2) {
		if r.Intn(2) != 0 {
			continue
		}
		if sc == 0 {
			h.heldInsideWrite(next, advance)
		} else {
			h.headsInOneMillisecond(next, advance)
		}
	}

	// ---- audit: the property's sentences over everything this history produced
	if r.Intn(4) != 0 {
		advance()
	}
	h.sequenceAt(lg.Queued(), h.rootTime(r))
	final := h.getSTH(next())
	if final != nil {
		size := final.TreeSize
		// every two STHs served are linked by a served, verifying consistency proof
		type sk struct {
			n uint64
			r [32]byte
		}
		seen := map[sk]bool{}
		var distinct []*ct.SignedTreeHead
		for _, s := range h.sths {
			k := sk{s.TreeSize, s.SHA256RootHash}
			if !seen[k] {
				seen[k] = true
				distinct = append(distinct, s)
			}
		}
		sort.Slice(distinct, func(i, j int) bool { return distinct[i].TreeSize < distinct[j].TreeSize })
		for i := 0; i < len(distinct); i++ {
			for j := i + 1; j < len(distinct); j++ {
				a, b := distinct[i], distinct[j]
				if a.TreeSize == b.TreeSize {
					h.fail("two STHs of size %d with different roots", a.TreeSize)
					continue
				}
				pr, err := lc.GetSTHConsistency(h.ctx(next()), a.TreeSize, b.TreeSize)
				if err != nil {
					h.fail("no consistency proof served between STHs %d and %d: %v", a.TreeSize, b.TreeSize, err)
					continue
				}
				if verr := proof.VerifyConsistency(rfc6962.DefaultHasher, a.TreeSize, b.TreeSize, pr, a.SHA256RootHash[:], b.SHA256RootHash[:]); verr != nil {
					h.fail("STHs %d and %d are not linked by the served proof: %v", a.TreeSize, b.TreeSize, verr)
				}
				h.tagf("audit:sth-pair")
			}
		}
		// every issued SCT: found by the client's leaf hash, single index, decodes to the submission
		all, _ := h.fetchAll(next, int64(size))
		audited := 0
		for _, sb := range h.accepted {
			// the leaf hash derived from certificate + SCT alone (RFC 6962 by hand, reference data
			// of the harness's PKI) is found in the final tree, with a verifying audit path: when it
			// equals the library's leaf hash (checked at submission) this is the look-up
			// verifyInclusion makes below; otherwise look it up on its own
			if !bytes.Equal(sb.refH, sb.leafH[:]) {
				h.proofByHash(next(), sb.refH, size, 0)
			}
			if sb.sub.pre {
				h.embeddedRoute(sb)
				if strings.Contains(sb.sub.kind, "preissuer") {
					h.tagf("audit:sct-preissuer")
				}
			}
			// through the entry points of the history's LogInfo in turn: the first look-up refreshes
			// the STH it holds (VerifyInclusion), the later ones use the tree given explicitly, the
			// current one or the one held
			how := viCurrent
			if audited > 0 {
				how = []int{viAt, viAt, viCurrent, viLatest}[r.Intn(4)]
			}
			audited++
			h.tagf("audit:loginfo-" + viName[how])
			idx := h.verifyInclusion(next(), sb, how, size)
			if idx < 0 && h.seqIndex(sb) < 0 {
				h.fail("SCT leaf of %s (%s) is not in the backend's tree after everything queued was sequenced", sb.sub.name, sb.sub.kind)
			}
			if idx < 0 && how != viAt { // the rest of the audit needs the index: explicit final tree
				idx = h.verifyInclusion(next(), sb, viAt, size)
			}
			if idx < 0 {
				continue
			}
			h.tagf("audit:sct")
			var at []int
			for i, e := range all {
				if rfc6962.DefaultHasher.HashLeaf(e.LeafInput) != nil && bytes.Equal(rfc6962.DefaultHasher.HashLeaf(e.LeafInput), sb.leafH[:]) {
					at = append(at, i)
				}
			}
			if len(at) == 0 || int64(at[0]) != idx {
				h.fail("SCT leaf of %s: get-proof-by-hash says index %d, entries with that hash at %v", sb.sub.name, idx, at)
				continue
			}
			rle, err := ct.RawLogEntryFromLeaf(idx, &all[idx])
			if err != nil {
				h.fail("stored entry %d does not decode: %v", idx, err)
				continue
			}
			// the refined statement proved in Props/C06.v: a single index unless the certificate has
			// a twin precertificate (same TBSCertificate, same millisecond); the entry decodes to the
			// certificate and to the chain of the submission that CREATED the leaf
			// twin precertificates are a recorded known finding (known_findings.json, C06-twin-precertificates):
			// the literal property fails on them; they are reported under their own key
			twin := strings.Contains(sb.sub.kind, "twin")
			if len(at) != 1 && !twin {
				h.fail("SCT leaf of %s found at %d indices %v", sb.sub.name, len(at), at)
			}
			if len(at) != 1 && twin {
				h.tagf("observed:twin-leaf-at-two-indices")
				h.twinFail("SCT leaf of %s found at %d indices %v", sb.sub.name, len(at), at)
			}
			creator := h.creatorOf(sb)
			certOK := bytes.Equal(rle.Cert.Data, sb.sub.der)
			if twin && !certOK {
				// the lowest index carries the OTHER twin's certificate: the literal property fails here
				h.tagf("observed:twin-entry-decodes-to-other-certificate")
				h.twinFail("entry %d found for the SCT of %s decodes to the other twin's certificate", idx, sb.sub.name)
				certOK = strings.Contains(h.subjectOfDER(rle.Cert.Data), "twin")
			}
			if !certOK {
				h.fail("entry %d found for the SCT of %s decodes to another certificate", idx, sb.sub.name)
			}
			if creator != nil && !twin && !chainEq(rle.Chain, creator.sub.path) {
				h.fail("entry %d of %s does not decode to the chain of the submission that created it", idx, sb.sub.name)
			}
			if creator != nil && creator != sb && !chainEq(asn1Chain(creator.sub.path), sb.sub.path) {
				h.tagf("observed:duplicate-stored-with-first-chain")
			}
		}
		// every entry served comes with a verifying audit path
		for i := 0; i < int(size) && i < 6; i++ {
			j := uint64(r.Intn(int(size)))
			ts := j + 1 + uint64(r.Intn(int(size-j)))
			h.entryAndProof(next(), j, ts, true) // also: byte for byte what get-entries served for j above (h.served)
			h.tagf("audit:entry-and-proof")
		}
		if store != nil {
			// the configuration was in force: chains went to the store and were read back from it
			store.mu.Lock()
			adds, got := store.adds, store.got
			store.mu.Unlock()
			// (with the small LRU cache a history of at most two distinct chains is served from the
			// cache alone, so only the uncached configuration has to have read from the store)
			if len(h.accepted) > 0 && adds == 0 || size > 0 && got == 0 && cf.store != "external-lru" {
				panic("c06 harness: the instance did not use the external issuance-chain storage")
			}
		}
	}

	return h.emit(caseNo)
}

func chainEq(a []ct.ASN1Cert, b [][]byte) bool {
	if len(a) != len(b) {
		return false
	}
	for i := range a {
		if !bytes.Equal(a[i].Data, b[i]) {
			return false
		}
	}
	return true
}

func (h *hist) subjectOfDER(der []byte) string {
	for _, s := range h.subjects {
		if bytes.Equal(s.der, der) {
			return s.kind
		}
	}
	return ""
}

// creatorOf: the first accepted submission (in linearisation order, set by emit's pass) of the same certificate
func (h *hist) creatorOf(sb *submission) *submission {
	order := h.linearisedSubmissions()
	for _, o := range order {
		if o.sct != nil && bytes.Equal(o.sub.der, sb.sub.der) {
			return o
		}
	}
	return nil
}

// fetchAll reads the whole log through get-entries (several requests: the limit applies), in the
// parsed form (LogClient.GetEntries): every entry of the history, whatever its certificate looks
// like, is handed back by the client decoded to the submitted certificate and chain.
func (h *hist) fetchAll(next func() callTag, size int64) ([]ct.LeafEntry, error) {
	var all []ct.LeafEntry
	for int64(len(all)) < size {
		rsp, err := h.getEntries(next(), int64(len(all)), size-1, true)
		if err != nil || len(rsp.Entries) == 0 {
			h.fail("get-entries(%d,%d) during audit: %v", len(all), size-1, err)
			return all, err
		}
		for _, e := range rsp.Entries {
			if len(all) < h.log.Size() {
				h.served("get-entries", len(all), e.LeafInput, e.ExtraData)
			}
			all = append(all, e)
		}
	}
	return all, nil
}

func min(a, b int) int {
	if a < b {
		return a
	}
	return b
}

// ---------------------------------------------------------------- linearisation and emission

type step struct {
	ex  *exchange   // nil for a sequencing step
	rpc *reflog.RPC // the RPC through which it took effect (nil: none)
	key float64
}

func (h *hist) steps() []step {
	byReq := map[int]*reflog.RPC{}
	for i := range h.log.Trace {
		t := &h.log.Trace[i]
		if t.ReqID >= 0 {
			if _, dup := byReq[t.ReqID]; dup {
				h.fail("request %d issued more than one backend RPC", t.ReqID)
			}
			byReq[t.ReqID] = t
		}
	}
	var out []step
	for i := range h.log.Trace {
		t := &h.log.Trace[i]
		if t.Kind == "Sequence" {
			out = append(out, step{rpc: t, key: float64(t.Seq)})
		}
	}
	// requests without an RPC are state-independent: keep them right after the same worker's previous request
	last := map[int]float64{}
	for _, ex := range h.rt.exs {
		if t, ok := byReq[ex.id]; ok {
			out = append(out, step{ex: ex, rpc: t, key: float64(t.Seq)})
			last[ex.tag.worker] = float64(t.Seq)
		} else {
			k, ok := last[ex.tag.worker]
			if !ok {
				k = -1
			}
			k += 0.001
			last[ex.tag.worker] = k
			out = append(out, step{ex: ex, key: k})
		}
	}
	sort.SliceStable(out, func(i, j int) bool { return out[i].key < out[j].key })
	return out
}

func (h *hist) linearisedSubmissions() []*submission {
	var out []*submission
	for _, st := range h.steps() {
		if st.ex != nil && (st.ex.path == ct.AddChainPath || st.ex.path == ct.AddPreChainPath) {
			if sb := h.subs[st.ex.tag]; sb != nil {
				out = append(out, sb)
			}
		}
	}
	return out
}

func hexs(bs [][]byte) string {
	var xs []string
	for _, b := range bs {
		xs = append(xs, lib.Hex(b))
	}
	return lib.List(xs)
}

func natList(xs []int) string {
	var s []string
	for _, x := range xs {
		s = append(s, lib.Nat(x))
	}
	return lib.List(s)
}

func qbytes(q url.Values, k string) string { return lib.Hex([]byte(q.Get(k))) }

func (h *hist) emit(caseNo int) lib.Case {
	w := h.w
	hs := rfc6962.DefaultHasher
	type acc struct {
		cert  []byte
		chain [][]byte
	}
	var accepted []acc
	decodes := func(li, x []byte) bool {
		rle, err := ct.RawLogEntryFromLeaf(0, &ct.LeafEntry{LeafInput: li, ExtraData: x})
		if err != nil {
			return false
		}
		for _, a := range accepted {
			if bytes.Equal(rle.Cert.Data, a.cert) && chainEq(rle.Chain, a.chain) {
				return true
			}
		}
		return false
	}
	var coq []string
	var inJ, outJ []interface{}
	size := 0 // tree size in linearisation order (for RootAt-based verdicts)
	for _, st := range h.steps() {
		if st.ex == nil {
			t := st.rpc
			size = int(t.Size)
			coq = append(coq, lib.Pair(fmt.Sprintf("CSeq %s %s", lib.Nat(t.K), lib.ZBig(bigUint(t.NS))), fmt.Sprintf("XSeq %s %s", lib.Nn(t.Size), lib.Hex(t.Root))))
			inJ = append(inJ, map[string]interface{}{"op": "sequence", "k": t.K, "ns": bigU(t.NS)})
			outJ = append(outJ, map[string]interface{}{"size": t.Size})
			continue
		}
		ex := st.ex
		if st.rpc != nil {
			size = int(st.rpc.Size)
		}
		var cop, obs string
		in := map[string]interface{}{"op": ex.path, "query": ex.query.Encode()}
		out := map[string]interface{}{"status": ex.status}
		obs = fmt.Sprintf("XFail %s", lib.Z(int64(ex.status)))
		switch ex.path {
		case ct.AddChainPath, ct.AddPreChainPath:
			pre := ex.path == ct.AddPreChainPath
			sb := h.subs[ex.tag]
			in["kind"] = sb.sub.kind
			if sb.bad != "" && sb.bad != "endpoint" {
				cop = fmt.Sprintf("CSubmitBad %s", lib.Bool(pre))
				break
			}
			ci := w.idx(sb.sub.der)
			if sb.sub.pre {
				w.precerts[ci] = true
			}
			var chain []int
			for _, d := range sb.sub.path {
				chain = append(chain, w.idx(d))
			}
			// the model's oracle input (issuer key hash, TBSCertificate) is the REFERENCE pair of the
			// harness's PKI (final certificate's TBSCertificate, key of the CA that issues it), not
			// what ct.MerkleTreeLeafFromChain makes of the submitted chain: the model then stores,
			// signs and looks up the RFC 6962 leaf, and the implementation is compared with that
			pe := "None"
			if pre && sb.sub.pre {
				pe = lib.Some(lib.Pair(lib.Hex(sb.sub.refIKH), lib.Hex(sb.sub.refTBS)))
			}
			// SHA-256 of the certificate (the identity hash the front end computes)
			h.log.H.Sum(sb.sub.der)
			cop = fmt.Sprintf("CSubmit %s %s %s %s %s", lib.Bool(pre), lib.Nat(ci), natList(chain), pe, lib.Z(sb.nowNS))
			in["cert"] = sb.sub.name
			in["now_ns"] = sb.nowNS
			if ex.status == 200 {
				var rsp ct.AddChainResponse
				if err := json.Unmarshal(ex.body, &rsp); err != nil {
					h.fail("add-chain 200 body does not parse")
					break
				}
				sct, err := rsp.ToSignedCertificateTimestamp()
				if err != nil {
					h.fail("add-chain response is not an SCT: %v", err)
					break
				}
				ok := ctutil.VerifySCT(w.logKey.Public(), sb.chainP, sct, false) == nil
				if why := w.rawSCTCheck(ex.body, sb.sub); why != "" {
					h.fail("SCT for %s (%s) under a %s log key: %s", sb.sub.name, sb.sub.kind, w.keyKind, why)
				}
				lh, _ := ctutil.LeafHash(sb.chainP, sct, false)
				obs = fmt.Sprintf("XSct %s %s %s", lib.Nn(sct.Timestamp), lib.Bool(ok), lib.Hex(lh[:]))
				out["sct_timestamp"] = sct.Timestamp
				out["sct_verifies"] = ok
				out["duplicate"] = st.rpc != nil && st.rpc.Dup
				accepted = append(accepted, acc{sb.sub.der, sb.sub.path})
				if st.rpc != nil && st.rpc.Dup {
					h.tagf("observed:duplicate-answered-with-stored-timestamp")
				}
			}
		case ct.GetSTHPath:
			cop = "CGetSTH"
			if ex.signFailed {
				// the harness made the signer fail during this request: the model answers from the
				// cache or with an error, and leaves the cache alone
				cop = "CGetSTHSignFail"
				in["signer"] = "fails"
				h.tagf("op:get-sth-signer-fails")
				if ex.status == 200 {
					h.fail("get-sth answered 200 although its signer call failed")
				}
			}
			if ex.status == 200 {
				var rsp ct.GetSTHResponse
				if err := json.Unmarshal(ex.body, &rsp); err != nil {
					h.fail("get-sth body does not parse")
					break
				}
				sth, err := rsp.ToSignedTreeHead()
				if err != nil {
					h.fail("get-sth response is not an STH: %v", err)
					break
				}
				ok := w.verifier.VerifySTHSignature(*sth) == nil
				obs = fmt.Sprintf("XSth %s %s %s %s", lib.Nn(sth.TreeSize), lib.Nn(sth.Timestamp), lib.Hex(sth.SHA256RootHash[:]), lib.Bool(ok))
				out["tree_size"], out["timestamp"], out["verifies"] = sth.TreeSize, sth.Timestamp, ok
				// direct oracle: the STH reports the backend's size, root and ns / 10^6
				if t := st.rpc; t == nil || sth.TreeSize != t.Size || !bytes.Equal(sth.SHA256RootHash[:], t.Root) || sth.Timestamp != t.NS/1000000 {
					h.fail("STH (size %d, ts %d) does not report the backend's root (size %d, ns %d)", sth.TreeSize, sth.Timestamp, t.Size, t.NS)
				}
				if !ok {
					h.fail("STH signature does not verify")
				}
				if why := w.rawSTHCheck(ex.body); why != "" {
					h.fail("STH under a %s log key: %s", w.keyKind, why)
				}
			}
		case ct.GetSTHConsistencyPath:
			cop = fmt.Sprintf("CCons %s %s", qbytes(ex.query, "first"), qbytes(ex.query, "second"))
			if ex.status == 200 {
				var rsp ct.GetSTHConsistencyResponse
				if err := json.Unmarshal(ex.body, &rsp); err != nil {
					h.fail("get-sth-consistency body does not parse")
					break
				}
				f, _ := strconv.ParseUint(ex.query.Get("first"), 10, 64)
				s, _ := strconv.ParseUint(ex.query.Get("second"), 10, 64)
				ok := proof.VerifyConsistency(hs, f, s, rsp.Consistency, h.log.RootAt(min(int(f), size)), h.log.RootAt(min(int(s), size))) == nil
				obs = fmt.Sprintf("XCons %s %s", hexs(rsp.Consistency), lib.Bool(ok))
				out["proof_len"], out["verifies"] = len(rsp.Consistency), ok
			}
		case ct.GetProofByHashPath:
			hb, _ := base64.StdEncoding.DecodeString(ex.query.Get("hash"))
			cop = fmt.Sprintf("CProof %s %s", lib.Hex(hb), qbytes(ex.query, "tree_size"))
			if ex.status == 200 {
				var rsp ct.GetProofByHashResponse
				if err := json.Unmarshal(ex.body, &rsp); err != nil {
					h.fail("get-proof-by-hash body does not parse")
					break
				}
				ts, _ := strconv.ParseUint(ex.query.Get("tree_size"), 10, 64)
				ok := proof.VerifyInclusion(hs, uint64(rsp.LeafIndex), ts, hb, rsp.AuditPath, h.log.RootAt(min(int(ts), size))) == nil
				obs = fmt.Sprintf("XIncl %s %s %s", lib.Nn(uint64(rsp.LeafIndex)), hexs(rsp.AuditPath), lib.Bool(ok))
				out["leaf_index"], out["path_len"], out["verifies"] = rsp.LeafIndex, len(rsp.AuditPath), ok
			}
		case ct.GetEntriesPath:
			cop = fmt.Sprintf("CEntries %s %s", qbytes(ex.query, "start"), qbytes(ex.query, "end"))
			if ex.status == 200 {
				var rsp ct.GetEntriesResponse
				if err := json.Unmarshal(ex.body, &rsp); err != nil {
					h.fail("get-entries body does not parse")
					break
				}
				var es []string
				for _, e := range rsp.Entries {
					es = append(es, lib.Pair(lib.Hex(hs.HashLeaf(e.LeafInput)), lib.Bool(decodes(e.LeafInput, e.ExtraData))))
				}
				obs = fmt.Sprintf("XEntries %s", lib.List(es))
				out["entries"] = len(rsp.Entries)
			}
		case ct.GetEntryAndProofPath:
			cop = fmt.Sprintf("CEap %s %s", qbytes(ex.query, "leaf_index"), qbytes(ex.query, "tree_size"))
			if ex.status == 200 {
				var rsp ct.GetEntryAndProofResponse
				if err := json.Unmarshal(ex.body, &rsp); err != nil {
					h.fail("get-entry-and-proof body does not parse")
					break
				}
				i, _ := strconv.ParseUint(ex.query.Get("leaf_index"), 10, 64)
				ts, _ := strconv.ParseUint(ex.query.Get("tree_size"), 10, 64)
				lh := hs.HashLeaf(rsp.LeafInput)
				ok := proof.VerifyInclusion(hs, i, ts, lh, rsp.AuditPath, h.log.RootAt(min(int(ts), size))) == nil
				obs = fmt.Sprintf("XEap %s %s %s %s", lib.Hex(lh), lib.Bool(decodes(rsp.LeafInput, rsp.ExtraData)), hexs(rsp.AuditPath), lib.Bool(ok))
				out["path_len"], out["verifies"] = len(rsp.AuditPath), ok
			}
		case ct.GetRootsPath:
			cop = "CRoots"
			if ex.status == 200 {
				var rsp ct.GetRootsResponse
				if err := json.Unmarshal(ex.body, &rsp); err == nil {
					obs = fmt.Sprintf("XRoots %s", lib.Nn(uint64(len(rsp.Certificates))))
				}
			}
		default:
			h.fail("unexpected request path %s", ex.path)
			continue
		}
		if ex.paniced {
			h.fail("handler %s panicked", ex.path)
		}
		h.tagf("status:%d", ex.status)
		coq = append(coq, lib.Pair(cop, obs))
		inJ = append(inJ, in)
		outJ = append(outJ, out)
	}
	// tables
	var tbl []string
	for _, p := range h.log.H.Pairs {
		tbl = append(tbl, lib.Pair(lib.Bytes(p[0]), lib.Hex(p[1])))
	}
	var pcs []int
	for i := range w.precerts {
		pcs = append(pcs, i)
	}
	sort.Ints(pcs)
	var certs []string
	for _, c := range w.certs {
		certs = append(certs, lib.Bytes(c))
	}
	trusted := natList([]int{w.idx(w.rootA.DER), w.idx(w.rootB.DER)})
	certs = nil
	for _, c := range w.certs {
		certs = append(certs, lib.Bytes(c))
	}
	term := fmt.Sprintf("CHist %s %s %s %s %s %s %s %s %s", lib.List(tbl), lib.List(certs), natList(pcs), trusted,
		lib.Z(h.maxr), lib.Bool(h.algn), lib.Bool(h.external), lib.ZBig(bigUint(h.ns0)), lib.List(coq))
	mode := "sequential"
	if h.conc {
		mode = "concurrent"
	}
	var tags []string
	for t := range h.tags {
		tags = append(tags, t)
	}
	sort.Strings(tags)
	tags = append(tags, "log-key:"+w.keyKind, "chains:"+h.cf.store, "mode:"+mode, fmt.Sprintf("maxr:%d", h.maxr), fmt.Sprintf("final-size:%d", min(h.log.Size()/5*5, 30)))
	note := ""
	if len(h.fails) > 0 {
		sort.Strings(h.fails)
		note = h.fails[0]
	} else if len(h.twinFails) > 0 {
		// the key is used only when EVERY failure of the history is of the twin-precertificate class
		sort.Strings(h.twinFails)
		note = "twin-precertificates: " + h.twinFails[0]
	}
	return lib.Case{Coq: term,
		Input:  map[string]interface{}{"mode": mode, "max_get_entries": h.maxr, "align": h.algn, "log_key": w.keyKind, "issuance_chains": h.cf.store, "steps": inJ},
		Impl:   map[string]interface{}{"observations": outJ, "oracle_failures": h.fails, "final_size": h.log.Size()},
		PropOK: len(h.fails) == 0 && len(h.twinFails) == 0, Note: note, Tags: tags}
}

// ---------------------------------------------------------------- main

func main() {
	flag.Parse()
	kfs := flag.NewFlagSet("klog", flag.ContinueOnError)
	klog.InitFlags(kfs)
	kfs.Set("logtostderr", "false")
	kfs.Set("stderrthreshold", "FATAL")
	klog.SetOutput(io.Discard)
	r := lib.Rand()
	stdlog.SetOutput(io.Discard) // the client library's warning about a log key that is not P-256 / RSA
	w := &world{serial: 5000}
	w.rootA = pki.Issue(pki.Opts{CN: "c06 root A", IsCA: true, KeyIdx: 0}, nil)
	w.rootB = pki.Issue(pki.Opts{CN: "c06 root B", IsCA: true, KeyIdx: 1}, nil)
	w.interA = pki.Issue(pki.Opts{CN: "c06 intermediate", IsCA: true, KeyIdx: 2}, w.rootA)
	w.interB = pki.Issue(pki.Opts{CN: "c06 intermediate", IsCA: true, KeyIdx: 2}, w.rootB)
	w.preIssuer = pki.Issue(pki.Opts{CN: "c06 precert signing", IsCA: true, KeyIdx: 3, EKUs: []ctx509.ExtKeyUsage{ctx509.ExtKeyUsageCertificateTransparency}}, w.interA)
	w.untrusted = pki.Issue(pki.Opts{CN: "c06 untrusted root", IsCA: true, KeyIdx: 4}, nil)

	wr := lib.NewWriter(header, 1)
	defer wr.Guard()
	nseq := lib.Count(10, 40)
	nconc := nseq / 2
	cfs, cfc := deal(r, nseq), deal(r, nconc)
	for i := 0; i < nseq; i++ {
		wr.Add(runHistory(w, r, false, i, cfs[i]))
	}
	for i := 0; i < nconc; i++ {
		wr.Add(runHistory(w, r, true, nseq+i, cfc[i]))
	}
	wr.Close()
	fmt.Printf("c06: wrote %d histories\n", wr.Len())
}
