(* Correspondence cases for C20: one case = one call of Controller.Run / RunWhenMaster against a
   scripted source log and the reference pre-ordered backend, with everything that was observed. *)
From Coq Require Import ZArith NArith Bool List.
From V Require Import Base.Bytes Base.CaseLib Migrillian.MigrateModel.
Import ListNotations.
Open Scope Z_scope.

(* how much of the observation is schedule-independent:
   MExact  - one fetcher, one submitter: the request streams are compared in order, back-off pauses included;
   MSorted - several fetchers / submitters, no fault that aborts a pass half-way: streams compared as sorted lists;
   MLoose  - several fetchers / submitters and a fault half-way: compared up to the pass in which it happens. *)
Inductive mode := MExact | MSorted | MLoose.

Record obs_req := { oq_start : Z; oq_leaves : list leaf; oq_reply : rpc; oq_delay : Z }.
Record obs_pass := {
  op_sth : bool;                         (* get-sth seen *)
  op_cons : option (Z * Z);              (* get-sth-consistency first, second *)
  op_get : list (Z * Z);                 (* get-entries start, end (pass cut short: those up to the last submitted batch) *)
  op_stream : list obs_req
}.
Inductive obs_final := OFNil | OFErr | OFPanic | OFHang.

Inductive case :=
| CMig (m : mode) (ep : entry_point) (cfg : config)
       (src0 : list entry) (dest0 : list leaf) (size0 : Z)
       (scripts : list (pscript bool))
       (sha : list (bytes * bytes))
       (fin : obs_final) (passes : list obs_pass) (dleaves : list leaf) (dsize : Z).

(* oracles as the harness supplies them *)
Fixpoint sha_lookup (t : list (bytes * bytes)) (b : bytes) : bytes :=
  match t with [] => [] | (k, v) :: r => if bytes_eqb k b then v else sha_lookup r b end.
Definition vcons_label (_ _ : Z) (pf : bool) (_ _ : bytes) : bool := pf.
Definition no_x509 (_ : bytes) : xverdict := XOk.
Definition no_mth (_ : list bytes) : bytes := [].

Definition init_world (src0 : list entry) (dest0 : list leaf) (size0 : Z) : world :=
  {| w_src := src0; w_dest := {| d_leaves := map (fun l => (lf_index l, l)) dest0; d_size := size0 |}; w_ver := 0 |}.

Definition run (c : case) :=
  match c with
  | CMig _ ep cfg src0 dest0 size0 scripts sha _ _ _ _ =>
      drive bool (sha_lookup sha) no_x509 no_mth vcons_label ep cfg scripts 0 (init_world src0 dest0 size0)
  end.

(* ---- comparison helpers ---- *)
Definition rpc_eqb (a b : rpc) : bool :=
  match a, b with
  | RpcOk x, RpcOk y => list_eqb lstatus_eqb x y
  | RpcCode x, RpcCode y => x =? y
  | RpcNil, RpcNil => true
  | _, _ => false
  end.

Definition req_eqb (timed : bool) (m : reqrec) (o : obs_req) : bool :=
  (rr_start m =? oq_start o) && list_eqb leaf_eqb (rr_leaves m) (oq_leaves o) && rpc_eqb (rr_reply m) (oq_reply o)
  && (if timed then match rr_attempt m with O => true | S k => delay_ok k (oq_delay o) end else true).

Fixpoint stream_eqb (timed : bool) (ms : list reqrec) (os : list obs_req) : bool :=
  match ms, os with
  | [], [] => true
  | m :: ms', o :: os' => req_eqb timed m o && stream_eqb timed ms' os'
  | _, _ => false
  end.

Definition is_pok (r : pres) : bool := match r with POk _ => true | _ => false end.

Definition pass_eqb (md : mode) (m : pass_out) (o : obs_pass) : bool :=
  Bool.eqb (po_sth_req m) (op_sth o)
  && opt_eqb (pair_eqb Z.eqb Z.eqb) (po_cons_req m) (op_cons o)
  && match md with
     | MLoose => true
     | _ =>
         list_eqb (pair_eqb Z.eqb Z.eqb) (po_get_entries m) (op_get o)
         && stream_eqb (match md with MExact => true | _ => false end) (po_stream m) (op_stream o)
     end.

Fixpoint passes_eqb (md : mode) (ms : list pass_out) (os : list obs_pass) : bool :=
  match ms, os with
  | [], [] => true
  | m :: ms', o :: os' => pass_eqb md m o && passes_eqb md ms' os'
  | _, _ => false
  end.

(* MLoose: the observation stops at the first pass that a fault cut short under a concurrent schedule;
   the passes before it are compared as sorted streams, that pass on its gate traffic only *)
Fixpoint passes_loose (ms : list pass_out) (os : list obs_pass) : bool :=
  match ms, os with
  | _, [] => true
  | m :: _, [o] => pass_eqb MLoose m o
  | m :: ms', o :: os' => pass_eqb MSorted m o && passes_loose ms' os'
  | [], _ :: _ => false
  end.

Definition final_eqb (f : final) (o : obs_final) : bool :=
  match f, o with FNil, OFNil | FErr, OFErr => true | _, _ => false end.

(* destination table sorted by index *)
Fixpoint insert_leaf (l : leaf) (ls : list leaf) : list leaf :=
  match ls with
  | [] => [l]
  | x :: r => if lf_index l <=? lf_index x then l :: ls else x :: insert_leaf l r
  end.
Definition sorted_leaves (m : dmap) : list leaf := fold_right (fun p acc => insert_leaf (snd p) acc) [] m.

Definition check (c : case) : bool :=
  match c with
  | CMig md _ _ _ _ _ _ _ fin passes dleaves dsize =>
      let '(outs, w, f) := run c in
      match md with
      | MLoose => passes_loose outs passes
      | _ => final_eqb f fin && passes_eqb md outs passes
             && list_eqb leaf_eqb (sorted_leaves (d_leaves (w_dest w))) dleaves && (d_size (w_dest w) =? dsize)
      end
  end.

(* what the model computes, in a compact form for replay files *)
Definition explain (c : case) :=
  let '(outs, w, f) := run c in
  (f,
   map (fun o => (po_res o, po_act o, po_sth_req o, po_cons_req o, po_get_entries o,
                  map (fun r => (rr_start r, length (rr_leaves r), rr_reply r, rr_attempt r)) (po_stream o))) outs,
   map (fun p => fst p) (d_leaves (w_dest w)), d_size (w_dest w)).
