(* C17: the property-level lemmas (exactly what Props/C17.v states). *)
From Coq Require Import ZArith NArith Bool List Lia.
From V Require Import Base.GoInt gen.Windows gen.Policy gen.Races gen.Locks Temporal.WindowModel
     Submission.SubmitModel Submission.SubmitLib Submission.SubmitStateProofs Submission.SubmitInv
     Submission.SubmitLive Submission.SubmitEnoughState Submission.SubmitEnough Submission.PolicyProofs
     Submission.LockLib Submission.LockProofs.
Import ListNotations.
Open Scope Z_scope.

Section Reach.
Variables (p : bool) (c : cfg) (oc : N -> outcome) (tr : list action) (s : state).
Hypothesis Hwf : wf c.
Hypothesis Hrun : run p c oc (init p c) tr = Some s.

Lemma L_scts_distinct scts ok : returned s = Some (scts, ok) -> NoDup scts /\ forall l, In l scts -> In l (arrived s).
Proof.
  intros Hret. pose proof (inv1_reach p c oc Hwf tr s Hrun) as I. pose proof (i_top c s I) as T.
  unfold returned in Hret. destruct (top s); try discriminate. inversion Hret; subst. tauto.
Qed.

Lemma L_requested_once l : (count_occ N.eq_dec (starts s) l <= 1)%nat.
Proof.
  pose proof (inv1_reach p c oc Hwf tr s Hrun) as I. apply NoDup_count_occ. exact (i_starts c s I).
Qed.

Lemma L_success_policy scts : returned s = Some (scts, true) -> policy_satisfied c scts.
Proof.
  intros Hret. pose proof (inv1_reach p c oc Hwf tr s Hrun) as I. pose proof (i_top c s I) as T.
  unfold returned in Hret. destruct (top s); try discriminate. inversion Hret; subst. apply T. reflexivity.
Qed.

Lemma L_no_panic : panicked s = false.
Proof. exact (i_nopanic c s (inv1_reach p c oc Hwf tr s Hrun)). Qed.

Lemma L_terminates :
  (length tr <= measure c (init p c))%nat /\
  (returned s = None -> can_step p c oc s \/ waiting c s).
Proof.
  destruct (inv12_reach p c oc Hwf tr s Hrun) as [I J]. split.
  - pose proof (run_bounded p c oc Hwf tr (init p c) s (inv1_init p c Hwf) (inv2_init p c) Hrun). lia.
  - apply progress; assumption.
Qed.

Lemma L_started_in_session l : In l (starts s) -> exists gr, In gr c /\ In l (g_session gr) /\ In l (g_logs gr).
Proof.
  intros Hin. pose proof (inv1_reach p c oc Hwf tr s Hrun) as I.
  destruct (i_starts_sess c s I l Hin) as [gr [G1 G2]]. exists gr. split; [exact G1|]. split; [exact G2|].
  destruct Hwf as [_ W]. destruct (W gr G1) as [_ [_ Hincl]]. apply Hincl. exact G2.
Qed.
End Reach.

Lemma L_chrome_success p months ll sess c oc tr s scts :
  sess_ok sess -> chrome_groups months ll sess = Some c ->
  run p c oc (init p c) tr = Some s -> returned s = Some (scts, true) ->
  count_in scts (populate op_google ll) >= 1 /\
  count_in scts (populate (fun op => negb (op_google op)) ll) >= 1 /\
  count_in scts (populate (fun _ => true) ll) >=
    (if months <? 15 then 2 else if months <=? 27 then 3 else if months <=? 39 then 4 else 5).
Proof.
  intros Hs Hg Hrun Hret. pose proof (chrome_wf _ _ _ _ Hs Hg) as Hwf.
  pose proof (L_success_policy p c oc tr s Hwf Hrun scts Hret) as P.
  destruct (chrome_groups_shape _ _ _ _ Hg) as [-> _]. rewrite <- chrome_thresholds.
  repeat split.
  - exact (P _ (or_introl eq_refl)).
  - exact (P _ (or_intror (or_introl eq_refl))).
  - exact (P _ (or_intror (or_intror (or_introl eq_refl)))).
Qed.

Lemma L_apple_success p months ll sess c oc tr s scts :
  sess_ok sess -> apple_groups months ll sess = Some c ->
  run p c oc (init p c) tr = Some s -> returned s = Some (scts, true) ->
  count_in scts (populate (fun _ => true) ll) >=
    (if months <? 15 then 2 else if months <=? 27 then 3 else if months <=? 39 then 4 else 5).
Proof.
  intros Hs Hg Hrun Hret. pose proof (apple_wf _ _ _ _ Hs Hg) as Hwf.
  pose proof (L_success_policy p c oc tr s Hwf Hrun scts Hret) as P.
  destruct (apple_groups_shape _ _ _ _ Hg) as [-> _]. rewrite <- apple_thresholds.
  exact (P _ (or_introl eq_refl)).
Qed.

Lemma L_enough c oc tr s scts ok : wf c -> good_cfg c -> enough c oc ->
  run fix_applied c oc (init fix_applied c) tr = Some s -> returned s = Some (scts, ok) -> ctxdone s = false ->
  ok = true.
Proof. intros Hwf Hg He. apply (enough_success c oc Hwf Hg He). Qed.

Lemma L_enough_chrome months ll sess c oc tr s scts ok :
  sess_ok sess -> NoDup (ids ll) -> chrome_groups months ll sess = Some c -> enough c oc ->
  run fix_applied c oc (init fix_applied c) tr = Some s -> returned s = Some (scts, ok) -> ctxdone s = false ->
  ok = true.
Proof.
  intros Hs Hnd Hg He. apply L_enough; [eapply chrome_wf; eauto | eapply chrome_good; eauto | exact He].
Qed.

Lemma L_enough_apple months ll sess c oc tr s scts ok :
  sess_ok sess -> apple_groups months ll sess = Some c -> enough c oc ->
  run fix_applied c oc (init fix_applied c) tr = Some s -> returned s = Some (scts, ok) -> ctxdone s = false ->
  ok = true.
Proof.
  intros Hs Hg He. apply L_enough; [eapply apple_wf; eauto | eapply apple_good; eauto | exact He].
Qed.

(* the policy submission of the Distributor contacts only usable, compatible logs *)
Lemma L_contacted p dis full v t roots ll cl months sess c oc tr s l :
  distributor_compatible dis full v t roots (select_by_status [StUsable] ll) = Some cl ->
  chrome_groups months cl sess = Some c \/ apple_groups months cl sess = Some c ->
  sess_ok sess -> run p c oc (init p c) tr = Some s -> In l (starts s) ->
  exists lg, in_list ll lg /\ l_id lg = l /\ l_status lg = StUsable /\ temporal_ok t lg /\
             (dis = false -> forall r ca, v = Rooted r ca -> ca = true /\ root_ok r roots lg).
Proof.
  intros Hd Hg Hs Hrun Hin.
  assert (Hwf : wf c) by (destruct Hg as [Hg|Hg]; [eapply chrome_wf | eapply apple_wf]; eauto).
  destruct (L_started_in_session p c oc tr s Hwf Hrun l Hin) as [gr [G1 [_ G3]]].
  assert (Hid : In l (ids cl)) by (destruct Hg as [Hg|Hg]; [eapply chrome_logs_sub | eapply apple_logs_sub]; eauto).
  destruct (ids_in_list cl l Hid) as [lg [L1 L2]]. exists lg.
  destruct (distributor_compatible_spec dis full v t roots ll cl lg Hd L1) as [D1 [D2 [D3 D4]]]. auto.
Qed.

(* the generic lock-set lemma instantiated with the generated table; the obligation on the
   table itself (a vm_compute over the generated object) is stated in Props/C17.v *)
Lemma L_race_free : forallb (access_ok locks) locks = true -> forall tr hs',
  (forall t o a, In (EAcc t o a) tr -> In a locks) -> lrun [] tr = Some hs' -> ~ adjacent_race tr.
Proof. intros Hok tr hs'. apply (lockset_no_adjacent_race locks tr hs'). exact Hok. Qed.
