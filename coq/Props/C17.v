(* C17 - multi-log submission returns a policy-satisfying SCT set or says it did not.
   Property theorems only; each is closed by [exact] of a lemma proved in Submission/*.
   The model is Submission/SubmitModel.v: safeSubmissionState as a state machine whose every
   comparison is a GENERATED definition (gen/Races.v, translated from submission/races.go on
   every run), groupRace / GetSCTs as threads with program counters, one step = one mutex
   critical section / one channel operation / one SubmitToLog start or return; [run] executes
   ANY list of such steps, so each theorem below quantifies over all interleavings, all per-log
   outcomes (SCT / error / hang, [oc]) and - timers being abstracted to "may fire at any
   time" - all latencies.  [p] selects the code version (true = with pending_fixes/C17-1);
   the safety theorems hold for both, the liveness theorem only for the fixed code
   (the refutation for the unfixed code is Findings/C17Prefix.v).
   Policy thresholds are the GENERATED gen/Policy.v (ctpolicy/*policy.go), the temporal
   condition the GENERATED gen/Windows.loglist_keep (loglist3/logfilter.go), the lock-set
   table the GENERATED gen/Locks.v (harness/gen/lockset over submission/*.go, ctpolicy/*.go). *)
From Coq Require Import ZArith NArith Bool List.
From V Require Import Base.GoInt gen.Windows gen.Policy gen.Races gen.Locks Temporal.WindowModel
     Submission.SubmitModel Submission.SubmitStateProofs Submission.SubmitLive
     Submission.SubmitEnoughState Submission.SubmitEnough Submission.PolicyProofs
     Submission.LockLib Submission.SubmitProofs Submission.WeightModel Submission.WeightProofs.
Import ListNotations.
Open Scope Z_scope.

(* the SCTs GetSCTs returns come from pairwise distinct logs, each of which answered a
   SubmitToLog call with an SCT that reached setResult *)
Theorem scts_from_distinct_logs : forall p c oc tr s,
  wf c -> run p c oc (init p c) tr = Some s -> forall scts ok, returned s = Some (scts, ok) ->
  NoDup scts /\ forall l, In l scts -> In l (arrived s).
Proof. exact L_scts_distinct. Qed.
Print Assumptions scts_from_distinct_logs.

(* no log is sent the chain more than once, whatever the interleaving of the group races *)
Theorem each_log_requested_at_most_once : forall p c oc tr s,
  wf c -> run p c oc (init p c) tr = Some s -> forall l, (count_occ N.eq_dec (starts s) l <= 1)%nat.
Proof. exact L_requested_once. Qed.
Print Assumptions each_log_requested_at_most_once.

(* success => every group of the policy has at least its minimum among the returned SCTs *)
Theorem success_implies_policy : forall p c oc tr s,
  wf c -> run p c oc (init p c) tr = Some s -> forall scts, returned s = Some (scts, true) ->
  forall gr, In gr c -> count_in scts (g_logs gr) >= g_min gr.
Proof. exact L_success_policy. Qed.
Print Assumptions success_implies_policy.

(* Chrome, all lifetimes: >= 1 Google, >= 1 non-Google, and 2/3/4/5 in total for a lifetime of
   < 15 / 15..27 / 28..39 / >= 40 months *)
Theorem success_implies_policy_chrome : forall p months ll sess c oc tr s scts,
  sess_ok sess -> chrome_groups months ll sess = Some c ->
  run p c oc (init p c) tr = Some s -> returned s = Some (scts, true) ->
  count_in scts (populate op_google ll) >= 1 /\
  count_in scts (populate (fun op => negb (op_google op)) ll) >= 1 /\
  count_in scts (populate (fun _ => true) ll) >=
    (if months <? 15 then 2 else if months <=? 27 then 3 else if months <=? 39 then 4 else 5).
Proof. exact L_chrome_success. Qed.
Print Assumptions success_implies_policy_chrome.

Theorem success_implies_policy_apple : forall p months ll sess c oc tr s scts,
  sess_ok sess -> apple_groups months ll sess = Some c ->
  run p c oc (init p c) tr = Some s -> returned s = Some (scts, true) ->
  count_in scts (populate (fun _ => true) ll) >=
    (if months <? 15 then 2 else if months <=? 27 then 3 else if months <=? 39 then 4 else 5).
Proof. exact L_apple_success. Qed.
Print Assumptions success_implies_policy_apple.

(* lifetimeInMonths on civil dates: month difference, one less for a partial month *)
Theorem lifetime_in_months_spec : forall sy sm sd ey em ed,
  0 <= sy <= 9999 -> 0 <= ey <= 9999 -> 1 <= sm <= 12 -> 1 <= em <= 12 ->
  months_of (sy, sm, sd) (ey, em, ed) = (ey - sy) * 12 + (em - sm) - (if ed <? sd then 1 else 0).
Proof. exact months_of_spec. Qed.
Print Assumptions lifetime_in_months_spec.

(* termination.  Fairness assumption, stated explicitly: every enabled step is eventually
   taken, where the steps of the environment are "a SubmitToLog call in flight returns"
   (AReturn: an answering log answers; a hanging one returns once its context is cancelled)
   and "the caller's context ends" (ACancel).  Under it the two facts below give termination:
   (1) no execution is longer than the measure of the initial state (every step decreases it);
   (2) as long as GetSCTs has not returned, the program can take a step by itself or some
       SubmitToLog call is in flight - it is never stuck for any other reason. *)
Theorem always_terminates : forall p c oc tr s,
  wf c -> run p c oc (init p c) tr = Some s ->
  (length tr <= measure c (init p c))%nat /\
  (returned s = None -> can_step p c oc s \/ waiting c s).
Proof. exact L_terminates. Qed.
Print Assumptions always_terminates.

(* liveness (fixed code): if in every group at least its minimum of the logs it submits to
   (its session: the logs with positive weight) answer with an SCT, and the caller's context
   is not done when GetSCTs returns, then GetSCTs reports success - in every interleaving.
   [good_cfg]: the non-base groups are disjoint and the base group contains every log. *)
Theorem enough_answers_implies_success : forall c oc tr s scts ok,
  wf c -> good_cfg c -> enough c oc ->
  run fix_applied c oc (init fix_applied c) tr = Some s ->
  returned s = Some (scts, ok) -> ctxdone s = false -> ok = true.
Proof. exact L_enough. Qed.
Print Assumptions enough_answers_implies_success.

Theorem enough_answers_implies_success_chrome : forall months ll sess c oc tr s scts ok,
  sess_ok sess -> NoDup (ids ll) -> chrome_groups months ll sess = Some c -> enough c oc ->
  run fix_applied c oc (init fix_applied c) tr = Some s ->
  returned s = Some (scts, ok) -> ctxdone s = false -> ok = true.
Proof. exact L_enough_chrome. Qed.
Print Assumptions enough_answers_implies_success_chrome.

Theorem enough_answers_implies_success_apple : forall months ll sess c oc tr s scts ok,
  sess_ok sess -> apple_groups months ll sess = Some c -> enough c oc ->
  run fix_applied c oc (init fix_applied c) tr = Some s ->
  returned s = Some (scts, ok) -> ctxdone s = false -> ok = true.
Proof. exact L_enough_apple. Qed.
Print Assumptions enough_answers_implies_success_apple.

(* the policy submission of the Distributor contacts only logs that are usable, whose
   temporal interval contains NotAfter, and - when the chain verified and root checking is on -
   whose known root set contains the chain's root.  (The Distributor's separate pending-logs
   side submission deliberately contacts Pending/Qualified logs; it is not covered here.) *)
Theorem only_compatible_usable_logs_contacted : forall p dis full v t roots ll cl months sess c oc tr s l,
  distributor_compatible dis full v t roots (select_by_status [StUsable] ll) = Some cl ->
  chrome_groups months cl sess = Some c \/ apple_groups months cl sess = Some c ->
  sess_ok sess -> run p c oc (init p c) tr = Some s -> In l (starts s) ->
  exists lg, in_list ll lg /\ l_id lg = l /\ l_status lg = StUsable /\ temporal_ok t lg /\
             (dis = false -> forall r ca, v = Rooted r ca -> ca = true /\ root_ok r roots lg).
Proof. exact L_contacted. Qed.
Print Assumptions only_compatible_usable_logs_contacted.

(* setResult never dereferences a nil result *)
Theorem submission_never_panics : forall p c oc tr s,
  wf c -> run p c oc (init p c) tr = Some s -> panicked s = false.
Proof. exact L_no_panic. Qed.
Print Assumptions submission_never_panics.

(* lock-set obligation on the table generated from the current source (closed by computation
   over the generated object, here rather than in a lemma file so that a tree that breaks it
   breaks exactly this theorem) ... *)
Theorem guarded_fields_race_free : forallb (access_ok locks) locks = true.
Proof. vm_compute. reflexivity. Qed.
Print Assumptions guarded_fields_race_free.

(* ... which, by the generic lemma, excludes data races on the guarded fields: in every trace
   that respects mutex semantics and whose accesses are program points of the table, no two
   adjacent accesses of different threads touch the same field of the same object with one
   of them writing *)
Theorem guarded_fields_no_adjacent_race : forall tr hs',
  (forall t o a, In (EAcc t o a) tr -> In a locks) -> lrun [] tr = Some hs' -> ~ adjacent_race tr.
Proof. exact (L_race_free guarded_fields_race_free). Qed.
Print Assumptions guarded_fields_no_adjacent_race.

(* the weights of a policy group decide which logs its race submits to (the session: the logs
   with positive weight).  A weight update that is refused - bulk SetLogWeights or single
   SetLogWeight, for a negative weight, a foreign log or too few positive weights to reach
   MinInclusions - leaves the group, and therefore the session of every later submission, exactly
   as it was ... *)
Theorem refused_weight_update_changes_nothing : forall g c,
  snd (wapply g c) = true -> fst (wapply g c) = g /\ group_of_w (fst (wapply g c)) = group_of_w g.
Proof. exact (fun g c H => conj (L_refused_unchanged g c H) (L_refused_session_unchanged g c H)). Qed.
Print Assumptions refused_weight_update_changes_nothing.

(* ... so after ANY history of accepted and refused updates the group is the one the accepted
   updates alone produce *)
Theorem weight_history_is_its_accepted_calls : forall cs g, whistory g cs = whistory g (accepted_calls g cs).
Proof. exact L_history_accepted_only. Qed.
Print Assumptions weight_history_is_its_accepted_calls.

(* ---- non-vacuity ---- *)
(* a Chrome configuration over a five-log list, 20-month certificate: groups exist, enough
   logs answer, an execution returns success with three SCTs *)
Definition ex_ll : loglist :=
  [mkOp true [mkLog 1 StUsable None; mkLog 2 StUsable (Some (100, 200))];
   mkOp false [mkLog 3 StUsable None; mkLog 4 StUsable None; mkLog 5 StRetired None]].
Definition ex_oc (l : N) : outcome := if N.eqb l 2 then OErr else OSct.

Example chrome_config_exists :
  exists c, chrome_groups 20 (compatible 150 None (fun _ => None) (select_by_status [StUsable] ex_ll)) (fun _ x => x) = Some c
            /\ map g_min c = [1; 1; 3] /\ map g_logs c = [[1; 2]; [3; 4]; [1; 2; 3; 4]]%N.
Proof. eexists. vm_compute. repeat split. Qed.

Example chrome_run_succeeds :
  let c := [mkGroup 1 [1; 2] 1 false [1; 2]; mkGroup 2 [3; 4] 1 false [3; 4]; mkGroup 0 [1; 2; 3; 4] 3 true [1; 2; 3; 4]]%N in
  let s := schedule 500 true c ex_oc (candidates c true) (init true c) in
  returned s = Some ([1; 3; 4]%N, true) /\ ctxdone s = false /\ policy_satisfiedb c [1; 3; 4]%N = true.
Proof. vm_compute. repeat split. Qed.

(* the boundary months *)
Example thresholds : map chrome_inc_count [14; 15; 27; 28; 39; 40] = [2; 3; 3; 4; 4; 5]
                  /\ map apple_inc_count [14; 15; 27; 28; 39; 40] = [2; 3; 3; 4; 4; 5]
                  /\ months_of (2024, 1, 31) (2025, 4, 30) = 14 /\ months_of (2024, 1, 30) (2025, 4, 30) = 15.
Proof. vm_compute. repeat split. Qed.

(* weights: a base group of three logs that needs three SCTs; concentrating the traffic on one
   log is refused and changes nothing, halving one weight is accepted, zeroing it is refused *)
Example weight_updates :
  let g := mkWG 0 [1; 2; 3]%N 3 true [(1%N, 4); (2%N, 4); (3%N, 4)] in
  (wapply g (WCAll [(1%N, 20)]) = (g, true)) /\
  (positive_logs (whistory g [WCAll [(1%N, 20)]; WCOne 2%N 2; WCOne 3%N 0; WCAll [(1%N, 8); (2%N, 1); (3%N, 1); (9%N, 4)]]) = [1; 2; 3]%N) /\
  (accepted_calls g [WCAll [(1%N, 20)]; WCOne 2%N 2; WCOne 3%N 0] = [WCOne 2%N 2]) /\
  (wg_w (whistory g [WCAll [(1%N, 20)]; WCOne 2%N 2; WCOne 3%N 0]) = [(1%N, 4); (2%N, 2); (3%N, 4)]).
Proof. vm_compute. repeat split. Qed.
