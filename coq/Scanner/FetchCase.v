(* C16 correspondence cases: the linearised event log of one real execution of
   scanner.Fetcher.Run / scanner.Scanner.ScanLog against a scripted LogClient is REPLAYED
   through the model: every observed event must be an enabled step of [step] / [sstep]
   (right range, right remainder after a short read or an error, right callback, at most
   ParallelFetch ranges in flight, Run returns only when the model is terminal).
   Entries are tokens (Z): the harness keeps the bijection token <-> bytes. *)
From Coq Require Import ZArith Bool List.
From V Require Import Base.GoInt Base.CaseLib gen.Fetcher Scanner.FetchLib Scanner.FetchModel Scanner.ConsumeModel.
Import ListNotations.
Open Scope Z_scope.

Inductive ev :=
| ESth (r : option Z)                         (* GetSTH answered: Some tree size | None = error *)
| EReq (a b : Z) (r : option (list Z))        (* GetRawEntries(a, b) answered: None = error | Some entries *)
| ECb (a : Z) (es : list Z)                   (* fetcher callback: EntryBatch{Start: a, Entries: es} *)
| EFound (k : ekind) (i : Z) (e : Z)          (* scanner callback foundCert / foundPrecert(index, entry) *)
| EStop | ECancel                             (* Fetcher.Stop() / the caller's context cancelled *)
| EReturn (ok : bool) (ret : Z)               (* Run returned (ok = nil error); ScanLog returned ret *)
| EBad.                                       (* panic, hang or request storm observed *)

Inductive case :=
| CFetch (batch : Z) (workers : nat) (start end_ : Z) (cont : bool)
         (log : list Z) (evs : list ev)
| CScan (batch : Z) (workers : nat) (start end_ : Z) (cont : bool)
        (mk : mkind) (precert_only : bool) (classes : list (eclass * bool))
        (log : list Z) (evs : list ev)
(* the consumers of the Fetcher (Scanner/ConsumeModel.v): one call of the migrillian Controller's
   Run (restarts = RunWhenMaster) seen pass by pass, ret = Some true: nil | Some false: error |
   None: panic / hang; one life of an integration.CopyChainGenerator *)
| CMigrate (start end_ : Z) (cont restarts : bool) (dest0 : Z) (passes : list pass) (ret : option bool)
| CCopy (start total : Z) (log : list centry) (certs precerts : list Z) (settled : bool).

Definition zeqb_list := list_eqb Z.eqb.

Definition nthZ {A} (l : list A) (i : Z) : option A := if i <? 0 then None else nth_error l (Z.to_nat i).

(* the entries the log holds at a, a+1, ..., a+n-1 *)
Definition log_slice (log : list Z) (a : Z) (n : nat) : list Z :=
  if a <? 0 then [] else firstn n (skipn (Z.to_nat a) log).

Section Replay.
Variable classes : list (eclass * bool).
Definition classify (e : Z) : eclass := match nthZ classes e with Some c => fst c | None => CBad end.
Definition matches (e : Z) : bool := match nthZ classes e with Some c => snd c | None => false end.

Variable cfg : config.
Variable opt_end : Z.
Variable scan : bool.
Variable mk : mkind.
Variable po : bool.
Variable log : list Z.

Inductive phase := PPrepare | PRunning | PReturned | PFailed.

Record rstate := { m : sstate Z; seen : list Z; ph : phase }.

Fixpoint find_w (p : wstate Z -> bool) (l : list (wstate Z)) (i : nat) : option nat :=
  match l with
  | [] => None
  | w :: t => if p w then Some i else find_w p t (S i)
  end.

Definition is_busy (a b : Z) (w : wstate Z) : bool :=
  match w with WBusy a' b' => (a =? a') && (b =? b') | _ => false end.
Definition is_got (a : Z) (es : list Z) (w : wstate Z) : bool :=
  match w with WGot a' _ es' => (a =? a') && zeqb_list es es' | _ => false end.
Definition is_idle (w : wstate Z) : bool := match w with WIdle => true | _ => false end.

Definition sst (s : sstate Z) (l : label Z) : option (sstate Z) :=
  sstep classify matches cfg mk po s (SF l).

Definition bind {A B} (o : option A) (f : A -> option B) : option B :=
  match o with Some x => f x | None => None end.
Definition olist {A} (o : option A) : list A := match o with Some x => [x] | None => [] end.

Definition to_resp (r : option (list Z)) : resp Z := match r with None => RErr | Some es => ROk es end.

(* The hand-over of a range to a worker (LTake) and the adoption of a tree size (LAccept)
   are not observable by themselves: a request for a range no worker holds is explained by
   handing out the generator's next ranges to idle workers until (a, b) comes up (requests
   of different workers may be logged out of order), adopting - whenever the generator has
   to wait - one of the tree sizes the log has announced so far.  All explanations are kept. *)
Fixpoint takes (fuel : nat) (s : sstate Z) (cands : list Z) (a b : Z) : list (sstate Z * nat) :=
  match fuel with
  | O => []
  | S fuel' =>
      match find_w is_idle (ws (fs s)) 0 with
      | None => []
      | Some w =>
          let f := fs s in
          let starts := if loop_on cfg f && wait_cond (c_variant cfg) (g_cur f) (g_end f)
                        then flat_map (fun n => olist (sst s (LAccept n))) cands
                        else [s] in
          flat_map (fun s1 =>
            match sst s1 (LTake w) with
            | None => []
            | Some s2 =>
                match nth_error (ws (fs s2)) w with
                | Some (WBusy a' b') =>
                    if (a =? a') && (b =? b') then [(s2, w)]
                    else if a' <? a then takes fuel' s2 cands a b else []
                | Some WIdle => takes fuel' s2 cands a b     (* an empty range (original genRanges only) *)
                | _ => []
                end
            end) starts
      end
  end.

Definition replay_req (s : sstate Z) (cands : list Z) (a b : Z) (r : option (list Z)) : list (sstate Z) :=
  let honest := match r with
                | Some es => zeqb_list es (log_slice log a (length es))
                | None => true
                end in
  if negb honest then [] else
  let after_resp (sw : sstate Z * nat) :=
      olist (bind (sst (fst sw) (LResp (snd sw) (to_resp r)))
                  (fun s2 => match r with
                             | Some _ => if scan then sst s2 (LCallback (snd sw)) else Some s2
                             | None => Some s2
                             end)) in
  match find_w (is_busy a b) (ws (fs s)) 0 with
  | Some w => after_resp (s, w)
  | None => flat_map after_resp (takes (S (length (ws (fs s)))) s cands a b)
  end.

(* Run returns: the generator must be able to return, every worker must be able to return *)
Fixpoint exit_workers (s : sstate Z) (n : nat) : option (sstate Z) :=
  match n with
  | O => Some s
  | S n' =>
      bind (exit_workers s n')
           (fun s1 => match nth_error (ws (fs s1)) n' with
                      | Some WExit => Some s1
                      | Some _ => sst s1 (LWExit n')
                      | None => None
                      end)
  end.

Definition finalize (s : sstate Z) : option (sstate Z) :=
  bind (if g_alive (fs s) then sst s LGenExit else Some s)
       (fun s1 => bind (exit_workers s1 (length (ws (fs s1))))
                       (fun s2 => if terminal (fs s2) then Some s2 else None)).

Definition find_pool (i e : Z) (l : list (Z * Z)) : option nat :=
  (fix go (l : list (Z * Z)) (k : nat) : option nat :=
     match l with
     | [] => None
     | x :: t => if (fst x =? i) && (snd x =? e) then Some k else go t (S k)
     end) l O.

Definition ekind_eqb (a b : ekind) : bool :=
  match a, b with KCert, KCert | KPrecert, KPrecert => true | _, _ => false end.

Definition no_found (l : list (Z * Z)) : bool :=
  forallb (fun ie => match found_of classify matches (c_svariant cfg) mk po ie with [] => true | _ => false end) l.

Definition add_seen (n : Z) (l : list Z) : list Z := if existsb (Z.eqb n) l then l else l ++ [n].

Definition with_m (r : rstate) (s : sstate Z) : rstate := {| m := s; seen := seen r; ph := PRunning |}.

Definition replay_ev (r : rstate) (e : ev) : list rstate :=
  match ph r, e with
  | PPrepare, ESth (Some n) =>
      [{| m := sinit cfg (prepare_end opt_end n); seen := []; ph := PRunning |}]
  | PPrepare, ESth None => [{| m := m r; seen := []; ph := PFailed |}]
  | PFailed, EReturn false _ => [{| m := m r; seen := []; ph := PReturned |}]
  | PRunning, ESth (Some n) =>
      (* only the waiting generator of a continuous fetch asks for tree heads *)
      if c_cont cfg then [{| m := m r; seen := add_seen n (seen r); ph := PRunning |}] else []
  | PRunning, ESth None => if c_cont cfg then [r] else []
  | PRunning, EReq a b rs => map (with_m r) (replay_req (m r) (seen r) a b rs)
  | PRunning, ECb a es =>
      if scan then [] else
      olist (bind (find_w (is_got a es) (ws (fs (m r))) 0)
                  (fun w => bind (sst (m r) (LCallback w)) (fun s => Some (with_m r s))))
  | PRunning, EFound k i e =>
      if negb scan then [] else
      olist (bind (find_pool i e (pool (m r)))
           (fun n => match found_of classify matches (c_svariant cfg) mk po (i, e) with
                     | [(k', _, _)] =>
                         if ekind_eqb k k' then
                           bind (sstep classify matches cfg mk po (m r) (SProc n)) (fun s => Some (with_m r s))
                         else None
                     | _ => None
                     end))
  | PRunning, EStop => olist (bind (sst (m r) LStop) (fun s => Some (with_m r s)))
  | PRunning, ECancel => olist (bind (sst (m r) LCancel) (fun s => Some (with_m r s)))
  | PRunning, EReturn true ret =>
      olist (bind (finalize (m r))
           (fun s => if scan
                     then (if no_found (pool s)
                              && ((ret =? g_end (fs s))
                                  (* a continuous generator may have adopted one more announced size before returning *)
                                  || (c_cont cfg && existsb (Z.eqb ret) (seen r) && (ret >? g_end (fs s))))
                           then Some {| m := s; seen := []; ph := PReturned |} else None)
                     else Some {| m := s; seen := []; ph := PReturned |}))
  | _, _ => []
  end.

(* replay all explanations in parallel; on rejection return the number of events accepted
   and one of the states reached *)
Fixpoint replay (rs : list rstate) (evs : list ev) (n : N) : list rstate * option N :=
  match evs with
  | [] => (rs, None)
  | e :: t => match flat_map (fun r => replay_ev r e) rs with
              | [] => (rs, Some n)
              | rs' => replay rs' t (n + 1)
              end
  end.

Definition start_state : rstate := {| m := sinit cfg 0; seen := []; ph := PPrepare |}.

Definition accepted (evs : list ev) : bool :=
  match replay [start_state] evs 0 with
  | (rs, None) => existsb (fun r => match ph r with PReturned => true | _ => false end) rs
  | _ => false
  end.

End Replay.

Definition mkcfg (batch : Z) (workers : nat) (start : Z) (cont : bool) : config :=
  {| c_variant := the_code; c_svariant := the_scanner_code; c_batch := batch; c_workers := workers; c_start := start; c_cont := cont |}.

Definition check (c : case) : bool :=
  match c with
  | CFetch batch workers start end_ cont log evs =>
      accepted [] (mkcfg batch workers start cont) end_ false MCert false log evs
  | CScan batch workers start end_ cont mk po classes log evs =>
      accepted classes (mkcfg batch workers start cont) end_ true mk po log evs
  | CMigrate start end_ cont restarts dest0 passes ret =>
      mig_accepts {| m_start := start; m_end := end_; m_cont := cont; m_restarts := restarts |} dest0 passes ret
  | CCopy start total log certs precerts settled =>
      copy_accepts start total log certs precerts settled
  end.

(* what the model says: (index of the first event the model does not allow, if any;
   generator cursor and end; worker states; indices delivered; callbacks found so far) *)
Definition explain (c : case) :=
  match c with
  | CMigrate start end_ cont restarts dest0 passes ret =>
      (* (passes the model accepts; (Run's position, end of the claimed range, the model returns nil); -; claimed range; -) *)
      let '(k, (b, cl), r) := mig_explain {| m_start := start; m_end := end_; m_cont := cont; m_restarts := restarts |}
                                          (mig_init dest0) passes 0 in
      (Some k, (b, snd cl, match r with Some true => true | _ => false end), [], [fst cl; snd cl], [])
  | CCopy start total log certs precerts settled =>
      (* expected certificate chains; expected precertificate chains (tokens) *)
      (None, (start, total, settled), [], copy_expected KCertE start log, map (fun t => (KPrecert, t)) (copy_expected KPreE start log))
  | _ =>
  let '(rs, bad) :=
    match c with
    | CFetch batch workers start end_ cont log evs =>
        replay [] (mkcfg batch workers start cont) end_ false MCert false log
               [start_state (mkcfg batch workers start cont)] evs 0
    | CScan batch workers start end_ cont mk po classes log evs =>
        replay classes (mkcfg batch workers start cont) end_ true mk po log
               [start_state (mkcfg batch workers start cont)] evs 0
    | _ => ([], None)
    end in
  match rs with
  | [] => (bad, (0, 0, false), [], [], [])
  | r :: _ =>
    (bad, (g_cur (fs (m r)), g_end (fs (m r)), g_alive (fs (m r))), ws (fs (m r)),
     map fst (delivered (fs (m r))), map (fun x => (fst (fst x), snd (fst x))) (found (m r)))
  end
  end.
