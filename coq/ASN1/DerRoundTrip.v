(* Marshal side: what strict Unmarshal accepts is what Marshal writes (DER uniqueness), per primitive
   and for untagged fields of the primitive kinds. *)
From Coq Require Import ZArith NArith List Bool Lia.
From Coq.Strings Require Import Byte.
From V Require Import Base.Bytes ASN1.DerBase ASN1.DerHeader ASN1.DerHeaderProofs ASN1.DerPrim ASN1.DerPrimProofs.
Import ListNotations.
Local Open Scope Z_scope.

(* ------------------------------------------------------------------ INTEGER: value ranges, DER uniqueness *)

Lemma pow256_pos n : 0 < 256 ^ Z.of_nat n.
Proof. apply Z.pow_pos_nonneg; lia. Qed.

Lemma be_z_acc_app a c1 c2 : be_z_acc a (c1 ++ c2) = be_z_acc (be_z_acc a c1) c2.
Proof. revert a. induction c1 as [|b r IH]; intros a; cbn; auto. Qed.
Lemma be_z_snoc c b : be_z (c ++ [b]) = be_z c * 256 + bz b.
Proof. unfold be_z. rewrite be_z_acc_app. reflexivity. Qed.

Lemma be_z_acc_shift c : forall a, be_z_acc a c = a * 256 ^ zlen c + be_z_acc 0 c.
Proof.
  induction c as [|b r IH]; intros a; cbn [be_z_acc].
  - unfold zlen; cbn. lia.
  - rewrite IH. rewrite (IH (0 * 256 + bz b)). rewrite zlen_cons. rewrite Z.pow_add_r by (pose proof (zlen_nonneg r); lia).
    change (256 ^ 1) with 256. lia.
Qed.
Lemma be_z_cons b r : be_z (b :: r) = bz b * 256 ^ zlen r + be_z r.
Proof. unfold be_z. cbn [be_z_acc]. rewrite be_z_acc_shift. lia. Qed.
Lemma be_z_bound c : 0 <= be_z c < 256 ^ zlen c.
Proof.
  induction c as [|b r IH]; [unfold be_z, zlen; cbn; lia|].
  rewrite be_z_cons, zlen_cons. rewrite Z.pow_add_r by (pose proof (zlen_nonneg r); lia). change (256 ^ 1) with 256.
  pose proof (bz_range b). pose proof (zlen_nonneg r). assert (0 < 256 ^ zlen r) by (apply Z.pow_pos_nonneg; lia). nia.
Qed.

Lemma zlen_snoc {A} (c : list A) b : zlen (c ++ [b]) = zlen c + 1.
Proof. rewrite zlen_app. reflexivity. Qed.

Lemma be_signed_snoc c b : c <> [] -> be_signed (c ++ [b]) = be_signed c * 256 + bz b.
Proof.
  intros Hn. destruct c as [|b0 r]; [congruence|]. cbn [app be_signed].
  change (b0 :: r ++ [b]) with ((b0 :: r) ++ [b]). rewrite be_z_snoc, zlen_snoc.
  rewrite Z.pow_add_r by (pose proof (zlen_nonneg (b0 :: r)); lia). change (256 ^ 1) with 256.
  destruct (bz b0 <? 128); lia.
Qed.

(* range of a two's complement string of n >= 1 octets *)
Lemma be_signed_range c : c <> [] -> - (128 * 256 ^ (zlen c - 1)) <= be_signed c < 128 * 256 ^ (zlen c - 1).
Proof.
  intros Hn. destruct c as [|b r]; [congruence|]. cbn [be_signed]. rewrite be_z_cons, zlen_cons.
  replace (1 + zlen r - 1) with (zlen r) by lia.
  pose proof (be_z_bound r). pose proof (bz_range b). assert (0 < 256 ^ zlen r) by (apply Z.pow_pos_nonneg; pose proof (zlen_nonneg r); lia).
  rewrite Z.pow_add_r by (pose proof (zlen_nonneg r); lia). change (256 ^ 1) with 256.
  destruct (Z.ltb_spec (bz b) 128); nia.
Qed.

Definition minimal (c : bytes) : Prop := check_integer false c = Ok tt.

(* a minimal encoding of two or more octets is outside the range of the shorter one *)
Lemma minimal_magnitude b0 b1 r : minimal (b0 :: b1 :: r) ->
  128 * 256 ^ zlen r <= be_signed (b0 :: b1 :: r) \/ be_signed (b0 :: b1 :: r) < - (128 * 256 ^ zlen r).
Proof.
  unfold minimal, check_integer. destruct (_ || _) eqn:E; [discriminate|]. intros _.
  apply orb_false_iff in E. destruct E as [E1 E2].
  cbn [be_signed]. rewrite !be_z_cons, !zlen_cons.
  pose proof (be_z_bound r). pose proof (bz_range b0). pose proof (bz_range b1). pose proof (zlen_nonneg r).
  assert (0 < 256 ^ zlen r) by (apply Z.pow_pos_nonneg; lia).
  rewrite !Z.pow_add_r by lia. change (256 ^ 1) with 256.
  destruct (Z.ltb_spec (bz b0) 128).
  - left. destruct (Z.eqb_spec (bz b0) 0) as [Z0|Z0].
    + cbn [andb] in E1. destruct (Z.ltb_spec (bz b1) 128); [discriminate|]. nia.
    + nia.
  - right. destruct (Z.eqb_spec (bz b0) 255) as [Z0|Z0].
    + cbn [andb] in E2. destruct (Z.leb_spec 128 (bz b1)); [discriminate|]. nia.
    + nia.
Qed.

Lemma minimal_out_of_range c : minimal c -> (2 <= length c)%nat -> be_signed c > 127 \/ be_signed c < -128.
Proof.
  intros Hm Hl. destruct c as [|b0 [|b1 r]]; cbn in Hl; try lia.
  destruct (minimal_magnitude _ _ _ Hm) as [H|H];
    assert (1 <= 256 ^ zlen r) by (pose proof (zlen_nonneg r); assert (0 < 256 ^ zlen r) by (apply Z.pow_pos_nonneg; lia); lia); lia.
Qed.

Lemma minimal_prefix c b : c <> [] -> minimal (c ++ [b]) -> minimal c.
Proof.
  unfold minimal. destruct c as [|b0 [|b1 r]]; [congruence|reflexivity|]. intros _. cbn. auto.
Qed.

Lemma zb_congr x y : x mod 256 = y mod 256 -> zb x = zb y.
Proof. unfold zb. intros ->. reflexivity. Qed.
Lemma zb_low_byte x b : 0 <= bz b < 256 -> zb (x * 256 + bz b) = b.
Proof.
  intros Hb. rewrite <- (zb_bz b) at 2. apply zb_congr. rewrite Z.add_comm, Z.mod_add by lia. reflexivity.
Qed.

Lemma int_enc_canon : forall c, c <> [] -> minimal c -> forall fuel, (length c <= S fuel)%nat -> int_enc_f fuel (be_signed c) = c.
Proof.
  induction c as [|b c' IH] using rev_ind; [congruence|]. intros _ Hm fuel Hl.
  destruct c' as [|b0 r].
  - (* one octet *)
    cbn [app]. assert (Hr : -128 <= be_signed [b] <= 127).
    { pose proof (be_signed_range [b] ltac:(discriminate)). unfold zlen in *. cbn in *. lia. }
    assert (Hz : zb (be_signed [b]) = b).
    { cbn [be_signed]. unfold be_z, zlen. cbn. pose proof (bz_range b). destruct (bz b <? 128).
      - apply zb_bz.
      - replace (bz b - 256) with ((-1) * 256 + bz b) by lia. apply zb_low_byte. lia. }
    destruct fuel; cbn [int_enc_f]; [rewrite Hz; reflexivity|].
    destruct (Z.gtb_spec (be_signed [b]) 127); [lia|]. destruct (Z.ltb_spec (be_signed [b]) (-128)); [lia|]. cbn [orb]. rewrite Hz. reflexivity.
  - assert (Hne : b0 :: r <> []) by discriminate.
    rewrite app_length in Hl. cbn [length] in Hl.
    destruct fuel as [|f]; [lia|]. cbn [int_enc_f].
    assert (Hout : be_signed ((b0 :: r) ++ [b]) > 127 \/ be_signed ((b0 :: r) ++ [b]) < -128).
    { apply minimal_out_of_range; [exact Hm|]. rewrite app_length. cbn. lia. }
    assert (Hcond : (be_signed ((b0 :: r) ++ [b]) >? 127) || (be_signed ((b0 :: r) ++ [b]) <? -128) = true).
    { destruct Hout; [destruct (Z.gtb_spec (be_signed ((b0 :: r) ++ [b])) 127); [reflexivity|lia]|].
      destruct (Z.ltb_spec (be_signed ((b0 :: r) ++ [b])) (-128)); [apply orb_true_r|lia]. }
    rewrite Hcond. rewrite be_signed_snoc by exact Hne. pose proof (bz_range b).
    rewrite Z.div_add_l by lia. rewrite (Z.div_small (bz b) 256) by lia. rewrite Z.add_0_r.
    rewrite zb_low_byte by lia. rewrite IH; [reflexivity|exact Hne|eapply minimal_prefix; eauto|cbn [length] in *; lia].
Qed.

Theorem int64_parse_emit c z : parse_int64_with (check_integer false) c = Ok z -> int64_enc z = c.
Proof.
  unfold parse_int64_with. intros H. apply bind_ok in H. destruct H as ([] & Hm & H).
  destruct (Z.gtb_spec (zlen c) 8); [discriminate|]. inversion H; subst. unfold int64_enc.
  apply int_enc_canon; [destruct c; [discriminate|discriminate]|exact Hm|unfold zlen in *; lia].
Qed.

Theorem int64_range c chk z : parse_int64_with chk c = Ok z -> chk c = Ok tt -> c <> [] -> -9223372036854775808 <= z < 9223372036854775808.
Proof.
  unfold parse_int64_with. intros H Hc Hn. rewrite Hc in H. cbn [bind] in H.
  destruct (Z.gtb_spec (zlen c) 8); [discriminate|]. inversion H; subst.
  pose proof (be_signed_range c Hn) as Hr. assert (1 <= zlen c) by (destruct c; [congruence|rewrite zlen_cons; pose proof (zlen_nonneg c); lia]).
  assert (256 ^ (zlen c - 1) <= 256 ^ 7) by (apply Z.pow_le_mono_r; lia). change (256 ^ 7) with 72057594037927936 in *. lia.
Qed.

Theorem int32_range chk c z : parse_int32_with chk c = Ok z -> -2147483648 <= z <= 2147483647.
Proof.
  unfold parse_int32_with. intros H. apply bind_ok in H. destruct H as (u & _ & H). apply bind_ok in H. destruct H as (v & _ & H).
  destruct (Z.ltb_spec v (-2147483648)); [discriminate|]. destruct (Z.ltb_spec 2147483647 v); [discriminate|]. inversion H; subst. lia.
Qed.
