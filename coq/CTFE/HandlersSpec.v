(* C08: the property side.  Predicates that say, independently of the handler model, when a
   backend answer is a FAULT (error or malformed reply class of the property statement), when a
   request is BAD, and which status class a cause must produce.  Definitions only. *)
From Coq Require Import ZArith Bool List.
From V Require Import Base.GoInt Base.Bytes gen.HttpStatus gen.GetEntries CTFE.HandlersModel.
Import ListNotations.
Open Scope Z_scope.

(* Fault domain: gRPC codes other than OK (0), i.e. 1..16 and any unknown code, and errors that
   are not gRPC statuses.  grpc's status package cannot produce a non-nil error with code OK
   (status.Error(codes.OK, _) returns nil), and toHTTPStatus maps code OK to 200. *)
Definition fault_ok (f : fault) : Prop := match f with FCode c => c <> 0 | FPlain => True end.
Definition err_ok (e : errclass) : Prop := match e with ECode c => c <> 0 | _ => True end.

(* Configuration precondition: an ErrorMapper, when it claims an error, maps it to an error status *)
Definition sane_mapper (cfg : config) : Prop := forall ec s, c_mapper cfg ec = Some s -> 400 <= s < 600.

Definition hashes_bad (l : list Z) : Prop := exists h, In h l /\ h <> 32.
Definition root_unusable (r : root) : Prop := r = RootMissing \/ r = RootGarbled.

(* ---- per RPC: the reply is an error or falls in a malformed class of the property statement *)

Definition queue_faulty (be : reply queue_reply) : Prop :=
  match be with
  | RpcErr f => fault_ok f
  | Reply (QLeaf Decodes) => False
  | Reply _ => True                      (* nil reply, no QueuedLeaf, no Leaf, leaf does not decode / trailing bytes *)
  end.

Definition sth_faulty (cfg : config) (be : reply root) (mir : reply unit) : Prop :=
  match be with
  | RpcErr f => fault_ok f
  | Reply (RootOk _ h) =>
      h <> 32 \/ (c_sth cfg = SthMirror /\ match mir with RpcErr f => fault_ok f | Reply _ => False end)
  | Reply _ => True
  end.

Definition cons_faulty (second : Z) (be : reply cons_reply) : Prop :=
  match be with
  | RpcErr f => fault_ok f
  | Reply r => match cr_root r with
               | RootOk n _ => n < second \/ cr_proof r = None
                               \/ (exists lens, cr_proof r = Some lens /\ hashes_bad lens)
               | _ => True
               end
  end.

Definition incl_faulty (tree_size : Z) (be : reply incl_reply) : Prop :=
  match be with
  | RpcErr f => fault_ok f
  | Reply r => match ir_root r with
               | RootOk n _ => n < tree_size \/ ir_proofs r = []
                               \/ (exists p rest, ir_proofs r = p :: rest /\ hashes_bad p)
               | _ => True
               end
  end.

Definition misindexed (start : Z) (ls : list (Z * bool)) : Prop :=
  exists i l, nth_error ls i = Some l /\ fst l <> start + Z.of_nat i.
Definition some_unfixable (ls : list (Z * bool)) : Prop := exists l, In l ls /\ snd l = false.

Definition leaves_faulty (cfg : config) (start count : Z) (be : reply leaves_reply) : Prop :=
  match be with
  | RpcErr f => fault_ok f
  | Reply r => match lr_root r with
               | RootOk n _ => n <= start \/ Z.of_nat (length (lr_leaves r)) > count
                               \/ misindexed start (lr_leaves r)
                               \/ (c_indirect cfg = true /\ some_unfixable (lr_leaves r))
               | _ => True
               end
  end.

Definition eap_faulty (cfg : config) (tree_size : Z) (be : reply eap_reply) : Prop :=
  match be with
  | RpcErr f => fault_ok f
  | Reply r => match er_root r with
               | RootOk n _ =>
                   n < tree_size \/ er_leaf r = LeafAbsent \/ (exists fx, er_leaf r = LeafPresent 0 fx)
                   \/ er_proof r = None \/ (tree_size > 1 /\ er_proof r = Some [])
                   \/ (c_indirect cfg = true /\ exists n', er_leaf r = LeafPresent n' false)
               | _ => True
               end
  end.

(* the answer to the RPC this request's endpoint issues is a fault (relative to what the request asks for) *)
Definition faulty (cfg : config) (r : request) (b : backend) : Prop :=
  match r with
  | ReqAddChain _ _ => queue_faulty (b_queue b)
  | ReqGetSTH => sth_faulty cfg (b_root b) (b_mirror b)
  | ReqConsistency _ ps =>
      match parse_int64 ps with Some s => cons_faulty s (b_cons b) | None => False end
  | ReqProofByHash _ pts =>
      match parse_int64 pts with Some ts => incl_faulty ts (b_incl b) | None => False end
  | ReqEntries ps pe =>
      match parse_int64 ps, parse_int64 pe with
      | Some s0, Some e0 =>
          match parse_range s0 e0 (c_maxr cfg) (c_align cfg) with
          | Some (s, en) => leaves_faulty cfg s (entries_count s en) (b_leaves b)
          | None => False
          end
      | _, _ => False
      end
  | ReqRoots => False
  | ReqEntryAndProof _ pts =>
      match parse_int64 pts with Some ts => eap_faulty cfg ts (b_entry b) | None => False end
  end.

(* ---- the error the backend (or, for mirrors, the STH store) answered with, if that is the cause *)
Definition reply_error (cfg : config) (r : request) (b : backend) : option fault :=
  match r with
  | ReqAddChain _ _ => match b_queue b with RpcErr f => Some f | _ => None end
  | ReqGetSTH =>
      match b_root b with
      | RpcErr f => Some f
      | Reply (RootOk _ h) =>
          if h =? 32 then match c_sth cfg, b_mirror b with SthMirror, RpcErr f => Some f | _, _ => None end
          else None
      | _ => None
      end
  | ReqConsistency _ _ => match b_cons b with RpcErr f => Some f | _ => None end
  | ReqProofByHash _ _ => match b_incl b with RpcErr f => Some f | _ => None end
  | ReqEntries _ _ => match b_leaves b with RpcErr f => Some f | _ => None end
  | ReqRoots => None
  | ReqEntryAndProof _ _ => match b_entry b with RpcErr f => Some f | _ => None end
  end.

(* what toHTTPStatus's table must say (the mechanism named in the property) *)
Definition caller_caused_code (c : Z) : Prop :=
  c = 3 \/ c = 5 \/ c = 6 \/ c = 7 \/ c = 9 \/ c = 10 \/ c = 11 \/ c = 16.
  (* InvalidArgument NotFound AlreadyExists PermissionDenied FailedPrecondition Aborted OutOfRange Unauthenticated *)

(* ---- caller-caused condition on a well-formed reply: asking beyond the current tree, or (get-proof-by-hash)
        for a hash the log does not know.  [Some] of the expected status. *)
Definition all_fixable (ls : list (Z * bool)) : Prop := forall l, In l ls -> snd l = true.

Definition beyond_tree (cfg : config) (r : request) (b : backend) : Prop :=
  match r with
  | ReqConsistency _ ps =>
      exists s n h p, parse_int64 ps = Some s /\ b_cons b = Reply {| cr_root := RootOk n h; cr_proof := p |} /\ n < s
  | ReqProofByHash _ pts =>
      exists ts n h ps, parse_int64 pts = Some ts /\ b_incl b = Reply {| ir_root := RootOk n h; ir_proofs := ps |}
                        /\ (n < ts \/ ps = [])
  | ReqEntries ps _ =>
      exists s n h ls, parse_int64 ps = Some s /\ b_leaves b = Reply {| lr_root := RootOk n h; lr_leaves := ls |}
                       /\ n <= s /\ (c_indirect cfg = true -> all_fixable ls)
  | ReqEntryAndProof _ pts =>
      exists ts n h l p, parse_int64 pts = Some ts /\ b_entry b = Reply {| er_root := RootOk n h; er_leaf := l; er_proof := p |}
                         /\ n < ts /\ (c_indirect cfg = true -> forall k, l <> LeafPresent k false)
  | _ => False
  end.

(* no RPC error: the backend did answer with a reply message *)
Definition answered (cfg : config) (r : request) (b : backend) : Prop :=
  match r with
  | ReqAddChain _ _ => exists q, b_queue b = Reply q
  | ReqGetSTH => (exists x, b_root b = Reply x) /\ (c_sth cfg = SthMirror -> exists u, b_mirror b = Reply u)
  | ReqConsistency _ _ => exists x, b_cons b = Reply x
  | ReqProofByHash _ _ => exists x, b_incl b = Reply x
  | ReqEntries _ _ => exists x, b_leaves b = Reply x
  | ReqRoots => True
  | ReqEntryAndProof _ _ => exists x, b_entry b = Reply x
  end.

(* ---- bad requests *)
Definition int_param_bad (s : bytes) (ok : Z -> Prop) : Prop :=
  match parse_int64 s with None => True | Some z => ~ ok z end.

Definition params_bad (cfg : config) (r : request) : Prop :=
  match r with
  | ReqAddChain _ body => body <> ChainOK
  | ReqGetSTH | ReqRoots => False
  | ReqConsistency pf ps =>
      match parse_int64 pf, parse_int64 ps with
      | Some f, Some s => f < 0 \/ s < 0 \/ s < f
      | _, _ => True                                   (* missing, malformed or outside int64 *)
      end
  | ReqProofByHash h pts =>
      h_len h = 0 \/ h_b64ok h = false \/ int_param_bad pts (fun ts => 1 <= ts)
  | ReqEntries ps pe =>
      match parse_int64 ps, parse_int64 pe with
      | Some s, Some e => s < 0 \/ e < 0 \/ s > e
      | _, _ => True
      end
  | ReqEntryAndProof pli pts =>
      match parse_int64 pli, parse_int64 pts with
      | Some li, Some ts => ts <= 0 \/ li < 0 \/ li >= ts
      | _, _ => True
      end
  end.

Definition bad_request (cfg : config) (m : meth) (form_ok : bool) (r : request) : Prop :=
  m <> method_of (endpoint_of r) \/ (m = MGet /\ form_ok = false) \/ params_bad cfg r.

(* what the property demands of a response to a faulty backend call *)
Definition refused (resp : response) : Prop :=
  status resp <> 200 /\ 400 <= status resp < 600 /\ sct_issued resp = false
  /\ error_page resp = true /\ logged resp <> 200.
