(* Go machine-integer semantics used by the generated (gofrag) definitions.
   int64 / int / time.Duration : Z wrapped into [-2^63, 2^63);  uint64 / uint : Z mod 2^64.
   time.Time : Z (nanoseconds on one monotone axis);  *T : option T.              *)
From Coq Require Import ZArith Bool Lia.
Open Scope Z_scope.

Definition two63 : Z := 9223372036854775808.
Definition two64 : Z := 18446744073709551616.
Definition max_i64 : Z := 9223372036854775807.
Definition min_i64 : Z := -9223372036854775808.

Definition wrap64 (z : Z) : Z := (z + two63) mod two64 - two63.
Definition wrapu (z : Z) : Z := z mod two64.
Definition in_i64 (z : Z) : Prop := min_i64 <= z <= max_i64.
Definition in_u64 (z : Z) : Prop := 0 <= z < two64.

Definition add64 a b := wrap64 (a + b).
Definition sub64 a b := wrap64 (a - b).
Definition mul64 a b := wrap64 (a * b).
Definition neg64 a := wrap64 (- a).
(* Go's / and % truncate towards zero; division by zero panics (modelled by callers). *)
Definition quot64 a b := wrap64 (Z.quot a b).
Definition rem64 a b := Z.rem a b.
Definition shl64 a n := if n <? 64 then wrap64 (a * 2 ^ n) else 0.
Definition shr64 a n := if n <? 64 then a / 2 ^ n else (if a <? 0 then -1 else 0).

Definition addu a b := wrapu (a + b).
Definition subu a b := wrapu (a - b).
Definition mulu a b := wrapu (a * b).
Definition quotu a b := Z.quot a b.
Definition remu a b := Z.rem a b.
Definition shlu a n := if n <? 64 then wrapu (a * 2 ^ n) else 0.
Definition shru a n := if n <? 64 then a / 2 ^ n else 0.

(* `for cond { body }` over the tuple of variables the body assigns (gofrag): at most `fuel` evaluations of the
   condition; None when the fuel runs out before the condition turns false *)
Fixpoint while_fuel {S : Type} (fuel : nat) (cond : S -> bool) (body : S -> S) (s : S) : option S :=
  match fuel with
  | O => None
  | Datatypes.S k => if cond s then while_fuel k cond body (body s) else Some s
  end.

(* data[i] on a []byte rendered as list Z (gofrag): -1, which is no octet, outside the slice (where Go panics) *)
Definition idx (l : list Z) (i : Z) : Z := if i <? 0 then -1 else List.nth (Z.to_nat i) l (-1).

Definition oget {A} (d : A) (o : option A) : A := match o with Some x => x | None => d end.
Definition is_some {A} (o : option A) : bool := match o with Some _ => true | None => false end.
Definition is_none {A} (o : option A) : bool := match o with Some _ => false | None => true end.

Lemma two63_pos : 0 < two63. Proof. reflexivity. Qed.
Lemma two64_eq : two64 = 2 * two63. Proof. reflexivity. Qed.
Lemma max_i64_eq : max_i64 = two63 - 1. Proof. reflexivity. Qed.
Lemma min_i64_eq : min_i64 = - two63. Proof. reflexivity. Qed.

Lemma wrap64_id z : in_i64 z -> wrap64 z = z.
Proof.
  unfold in_i64, wrap64. rewrite max_i64_eq, min_i64_eq, two64_eq. intros H.
  rewrite Z.mod_small; lia.
Qed.

Lemma wrap64_range z : in_i64 (wrap64 z).
Proof.
  unfold in_i64, wrap64. rewrite max_i64_eq, min_i64_eq, two64_eq.
  pose proof (Z.mod_pos_bound (z + two63) (2 * two63)). pose proof two63_pos. lia.
Qed.

(* wrap64 z differs from z by a multiple of 2^64 *)
Lemma wrap64_spec z : exists k, wrap64 z = z + k * two64.
Proof.
  unfold wrap64. exists (- ((z + two63) / two64)).
  pose proof (Z.div_mod (z + two63) two64). 
  assert (two64 <> 0) by (unfold two64; lia). specialize (H H0). lia.
Qed.

Lemma wrap64_add_mul z k : wrap64 (z + k * two64) = wrap64 z.
Proof.
  unfold wrap64. replace (z + k * two64 + two63) with (z + two63 + k * two64) by lia.
  rewrite Z.mod_add; [reflexivity|]. unfold two64; lia.
Qed.

(* Go's modular arithmetic: an intermediate overflow is harmless when the final value fits *)
Lemma wrap64_wrap_sub a b : wrap64 (wrap64 a - b) = wrap64 (a - b).
Proof.
  destruct (wrap64_spec a) as [k ->].
  replace (a + k * two64 - b) with (a - b + k * two64) by lia. apply wrap64_add_mul.
Qed.

Lemma wrap64_wrap_add a b : wrap64 (wrap64 a + b) = wrap64 (a + b).
Proof.
  destruct (wrap64_spec a) as [k ->].
  replace (a + k * two64 + b) with (a + b + k * two64) by lia. apply wrap64_add_mul.
Qed.

Lemma wrap64_cases z : in_i64 (wrap64 z) /\ exists k, wrap64 z = z + k * two64.
Proof. split; [apply wrap64_range | apply wrap64_spec]. Qed.

Lemma wrapu_id z : in_u64 z -> wrapu z = z.
Proof. unfold in_u64, wrapu. intros. apply Z.mod_small; lia. Qed.

Lemma wrapu_range z : in_u64 (wrapu z).
Proof. unfold in_u64, wrapu. apply Z.mod_pos_bound. reflexivity. Qed.

Global Opaque two63 two64 max_i64 min_i64.
