From Coq Require Import String NArith Bool List.
From V Require Import Base.Bytes Base.CaseLib TLS.TlsModel TLS.TlsCase CT.CtCase CTFE.ChainStoreModel.
Import ListNotations.

Inductive case :=
| CDirect (precert : bool) (cert : bytes) (chain : list bytes) (obs : bytes)          (* ExtraData queued in default mode *)
| CHashed (precert : bool) (cert : bytes) (h : bytes) (obs : bytes)                   (* ExtraData queued in external-storage mode *)
| CBlob (chain : list bytes) (obs : bytes)                                            (* the blob put into the storage *)
| CServe (extra : bytes) (got : option (io bytes)) (obs : res bytes).                 (* extra_data served for a stored leaf *)

Definition check (c : case) : bool :=
  match c with
  | CDirect p cert chain obs => res_eqb bytes_eqb (extra_direct p cert chain) (Ok obs)
  | CHashed p cert h obs => res_eqb bytes_eqb (extra_hashed p cert h) (Ok obs)
  | CBlob chain obs => bytes_eqb (enc_chain chain) obs && opt_eqb (list_eqb bytes_eqb) (dec_chain obs) (Some chain)
  | CServe extra got obs =>
      okish bytes_eqb (fix_leaf (fun _ => match got with Some r => r | None => IoErr end) extra) obs
  end.

Definition explain (c : case) :=
  match c with
  | CDirect p cert chain _ => (Some (extra_direct p cert chain), None)
  | CHashed p cert h _ => (Some (extra_hashed p cert h), None)
  | CBlob chain _ => (Some (Ok (enc_chain chain)), None)
  | CServe extra got _ => (None, Some (fix_leaf (fun _ => match got with Some r => r | None => IoErr end) extra))
  end.
