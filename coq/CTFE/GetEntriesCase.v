From Coq Require Import ZArith Bool List.
From Coq Require Import NArith.
From V Require Import Base.GoInt Base.Bytes gen.GetEntries gen.HttpStatus CTFE.GetEntriesModel Base.CaseLib.
From V Require Import TLS.TlsModel TLS.TlsCase CT.Rfc6962Spec CTFE.ChainStoreModel.
Import ListNotations.
Open Scope Z_scope.

(* the reply the scripted backend gave (if called) *)
Inductive reply :=
| RCode (code : Z)                       (* gRPC status code *)
| RPlain                                 (* a non-gRPC error *)
| RLeaves (root : option Z) (ls : list (Z * bytes * bytes)).

Inductive case :=
| CGet (maxr : Z) (align : bool) (ps pe : param) (r : reply)
       (status : Z) (req : option (Z * Z)) (served : list (bytes * bytes))
(* a served entry and what the library's entry parser made of it: timestamp, certificate (or
   precertificate with issuer key hash and TBS) and chain.  The served bytes must be the RFC 6962
   encodings (CT/Rfc6962Spec.enc_leaf, CTFE/ChainStoreModel.extra_direct) of exactly that. *)
| CEntry (precert : bool) (ts : N) (cert ikh tbs : bytes) (chain : list bytes) (leaf_input extra : bytes).

Definition to_bres (r : reply) : bres :=
  match r with
  | RCode c => BErr (to_http_status c)
  | RPlain => BErr 500
  | RLeaves root ls => BReply root (map (fun t => {| l_index := fst (fst t); l_value := snd (fst t); l_extra := snd t |}) ls)
  end.

Definition run (c : case) : outcome :=
  match c with
  | CGet maxr align ps pe r _ _ _ => get_entries maxr align ps pe (fun _ _ => to_bres r)
  | CEntry _ _ _ _ _ _ _ _ => get_entries 1 false PBad PBad (fun _ _ => BErr 500)
  end.

Definition entry_of (precert : bool) (cert ikh tbs : bytes) : entry :=
  if precert then PrecertE ikh tbs else X509E cert.

Definition check (c : case) : bool :=
  match c with
  | CGet _ _ _ _ _ status req served =>
      let o := run c in
      (o_status o =? status) && opt_eqb (pair_eqb Z.eqb Z.eqb) (o_request o) req
      && list_eqb (pair_eqb bytes_eqb bytes_eqb) (o_served o) served
  | CEntry precert ts cert ikh tbs chain leaf_input extra =>
      bytes_eqb (enc_leaf ts (entry_of precert cert ikh tbs) []) leaf_input
      && res_eqb bytes_eqb (extra_direct precert cert chain) (Ok extra)
  end.

Definition explain (c : case) := let o := run c in (o_status o, o_request o, o_served o).
