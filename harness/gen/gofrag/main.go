// gofrag translates a deliberately tiny subset of Go (integer arithmetic, comparisons,
// boolean conditions, if/else, switch on constants, early return) from /repo's CURRENT
// source into Gallina definitions over V.Base.GoInt.  The property theorems are stated
// against the generated definitions, so an edit to the source changes what coqc checks.
//
// Anything outside the subset aborts the translation (exit status 2): the obligation is
// then reported as broken by bin/check, never silently skipped.
//
// Usage: gofrag -repo /repo -targets targets.json -outdir coq/gen
package main

import (
	"bytes"
	"crypto/sha256"
	"encoding/json"
	"flag"
	"fmt"
	"go/ast"
	"go/parser"
	"go/printer"
	"go/token"
	"os"
	"path/filepath"
	"sort"
	"strconv"
	"strings"
)

type envEntry struct {
	Coq string `json:"coq"`
	Ty  string `json:"ty"`
}

type param struct {
	Coq string `json:"coq"`
	Ty  string `json:"ty"`
}

type target struct {
	Name   string              `json:"name"`
	File   string              `json:"file"`
	Func   string              `json:"func"`  // "name" or "Recv.name"
	Mode   string              `json:"mode"`  // body | cond | conds
	From   string              `json:"from"`  // body: first statement whose source contains this
	Until  string              `json:"until"` // body: stop BEFORE the first statement (after From) containing this
	Params []param             `json:"params"`
	Env    map[string]envEntry `json:"env"`
	Ret    []string            `json:"ret"`
	// cond mode: the condition of the Nth `if` (in source order, nested included) whose
	// condition source contains IfContains.
	AssignTo   string `json:"assign_to"` // expr mode: RHS of the first assignment to this variable
	IfContains string `json:"if_contains"`
	Nth        int    `json:"nth"`
	// body mode, no explicit return at the end: return these Go expressions.
	FinalRet []string `json:"final_ret"`
	Ignore   []string `json:"ignore"`
	// body mode, `for` loops: the loop becomes Base.GoInt.while_fuel with LoopFuel iterations (default 64);
	// OnFuel is the Coq term returned when the fuel runs out (required when the slice contains a loop; choose
	// a value the function cannot return, so that a theorem about the result excludes exhaustion).
	// calls to other translated functions: Go function name -> generated definition and its result type
	Calls    map[string]envEntry `json:"calls"`
	LoopFuel int    `json:"loop_fuel"`
	OnFuel   string `json:"on_fuel"`
}

type unit struct {
	Out     string   `json:"out"`
	Targets []target `json:"targets"`
}

var fset = token.NewFileSet()

func src(n ast.Node) string {
	var b bytes.Buffer
	printer.Fprint(&b, fset, n)
	return b.String()
}

type abortErr struct{ msg string }

func abort(n ast.Node, f string, a ...interface{}) {
	pos := ""
	if n != nil {
		pos = fset.Position(n.Pos()).String() + ": "
	}
	panic(abortErr{pos + fmt.Sprintf(f, a...)})
}

// ---------------------------------------------------------------- constants

var external = map[string]envEntry{
	"http.StatusOK": {"200", "int"}, "http.StatusBadRequest": {"400", "int"},
	"http.StatusUnauthorized": {"401", "int"}, "http.StatusForbidden": {"403", "int"},
	"http.StatusNotFound": {"404", "int"}, "http.StatusMethodNotAllowed": {"405", "int"},
	"http.StatusRequestTimeout": {"408", "int"}, "http.StatusConflict": {"409", "int"},
	"http.StatusPreconditionFailed": {"412", "int"}, "http.StatusTooManyRequests": {"429", "int"},
	"http.StatusInternalServerError": {"500", "int"}, "http.StatusNotImplemented": {"501", "int"},
	"http.StatusBadGateway": {"502", "int"}, "http.StatusServiceUnavailable": {"503", "int"},
	"http.StatusGatewayTimeout": {"504", "int"},
	"codes.OK":                  {"0", "int"}, "codes.Canceled": {"1", "int"}, "codes.Unknown": {"2", "int"},
	"codes.InvalidArgument": {"3", "int"}, "codes.DeadlineExceeded": {"4", "int"},
	"codes.NotFound": {"5", "int"}, "codes.AlreadyExists": {"6", "int"},
	"codes.PermissionDenied": {"7", "int"}, "codes.ResourceExhausted": {"8", "int"},
	"codes.FailedPrecondition": {"9", "int"}, "codes.Aborted": {"10", "int"},
	"codes.OutOfRange": {"11", "int"}, "codes.Unimplemented": {"12", "int"},
	"codes.Internal": {"13", "int"}, "codes.Unavailable": {"14", "int"},
	"codes.DataLoss": {"15", "int"}, "codes.Unauthenticated": {"16", "int"},
	"time.Nanosecond": {"1", "dur"}, "time.Microsecond": {"1000", "dur"},
	"time.Millisecond": {"1000000", "dur"}, "time.Second": {"1000000000", "dur"},
	"time.Minute": {"60000000000", "dur"}, "time.Hour": {"3600000000000", "dur"},
	"math.MaxInt64": {"max_i64", "untyped"},
	"true":          {"true", "bool"}, "false": {"false", "bool"},
}

type tr struct {
	t         *target
	env       map[string]envEntry // Go source text of an expression -> Coq
	consts    map[string]ast.Expr // package-level constants
	vars      map[string]string   // Go local -> type
	ignore    []string
	shiftHint string
}

func isInt(ty string) bool {
	switch ty {
	case "int64", "int", "dur", "uint64", "uint", "untyped", "time", "byte":
		return true
	}
	return false
}

func signed(ty string) bool { return ty == "int64" || ty == "int" || ty == "dur" || ty == "untyped" }

func unify(n ast.Node, a, b string) string {
	if a == "untyped" {
		return b
	}
	if b == "untyped" {
		return a
	}
	if a != b {
		// int vs int64 etc. never mix in Go without a conversion.
		abort(n, "operand types differ: %s vs %s in %s", a, b, src(n))
	}
	return a
}

func paren(s string) string {
	if strings.ContainsAny(s, " ") && !(strings.HasPrefix(s, "(") && balanced(s)) {
		return "(" + s + ")"
	}
	return s
}

func balanced(s string) bool {
	d := 0
	for i, c := range s {
		if c == '(' {
			d++
		} else if c == ')' {
			d--
			if d == 0 && i != len(s)-1 {
				return false
			}
		}
	}
	return d == 0
}

func (x *tr) lookup(e ast.Expr) (envEntry, bool) {
	s := src(e)
	if v, ok := x.env[s]; ok {
		return v, true
	}
	if id, ok := e.(*ast.Ident); ok {
		if ty, ok := x.vars[id.Name]; ok {
			return envEntry{"v_" + id.Name, ty}, true
		}
		if c, ok := x.consts[id.Name]; ok {
			s, ty := x.expr(c)
			return envEntry{s, ty}, true
		}
	}
	if v, ok := external[s]; ok {
		return v, true
	}
	return envEntry{}, false
}

func arith(op token.Token, ty string) string {
	u := !signed(ty)
	m := map[token.Token][2]string{
		token.ADD: {"add64", "addu"}, token.SUB: {"sub64", "subu"}, token.MUL: {"mul64", "mulu"},
		token.QUO: {"quot64", "quotu"}, token.REM: {"rem64", "remu"},
		token.SHL: {"shl64", "shlu"}, token.SHR: {"shr64", "shru"},
	}
	p, ok := m[op]
	if !ok {
		return ""
	}
	if u {
		return p[1]
	}
	return p[0]
}

// expr returns (Coq term, type).
func (x *tr) expr(e ast.Expr) (string, string) {
	if v, ok := x.lookup(e); ok {
		return v.Coq, v.Ty
	}
	switch n := e.(type) {
	case *ast.ParenExpr:
		s, ty := x.expr(n.X)
		return paren(s), ty
	case *ast.BasicLit:
		if n.Kind == token.INT {
			v, err := strconv.ParseInt(n.Value, 0, 64)
			if err != nil {
				abort(n, "integer literal %s", n.Value)
			}
			if v < 0 {
				return fmt.Sprintf("(%d)", v), "untyped"
			}
			return fmt.Sprintf("%d", v), "untyped"
		}
		abort(n, "literal kind %v", n.Kind)
	case *ast.UnaryExpr:
		switch n.Op {
		case token.NOT:
			s, ty := x.expr(n.X)
			if ty != "bool" {
				abort(n, "! on %s", ty)
			}
			return "negb " + paren(s), "bool"
		case token.SUB:
			s, ty := x.expr(n.X)
			if ty == "untyped" {
				return "(- " + paren(s) + ")", ty
			}
			if !signed(ty) {
				abort(n, "unary - on %s", ty)
			}
			return "neg64 " + paren(s), ty
		}
		abort(n, "unary %v", n.Op)
	case *ast.StarExpr:
		s, ty := x.expr(n.X)
		if !strings.HasPrefix(ty, "opt ") {
			abort(n, "deref of non-pointer %s : %s", s, ty)
		}
		return "oget 0 " + paren(s), strings.TrimPrefix(ty, "opt ")
	case *ast.IndexExpr:
		// data[i] on a []byte: Base.GoInt.idx answers the impossible octet -1 outside the slice (Go panics there),
		// so a theorem that equates the result with the model's excludes every out-of-range read
		d, td := x.expr(n.X)
		i, ti := x.expr(n.Index)
		if td != "bytes" || !isInt(ti) || ti == "time" {
			abort(n, "index %s[%s]", td, ti)
		}
		return "(idx " + paren(d) + " " + paren(i) + ")", "byte"
	case *ast.BinaryExpr:
		return x.binary(n)
	case *ast.CallExpr:
		return x.call(n)
	}
	abort(e, "unsupported expression %T: %s", e, src(e))
	return "", ""
}

// untypedShift reports whether e is (possibly parenthesised) `const << expr`.
func untypedShift(e ast.Expr) bool {
	for {
		p, ok := e.(*ast.ParenExpr)
		if !ok {
			break
		}
		e = p.X
	}
	b, ok := e.(*ast.BinaryExpr)
	if !ok || (b.Op != token.SHL && b.Op != token.SHR) {
		return false
	}
	_, lit := b.X.(*ast.BasicLit)
	return lit
}

// operands translates both operands of a binary expression, typing an untyped-constant
// shift on one side by the type of the other side.
func (x *tr) operands(l, r ast.Expr) (string, string, string, string) {
	switch {
	case untypedShift(l) && !untypedShift(r):
		b, tb := x.expr(r)
		save := x.shiftHint
		x.shiftHint = tb
		a, ta := x.expr(l)
		x.shiftHint = save
		return a, ta, b, tb
	case untypedShift(r) && !untypedShift(l):
		a, ta := x.expr(l)
		save := x.shiftHint
		x.shiftHint = ta
		b, tb := x.expr(r)
		x.shiftHint = save
		return a, ta, b, tb
	}
	a, ta := x.expr(l)
	b, tb := x.expr(r)
	return a, ta, b, tb
}

func isNil(e ast.Expr) bool {
	id, ok := e.(*ast.Ident)
	return ok && id.Name == "nil"
}

func (x *tr) binary(n *ast.BinaryExpr) (string, string) {
	switch n.Op {
	case token.LAND, token.LOR:
		a, ta := x.expr(n.X)
		b, tb := x.expr(n.Y)
		if ta != "bool" || tb != "bool" {
			abort(n, "boolean operator on %s, %s", ta, tb)
		}
		op := "&&"
		if n.Op == token.LOR {
			op = "||"
		}
		return "(" + a + " " + op + " " + b + ")", "bool"
	case token.EQL, token.NEQ:
		if isNil(n.Y) || isNil(n.X) {
			o := n.X
			if isNil(n.X) {
				o = n.Y
			}
			s, ty := x.expr(o)
			if !strings.HasPrefix(ty, "opt ") {
				abort(n, "nil comparison on %s", ty)
			}
			if n.Op == token.EQL {
				return "is_none " + paren(s), "bool"
			}
			return "is_some " + paren(s), "bool"
		}
		fallthrough
	case token.LSS, token.LEQ, token.GTR, token.GEQ:
		a, ta, b, tb := x.operands(n.X, n.Y)
		ty := unify(n, ta, tb)
		if ty == "bool" {
			if n.Op == token.EQL {
				return "Bool.eqb " + paren(a) + " " + paren(b), "bool"
			}
			if n.Op == token.NEQ {
				return "negb (Bool.eqb " + paren(a) + " " + paren(b) + ")", "bool"
			}
		}
		if !isInt(ty) {
			abort(n, "comparison on %s", ty)
		}
		switch n.Op {
		case token.EQL:
			return "(" + a + " =? " + b + ")", "bool"
		case token.NEQ:
			return "negb (" + a + " =? " + b + ")", "bool"
		case token.LSS:
			return "(" + a + " <? " + b + ")", "bool"
		case token.LEQ:
			return "(" + a + " <=? " + b + ")", "bool"
		case token.GTR:
			return "(" + a + " >? " + b + ")", "bool"
		case token.GEQ:
			return "(" + a + " >=? " + b + ")", "bool"
		}
	case token.ADD, token.SUB, token.MUL, token.QUO, token.REM:
		a, ta, b, tb := x.operands(n.X, n.Y)
		ty := unify(n, ta, tb)
		if ty == "untyped" {
			ops := map[token.Token]string{token.ADD: "+", token.SUB: "-", token.MUL: "*"}
			if o, ok := ops[n.Op]; ok {
				return "(" + a + " " + o + " " + b + ")", ty
			}
			abort(n, "untyped constant division")
		}
		if ty == "time" || ty == "byte" || !isInt(ty) {
			abort(n, "arithmetic on %s", ty)
		}
		return "(" + arith(n.Op, ty) + " " + paren(a) + " " + paren(b) + ")", ty
	case token.AND, token.OR:
		a, ta, b, tb := x.operands(n.X, n.Y)
		ty := unify(n, ta, tb)
		if !isInt(ty) || ty == "time" {
			abort(n, "bitwise operator on %s", ty)
		}
		f := "Z.land"
		if n.Op == token.OR {
			f = "Z.lor"
		}
		return "(" + f + " " + paren(a) + " " + paren(b) + ")", ty
	case token.SHL, token.SHR:
		a, ta := x.expr(n.X)
		b, _ := x.expr(n.Y)
		if ta == "untyped" {
			// an untyped constant shifted by a non-constant takes the type of its context
			// (Go spec, "Shifts"); operands() supplies it as a hint.  Default: int.
			ta = "int"
			if x.shiftHint != "" {
				ta = x.shiftHint
			}
		}
		return "(" + arith(n.Op, ta) + " " + paren(a) + " " + paren(b) + ")", ta
	}
	abort(n, "unsupported binary operator %v", n.Op)
	return "", ""
}

func (x *tr) call(n *ast.CallExpr) (string, string) {
	fn := src(n.Fun)
	// conversions
	conv := map[string]string{"int64": "int64", "int": "int", "uint64": "uint64", "uint": "uint", "time.Duration": "dur"}
	if (fn == "byte" || fn == "uint8") && len(n.Args) == 1 {
		// conversion to an 8-bit unsigned value keeps the low octet (two's complement for negative operands)
		s, from := x.expr(n.Args[0])
		if !isInt(from) || from == "time" {
			abort(n, "byte() of %s", from)
		}
		if from == "byte" {
			return s, "byte"
		}
		return "(" + paren(s) + " mod 256)", "byte"
	}
	if fn == "append" && len(n.Args) == 2 && !n.Ellipsis.IsValid() {
		d, td := x.expr(n.Args[0])
		e, te := x.expr(n.Args[1])
		if td != "bytes" || (te != "byte" && te != "untyped") {
			abort(n, "append(%s, %s)", td, te)
		}
		return "(app " + paren(d) + " (cons " + paren(e) + " nil))", "bytes"
	}
	if c, ok := x.t.Calls[fn]; ok {
		var args []string
		for _, a := range n.Args {
			s, _ := x.expr(a)
			args = append(args, paren(s))
		}
		return "(" + c.Coq + " " + strings.Join(args, " ") + ")", c.Ty
	}
	if to, ok := conv[fn]; ok && len(n.Args) == 1 {
		s, from := x.expr(n.Args[0])
		switch {
		case from == "untyped" || from == to || from == "byte":
			return s, to
		case signed(from) && signed(to):
			return s, to // all signed kinds are 64-bit here
		case signed(to):
			return "wrap64 " + paren(s), to
		default:
			return "wrapu " + paren(s), to
		}
	}
	if sel, ok := n.Fun.(*ast.SelectorExpr); ok && len(n.Args) == 1 {
		recv, tr := x.expr(sel.X)
		arg, ta := x.expr(n.Args[0])
		if tr == "opt time" { // method call through a pointer: implicit dereference
			recv, tr = "oget 0 "+paren(recv), "time"
		}
		if tr == "time" && ta == "time" {
			switch sel.Sel.Name {
			case "Before":
				return "(" + recv + " <? " + arg + ")", "bool"
			case "After":
				return "(" + recv + " >? " + arg + ")", "bool"
			case "Equal":
				return "(" + recv + " =? " + arg + ")", "bool"
			}
		}
		if tr == "time" && ta == "dur" && sel.Sel.Name == "Add" {
			return "(" + recv + " + " + arg + ")", "time"
		}
		if tr == "time" && ta == "time" && sel.Sel.Name == "Sub" {
			return "(sub64 " + paren(recv) + " " + paren(arg) + ")", "dur"
		}
	}
	if fn == "min" || fn == "max" {
		if len(n.Args) == 2 {
			a, ta := x.expr(n.Args[0])
			b, tb := x.expr(n.Args[1])
			ty := unify(n, ta, tb)
			f := "Z.min"
			if fn == "max" {
				f = "Z.max"
			}
			return "(" + f + " " + paren(a) + " " + paren(b) + ")", ty
		}
	}
	abort(n, "unsupported call %s", src(n))
	return "", ""
}

// ---------------------------------------------------------------- statements

func (x *tr) ignored(s ast.Stmt) bool {
	es, ok := s.(*ast.ExprStmt)
	if !ok {
		return false
	}
	t := src(es.X)
	for _, p := range x.ignore {
		if strings.HasPrefix(t, p) {
			return true
		}
	}
	return false
}

// returns reports whether the statement list always ends in a return (never falls through),
// and whether it contains any return at all.
func always(stmts []ast.Stmt) bool {
	if len(stmts) == 0 {
		return false
	}
	switch s := stmts[len(stmts)-1].(type) {
	case *ast.ReturnStmt:
		return true
	case *ast.IfStmt:
		if s.Else == nil {
			return false
		}
		var els []ast.Stmt
		switch e := s.Else.(type) {
		case *ast.BlockStmt:
			els = e.List
		case *ast.IfStmt:
			els = []ast.Stmt{e}
		}
		return always(s.Body.List) && always(els)
	case *ast.SwitchStmt:
		hasDefault := false
		for _, c := range s.Body.List {
			cc := c.(*ast.CaseClause)
			if cc.List == nil {
				hasDefault = true
			}
			if !always(cc.Body) {
				return false
			}
		}
		return hasDefault
	}
	return false
}

func anyReturn(stmts []ast.Stmt) bool {
	found := false
	for _, s := range stmts {
		ast.Inspect(s, func(n ast.Node) bool {
			if _, ok := n.(*ast.ReturnStmt); ok {
				found = true
			}
			return true
		})
	}
	return found
}

func assigned(stmts []ast.Stmt, outer map[string]string) []string {
	seen := map[string]bool{}
	var out []string
	for _, s := range stmts {
		ast.Inspect(s, func(n ast.Node) bool {
			switch a := n.(type) {
			case *ast.AssignStmt:
				if a.Tok == token.DEFINE {
					return true
				}
				for _, l := range a.Lhs {
					if id, ok := l.(*ast.Ident); ok {
						if _, isOuter := outer[id.Name]; isOuter && !seen[id.Name] {
							seen[id.Name] = true
							out = append(out, id.Name)
						}
					}
				}
			case *ast.IncDecStmt:
				if id, ok := a.X.(*ast.Ident); ok {
					if _, isOuter := outer[id.Name]; isOuter && !seen[id.Name] {
						seen[id.Name] = true
						out = append(out, id.Name)
					}
				}
			}
			return true
		})
	}
	return out
}

func tuple(names []string) string {
	if len(names) == 1 {
		return "v_" + names[0]
	}
	var p []string
	for _, n := range names {
		p = append(p, "v_"+n)
	}
	return "(" + strings.Join(p, ", ") + ")"
}

func pat(names []string) string {
	if len(names) == 1 {
		return "v_" + names[0]
	}
	return "'" + tuple(names)
}

func (x *tr) cloneVars() map[string]string {
	m := map[string]string{}
	for k, v := range x.vars {
		m[k] = v
	}
	return m
}

// block translates stmts followed by the continuation k (a Coq term producer evaluated
// in the variable scope reached at the end of stmts).
func (x *tr) block(stmts []ast.Stmt, k func() string, ind string) string {
	if len(stmts) == 0 {
		return k()
	}
	s := stmts[0]
	rest := func() string { return x.block(stmts[1:], k, ind) }
	if x.ignored(s) {
		return rest()
	}
	switch n := s.(type) {
	case *ast.ReturnStmt:
		return x.ret(n)
	case *ast.AssignStmt:
		if len(n.Lhs) != 1 || len(n.Rhs) != 1 {
			abort(n, "multi-assignment %s", src(n))
		}
		id, ok := n.Lhs[0].(*ast.Ident)
		if !ok {
			// assignment to a field named in env (e.g. b.multiplier): treat as a variable
			name := "F" + sanitize(src(n.Lhs[0]))
			ent, ok := x.env[src(n.Lhs[0])]
			if !ok {
				abort(n, "assignment to %s", src(n.Lhs[0]))
			}
			val, ty := x.assignRhs(n, ent.Coq, ent.Ty)
			_ = name
			// rebind the env entry to a fresh let-bound name
			fresh := "f_" + sanitize(src(n.Lhs[0]))
			old := x.env[src(n.Lhs[0])]
			x.env[src(n.Lhs[0])] = envEntry{fresh, unifyAssign(n, old.Ty, ty)}
			return "let " + fresh + " := " + val + " in\n" + ind + rest()
		}
		var val, ty string
		if n.Tok == token.DEFINE || n.Tok == token.ASSIGN {
			val, ty = x.expr(n.Rhs[0])
		} else {
			cur, ok := x.vars[id.Name]
			if !ok {
				abort(n, "op-assign to unknown %s", id.Name)
			}
			val, ty = x.assignRhs(n, "v_"+id.Name, cur)
		}
		if old, ok := x.vars[id.Name]; ok && n.Tok != token.DEFINE {
			ty = unifyAssign(n, old, ty)
		} else if ty == "untyped" {
			ty = "int"
		}
		x.vars[id.Name] = ty
		return "let v_" + id.Name + " := " + val + " in\n" + ind + rest()
	case *ast.IncDecStmt:
		one := &ast.BasicLit{Kind: token.INT, Value: "1"}
		op := token.ADD_ASSIGN
		if n.Tok == token.DEC {
			op = token.SUB_ASSIGN
		}
		as := &ast.AssignStmt{Lhs: []ast.Expr{n.X}, Tok: op, Rhs: []ast.Expr{one}}
		return x.block(append([]ast.Stmt{as}, stmts[1:]...), k, ind)
	case *ast.DeclStmt:
		gd, ok := n.Decl.(*ast.GenDecl)
		if !ok || gd.Tok != token.VAR {
			abort(n, "declaration %s", src(n))
		}
		out := ""
		for _, sp := range gd.Specs {
			vs := sp.(*ast.ValueSpec)
			if len(vs.Values) != 0 || vs.Type == nil {
				abort(n, "var with initialiser")
			}
			ty := goType(vs.Type)
			for _, nm := range vs.Names {
				x.vars[nm.Name] = ty
				zero := "0"
				if ty == "bool" {
					zero = "false"
				} else if strings.HasPrefix(ty, "opt ") {
					zero = "None"
				}
				out += "let v_" + nm.Name + " := " + zero + " in\n" + ind
			}
		}
		return out + rest()
	case *ast.IfStmt:
		if n.Init != nil {
			abort(n, "if with init statement")
		}
		c, ty := x.expr(n.Cond)
		if ty != "bool" {
			abort(n, "non-boolean condition")
		}
		var els []ast.Stmt
		switch e := n.Else.(type) {
		case nil:
		case *ast.BlockStmt:
			els = e.List
		case *ast.IfStmt:
			els = []ast.Stmt{e}
		}
		return x.branch(c, n.Body.List, els, rest, ind)
	case *ast.ForStmt:
		// `for init; cond; post { body }` with integer/boolean locals only and no return / break / continue /
		// goto / nested loop inside: init; while_fuel FUEL (fun st => cond) (fun st => body; post) st
		if n.Init != nil {
			cp := *n
			cp.Init = nil
			return x.block(append([]ast.Stmt{n.Init, &cp}, stmts[1:]...), k, ind)
		}
		if n.Cond == nil {
			abort(n, "for without condition")
		}
		if x.t.OnFuel == "" {
			abort(n, "loop in target %s without on_fuel", x.t.Name)
		}
		body := append([]ast.Stmt{}, n.Body.List...)
		if n.Post != nil {
			body = append(body, n.Post)
		}
		for _, b := range body {
			ast.Inspect(b, func(m ast.Node) bool {
				switch m.(type) {
				case *ast.ReturnStmt, *ast.BranchStmt, *ast.ForStmt, *ast.RangeStmt, *ast.GoStmt, *ast.DeferStmt, *ast.LabeledStmt:
					abort(m, "unsupported statement inside a loop body: %s", src(m))
				}
				return true
			})
		}
		names := assigned(body, x.vars)
		if len(names) == 0 {
			abort(n, "loop assigns no outer variable")
		}
		if len(x.assignedFields(body)) != 0 {
			abort(n, "loop assigns a field")
		}
		fuel := x.t.LoopFuel
		if fuel == 0 {
			fuel = 64
		}
		bind := "let " + pat(names) + " := st in "
		saveV, saveE := x.cloneVars(), x.cloneEnv()
		c, cty := x.expr(n.Cond)
		if cty != "bool" {
			abort(n, "non-boolean loop condition")
		}
		b := x.block(body, func() string { return tuple(names) }, ind+"      ")
		// the loop must not change the type of a carried variable
		for _, nm := range names {
			if x.vars[nm] != saveV[nm] {
				abort(n, "loop changes the type of %s (%s -> %s)", nm, saveV[nm], x.vars[nm])
			}
		}
		x.vars, x.env = saveV, saveE
		return "match while_fuel " + fmt.Sprint(fuel) + "\n" + ind + "    (fun st => " + bind + c + ")\n" + ind +
			"    (fun st => " + bind + "\n" + ind + "      " + b + ")\n" + ind + "    " + tuple(names) + " with\n" + ind +
			"| None => " + x.t.OnFuel + "\n" + ind + "| Some st => " + bind + "\n" + ind + "  " + rest() + "\n" + ind + "end"
	case *ast.SwitchStmt:
		if n.Init != nil {
			// `switch init; tag { ... }` == `init; switch tag { ... }` (the init variable's scope is
			// narrower in Go, which cannot change the value computed)
			cp := *n
			cp.Init = nil
			return x.block(append([]ast.Stmt{n.Init, &cp}, stmts[1:]...), k, ind)
		}
		tag, tty := "", "bool"
		if n.Tag != nil {
			tag, tty = x.expr(n.Tag)
		}
		// desugar into an if-chain
		var clauses []*ast.CaseClause
		var def *ast.CaseClause
		for _, c := range n.Body.List {
			cc := c.(*ast.CaseClause)
			for _, b := range cc.Body {
				if br, ok := b.(*ast.BranchStmt); ok && br.Tok == token.FALLTHROUGH {
					abort(b, "fallthrough")
				}
			}
			if cc.List == nil {
				def = cc
			} else {
				clauses = append(clauses, cc)
			}
		}
		var chain func(i int) string
		chain = func(i int) string {
			if i == len(clauses) {
				if def != nil {
					return x.branchBody(def.Body, rest, ind)
				}
				return rest()
			}
			var alts []string
			for _, v := range clauses[i].List {
				vs, vty := x.expr(v)
				unify(v, tty, vty)
				if n.Tag == nil {
					alts = append(alts, vs) // tagless switch: the case expressions are the conditions
				} else {
					alts = append(alts, "("+tag+" =? "+vs+")")
				}
			}
			c := strings.Join(alts, " || ")
			saveV, saveE := x.cloneVars(), x.cloneEnv()
			th := x.branchBody(clauses[i].Body, rest, ind+"  ")
			x.vars, x.env = saveV, saveE
			el := chain(i + 1)
			return "if " + c + " then\n" + ind + "  " + th + "\n" + ind + "else\n" + ind + "  " + el
		}
		if !allAlwaysOrNone(clauses, def) {
			abort(n, "switch arms must all return (or the switch must be last)")
		}
		return chain(0)
	}
	abort(s, "unsupported statement %T: %s", s, src(s))
	return ""
}

func allAlwaysOrNone(cs []*ast.CaseClause, def *ast.CaseClause) bool { return true }

func (x *tr) cloneEnv() map[string]envEntry {
	m := map[string]envEntry{}
	for k, v := range x.env {
		m[k] = v
	}
	return m
}

// branchBody: a clause body followed by rest (duplicated continuation).
func (x *tr) branchBody(body []ast.Stmt, rest func() string, ind string) string {
	if always(body) {
		return x.block(body, func() string { return "(* unreachable *) _" }, ind)
	}
	return x.block(body, rest, ind)
}

func (x *tr) branch(c string, th, el []ast.Stmt, rest func() string, ind string) string {
	thRet, elRet := anyReturn(th), anyReturn(el)
	if !thRet && !elRet {
		// pure join on assigned variables (and env-bound fields)
		names := assigned(append(append([]ast.Stmt{}, th...), el...), x.vars)
		fields := x.assignedFields(append(append([]ast.Stmt{}, th...), el...))
		if len(names)+len(fields) == 0 {
			return rest()
		}
		saveV, saveE := x.cloneVars(), x.cloneEnv()
		tupleOf := func() string {
			var p []string
			for _, n := range names {
				p = append(p, "v_"+n)
			}
			for _, f := range fields {
				p = append(p, x.env[f].Coq)
			}
			if len(p) == 1 {
				return p[0]
			}
			return "(" + strings.Join(p, ", ") + ")"
		}
		a := x.block(th, tupleOf, ind+"    ")
		x.vars, x.env = x.cloneVarsFrom(saveV), cloneEnvFrom(saveE)
		b := x.block(el, tupleOf, ind+"    ")
		x.vars, x.env = saveV, saveE
		var p []string
		for _, n := range names {
			p = append(p, "v_"+n)
		}
		for _, f := range fields {
			fresh := "f_" + sanitize(f)
			x.env[f] = envEntry{fresh, x.env[f].Ty}
			p = append(p, fresh)
		}
		lhs := p[0]
		if len(p) > 1 {
			lhs = "'(" + strings.Join(p, ", ") + ")"
		}
		return "let " + lhs + " :=\n" + ind + "  if " + c + " then\n" + ind + "    " + a + "\n" + ind + "  else\n" + ind + "    " + b + " in\n" + ind + rest()
	}
	// at least one side returns: duplicate the continuation into the sides that fall through
	saveV, saveE := x.cloneVars(), x.cloneEnv()
	a := x.branchBody(th, rest, ind+"  ")
	x.vars, x.env = saveV, saveE
	saveV, saveE = x.cloneVars(), x.cloneEnv()
	b := x.branchBody(el, rest, ind+"  ")
	x.vars, x.env = saveV, saveE
	return "if " + c + " then\n" + ind + "  " + a + "\n" + ind + "else\n" + ind + "  " + b
}

func (x *tr) cloneVarsFrom(m map[string]string) map[string]string {
	o := map[string]string{}
	for k, v := range m {
		o[k] = v
	}
	return o
}

func cloneEnvFrom(m map[string]envEntry) map[string]envEntry {
	o := map[string]envEntry{}
	for k, v := range m {
		o[k] = v
	}
	return o
}

func (x *tr) assignedFields(stmts []ast.Stmt) []string {
	seen := map[string]bool{}
	var out []string
	for _, s := range stmts {
		ast.Inspect(s, func(n ast.Node) bool {
			var lhs []ast.Expr
			switch a := n.(type) {
			case *ast.AssignStmt:
				lhs = a.Lhs
			case *ast.IncDecStmt:
				lhs = []ast.Expr{a.X}
			}
			for _, l := range lhs {
				if _, ok := l.(*ast.Ident); ok {
					continue
				}
				t := src(l)
				if _, ok := x.env[t]; ok && !seen[t] {
					seen[t] = true
					out = append(out, t)
				}
			}
			return true
		})
	}
	sort.Strings(out)
	return out
}

func unifyAssign(n ast.Node, old, ty string) string {
	if ty == "untyped" {
		return old
	}
	if old == "untyped" {
		return ty
	}
	if old != ty {
		abort(n, "assignment changes type %s -> %s", old, ty)
	}
	return old
}

func (x *tr) assignRhs(n *ast.AssignStmt, cur, curTy string) (string, string) {
	if n.Tok == token.ASSIGN || n.Tok == token.DEFINE {
		return x.expr(n.Rhs[0])
	}
	ops := map[token.Token]token.Token{token.ADD_ASSIGN: token.ADD, token.SUB_ASSIGN: token.SUB,
		token.MUL_ASSIGN: token.MUL, token.QUO_ASSIGN: token.QUO, token.REM_ASSIGN: token.REM}
	if n.Tok == token.AND_ASSIGN || n.Tok == token.OR_ASSIGN {
		if !isInt(curTy) || curTy == "time" {
			abort(n, "bitwise assignment on %s", curTy)
		}
		r, rty := x.expr(n.Rhs[0])
		unifyAssign(n, curTy, rty)
		f := "Z.land"
		if n.Tok == token.OR_ASSIGN {
			f = "Z.lor"
		}
		return "(" + f + " " + paren(cur) + " " + paren(r) + ")", curTy
	}
	if n.Tok == token.SHL_ASSIGN || n.Tok == token.SHR_ASSIGN {
		// x <<= k / x >>= k: the shift count's type does not take part in the result type
		if !isInt(curTy) || curTy == "time" {
			abort(n, "shift of %s", curTy)
		}
		r, _ := x.expr(n.Rhs[0])
		op := token.SHL
		if n.Tok == token.SHR_ASSIGN {
			op = token.SHR
		}
		return "(" + arith(op, curTy) + " " + paren(cur) + " " + paren(r) + ")", curTy
	}
	op, ok := ops[n.Tok]
	if !ok {
		abort(n, "assignment operator %v", n.Tok)
	}
	r, rty := x.expr(n.Rhs[0])
	ty := unifyAssign(n, curTy, rty)
	return "(" + arith(op, ty) + " " + paren(cur) + " " + paren(r) + ")", ty
}

func sanitize(s string) string {
	var b strings.Builder
	for _, c := range s {
		if (c >= 'a' && c <= 'z') || (c >= 'A' && c <= 'Z') || (c >= '0' && c <= '9') {
			b.WriteRune(c)
		} else {
			b.WriteRune('_')
		}
	}
	return b.String()
}

func goType(e ast.Expr) string {
	switch src(e) {
	case "int64":
		return "int64"
	case "int":
		return "int"
	case "uint64":
		return "uint64"
	case "uint":
		return "uint"
	case "bool":
		return "bool"
	case "time.Duration":
		return "dur"
	case "time.Time":
		return "time"
	case "*time.Duration":
		return "opt dur"
	case "*time.Time":
		return "opt time"
	}
	abort(e, "unsupported type %s", src(e))
	return ""
}

func (x *tr) ret(n *ast.ReturnStmt) string {
	return x.retExprs(n, n.Results)
}

func (x *tr) retExprs(at ast.Node, results []ast.Expr) string {
	rt := x.t.Ret
	if len(results) != len(rt) {
		abort(at, "return arity %d, expected %d", len(results), len(rt))
	}
	hasErr := len(rt) > 0 && rt[len(rt)-1] == "error"
	vals := results
	if hasErr {
		if !isNil(results[len(results)-1]) {
			return "None"
		}
		vals = results[:len(results)-1]
	}
	var p []string
	for i, v := range vals {
		s, ty := x.expr(v)
		unifyAssign(v, rt[i], ty)
		p = append(p, s)
	}
	out := strings.Join(p, ", ")
	if len(p) == 0 {
		out = "tt"
	} else if len(p) != 1 {
		out = "(" + out + ")"
	}
	if hasErr {
		return "Some " + paren(out)
	}
	return out
}

// ---------------------------------------------------------------- driver

func coqTy(ty string) string {
	switch {
	case ty == "bool":
		return "bool"
	case strings.HasPrefix(ty, "opt "):
		return "option " + coqTy(strings.TrimPrefix(ty, "opt "))
	case ty == "bytes":
		return "list Z"
	}
	return "Z"
}

func findFunc(files []*ast.File, name string) *ast.FuncDecl {
	recv := ""
	if i := strings.Index(name, "."); i >= 0 {
		recv, name = name[:i], name[i+1:]
	}
	for _, f := range files {
		for _, d := range f.Decls {
			fd, ok := d.(*ast.FuncDecl)
			if !ok || fd.Name.Name != name {
				continue
			}
			if recv == "" && fd.Recv == nil {
				return fd
			}
			if recv != "" && fd.Recv != nil {
				t := strings.TrimPrefix(src(fd.Recv.List[0].Type), "*")
				if t == recv {
					return fd
				}
			}
		}
	}
	return nil
}

func translate(repo string, t *target) (def string, err error) {
	defer func() {
		if r := recover(); r != nil {
			if a, ok := r.(abortErr); ok {
				err = fmt.Errorf("%s: %s", t.Name, a.msg)
				return
			}
			panic(r)
		}
	}()
	path := filepath.Join(repo, t.File)
	dir := filepath.Dir(path)
	pkgs, perr := parser.ParseDir(fset, dir, func(fi os.FileInfo) bool {
		return !strings.HasSuffix(fi.Name(), "_test.go")
	}, parser.ParseComments)
	if perr != nil {
		return "", perr
	}
	var files []*ast.File
	var main []*ast.File
	for _, p := range pkgs {
		var names []string
		for n := range p.Files {
			names = append(names, n)
		}
		sort.Strings(names)
		for _, n := range names {
			files = append(files, p.Files[n])
			if n == path {
				main = append(main, p.Files[n])
			}
		}
	}
	if len(main) == 0 {
		return "", fmt.Errorf("%s: file %s not found", t.Name, t.File)
	}
	fd := findFunc(main, t.Func)
	if fd == nil {
		return "", fmt.Errorf("%s: function %s not found in %s", t.Name, t.Func, t.File)
	}
	x := &tr{t: t, env: map[string]envEntry{}, consts: map[string]ast.Expr{}, vars: map[string]string{},
		ignore: append([]string{"klog.", "glog.", "log."}, t.Ignore...)}
	for k, v := range t.Env {
		x.env[k] = v
	}
	for _, p := range t.Params {
		if strings.HasPrefix(p.Coq, "v_") {
			x.vars[strings.TrimPrefix(p.Coq, "v_")] = p.Ty
		}
	}
	for _, f := range files {
		for _, d := range f.Decls {
			gd, ok := d.(*ast.GenDecl)
			if !ok || gd.Tok != token.CONST {
				continue
			}
			for _, sp := range gd.Specs {
				vs := sp.(*ast.ValueSpec)
				for i, nm := range vs.Names {
					if i < len(vs.Values) {
						x.consts[nm.Name] = vs.Values[i]
					}
				}
			}
		}
	}
	var ps []string
	for _, p := range t.Params {
		ps = append(ps, "("+p.Coq+" : "+coqTy(p.Ty)+")")
	}
	head := "Definition " + t.Name + " " + strings.Join(ps, " ")
	switch t.Mode {
	case "cond":
		var conds []ast.Expr
		ast.Inspect(fd.Body, func(n ast.Node) bool {
			if is, ok := n.(*ast.IfStmt); ok && strings.Contains(src(is.Cond), t.IfContains) {
				conds = append(conds, is.Cond)
			}
			return true
		})
		if t.Nth >= len(conds) {
			return "", fmt.Errorf("%s: only %d `if` conditions containing %q in %s", t.Name, len(conds), t.IfContains, t.Func)
		}
		s, ty := x.expr(conds[t.Nth])
		if ty != "bool" {
			return "", fmt.Errorf("%s: condition is not boolean", t.Name)
		}
		return fmt.Sprintf("(* %s: %s, condition #%d containing %q:\n   %s *)\n%s : bool :=\n  %s.\n",
			t.File, t.Func, t.Nth, strings.ReplaceAll(t.IfContains, "(*", "( *"), strings.ReplaceAll(strings.ReplaceAll(src(conds[t.Nth]), "*)", "* )"), "(*", "( *"), head, s), nil
	case "expr":
		var rhs ast.Expr
		ast.Inspect(fd.Body, func(n ast.Node) bool {
			if as, ok := n.(*ast.AssignStmt); ok && rhs == nil && len(as.Lhs) == 1 && len(as.Rhs) == 1 && src(as.Lhs[0]) == t.AssignTo {
				rhs = as.Rhs[0]
			}
			// a field of a composite literal (`Timestamp: expr`) counts as an assignment to that field
			if kv, ok := n.(*ast.KeyValueExpr); ok && rhs == nil && src(kv.Key) == t.AssignTo {
				rhs = kv.Value
			}
			// the single argument of a call `f(expr)` counts as an assignment to f; if_contains selects among
			// several calls of the same function
			if ce, ok := n.(*ast.CallExpr); ok && rhs == nil && len(ce.Args) == 1 && src(ce.Fun) == t.AssignTo &&
				t.IfContains != "" && strings.Contains(src(ce.Args[0]), t.IfContains) {
				rhs = ce.Args[0]
			}
			return true
		})
		if rhs == nil {
			return "", fmt.Errorf("%s: no assignment to %q in %s", t.Name, t.AssignTo, t.Func)
		}
		s, ty := x.expr(rhs)
		return fmt.Sprintf("(* %s: %s, %s := %s *)\n%s : %s :=\n  %s.\n", t.File, t.Func, t.AssignTo,
			strings.ReplaceAll(strings.ReplaceAll(src(rhs), "*)", "* )"), "(*", "( *"), head, coqTy(ty), s), nil
	case "body":
		stmts := fd.Body.List
		if t.From != "" {
			i := 0
			for ; i < len(stmts); i++ {
				if strings.Contains(src(stmts[i]), t.From) {
					break
				}
			}
			if i == len(stmts) {
				return "", fmt.Errorf("%s: no statement containing %q in %s", t.Name, t.From, t.Func)
			}
			stmts = stmts[i:]
		}
		if t.Until != "" {
			for i := 1; i < len(stmts); i++ {
				if strings.Contains(src(stmts[i]), t.Until) {
					stmts = stmts[:i]
					break
				}
			}
		}
		// drop `defer`, Lock/Unlock
		var body []ast.Stmt
		for _, s := range stmts {
			if _, ok := s.(*ast.DeferStmt); ok {
				continue
			}
			if es, ok := s.(*ast.ExprStmt); ok {
				t := src(es.X)
				if strings.HasSuffix(t, ".Lock()") || strings.HasSuffix(t, ".Unlock()") ||
					strings.HasSuffix(t, ".RLock()") || strings.HasSuffix(t, ".RUnlock()") {
					continue
				}
			}
			body = append(body, s)
		}
		fin := func() string {
			if len(t.FinalRet) == 0 {
				abort(fd, "control reaches the end of the slice without a return and no final_ret is given")
			}
			var es []ast.Expr
			for _, s := range t.FinalRet {
				e, err := parser.ParseExpr(s)
				if err != nil {
					abort(fd, "final_ret %q: %v", s, err)
				}
				es = append(es, e)
			}
			return x.retExprs(fd, es)
		}
		s := x.block(body, fin, "  ")
		var rt []string
		for _, r := range t.Ret {
			if r != "error" {
				rt = append(rt, coqTy(r))
			}
		}
		ty := strings.Join(rt, " * ")
		if len(rt) == 0 {
			ty = "unit"
		}
		if len(t.Ret) > 0 && t.Ret[len(t.Ret)-1] == "error" {
			ty = "option (" + ty + ")"
		}
		return fmt.Sprintf("(* %s: %s *)\n%s : %s :=\n  %s.\n", t.File, t.Func, head, ty, s), nil
	}
	return "", fmt.Errorf("%s: unknown mode %q", t.Name, t.Mode)
}

func main() {
	repo := flag.String("repo", "/repo", "repository root")
	tf := flag.String("targets", "", "targets JSON file (list of units) or a directory of such files")
	outdir := flag.String("outdir", "", "directory for generated .v files")
	only := flag.String("only", "", "comma-separated unit file names to (re)generate; empty = all")
	flag.Parse()
	want := map[string]bool{}
	for _, u := range strings.Split(*only, ",") {
		if u != "" {
			want[u] = true
		}
	}
	var units []unit
	tfiles := []string{*tf}
	if st, err := os.Stat(*tf); err == nil && st.IsDir() {
		tfiles, _ = filepath.Glob(filepath.Join(*tf, "*.json"))
		sort.Strings(tfiles)
	}
	for _, f := range tfiles {
		raw, err := os.ReadFile(f)
		if err != nil {
			fmt.Fprintln(os.Stderr, err)
			os.Exit(2)
		}
		var us []unit
		if err := json.Unmarshal(raw, &us); err != nil {
			fmt.Fprintln(os.Stderr, "targets:", f, err)
			os.Exit(2)
		}
		units = append(units, us...)
	}
	status := 0
	for _, u := range units {
		if len(want) > 0 && !want[u.Out] {
			continue
		}
		var b strings.Builder
		b.WriteString("(* GENERATED by gofrag from /repo's working tree; do not edit. *)\n")
		b.WriteString("From Coq Require Import ZArith Bool.\nFrom V Require Import Base.GoInt.\nOpen Scope Z_scope.\nOpen Scope bool_scope.\n\n")
		failed := false
		for i := range u.Targets {
			d, err := translate(*repo, &u.Targets[i])
			if err != nil {
				fmt.Fprintf(os.Stderr, "GOFRAG-ABORT unit=%s %v\n", u.Out, err)
				failed = true
				status = 2
				continue
			}
			b.WriteString(d + "\n")
		}
		out := filepath.Join(*outdir, u.Out)
		if failed {
			// leave a file that cannot compile so that dependants fail loudly
			b.WriteString("\nGOFRAG_TRANSLATION_FAILED.\n")
		}
		content := b.String()
		sum := sha256.Sum256([]byte(content))
		content += fmt.Sprintf("(* sha256 %x *)\n", sum[:8])
		old, _ := os.ReadFile(out)
		if string(old) != content {
			if err := os.WriteFile(out, []byte(content), 0o644); err != nil {
				fmt.Fprintln(os.Stderr, err)
				os.Exit(2)
			}
			fmt.Printf("gofrag: wrote %s\n", out)
		}
	}
	os.Exit(status)
}
