From Coq Require Import ZArith Bool List Lia.
From V Require Import Base.GoInt gen.Windows Temporal.WindowModel.
Import ListNotations.
Open Scope Z_scope.

Ltac win_crush :=
  repeat match goal with
  | iv : interval |- _ => destruct iv as [[?|] [?|]]
  | o : option Z |- _ => destruct o
  end;
  unfold inside, insideb, ctfe_admits, client_selects, ctfe_reject_early, ctfe_reject_late,
    client_skip_early, client_skip_late, loglist_keep, shard_inverted, shard_no_upper,
    shard_no_lower, shard_gap, oget, is_some, is_none in *; cbn [fst snd negb andb orb] in *.

Lemma insideb_iff t iv : insideb t iv = true <-> inside t iv.
Proof.
  win_crush; rewrite ?andb_true_iff, ?Z.leb_le, ?Z.ltb_lt; split; intros H;
    try (split; intros ? E; inversion E; subst; lia);
    try (destruct H as [H1 H2]; try specialize (H1 _ eq_refl); try specialize (H2 _ eq_refl); try lia; auto).
Qed.

Lemma ctfe_admits_insideb t iv : ctfe_admits t iv = insideb t iv.
Proof.
  win_crush; repeat match goal with |- context [?a <? ?b] => destruct (Z.ltb_spec a b) end;
  repeat match goal with |- context [?a <=? ?b] => destruct (Z.leb_spec a b) end; cbn; try reflexivity; lia.
Qed.

Lemma client_selects_insideb t iv : client_selects t iv = insideb t iv.
Proof.
  win_crush; repeat match goal with |- context [?a <? ?b] => destruct (Z.ltb_spec a b) end;
  repeat match goal with |- context [?a <=? ?b] => destruct (Z.leb_spec a b) end; cbn; try reflexivity; lia.
Qed.

Lemma loglist_keep_insideb t s e : loglist_keep t s e = insideb t (Some s, Some e).
Proof.
  win_crush.
  destruct (Z.ltb_spec t e), (Z.gtb_spec t s), (Z.eqb_spec t s), (Z.leb_spec s t); cbn; try reflexivity; lia.
Qed.

Lemma ctfe_inside_iff t iv : ctfe_admits t iv = true <-> inside t iv.
Proof. rewrite ctfe_admits_insideb. apply insideb_iff. Qed.
Lemma client_inside_iff t iv : client_selects t iv = true <-> inside t iv.
Proof. rewrite client_selects_insideb. apply insideb_iff. Qed.
Lemma loglist_inside_iff t s e : loglist_keep t s e = true <-> inside t (Some s, Some e).
Proof. rewrite loglist_keep_insideb. apply insideb_iff. Qed.
Lemma loglist_no_interval t : loglist_compatible t None = true.
Proof. reflexivity. Qed.

(* ---------------- the NotAfter chosen for submissions to a log ---------------- *)

Lemma not_after_for_log_inside now iv : nonempty iv -> inside (not_after_for_log now iv) iv.
Proof.
  destruct iv as [[s|] [l|]]; unfold nonempty, inside, not_after_for_log; cbn [fst snd]; intros NE.
  - specialize (NE s l eq_refl eq_refl).
    assert (D : 0 <= sub_sat l s <= l - s).
    { unfold sub_sat. pose proof two63_pos. pose proof max_i64_eq. pose proof min_i64_eq. lia. }
    assert (Q : 0 <= Z.quot (sub_sat l s) 2) by (apply Z.quot_pos; lia).
    assert (Q' : Z.quot (sub_sat l s) 2 < l - s).
    { destruct (Z.eq_dec (sub_sat l s) 0) as [E|E].
      - rewrite E. cbn. lia.
      - pose proof (Z.quot_lt (sub_sat l s) 2). lia. }
    split; intros x E; inversion E; subst; lia.
  - split; intros x E; inversion E; subst. unfold day_ns, hour_ns. lia.
  - split; intros x E; inversion E; subst. unfold hour_ns. lia.
  - split; intros x E; inversion E.
Qed.

Lemma not_after_for_log_admitted_routed now iv :
  nonempty iv ->
  let t := not_after_for_log now iv in
  inside t iv /\ ctfe_admits t iv = true /\ client_selects t iv = true.
Proof.
  intros NE t. pose proof (not_after_for_log_inside now iv NE) as H. fold t in H.
  split; [exact H|]. split; [apply ctfe_inside_iff | apply client_inside_iff]; exact H.
Qed.

(* ---------------- shard lists ---------------- *)

(* [contiguous prev l]: every interval of l starts exactly where the previous one ended,
   is non-empty, and only the last may lack an upper bound. *)
Inductive contiguous : option Z -> list interval -> Prop :=
| c_nil prev : contiguous prev []
| c_cons u hi rest :
    (forall h, hi = Some h -> u < h) -> contiguous hi rest ->
    contiguous (Some u) ((Some u, hi) :: rest).

Definition well_formed (ivs : list interval) : Prop :=
  match ivs with
  | [] => False
  | (lo, hi) :: rest => (forall l h, lo = Some l -> hi = Some h -> l < h) /\ contiguous hi rest
  end.

Lemma extend_spec ohi shards ivs :
  extend ohi shards = Some ivs -> ivs = shards /\ contiguous ohi shards.
Proof.
  revert ohi ivs. induction shards as [|sh rest IH]; intros ohi ivs H; cbn in H.
  - inversion H; split; [reflexivity | constructor].
  - unfold shard_interval in H.
    destruct (shard_inverted (fst sh) (snd sh)) eqn:Einv; [discriminate|].
    destruct (shard_no_upper ohi (fst sh)) eqn:E1; [discriminate|].
    destruct (shard_no_lower ohi (fst sh)) eqn:E2; [discriminate|].
    destruct (shard_gap ohi (fst sh)) eqn:E3; [discriminate|].
    destruct (extend (snd sh) rest) as [ivs'|] eqn:E4; [|discriminate].
    inversion H; subst ivs; clear H.
    destruct (IH _ _ E4) as [-> Hc].
    split; [reflexivity|].
    destruct sh as [lo hi], ohi as [u|], lo as [l|];
      unfold shard_no_upper, shard_no_lower, shard_gap, shard_inverted, is_none, is_some, oget in *;
      cbn [fst snd] in *; try discriminate.
    apply negb_false_iff in E3. apply Z.eqb_eq in E3. subst l.
    constructor; [|exact Hc].
    intros h ->. cbn in Einv. apply negb_false_iff in Einv. apply Z.ltb_lt in Einv. exact Einv.
Qed.

Lemma new_temporal_spec shards ivs :
  new_temporal shards = Some ivs -> ivs = shards /\ well_formed shards.
Proof.
  destruct shards as [|sh rest]; cbn; [discriminate|].
  unfold shard_interval. destruct (shard_inverted (fst sh) (snd sh)) eqn:Einv; [discriminate|].
  destruct (extend (snd sh) rest) as [ivs'|] eqn:E; [|discriminate].
  intros H; inversion H; subst ivs; clear H.
  destruct (extend_spec _ _ _ E) as [-> Hc].
  split; [reflexivity|]. destruct sh as [lo hi]. cbn [fst snd] in *. split; [|exact Hc].
  intros l h -> ->. unfold shard_inverted, is_some, oget in Einv. cbn in Einv.
  apply negb_false_iff in Einv. apply Z.ltb_lt in Einv. exact Einv.
Qed.

(* the converse: every well-formed list is accepted (construction refuses nothing else) *)
Lemma extend_complete ohi shards : contiguous ohi shards -> extend ohi shards = Some shards.
Proof.
  induction 1 as [|u hi rest Hlt Hc IH]; [reflexivity|].
  simpl extend. unfold shard_interval, shard_inverted, shard_no_upper, shard_no_lower, shard_gap,
    is_some, is_none, oget; cbn [fst snd].
  assert (E : (match hi with Some _ => true | None => false end && negb (u <? match hi with Some x => x | None => 0 end))%bool = false).
  { destruct hi as [h|]; cbn; [|reflexivity]. specialize (Hlt _ eq_refl).
    apply negb_false_iff. apply Z.ltb_lt. exact Hlt. }
  cbn [andb]. rewrite E. cbn beta iota. cbn [fst snd]. rewrite Z.eqb_refl. cbn [negb]. rewrite IH. reflexivity.
Qed.

Lemma new_temporal_complete shards : well_formed shards -> new_temporal shards = Some shards.
Proof.
  destruct shards as [|[lo hi] rest]; cbn; [tauto|]. intros [Hlt Hc].
  unfold shard_interval, shard_inverted, is_some, oget; cbn [fst snd].
  assert (E : (match lo with Some _ => true | None => false end && match hi with Some _ => true | None => false end
               && negb (match lo with Some x => x | None => 0 end <? match hi with Some x => x | None => 0 end))%bool = false).
  { destruct lo as [l|], hi as [h|]; cbn; try reflexivity. specialize (Hlt _ _ eq_refl eq_refl).
    apply negb_false_iff. apply Z.ltb_lt. exact Hlt. }
  rewrite E. cbn beta iota. cbn [fst snd]. rewrite (extend_complete _ _ Hc). reflexivity.
Qed.

(* all intervals of a contiguous tail lie at or after the previous upper bound *)
Lemma contiguous_after u l t iv :
  contiguous (Some u) l -> In iv l -> inside t iv -> u <= t.
Proof.
  intros Hc. remember (Some u) as prev eqn:Ep. revert u Ep.
  induction Hc as [|u0 hi rest Hlt Hc IH]; intros u Ep Hin Hins; [destruct Hin|].
  inversion Ep; subst u0. destruct Hin as [<-|Hin].
  - destruct Hins as [H1 _]. apply (H1 u eq_refl).
  - destruct hi as [h|].
    + specialize (Hlt _ eq_refl). specialize (IH h eq_refl Hin Hins). lia.
    + inversion Hc; subst; destruct Hin.
Qed.

Lemma index_from_first k t ivs iv j :
  nth_error ivs j = Some iv -> inside t iv ->
  (forall j' iv', (j' < j)%nat -> nth_error ivs j' = Some iv' -> ~ inside t iv') ->
  index_by_date_from k t ivs = Some (k + j)%nat.
Proof.
  revert k j. induction ivs as [|hd tl IH]; intros k j Hn Hins Hbefore; [destruct j; discriminate|].
  destruct j as [|j]; cbn in *.
  - inversion Hn; subst hd. apply client_inside_iff in Hins. rewrite Hins. f_equal. lia.
  - destruct (client_selects t hd) eqn:E.
    + apply client_inside_iff in E. exfalso. apply (Hbefore 0%nat hd); [lia|reflexivity|exact E].
    + rewrite (IH (S k) j Hn Hins); [f_equal; lia|].
      intros j' iv' Hlt Hn'. apply (Hbefore (S j') iv'); [lia|exact Hn'].
Qed.

Lemma index_from_sound k t ivs i :
  index_by_date_from k t ivs = Some i ->
  exists j iv, i = (k + j)%nat /\ nth_error ivs j = Some iv /\ inside t iv.
Proof.
  revert k. induction ivs as [|hd tl IH]; intros k H; cbn in H; [discriminate|].
  destruct (client_selects t hd) eqn:E.
  - inversion H; subst i. exists 0%nat, hd. split; [lia|]. split; [reflexivity|]. apply client_inside_iff; exact E.
  - destruct (IH _ H) as (j & iv & -> & Hn & Hins). exists (S j), iv. split; [lia|]. split; assumption.
Qed.

Lemma index_from_none k t ivs :
  index_by_date_from k t ivs = None -> forall iv, In iv ivs -> ~ inside t iv.
Proof.
  revert k. induction ivs as [|hd tl IH]; intros k H iv Hin; [destruct Hin|]. cbn in H.
  destruct (client_selects t hd) eqn:E; [discriminate|]. destruct Hin as [<-|Hin].
  - intros Hc. apply client_inside_iff in Hc. congruence.
  - eapply IH; eauto.
Qed.

(* in a contiguous list no two distinct positions contain the same instant *)
Lemma contiguous_disjoint prev l t :
  contiguous prev l -> forall j j' iv iv', (j' < j)%nat ->
  nth_error l j = Some iv -> nth_error l j' = Some iv' -> inside t iv -> ~ inside t iv'.
Proof.
  induction 1 as [|u hi rest Hlt Hc IH]; intros j j' iv iv' Hjj Hn Hn' Hins Hins'.
  - destruct j; discriminate.
  - destruct j as [|j]; [lia|]. cbn in Hn. destruct j' as [|j'].
    + cbn in Hn'. inversion Hn'; subst iv'. destruct hi as [h|].
      * pose proof (contiguous_after h rest t iv Hc (nth_error_In _ _ Hn) Hins).
        destruct Hins' as [_ H2]. specialize (H2 h eq_refl). cbn in H2. lia.
      * inversion Hc; subst. destruct j; discriminate.
    + cbn in Hn'. eapply (IH j j'); eauto. lia.
Qed.

Lemma wf_disjoint l t :
  well_formed l -> forall j j' iv iv', (j' < j)%nat ->
  nth_error l j = Some iv -> nth_error l j' = Some iv' -> inside t iv -> ~ inside t iv'.
Proof.
  destruct l as [|[lo hi] rest]; [intros []|]. intros [Hlt Hc] j j' iv iv' Hjj Hn Hn' Hins Hins'.
  destruct j as [|j]; [lia|]. cbn in Hn. destruct j' as [|j'].
  - cbn in Hn'. inversion Hn'; subst iv'. destruct hi as [h|].
    + pose proof (contiguous_after h rest t iv Hc (nth_error_In _ _ Hn) Hins).
      destruct Hins' as [_ H2]. specialize (H2 h eq_refl). lia.
    + inversion Hc; subst. destruct j; discriminate.
  - cbn in Hn'. eapply (contiguous_disjoint _ _ t Hc j j'); eauto. lia.
Qed.

(* routing = admission, for accepted shard lists *)
Lemma route_iff_admit_lemma shards ivs t i :
  new_temporal shards = Some ivs ->
  (index_by_date t ivs = Some i <-> exists iv, nth_error ivs i = Some iv /\ ctfe_admits t iv = true).
Proof.
  intros Hn. destruct (new_temporal_spec _ _ Hn) as [-> Hwf]. split.
  - intros H. destruct (index_from_sound _ _ _ _ H) as (j & iv & -> & Hnth & Hins).
    exists iv. split; [exact Hnth|]. apply ctfe_inside_iff; exact Hins.
  - intros (iv & Hnth & Hadm). apply ctfe_inside_iff in Hadm.
    unfold index_by_date. change i with (0 + i)%nat. apply index_from_first with (iv := iv); auto.
    intros j' iv' Hlt Hn'. eapply wf_disjoint; eauto.
Qed.

(* span: the union of a contiguous list is [first lower, last upper) *)
Lemma contiguous_cover u l t :
  contiguous (Some u) l -> u <= t ->
  (forall x, last_upper (Some u) l = Some x -> t < x) ->
  exists iv, In iv l /\ inside t iv.
Proof.
  intros Hc. remember (Some u) as prev eqn:Ep. revert u Ep.
  induction Hc as [|u0 hi rest Hlt Hc IH]; intros u Ep Hle Hlast.
  - subst prev. cbn in Hlast. specialize (Hlast u eq_refl). lia.
  - inversion Ep; subst u0. cbn [last_upper snd] in Hlast. destruct hi as [h|].
    + destruct (Z.lt_ge_cases t h) as [Hth|Hth].
      * exists (Some u, Some h). split; [left; reflexivity|]. split; cbn; intros ? E; inversion E; subst; lia.
      * destruct (IH h eq_refl) as (iv & Hin & Hins); [lia|exact Hlast|].
        exists iv. split; [right; exact Hin|exact Hins].
    + exists (Some u, None). split; [left; reflexivity|]. split; cbn; intros ? E; inversion E; subst; lia.
Qed.

Lemma contiguous_mono u l x :
  contiguous (Some u) l -> last_upper (Some u) l = Some x -> u <= x.
Proof.
  intros Hc. remember (Some u) as prev eqn:Ep. revert u Ep.
  induction Hc as [|u0 hi rest Hlt Hc IH]; intros u Ep Hx.
  - subst prev. cbn in Hx. inversion Hx. lia.
  - inversion Ep; subst u0. cbn [last_upper snd] in Hx. destruct hi as [h|].
    + specialize (Hlt _ eq_refl). specialize (IH h eq_refl Hx). lia.
    + inversion Hc; subst. cbn in Hx. discriminate.
Qed.

Lemma contiguous_upper u l t iv x :
  contiguous (Some u) l -> In iv l -> inside t iv -> last_upper (Some u) l = Some x -> t < x.
Proof.
  intros Hc. remember (Some u) as prev eqn:Ep. revert u Ep.
  induction Hc as [|u0 hi rest Hlt Hc IH]; intros u Ep Hin Hins Hx; [destruct Hin|].
  inversion Ep; subst u0. cbn [last_upper snd] in Hx. destruct Hin as [<-|Hin].
  - destruct hi as [h|].
    + destruct Hins as [_ H2]. specialize (H2 h eq_refl). pose proof (contiguous_mono h rest x Hc Hx). lia.
    + inversion Hc; subst. cbn in Hx. discriminate.
  - destruct hi as [h|]; [|inversion Hc; subst; destruct Hin].
    apply (IH h eq_refl Hin Hins Hx).
Qed.

Lemma span_routes shards ivs t :
  new_temporal shards = Some ivs ->
  (inside t (span ivs) <-> exists i, index_by_date t ivs = Some i).
Proof.
  intros Hn. destruct (new_temporal_spec _ _ Hn) as [-> Hwf].
  destruct shards as [|[lo hi] rest]; [destruct Hwf|]. destruct Hwf as [Hlt Hc].
  cbn [span fst snd]. split.
  - intros [Hlo Hhi]. cbn [fst snd] in *.
    destruct (index_by_date t ((lo, hi) :: rest)) as [i|] eqn:E; [eauto|exfalso].
    pose proof (index_from_none _ _ _ E) as Hnone.
    destruct hi as [h|].
    + destruct (Z.lt_ge_cases t h) as [Hth|Hth].
      * apply (Hnone (lo, Some h)); [left; reflexivity|]. split; cbn; [exact Hlo|]. intros ? E'; inversion E'; subst; lia.
      * destruct (contiguous_cover h rest t Hc) as (iv & Hin & Hins); [lia|exact Hhi|].
        apply (Hnone iv); [right; exact Hin|exact Hins].
    + apply (Hnone (lo, None)); [left; reflexivity|]. split; cbn; [exact Hlo|]. intros ? E'; discriminate.
  - intros [i H]. destruct (index_from_sound _ _ _ _ H) as (j & iv & _ & Hnth & Hins).
    destruct j as [|j].
    + cbn in Hnth. inversion Hnth; subst iv. split; cbn [fst snd]; [apply Hins|].
      intros x Hx. destruct hi as [h|].
      * destruct Hins as [_ H2]. specialize (H2 h eq_refl). cbn in H2.
        pose proof (contiguous_mono h rest x Hc Hx). lia.
      * inversion Hc; subst. cbn in Hx. discriminate.
    + cbn in Hnth. pose proof (nth_error_In _ _ Hnth) as Hin.
      destruct hi as [h|]; [|inversion Hc; subst; destruct Hin].
      pose proof (contiguous_after h rest t iv Hc Hin Hins) as Hge. split; cbn [fst snd].
      * intros s ->. specialize (Hlt s h eq_refl eq_refl). lia.
      * intros x Hx. apply (contiguous_upper h rest t iv x Hc Hin Hins Hx).
Qed.

(* at most one shard *)
Lemma routes_uniquely shards ivs t i j iv iv' :
  new_temporal shards = Some ivs ->
  nth_error ivs i = Some iv -> nth_error ivs j = Some iv' -> inside t iv -> inside t iv' -> i = j.
Proof.
  intros Hn Hi Hj Hins Hins'. destruct (new_temporal_spec _ _ Hn) as [-> Hwf].
  destruct (Nat.lt_trichotomy i j) as [H|[H|H]]; [exfalso|exact H|exfalso].
  - eapply (wf_disjoint _ t Hwf j i); eauto.
  - eapply (wf_disjoint _ t Hwf i j); eauto.
Qed.
