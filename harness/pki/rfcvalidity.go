package pki

// The test PKI is issued with /repo's own x509.CreateCertificate, so a defect in the fork's
// ENCODERS would be built into the test inputs and cancel out against the code under test.
// For the fields whose DER encoding involves a choice or a boundary (Validity: UTCTime through 2049,
// GeneralizedTime from 2050; serialNumber: the leading zero octet of a positive INTEGER; every length
// field: short form below 128, then the fewest length octets), the issued
// certificate is therefore re-assembled with those fields encoded here by hand and parsed with the standard library's encoding/asn1.
// On a correct tree this is the identity; otherwise the certificate carries the RFC encoding
// (and a signature that no longer verifies, which only a defective tree ever sees).

import (
	stdasn1 "encoding/asn1"
	"fmt"
	"math/big"
	"time"
)

func derLen(n int) []byte {
	switch {
	case n < 0x80:
		return []byte{byte(n)}
	case n < 0x100:
		return []byte{0x81, byte(n)}
	case n < 0x10000:
		return []byte{0x82, byte(n >> 8), byte(n)}
	case n < 0x1000000:
		return []byte{0x83, byte(n >> 16), byte(n >> 8), byte(n)}
	}
	return []byte{0x84, byte(n >> 24), byte(n >> 16), byte(n >> 8), byte(n)}
}

func derTLV(tag byte, content []byte) []byte {
	return append(append([]byte{tag}, derLen(len(content))...), content...)
}

// RFC5280Time encodes t as RFC 5280 section 4.1.2.5 prescribes.
func RFC5280Time(t time.Time) []byte {
	t = t.UTC()
	if y := t.Year(); y >= 1950 && y <= 2049 {
		return derTLV(0x17, []byte(fmt.Sprintf("%02d%02d%02d%02d%02d%02dZ", y%100, int(t.Month()), t.Day(), t.Hour(), t.Minute(), t.Second())))
	}
	return derTLV(0x18, []byte(fmt.Sprintf("%04d%02d%02d%02d%02d%02dZ", t.Year(), int(t.Month()), t.Day(), t.Hour(), t.Minute(), t.Second())))
}

func children(content []byte) ([][]byte, bool) {
	var out [][]byte
	for len(content) > 0 {
		var rv stdasn1.RawValue
		rest, err := stdasn1.Unmarshal(content, &rv)
		if err != nil {
			return nil, false
		}
		out = append(out, rv.FullBytes)
		content = rest
	}
	return out, true
}

// DERInteger encodes a non-negative integer as a DER INTEGER (minimal, with the leading zero octet
// exactly when the top bit of the first magnitude octet is set).
func DERInteger(n *big.Int) []byte {
	b := n.Bytes()
	if len(b) == 0 || b[0]&0x80 != 0 {
		b = append([]byte{0}, b...)
	}
	return derTLV(0x02, b)
}

// readTLV reads one element leniently: identifier octets (high tag numbers included), a definite
// length in any long form (superfluous leading zero octets accepted, so that the output of a
// defective length encoder can still be taken apart), content.  Indefinite lengths are refused.
func readTLV(b []byte) (id, content, rest []byte, ok bool) {
	if len(b) < 2 {
		return nil, nil, nil, false
	}
	i := 1
	if b[0]&0x1f == 0x1f {
		for i < len(b) && b[i]&0x80 != 0 {
			i++
		}
		i++
	}
	if i >= len(b) {
		return nil, nil, nil, false
	}
	id = b[:i]
	n := int(b[i])
	i++
	if n >= 0x80 {
		k := n & 0x7f
		if k == 0 || k > 4 || i+k > len(b) {
			return nil, nil, nil, false
		}
		n = 0
		for j := 0; j < k; j++ {
			n = n<<8 | int(b[i+j])
		}
		i += k
	}
	if n < 0 || i+n > len(b) {
		return nil, nil, nil, false
	}
	return id, b[i : i+n], b[i+n:], true
}

// CanonLengths re-emits a sequence of elements with every length field in its minimal (DER) form,
// descending into constructed elements; primitive contents are copied.  On DER input it is the identity.
func CanonLengths(b []byte) ([]byte, bool) {
	var out []byte
	for len(b) > 0 {
		id, content, rest, ok := readTLV(b)
		if !ok {
			return nil, false
		}
		if id[0]&0x20 != 0 {
			if content, ok = CanonLengths(content); !ok {
				return nil, false
			}
		}
		out = append(append(append(out, id...), derLen(len(content))...), content...)
		b = rest
	}
	return out, true
}

// WithRFCValidity returns der with its Validity replaced by the RFC 5280 encoding of (nb, na) and,
// when serial is a non-negative number, its serialNumber replaced by the DER INTEGER of it;
// ok is false if der is not shaped like a certificate (then der is returned unchanged).
func WithRFCValidity(der []byte, nb, na time.Time, serial *big.Int) (out []byte, ok bool) {
	// length fields first (hand-written reader and writer): the identity unless the fork's length
	// encoder departs from DER, in which case the standard library could not even take der apart
	if c, okc := CanonLengths(der); okc {
		der = c
	}
	var outer stdasn1.RawValue
	if rest, err := stdasn1.Unmarshal(der, &outer); err != nil || len(rest) != 0 || outer.Tag != 16 {
		return der, false
	}
	parts, ok1 := children(outer.Bytes)
	if !ok1 || len(parts) != 3 {
		return der, false
	}
	var tbs stdasn1.RawValue
	if _, err := stdasn1.Unmarshal(parts[0], &tbs); err != nil {
		return der, false
	}
	fields, ok2 := children(tbs.Bytes)
	idx := 3
	if ok2 && len(fields) > 0 && fields[0][0] == 0xa0 {
		idx = 4
	}
	if !ok2 || len(fields) <= idx || fields[idx][0] != 0x30 {
		return der, false
	}
	fields[idx] = derTLV(0x30, append(RFC5280Time(nb), RFC5280Time(na)...))
	if serial != nil && serial.Sign() >= 0 && fields[idx-3][0] == 0x02 {
		fields[idx-3] = DERInteger(serial)
	}
	var body []byte
	for _, f := range fields {
		body = append(body, f...)
	}
	newTBS := derTLV(0x30, body)
	return derTLV(0x30, append(append(newTBS, parts[1]...), parts[2]...)), true
}
