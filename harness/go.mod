module verif/harness

go 1.23.0

require (
	github.com/go-sql-driver/mysql v1.9.1
	github.com/google/certificate-transparency-go v0.0.0
	github.com/google/trillian v1.7.1
	github.com/gorilla/mux v1.8.1
	github.com/jackc/pgx/v5 v5.7.4
	github.com/mattn/go-sqlite3 v1.14.26
	github.com/transparency-dev/merkle v0.0.2
	google.golang.org/genproto/googleapis/rpc v0.0.0-20250115164207-1a7da9e5054f
	google.golang.org/grpc v1.71.1
	google.golang.org/protobuf v1.36.6
	k8s.io/klog/v2 v2.130.1
)

require (
	filippo.io/edwards25519 v1.1.0 // indirect
	github.com/beorn7/perks v1.0.1 // indirect
	github.com/cespare/xxhash/v2 v2.3.0 // indirect
	github.com/go-logr/logr v1.4.2 // indirect
	github.com/golang/mock v1.6.0 // indirect
	github.com/google/go-cmp v0.7.0 // indirect
	github.com/hashicorp/golang-lru/v2 v2.0.7 // indirect
	github.com/jackc/pgpassfile v1.0.0 // indirect
	github.com/jackc/pgservicefile v0.0.0-20240606120523-5a60cdf6a761 // indirect
	github.com/jackc/puddle/v2 v2.2.2 // indirect
	github.com/klauspost/compress v1.17.11 // indirect
	github.com/kylelemons/godebug v1.1.0 // indirect
	github.com/lib/pq v1.10.9 // indirect
	github.com/munnerz/goautoneg v0.0.0-20191010083416-a7dc8b61c822 // indirect
	github.com/prometheus/client_golang v1.21.1 // indirect
	github.com/prometheus/client_model v0.6.1 // indirect
	github.com/prometheus/common v0.62.0 // indirect
	github.com/prometheus/procfs v0.15.1 // indirect
	golang.org/x/crypto v0.36.0 // indirect
	golang.org/x/net v0.38.0 // indirect
	golang.org/x/sync v0.12.0 // indirect
	golang.org/x/sys v0.31.0 // indirect
	golang.org/x/text v0.23.0 // indirect
	google.golang.org/genproto v0.0.0-20241118233622-e639e219e697 // indirect
	google.golang.org/genproto/googleapis/api v0.0.0-20250106144421-5f5ef82da422 // indirect
)

replace github.com/google/certificate-transparency-go => /repo
