(* C02 - only chains that lead, in submitted order, to a trusted root are admitted.
   Property theorems only; each is closed by [exact] of a lemma proved under CTFE/Chain*.v.
   Model: CTFE/ChainModel.v (ValidateChain, Verify/buildChains with the signature-check budget
   and the candidate cache, findPotentialParents, IsPrecertificate, verifyAddChain).
   Specification: CTFE/ChainSpec.v ([admissible] = the property's sentence; [wf_ids] = the id
   of an abstract certificate stands for its DER bytes).
   The two NotAfter-window conditions are the GENERATED gen/Windows.v (ctfe_reject_early /
   ctfe_reject_late, translated from cert_checker.go on every run).

   FULL STATEMENT (the property's "if and only if"):
     forall o raw, wf_ids o raw -> (admissible o raw <-> exists path, validate o raw = Accepted path)
   It is REFUTED by the faithful model ([iff_unrestricted_refuted]).  "Only if" holds
   unrestricted ([validate_sound]); "if" holds under H_leafroot, H_budget, H_keyid
   ([validate_complete]), and for each hypothesis there is a witness that is admissible,
   satisfies the other hypotheses and is rejected ([complete_without_*_refuted]). *)
From Coq Require Import ZArith NArith Bool List.
From V Require Import Base.GoInt gen.Windows Temporal.WindowModel
  CTFE.ChainModel CTFE.ChainSpec CTFE.ChainLib CTFE.ChainSound CTFE.ChainComplete
  CTFE.ChainEndpoint CTFE.ChainRefuted.
From V Require Import gen.Verify CTFE.ChainGenTie.
Import ListNotations.
Open Scope bool_scope.

(* Whatever ValidateChain accepts is admissible, and the path handed on is the submission, in
   order and unchanged, followed by at most one certificate, ending in the trusted pool. *)
Theorem validate_sound : forall o raw path,
  wf_ids o raw -> validate o raw = Accepted path -> admissible o raw /\ path_shape o raw path.
Proof. exact ChainSound.validate_sound_lemma. Qed.
Print Assumptions validate_sound.

(* An admissible submission is accepted when (H_leafroot) nothing follows a leaf that is itself
   trusted, (H_budget) walking down the submitted path costs at most 100 signature checks, and
   (H_keyid) no certificate of the path carries, as authority key id, the subject key id of a
   pool member other than its issuer. *)
Theorem validate_complete : forall o raw P,
  wf_ids o raw -> admissible_by o raw P ->
  H_leafroot o raw -> H_budget o raw P -> H_keyid o raw P ->
  exists path, validate o raw = Accepted path.
Proof. exact ChainComplete.validate_complete_lemma. Qed.
Print Assumptions validate_complete.

(* H_keyid says exactly "the path's certificates are among the potential parents" *)
Theorem keyid_hypothesis_exact : forall pl child parent,
  In parent pl -> c_issuer child = c_subject parent ->
  (visible pl child parent <-> In parent (find_potential_parents pl child)).
Proof. exact ChainLib.visible_iff_fpp. Qed.
Print Assumptions keyid_hypothesis_exact.

(* ---- the unrestricted "if and only if" is false for the code as it is ---- *)

Theorem iff_unrestricted_refuted :
  ~ (forall o raw, wf_ids o raw -> (admissible o raw <-> exists path, validate o raw = Accepted path)).
Proof. exact ChainRefuted.iff_unrestricted_refuted_lemma. Qed.
Print Assumptions iff_unrestricted_refuted.

(* [L, I, R], L's authority key id = R's subject key id: valid in-order chain rejected *)
Theorem complete_without_keyid_refuted :
  exists o raw P, wf_ids o raw /\ admissible_by o raw P /\ H_leafroot o raw /\ H_budget o raw P
                  /\ validate o raw = Rejected RVerify.
Proof. exact ChainRefuted.complete_without_keyid_refuted_lemma. Qed.
Print Assumptions complete_without_keyid_refuted.

(* a valid line of 101 certificates below an unsubmitted trusted root: the 101st check is refused *)
Theorem complete_without_budget_refuted :
  exists o raw P, wf_ids o raw /\ admissible_by o raw P /\ H_leafroot o raw /\ H_keyid o raw P
                  /\ length raw = 101%nat /\ validate o raw = Rejected RVerify.
Proof. exact ChainRefuted.complete_without_budget_refuted_lemma. Qed.
Print Assumptions complete_without_budget_refuted.

(* a trusted non-self-signed certificate submitted with its (trusted) issuer *)
Theorem complete_without_leafroot_refuted :
  exists o raw P, wf_ids o raw /\ admissible_by o raw P /\ H_budget o raw P /\ H_keyid o raw P
                  /\ validate o raw = Rejected RNoRFCPath.
Proof. exact ChainRefuted.complete_without_leafroot_refuted_lemma. Qed.
Print Assumptions complete_without_leafroot_refuted.

(* ---- parsing, panics, fuel ---- *)

Theorem unparsable_certificate_rejects : forall o ders,
  (parse_all ders = None -> validate_der o ders = Rejected RParse)
  /\ (forall raw, parse_all ders = Some raw -> validate_der o ders = validate o raw).
Proof. exact ChainEndpoint.validate_der_cases. Qed.
Print Assumptions unparsable_certificate_rejects.

(* ValidateChain indexes chain[0] unguarded: it panics exactly on the empty submission, which
   the HTTP layer (ParseBodyAsJSONChain) never lets through *)
Theorem validate_panics_only_on_empty : forall o raw, validate o raw = Panicked <-> raw = [].
Proof. exact ChainSound.validate_panics_iff. Qed.
Print Assumptions validate_panics_only_on_empty.

Theorem add_chain_never_panics : forall o ders pre,
  (forall raw, parse_all ders = Some raw -> wf_ids o raw) -> add_chain_http o ders pre <> SPanic.
Proof. exact ChainEndpoint.add_chain_http_no_panic. Qed.
Print Assumptions add_chain_never_panics.

(* the recursion fuel of the model (number of submitted intermediates + 1) is never exhausted *)
Theorem build_fuel_suffices : forall roots ints c0,
  s_oof (snd (build roots ints (S (length ints)) c0 [c0] st0)) = false.
Proof. exact ChainEndpoint.verify_fuel_suffices. Qed.
Print Assumptions build_fuel_suffices.

(* ---- precertificates and endpoints ---- *)

(* precertificate <-> critical poison with NULL value; no poison <-> certificate; anything else
   is an error *)
Theorem is_precert_iff : forall c,
  (is_precertificate c = Some true <-> poison_class c = PCriticalNull)
  /\ (is_precertificate c = Some false <-> poison_class c = PAbsent)
  /\ (is_precertificate c = None <-> malformed_poison c).
Proof. exact ChainEndpoint.is_precert_class. Qed.
Print Assumptions is_precert_iff.

Theorem malformed_poison_rejected : forall o c0 rest pre p,
  wf_ids o (c0 :: rest) -> malformed_poison c0 ->
  verify_add_chain o (map Some (c0 :: rest)) pre <> Accepted p.
Proof. exact ChainEndpoint.malformed_poison_rejected_lemma. Qed.
Print Assumptions malformed_poison_rejected.

(* an endpoint accepts exactly the validated submissions whose leaf is of its kind *)
Theorem kind_matches_endpoint : forall o ders pre p,
  verify_add_chain o ders pre = Accepted p <->
  (validate_der o ders = Accepted p /\ exists leaf rest, p = leaf :: rest /\ is_precertificate leaf = Some pre).
Proof. exact ChainEndpoint.verify_add_chain_spec. Qed.
Print Assumptions kind_matches_endpoint.

(* ---- the leaf filters ---- *)

(* from the generated conditions: the window is start <= NotAfter < limit *)
Theorem window_half_open : forall t s l,
  (ctfe_reject_early t s l = false /\ ctfe_reject_late t s l = false) <-> inside t (s, l).
Proof. exact ChainSound.window_admits. Qed.
Print Assumptions window_half_open.

Theorem filters_exact : forall o c,
  (f_only_ca o c = false <-> (o_only_ca o = true -> c_is_ca c = true))
  /\ (f_expired o c = false <-> (o_reject_expired o = true -> (o_now o <= c_not_after c)%Z))
  /\ (f_unexpired o c = false <-> (o_reject_unexpired o = true -> (c_not_after c < o_now o)%Z))
  /\ (f_ext o c = false <-> (forall e, In e (c_exts c) -> ~ In (e_id e) (o_reject_ext o)))
  /\ (f_eku o c = false <-> (o_ekus o <> [] -> exists k, In k (c_ekus c) /\ In k (o_ekus o)))
  /\ (leaf_filters o c = None <-> filters_pass o c).
Proof. exact ChainEndpoint.filters_exact_lemma. Qed.
Print Assumptions filters_exact.

(* ---- non-vacuity ---- *)

(* the hypotheses of validate_complete are satisfiable at the edge of the budget: a valid line
   of 100 certificates below an unsubmitted root satisfies H_budget and is accepted *)
Example budget_boundary_accepted :
  H_budget (line_opts 100) (line 100) (line_path 100)
  /\ validate (line_opts 100) (line 100) = Accepted (line_path 100).
Proof. exact ChainRefuted.line_100_accepted. Qed.

(* a three-certificate chain with consistent key ids: admissible, all hypotheses hold, accepted
   with the root appended; the same chain with two certificates swapped is not admissible and
   is rejected *)
Definition ex_R : cert := mkCert 2 20 20 (Some 200%N) None 2 [2%N] true true 2000%Z [] [].
Definition ex_I : cert := mkCert 1 10 20 (Some 100%N) (Some 200%N) 1 [2%N] true true 2000%Z [] [].
Definition ex_L : cert := mkCert 0 5 10 None (Some 100%N) 0 [1%N] true false 1500%Z [1%N]
                                 [mkExt 0 true true].
Definition ex_opts : options := mkOpts [ex_R] 1000%Z true false (Some 1500%Z) (Some 1501%Z) false [1%N] [7%N].
Example good_chain_accepted :
  validate ex_opts [ex_L; ex_I] = Accepted [ex_L; ex_I; ex_R]
  /\ H_keyid ex_opts [ex_L; ex_I] [ex_L; ex_I; ex_R]
  /\ H_budget ex_opts [ex_L; ex_I] [ex_L; ex_I; ex_R]
  /\ is_precertificate ex_L = Some true
  /\ verify_add_chain ex_opts [Some ex_L; Some ex_I] true = Accepted [ex_L; ex_I; ex_R]
  /\ verify_add_chain ex_opts [Some ex_L; Some ex_I] false = Rejected RKind
  /\ validate ex_opts [ex_L; ex_R; ex_I] = Rejected RNoRFCPath
  /\ validate ex_opts [ex_I; ex_L] = Rejected RTooLate.
Proof.
  split; [reflexivity|]. split.
  - simpl. split; intros k Hk Hex; inversion Hk; subst; reflexivity.
  - split; [unfold H_budget; apply PeanoNat.Nat.leb_le; reflexivity|]. repeat split; reflexivity.
Qed.

(* the signature-check budget as x509/verify.go applies it today (translated on every run: `*sigChecks >
   maxChainSignatureChecks` with the constant of the same file) is the model's over_budget - the boundary the
   known finding 'sigcheck-budget' (100 accepted / 101 refused) rests on *)
Theorem signature_budget_as_in_source : forall s,
  over_budget s = sig_budget_exceeded_gen (Z.of_nat (s_checks s)).
Proof. exact over_budget_meaning. Qed.
Print Assumptions signature_budget_as_in_source.
