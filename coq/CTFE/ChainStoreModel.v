(* C14: issuance chains stored outside the backend (trillian/ctfe/services.go,
   trillian/util/log_leaf.go).  The four extra-data layouts are the GENERATED TLS descriptors;
   the stored chain blob is asn1.Marshal([]ASN1Cert) = SEQUENCE OF SEQUENCE { OCTET STRING },
   modelled on the DER TLV layer (X509/Der.v).  SHA-256 is a parameter H; the storage and the
   cache are maps. *)
From Coq Require Import String NArith Bool Lia PeanoNat List.
From V Require Import Base.Bytes TLS.TlsModel gen.CtTypes CT.CtFuncs X509.Der X509.PrecertModel.
Import ListNotations.
Local Open Scope N_scope.

(* ---- the stored chain blob ---- *)
Definition enc_chain_elem (c : bytes) : bytes := enc_tlv tSEQ (enc_tlv tOCTET c).
Definition enc_chain (l : list bytes) : bytes := enc_tlv tSEQ (concat (map enc_chain_elem l)).

Fixpoint dec_chain_elems (l : list (Byte.byte * bytes)) : option (list bytes) :=
  match l with
  | [] => Some []
  | (t, c) :: r =>
      if byte_is t tSEQ then
        match dec_tlv c with
        | Some (t', d, []) =>
            if byte_is t' tOCTET then
              match dec_chain_elems r with Some ds => Some (d :: ds) | None => None end
            else None
        | _ => None
        end
      else None
  end.

Definition dec_chain (bs : bytes) : option (list bytes) :=     (* complete parse, no trailing data *)
  match dec_tlv bs with
  | Some (t, body, []) =>
      if byte_is t tSEQ then
        match split_tlvs (length body) body with
        | Some l => dec_chain_elems l
        | None => None
        end
      else None
  | _ => None
  end.

(* ---- values of the four layouts ---- *)
Definition v_cert (c : bytes) : val := VStruct [Some (VBytes c)].                                   (* ASN1Cert *)
Definition v_chain (l : list bytes) : val := VList (map v_cert l).
Definition v_precert_chain (cert : bytes) (chain : list bytes) : val := VStruct [Some (v_cert cert); Some (v_chain chain)].
Definition v_cert_chain (chain : list bytes) : val := VStruct [Some (v_chain chain)].
Definition v_precert_hash (cert h : bytes) : val := VStruct [Some (v_cert cert); Some (VBytes h)].
Definition v_cert_hash (h : bytes) : val := VStruct [Some (VBytes h)].

(* util.ExtraDataForChain: what the default (in-backend) mode stores and serves *)
Definition extra_direct (precert : bool) (cert : bytes) (chain : list bytes) : res bytes :=
  if precert then marshal gen_PrecertChainEntry None (v_precert_chain cert chain)
  else marshal gen_CertificateChain None (v_cert_chain chain).

(* util.ExtraDataForChainHash *)
Definition extra_hashed (precert : bool) (cert h : bytes) : res bytes :=
  if precert then marshal gen_PrecertChainEntryHash None (v_precert_hash cert h)
  else marshal gen_CertificateChainHash None (v_cert_hash h).

(* outcome of one storage / cache call as seen by the service *)
Inductive io (A : Type) := IoOk (a : A) | IoErr.
Arguments IoOk {A} a.
Arguments IoErr {A}.

Section Store.
Variable H : bytes -> bytes.                         (* SHA-256 *)

Definition kv := list (bytes * bytes).
Fixpoint kv_get (k : bytes) (m : kv) : option bytes :=
  match m with
  | [] => None
  | (k', v) :: r => if bytes_eqb k k' then Some v else kv_get k r
  end.

(* indirectIssuanceChainService.BuildLogLeaf: the chain blob goes to the storage under its hash
   (skipped when the cache already has it), the extra data carries the hash.
   [store_ok]: whether storage.Add succeeds. *)
Definition build_indirect (precert : bool) (cert : bytes) (chain : list bytes) (cache store : kv) (store_ok : bool)
  : res (bytes * kv) :=
  let blob := enc_chain chain in
  let h := H blob in
  match kv_get h cache with
  | Some _ => match extra_hashed precert cert h with Ok x => Ok (x, store) | e => match e with Ok _ => Panic | ErrSyntax => ErrSyntax | ErrStruct => ErrStruct | Panic => Panic | Hang => Hang end end
  | None =>
      if negb store_ok then ErrStruct
      else
        let store' := match kv_get h store with Some _ => store | None => (h, blob) :: store end in
        match extra_hashed precert cert h with
        | Ok x => Ok (x, store')
        | ErrSyntax => ErrSyntax | ErrStruct => ErrStruct | Panic => Panic | Hang => Hang
        end
  end.

(* getByHash: cache first, then storage; [get_ok]: whether the storage lookup succeeds at all *)
Definition get_by_hash (cache store : kv) (get_ok : bool) (h : bytes) : io bytes :=
  match kv_get h cache with
  | Some c => IoOk c
  | None => if negb get_ok then IoErr
            else match kv_get h store with Some c => IoOk c | None => IoErr end      (* unknown hash: error *)
  end.

Definition bytes_of (v : option val) : bytes := match v with Some (VBytes b) => b | _ => [] end.
Definition cert_of (v : option val) : bytes := match v with Some (VStruct [Some (VBytes b)]) => b | _ => [] end.

(* indirectIssuanceChainService.FixLogLeaf: discriminate the four layouts in the order the code
   tries them, re-inflate a hash into the chain it stands for *)
Definition fix_leaf (get : bytes -> io bytes) (extra : bytes) : res bytes :=
  match complete gen_PrecertChainEntryHash extra with
  | Ok v =>
      let cert := cert_of (field 0 v) in
      let h := bytes_of (field 1 v) in
      if (length h =? 0)%nat then marshal gen_PrecertChainEntry None (v_precert_chain cert [])
      else match get h with
           | IoErr => ErrStruct
           | IoOk blob => match dec_chain blob with
                          | None => ErrStruct
                          | Some chain => marshal gen_PrecertChainEntry None (v_precert_chain cert chain)
                          end
           end
  | _ =>
      match complete gen_CertificateChainHash extra with
      | Ok v =>
          let h := bytes_of (field 0 v) in
          if (length h =? 0)%nat then marshal gen_CertificateChain None (v_cert_chain [])
          else match get h with
               | IoErr => ErrStruct
               | IoOk blob => match dec_chain blob with
                              | None => ErrStruct
                              | Some chain => marshal gen_CertificateChain None (v_cert_chain chain)
                              end
               end
      | _ =>
          match complete gen_PrecertChainEntry extra with
          | Ok _ => Ok extra
          | _ => match complete gen_CertificateChain extra with
                 | Ok _ => Ok extra
                 | _ => ErrStruct                       (* unknown extra data type *)
                 end
          end
      end
  end.

End Store.
