(* L4 lemmas, part 3: the lax flag reaches every leaf; the two instances of the simulation
   ("accepts more", "equal or a difference is located"); the headline statements about
   UnmarshalWithParams. *)
From Coq Require Import ZArith NArith List Bool Lia.
From Coq.Strings Require Import Byte.
From V Require Import Base.Bytes ASN1.DerBase ASN1.DerHeader ASN1.DerHeaderProofs ASN1.DerPrim ASN1.DerPrimProofs ASN1.DerModel ASN1.DerStructProofs ASN1.DerSimProofs.
Import ListNotations.
Local Open Scope Z_scope.

(* ------------------------------------------------------------------ the lax flag is threaded to every leaf *)

Lemma set_lax_set_lax a b p : set_lax a (set_lax b p) = set_lax a p.
Proof. destruct p; reflexivity. Qed.
Lemma set_lax_same p : set_lax (p_lax p) p = p.
Proof. destruct p; reflexivity. Qed.

(* parseFieldParameters of the two packages differ in the lax field only *)
Lemma apply_tok_variant p q k : set_lax false p = set_lax false q ->
  set_lax false (apply_tok Upstream p k) = set_lax false (apply_tok Fork q k).
Proof.
  destruct p as [o e a pr d t st ty s oe lx], q as [o' e' a' pr' d' t' st' ty' s' oe' lx']. cbn [set_lax].
  intros H; inversion H; subst. destruct k; reflexivity.
Qed.
Lemma fold_params_variant toks : forall p q, set_lax false p = set_lax false q ->
  set_lax false (fold_left (apply_tok Upstream) toks p) = set_lax false (fold_left (apply_tok Fork) toks q).
Proof.
  induction toks as [|k r IH]; intros p q H; cbn [fold_left]; [exact H|]. apply IH. apply apply_tok_variant. exact H.
Qed.
Lemma parse_params_variant toks : set_lax false (parse_params Upstream toks) = set_lax false (parse_params Fork toks).
Proof. unfold parse_params. apply fold_params_variant. reflexivity. Qed.
Lemma field_params_variant v toks b : field_params v toks b = field_params Fork toks b.
Proof.
  unfold field_params. destruct v; [reflexivity|].
  rewrite <- (set_lax_set_lax b false (parse_params Upstream toks)), parse_params_variant, set_lax_set_lax. reflexivity.
Qed.

Lemma seq_elems_ext (pe1 pe2 : bytes -> res (val * bytes)) : (forall d, pe1 d = pe2 d) -> forall n d, seq_elems pe1 n d = seq_elems pe2 n d.
Proof.
  intros H. induction n as [|n IH]; intros d; cbn [seq_elems]; [reflexivity|]. rewrite H.
  destruct (pe2 d) as [[x r]| | | | |]; cbn [bind fst snd]; try reflexivity. rewrite IH. reflexivity.
Qed.
Lemma parse_seq_of_ext b e pe1 pe2 inner : (forall d, pe1 d = pe2 d) -> parse_seq_of b e pe1 inner = parse_seq_of b e pe2 inner.
Proof.
  intros H. unfold parse_seq_of. destruct (universal e) as [[[ma et] ec]|]; [|reflexivity].
  destruct (seq_count _ _ _ _ _ _ _); cbn [bind]; try reflexivity. apply seq_elems_ext. exact H.
Qed.

Lemma header_phase_set_lax b128 t p d b : header_phase b128 t (set_lax b p) d = header_phase b128 t p d.
Proof. destruct p; reflexivity. Qed.
Lemma default_val_set_lax t p b : default_val t (set_lax b p) = default_val t p.
Proof. destruct p; reflexivity. Qed.
Lemma p_optional_set_lax p b : p_optional (set_lax b p) = p_optional p.
Proof. destruct p; reflexivity. Qed.

(* Whatever leaf-set function L is used, a run of parseField with parameters p consults L only at
   (p_lax p): the flag given at the top reaches every nested field and every sequence element.
   (The package variant given to parse_field only matters for the "lax" token, which the parent's
   flag overrides.) *)
Definition PT v (L : bool -> leaves) (t : aty) : Prop :=
  forall p d, parse_field v L t p d = parse_field Fork (fun _ => L (p_lax p)) t (set_lax false p) d.
Definition QT v (L : bool -> leaves) (fs : fields) : Prop :=
  forall lax d, parse_fields v L lax fs d = parse_fields Fork (fun _ => L lax) false fs d.

Lemma threading_leaf v L t p d :
  (forall rc fs, t <> TStruct rc fs) -> (forall sn e, t <> TSeqOf sn e) ->
  parse_field v L t p d = parse_field Fork (fun _ => L (p_lax p)) t (set_lax false p) d.
Proof.
  intros Hns Hnq. destruct d as [|b0 d0].
  - destruct t; cbn [parse_field]; rewrite p_optional_set_lax, default_val_set_lax; reflexivity.
  - destruct t; cbn [parse_field]; rewrite ?header_phase_set_lax, ?default_val_set_lax; try reflexivity.
    + exfalso; eapply Hnq; reflexivity.
    + exfalso; eapply Hns; reflexivity.
Qed.

Lemma threading v L : (forall t, PT v L t) /\ (forall fs, QT v L fs).
Proof.
  apply aty_fields_ind; unfold PT, QT; intros; try (apply threading_leaf; intros; discriminate).
  - (* TSeqOf *)
    destruct d as [|b0 d0]; [cbn [parse_field]; rewrite p_optional_set_lax, default_val_set_lax; reflexivity|].
    cbn [parse_field]. rewrite header_phase_set_lax, default_val_set_lax, p_lax_set_lax.
    destruct (header_phase _ _ _ _) as [[|r|h utag inner rest]| | | | |]; cbn [bind]; try reflexivity.
    rewrite (parse_seq_of_ext _ e (parse_field v L e (elem_params (p_lax p))) (parse_field Fork (fun _ => L (p_lax p)) e (elem_params false))); [reflexivity|].
    intros d'. rewrite H. rewrite p_lax_elem_params. unfold elem_params. rewrite set_lax_set_lax. reflexivity.
  - (* TStruct *)
    destruct d as [|b0 d0]; [cbn [parse_field]; rewrite p_optional_set_lax, default_val_set_lax; reflexivity|].
    cbn [parse_field]. rewrite header_phase_set_lax, default_val_set_lax, p_lax_set_lax.
    destruct (header_phase _ _ _ _) as [[|r|h utag inner rest]| | | | |]; cbn [bind]; try reflexivity.
    rewrite H. reflexivity.
  - reflexivity.
  - cbn [parse_fields]. rewrite H. rewrite p_lax_field_params.
    unfold field_params at 1. rewrite set_lax_set_lax. fold (field_params v toks false). rewrite (field_params_variant v).
    destruct (parse_field _ _ _ _ _) as [[x r]| | | | |]; cbn [bind fst snd]; try reflexivity. rewrite H0. reflexivity.
Qed.

Lemma parse_field_threaded v L t p d :
  parse_field v L t p d = parse_field Fork (fun _ => L (p_lax p)) t (set_lax false p) d.
Proof. apply (proj1 (threading v L)). Qed.

(* ------------------------------------------------------------------ instance 1: accepts more *)

Definition leaves_le (G1 G2 : leaves) : Prop :=
  (forall d r, l_b128 G1 d = Ok r -> l_b128 G2 d = Ok r) /\
  (forall c u, l_int_check G1 c = Ok u -> l_int_check G2 c = Ok u) /\
  (forall c l, l_oid G1 c = Ok l -> l_oid G2 c = Ok l) /\
  (forall c s, l_printable G1 c = Ok s -> l_printable G2 c = Ok s) /\
  (forall c t, l_gentime G1 c = Ok t -> l_gentime G2 c = Ok t).

Definition RelLe (A : Type) (d : bytes) (r1 r2 : res A) : Prop := forall a, r1 = Ok a -> r2 = Ok a.

Theorem parse_field_mono v0 v1 G1 G2 :
  l_b128 G1 = parse_base128 v1 -> leaves_le G1 G2 ->
  forall t p d a, parse_field v0 (fun _ => G1) t p d = Ok a -> parse_field v0 (fun _ => G2) t p d = Ok a.
Proof.
  intros Hb (L1 & L2 & L3 & L4 & L5). intros t p d.
  refine (proj1 (sim_parse_field v0 v1 G1 G2 Hb RelLe _ _ _ _ _ _ _ _) t p d); unfold RelLe.
  - auto.
  - intros A B d0 r1 r2 f1 f2 H Hf b Hb0. apply bind_ok in Hb0. destruct Hb0 as (a & E & Ef).
    rewrite (H a E). cbn [bind]. exact (Hf a E b Ef).
  - auto.
  - intros; auto.
  - intros; auto.
  - intros; auto.
  - intros; auto.
  - intros; auto.
Qed.

(* ------------------------------------------------------------------ instance 2: equal, or a difference is located *)

Section Agree.
  Variables (v1 : variant) (Ec Et : bytes -> Prop).

  (* a TLV, header [hb] and content [c], occurs in d and its content satisfies Ec; or a long-form
     identifier octet occurs in d and the octets after it satisfy Et *)
  Definition located (d : bytes) : Prop :=
    (exists hb c h, infix (hb ++ c) d /\ parse_tl v1 hb = Ok (h, []) /\ zlen c = t_len h /\ Ec c) \/
    (exists pre tb s post, d = pre ++ tb :: s ++ post /\ bz tb mod 32 = 31 /\ Et s).

  Lemma located_sub d' d : infix d' d -> located d' -> located d.
  Proof.
    intros Hin [(hb & c & h & Hi & Hh & Hl & He)|(pre & tb & s & post & -> & Hm & He)].
    - left. exists hb, c, h. split; [eapply infix_trans; eassumption|auto].
    - right. destruct Hin as (p0 & s0 & ->). exists (p0 ++ pre), tb, s, (post ++ s0). split; [|auto].
      repeat rewrite <- app_assoc. cbn [app]. repeat rewrite <- app_assoc. reflexivity.
  Qed.

  Definition RelAg (A : Type) (d : bytes) (r1 r2 : res A) : Prop := r1 = r2 \/ located d.

  Variables (v0 : variant) (G1 G2 : leaves).
  Hypothesis Hb1 : l_b128 G1 = parse_base128 v1.
  Hypothesis A_tag : forall s, l_b128 G1 s = l_b128 G2 s \/ Et s.
  Hypothesis A_int : forall c, l_int_check G1 c = l_int_check G2 c \/ Ec c.
  Hypothesis A_oid : forall c, l_oid G1 c = l_oid G2 c \/ Ec c.
  Hypothesis A_printable : forall c, l_printable G1 c = l_printable G2 c \/ Ec c.
  Hypothesis A_gentime : forall c, l_gentime G1 c = l_gentime G2 c \/ Ec c.

  Lemma leaf_located {A} (r1 r2 : res A) hb c h :
    r1 = r2 \/ Ec c -> parse_tl v1 hb = Ok (h, []) -> zlen c = t_len h -> RelAg A (hb ++ c) r1 r2.
  Proof. intros [E|E] Hh Hl; [left; exact E|]. right. left. exists hb, c, h. split; [apply infix_refl|auto]. Qed.

  Theorem parse_field_agree : forall t p d,
    parse_field v0 (fun _ => G1) t p d = parse_field v0 (fun _ => G2) t p d \/ located d.
  Proof.
    intros t p d.
    refine (proj1 (sim_parse_field v0 v1 G1 G2 Hb1 RelAg _ _ _ _ _ _ _ _) t p d); unfold RelAg.
    - intros; left; reflexivity.
    - intros A B d0 r1 r2 f1 f2 [E|E] Hf; [|right; exact E]. subst r2.
      destruct r1 as [a| | | | |]; cbn [bind]; try (left; reflexivity). apply Hf. reflexivity.
    - intros A d' d0 r1 r2 Hin [E|E]; [left; exact E|right; eapply located_sub; eassumption].
    - intros tb r Hm. destruct (A_tag r) as [E|E]; [left; exact E|]. right. right. exists [], tb, r, []. rewrite app_nil_r. auto.
    - intros hb c h. apply leaf_located, A_int.
    - intros hb c h. apply leaf_located, A_oid.
    - intros hb c h. apply leaf_located, A_printable.
    - intros hb c h. apply leaf_located, A_gentime.
  Qed.
End Agree.

(* ------------------------------------------------------------------ top-level parameters *)

Lemma apply_tok_lax p : apply_tok Fork p KLax = set_lax true p.
Proof. destruct p; reflexivity. Qed.
Lemma parse_params_snoc_lax toks : parse_params Fork (toks ++ [KLax]) = set_lax true (parse_params Fork toks).
Proof. unfold parse_params. rewrite fold_left_app. cbn [fold_left]. apply apply_tok_lax. Qed.

Lemma fold_no_lax v toks : forall p, ~ In KLax toks -> p_lax p = false -> p_lax (fold_left (apply_tok v) toks p) = false.
Proof.
  induction toks as [|k r IH]; intros p Hn Hp; cbn [fold_left]; [exact Hp|].
  apply IH; [intros Hin; apply Hn; right; exact Hin|].
  destruct p as [o e a pr d t st ty s oe lx]. cbn [p_lax] in Hp. subst lx.
  destruct k; try reflexivity. exfalso. apply Hn. left. reflexivity.
Qed.
Lemma parse_params_no_lax v toks : ~ In KLax toks -> p_lax (parse_params v toks) = false.
Proof. intros H. apply fold_no_lax; [exact H|reflexivity]. Qed.

Lemma leaves_of_upstream b : leaves_of Upstream b = leaves_of Upstream false.
Proof. reflexivity. Qed.

(* UnmarshalWithParams in normal form: one fixed leaf set, parameters with the lax field cleared *)
Lemma unmarshal_normal v t toks d :
  unmarshal v t toks d =
  parse_field Fork (fun _ => leaves_of v (p_lax (parse_params v toks))) t (set_lax false (parse_params Fork toks)) d.
Proof.
  unfold unmarshal. rewrite parse_field_threaded. destruct v; [reflexivity|]. rewrite parse_params_variant. reflexivity.
Qed.

(* ------------------------------------------------------------------ lax extends strict *)

Lemma leaves_le_lax : leaves_le (leaves_of Fork false) (leaves_of Fork true).
Proof.
  destruct (leaves_lax_mono Fork) as (H1 & H2 & H3 & H4 & H5). unfold leaves_le.
  repeat split; intros; auto; try (rewrite <- H1; assumption); try (rewrite <- H5; assumption).
Qed.

Theorem lax_extends_strict_thm : forall t toks d r, ~ In KLax toks ->
  unmarshal Fork t toks d = Ok r -> unmarshal Fork t (toks ++ [KLax]) d = Ok r.
Proof.
  intros t toks d r Hn. rewrite !unmarshal_normal. rewrite parse_params_snoc_lax, p_lax_set_lax, set_lax_set_lax.
  rewrite (parse_params_no_lax Fork toks Hn).
  apply (parse_field_mono Fork Fork); [reflexivity|apply leaves_le_lax].
Qed.

(* ------------------------------------------------------------------ lax only adds the documented malformations *)

Definition doc_malformed (c : bytes) : Prop := nonminimal_int c \/ c = [] \/ printable_8bit c.
(* an element (header hb, content c) occurs in d whose content is a non-minimal INTEGER, is empty
   (the zero-length OID), or is PrintableString content with 8-bit / non-printable characters that
   could be ISO 8859-1 or T.61 *)
Definition located_lax : bytes -> Prop := located Fork doc_malformed (fun _ => False).

Theorem lax_only_documented_thm : forall t toks d, ~ In KLax toks ->
  unmarshal Fork t toks d = unmarshal Fork t (toks ++ [KLax]) d \/ located_lax d.
Proof.
  intros t toks d Hn. rewrite !unmarshal_normal. rewrite parse_params_snoc_lax, p_lax_set_lax, set_lax_set_lax.
  rewrite (parse_params_no_lax Fork toks Hn).
  apply (parse_field_agree Fork doc_malformed (fun _ => False) Fork (leaves_of Fork false) (leaves_of Fork true)); cbn.
  - reflexivity.
  - intros; left; reflexivity.
  - intros c. destruct (check_integer_lax c) as [E|E]; [left; symmetry; exact E|right; left; exact E].
  - intros c. destruct (parse_oid_lax (parse_base128 Fork) c) as [E|E]; [left; symmetry; exact E|right; right; left; exact E].
  - intros c. destruct (parse_printable_lax c) as [E|E]; [left; symmetry; exact E|right; right; right; exact E].
  - intros; left; reflexivity.
Qed.

(* ------------------------------------------------------------------ strict fork = upstream modulo D *)

Definition d_difference (c : bytes) : Prop := oid_leading80 c \/ gentime_fraction c.
(* D2 inside an OID or D3 in a GeneralizedTime located as the content of an element of d, or D2 in a
   tag number: a long-form identifier octet followed by 0x80 *)
Definition located_D : bytes -> Prop := located Fork d_difference (fun s => exists s', s = x80 :: s').

Theorem fork_strict_eq_upstream_thm : forall t toks d, ~ In KLax toks ->
  unmarshal Fork t toks d = unmarshal Upstream t toks d \/ located_D d.
Proof.
  intros t toks d Hn. rewrite !unmarshal_normal. rewrite (parse_params_no_lax Fork toks Hn), leaves_of_upstream.
  apply (parse_field_agree Fork d_difference (fun s => exists s', s = x80 :: s') Fork (leaves_of Fork false) (leaves_of Upstream false)); cbn.
  - reflexivity.
  - intros s. destruct (parse_base128_variant s) as [E|E]; [left; symmetry; exact E|right; exact E].
  - intros; left; reflexivity.
  - intros c. destruct (parse_oid_variant false c) as [E|E]; [left; symmetry; exact E|right; left; exact E].
  - intros; left; reflexivity.
  - intros c. destruct (parse_gentime_variant c) as [E|E]; [left; symmetry; exact E|right; right; exact E].
Qed.

(* upstream ignores the lax token altogether *)
Theorem upstream_has_no_lax : forall t toks d, unmarshal Upstream t (toks ++ [KLax]) d = unmarshal Upstream t toks d.
Proof.
  intros. rewrite !unmarshal_normal. rewrite !leaves_of_upstream. rewrite parse_params_snoc_lax, set_lax_set_lax. reflexivity.
Qed.

(* ------------------------------------------------------------------ RawContent / RawValue are the consumed slice *)

Theorem raw_content_slice : forall v t toks d rc vs rest fs,
  t = TStruct true fs -> unmarshal v t toks d = Ok (VStruct (Some rc) vs, rest) -> d = rc ++ rest.
Proof.
  intros v t toks d rc vs rest fs -> H. unfold unmarshal in H. destruct d as [|b0 d0].
  - cbn [parse_field] in H. destruct (p_optional _); [|discriminate]. inversion H; subst. reflexivity.
  - cbn [parse_field] in H. apply bind_ok in H. destruct H as (st & Eh & H).
    destruct st as [|r|h utag inner rest'].
    + inversion H; subst. reflexivity.
    + inversion H.
    + apply bind_ok in H. destruct H as (vs' & _ & H). inversion H; subst.
      change (l_b128 (leaves_of v (p_lax (parse_params v toks)))) with (parse_base128 v) in Eh.
      apply header_phase_body in Eh. destruct Eh as (pre & hb & Hd & _). rewrite Hd.
      replace (pre ++ hb ++ inner ++ rest) with ((pre ++ hb ++ inner) ++ rest) by (repeat rewrite <- app_assoc; reflexivity).
      rewrite consumed_app. reflexivity.
Qed.

Theorem raw_value_slice : forall v toks d c tg k content full rest,
  unmarshal v TRawValue toks d = Ok (VRaw c tg k (Some content) (Some full), rest) ->
  d = full ++ rest /\ exists hd, full = hd ++ content.
Proof.
  intros v toks d c tg k content full rest H. unfold unmarshal in H. destruct d as [|b0 d0].
  - cbn [parse_field] in H. destruct (p_optional _); [|discriminate]. inversion H.
  - cbn [parse_field] in H. apply bind_ok in H. destruct H as (st & Eh & H).
    destruct st as [|r|h utag inner rest'].
    + inversion H.
    + inversion H.
    + cbn [prim_body bind] in H. inversion H; subst.
      change (l_b128 (leaves_of v (p_lax (parse_params v toks)))) with (parse_base128 v) in Eh.
      apply header_phase_body in Eh. destruct Eh as (pre & hb & Hd & _). rewrite Hd.
      replace (pre ++ hb ++ content ++ rest) with ((pre ++ hb ++ content) ++ rest) by (repeat rewrite <- app_assoc; reflexivity).
      rewrite consumed_app. split; [reflexivity|]. exists (pre ++ hb). rewrite <- app_assoc. reflexivity.
Qed.
