// C20 correspondence harness: the code lives in main_test.go because it needs
// testing/synctest (virtual time); bin/check builds it with `go test -c` (harness_kind "test").
package main

func main() {}
