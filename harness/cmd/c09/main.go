// C09 correspondence harness: tls.Marshal / tls.Unmarshal on struct types generated at run
// time from the tag grammar, values of them, and byte strings (valid encodings, truncations,
// trailing data, corrupted length fields, random bytes).
package main

import (
	"flag"
	"fmt"
	"math/rand"
	"reflect"
	"runtime"
	"strings"
	"time"

	"github.com/google/certificate-transparency-go/tls"

	"verif/harness/lib"
	"verif/harness/tlsgen"
)

const header = `From Coq Require Import String NArith List. Import ListNotations.
From V Require Import Base.Bytes TLS.TlsModel TLS.TlsCase.
Local Open Scope N_scope.
`

type outcome struct {
	class string // ok syntax struct panic hang other
	bytes []byte
	val   reflect.Value
	rest  []byte
	alloc uint64 // bytes allocated while the call ran (runtime.MemStats.TotalAlloc difference)
}

// allocBound is what a decoder may allocate for an input of n bytes: a constant plus a generous
// factor per input byte (vectors of pointer-bearing structs cost far more memory than input).
func allocBound(n int) uint64 { return 1<<20 + 512*uint64(n) }

func classify(err error) string {
	if err == nil {
		return "ok"
	}
	s := err.Error()
	switch {
	case strings.HasPrefix(s, "tls: syntax error"):
		return "syntax"
	case strings.HasPrefix(s, "tls: structure error"):
		return "struct"
	}
	return "other:" + s
}

func guarded(f func() outcome) (o outcome) {
	done := make(chan outcome, 1)
	var before, after runtime.MemStats
	runtime.ReadMemStats(&before)
	go func() {
		defer func() {
			if r := recover(); r != nil {
				done <- outcome{class: "panic"}
			}
		}()
		done <- f()
	}()
	select {
	case o = <-done:
		runtime.ReadMemStats(&after)
		o.alloc = after.TotalAlloc - before.TotalAlloc
		return o
	case <-time.After(5 * time.Second):
		return outcome{class: "hang"}
	}
}

func coqClass(c string) string {
	switch c {
	case "syntax":
		return "ErrSyntax"
	case "struct":
		return "ErrStruct"
	case "panic":
		return "Panic"
	case "hang":
		return "Hang"
	}
	return "ErrStruct (* " + c + " *)"
}

func main() {
	flag.Parse()
	r := lib.Rand()
	w := lib.NewWriter(header, 150)
	defer w.Guard()
	n := lib.Count(700, 12000)
	g := &tlsgen.Gen{R: r, Edges: true}
	hung := false

	// targeted stream, run FIRST (a decoder that allocates what is declared may kill the process on
	// the larger claims of the later streams; what was recorded before still counts): length prefixes of 3 and 4 bytes declaring far more (1 MiB .. 256 MiB) than
	// the few bytes that follow: the decoder must refuse BEFORE it allocates what was declared
	for i := 0; i < 24 && !hung; i++ {
		width := 3 + i%2
		max := uint64(1)<<(8*uint(width)) - 1
		tag := fmt.Sprintf("maxlen:%d", max)
		var t *tlsgen.Ty
		inner := &tlsgen.Ty{Kind: "bytes"}
		if i%3 == 2 {
			inner = &tlsgen.Ty{Kind: "vec", Elem: &tlsgen.Ty{Kind: "u16"}}
		}
		asField := i%4 >= 2
		if asField {
			t = &tlsgen.Ty{Kind: "struct", Fields: []tlsgen.Field{{Name: "A", T: &tlsgen.Ty{Kind: "u8"}}, {Name: "B", Tag: tag, T: inner}}}
			tag = ""
		} else {
			t = inner
		}
		body := make([]byte, r.Intn(9))
		r.Read(body)
		declared := uint64(1) << uint(20+r.Intn(9))
		if declared > max {
			declared = max - uint64(r.Intn(2))
		}
		declared &^= 1 // an even number of bytes: a whole number of u16 elements
		var in []byte
		if asField {
			in = append(in, byte(r.Intn(256)))
		}
		for k := width - 1; k >= 0; k-- {
			in = append(in, byte(declared>>(8*uint(k))))
		}
		in = append(in, body...)
		dst := reflect.New(t.GoType())
		po := guarded(func() outcome {
			rest, err := tls.UnmarshalWithParams(in, dst.Interface(), tag)
			return outcome{class: classify(err), rest: rest}
		})
		hung = hung || po.class == "hang"
		pOK, pnote := true, ""
		switch {
		case po.class == "ok":
			pOK, pnote = false, fmt.Sprintf("declared length %d accepted with only %d bytes of input", declared, len(body))
		case po.class == "panic" || po.class == "hang":
			pOK, pnote = false, fmt.Sprintf("Unmarshal %s on a %d-byte length prefix declaring %d for type %s", po.class, width, declared, t.String())
		case po.alloc > allocBound(len(in)):
			pOK, pnote = false, fmt.Sprintf("Unmarshal allocated %d bytes for an input of %d bytes whose length prefix declares %d (type %s)", po.alloc, len(in), declared, t.String())
		}
		w.Add(lib.Case{
			Coq:    fmt.Sprintf("CParse %s %s %s (%s)", t.Coq(), tlsgen.Clauses(tag), lib.Bytes(in), coqClass(po.class)),
			Input:  map[string]interface{}{"op": "unmarshal", "type": t.String(), "params": tag, "bytes_kind": "large-claim", "declared": fmt.Sprint(declared), "len": len(in)},
			Impl:   map[string]interface{}{"class": po.class, "allocated": po.alloc},
			PropOK: pOK, Note: pnote, Tags: []string{"parse:large-claim:" + strings.SplitN(po.class, ":", 2)[0]},
		})
	}
	// targeted stream: every field width 1..8, values at and above the width boundary, against a
	// hand-written big-endian reference
	widthStream(w, r, &hung)
	for i := 0; i < n && !hung; i++ {
		g.Malformed = 0
		wellformed := true
		if i%6 == 5 {
			g.Malformed = 120
			wellformed = false
		}
		t, tag := g.Type(1+r.Intn(4), true)
		if i%3 == 0 {
			t, tag = g.Struct(1+r.Intn(3)), ""
		}
		if i%7 == 5 {
			t, tag = g.MultiSel(r.Intn(2)), "" // several selectors with interleaved arms
		}
		if i%7 == 3 {
			t, tag = g.VariantVec(r.Intn(2)) // vectors of variant structs: repeated selectors in consecutive elements
		}
		if strings.Contains(t.Coq(), "size:0") {
			wellformed = false
		}
		gt := t.GoType()
		valid := r.Intn(5) != 0
		pv := reflect.New(gt)
		g.Missed = false
		g.Value(t, tag, pv.Elem(), valid)
		params := tlsgen.Clauses(tag)

		// --- Marshal ---
		mo := guarded(func() outcome {
			b, err := tls.MarshalWithParams(pv.Elem().Interface(), tag)
			return outcome{class: classify(err), bytes: b}
		})
		hung = hung || mo.class == "hang"
		obs := coqClass(mo.class)
		propOK, note := true, ""
		if mo.class == "ok" {
			obs = "Ok " + lib.Bytes(mo.bytes)
			// direct oracle: decoding the encoding returns the value, nothing left over
			back := reflect.New(gt)
			po := guarded(func() outcome {
				rest, err := tls.UnmarshalWithParams(mo.bytes, back.Interface(), tag)
				return outcome{class: classify(err), rest: rest}
			})
			if po.class != "ok" || len(po.rest) != 0 || !reflect.DeepEqual(normalize(back.Elem()), normalize(pv.Elem())) {
				if wellformed {
					propOK, note = false, fmt.Sprintf("round trip value->bytes->value fails (%s) for type %s", po.class, t.String())
				}
			}
		} else if mo.class == "panic" || mo.class == "hang" {
			if wellformed {
				propOK, note = false, "Marshal "+mo.class+" for type "+t.String()
			}
		} else if wellformed && valid && !g.Missed && noVectors(t) {
			// every in-range value of a supported shape has an encoding
			propOK, note = false, fmt.Sprintf("Marshal refuses an in-range value (%s) of type %s", mo.class, t.String())
		}
		w.Add(lib.Case{
			Coq:    fmt.Sprintf("CMarshal %s %s %s (%s)", t.Coq(), params, tlsgen.ValCoq(t, pv.Elem()), obs),
			Input:  map[string]interface{}{"op": "marshal", "type": t.String(), "params": tag, "valid_value": valid},
			Impl:   map[string]interface{}{"class": mo.class, "len": len(mo.bytes)},
			PropOK: propOK, Note: note,
			Tags: []string{"marshal:" + strings.SplitN(mo.class, ":", 2)[0], fmt.Sprintf("wellformed=%v", wellformed), "top:" + t.Kind},
		})

		// --- Unmarshal on derived byte strings ---
		var inputs [][]byte
		var kinds []string
		if mo.class == "ok" {
			b := mo.bytes
			inputs, kinds = append(inputs, b), append(kinds, "exact")
			inputs, kinds = append(inputs, append(append([]byte{}, b...), byte(r.Intn(256)), 0x7)), append(kinds, "trailing")
			if len(b) > 0 {
				inputs, kinds = append(inputs, b[:r.Intn(len(b))]), append(kinds, "truncated")
				m := append([]byte{}, b...)
				k := r.Intn(len(m))
				if len(m) > 8 && r.Intn(2) == 0 {
					k = r.Intn(8) // length fields live near the front
				}
				m[k] ^= byte(1 << uint(r.Intn(8)))
				inputs, kinds = append(inputs, m), append(kinds, "bitflip")
				m2 := append([]byte{}, b...)
				m2[k] = 0xff
				inputs, kinds = append(inputs, m2), append(kinds, "ff")
			}
		}
		rb := make([]byte, r.Intn(24))
		r.Read(rb)
		inputs, kinds = append(inputs, rb), append(kinds, "random")
		for j, in := range inputs {
			if len(in) > 4000 && kinds[j] != "exact" {
				continue
			}
			dst := reflect.New(gt)
			po := guarded(func() outcome {
				rest, err := tls.UnmarshalWithParams(in, dst.Interface(), tag)
				return outcome{class: classify(err), rest: rest}
			})
			hung = hung || po.class == "hang"
			pobs := coqClass(po.class)
			pOK, pnote := true, ""
			if po.class == "ok" {
				pobs = fmt.Sprintf("Ok (%s, %s)", tlsgen.ValCoq(t, dst.Elem()), lib.Bytes(po.rest))
				// direct oracle: re-encoding reproduces exactly the consumed bytes
				ro := guarded(func() outcome {
					b, err := tls.MarshalWithParams(dst.Elem().Interface(), tag)
					return outcome{class: classify(err), bytes: b}
				})
				consumed := in[:len(in)-len(po.rest)]
				if ro.class != "ok" || string(ro.bytes) != string(consumed) {
					pOK, pnote = false, fmt.Sprintf("round trip bytes->value->bytes fails (%s) for type %s", ro.class, t.String())
				}
			} else if po.class == "panic" || po.class == "hang" {
				pOK, pnote = false, "Unmarshal "+po.class+" for type "+t.String()
			}
			if pOK && po.alloc > allocBound(len(in)) {
				pOK, pnote = false, fmt.Sprintf("Unmarshal allocated %d bytes for an input of %d bytes (%s) for type %s", po.alloc, len(in), po.class, t.String())
			}
			w.Add(lib.Case{
				Coq:    fmt.Sprintf("CParse %s %s %s (%s)", t.Coq(), params, lib.Bytes(in), pobs),
				Input:  map[string]interface{}{"op": "unmarshal", "type": t.String(), "params": tag, "bytes_kind": kinds[j], "len": len(in)},
				Impl:   map[string]interface{}{"class": po.class, "rest": len(po.rest)},
				PropOK: pOK, Note: pnote,
				Tags: []string{"parse:" + kinds[j] + ":" + strings.SplitN(po.class, ":", 2)[0], fmt.Sprintf("wellformed=%v", wellformed)},
			})
		}
	}
	// targeted stream: 8-byte length prefixes with huge declared lengths (beyond MaxInt64 too)
	for i := 0; i < n/8 && !hung; i++ {
		max := []uint64{1 << 56, 1 << 63, 1<<64 - 1, 1<<63 - 1}[r.Intn(4)]
		tag := fmt.Sprintf("maxlen:%d", max)
		var t *tlsgen.Ty
		elem := &tlsgen.Ty{Kind: []string{"u16", "u24", "arr"}[r.Intn(3)], N: 2}
		inner := &tlsgen.Ty{Kind: "bytes"}
		if r.Intn(2) == 0 {
			inner = &tlsgen.Ty{Kind: "vec", Elem: elem}
		}
		asField := r.Intn(2) == 0
		if asField {
			t = &tlsgen.Ty{Kind: "struct", Fields: []tlsgen.Field{{Name: "A", T: &tlsgen.Ty{Kind: "u8"}}, {Name: "B", Tag: tag, T: inner}}}
			tag = ""
		} else {
			t = inner
		}
		body := make([]byte, r.Intn(9))
		r.Read(body)
		declared := []uint64{1 << 63, 1<<64 - 1, 1<<63 + uint64(r.Intn(100)), uint64(len(body)), uint64(len(body)) + 1, 1<<63 - 1, 1 << 62}[r.Intn(7)]
		var in []byte
		if asField {
			in = append(in, byte(r.Intn(256)))
		}
		for k := 7; k >= 0; k-- {
			in = append(in, byte(declared>>(8*uint(k))))
		}
		in = append(in, body...)
		gt := t.GoType()
		dst := reflect.New(gt)
		po := guarded(func() outcome {
			rest, err := tls.UnmarshalWithParams(in, dst.Interface(), tag)
			return outcome{class: classify(err), rest: rest}
		})
		hung = hung || po.class == "hang"
		pobs := coqClass(po.class)
		pOK, pnote := true, ""
		if po.class == "ok" {
			pobs = fmt.Sprintf("Ok (%s, %s)", tlsgen.ValCoq(t, dst.Elem()), lib.Bytes(po.rest))
			if declared > uint64(len(body)) {
				pOK, pnote = false, fmt.Sprintf("declared length %d accepted with only %d bytes of input", declared, len(body))
			}
		} else if po.class == "panic" || po.class == "hang" {
			pOK, pnote = false, fmt.Sprintf("Unmarshal %s on an 8-byte length prefix declaring %d for type %s", po.class, declared, t.String())
		}
		w.Add(lib.Case{
			Coq:    fmt.Sprintf("CParse %s %s %s (%s)", t.Coq(), tlsgen.Clauses(tag), lib.Bytes(in), pobs),
			Input:  map[string]interface{}{"op": "unmarshal", "type": t.String(), "params": tag, "bytes_kind": "huge-length", "declared": fmt.Sprint(declared), "len": len(in)},
			Impl:   map[string]interface{}{"class": po.class, "rest": len(po.rest)},
			PropOK: pOK, Note: pnote, Tags: []string{"parse:huge-length:" + strings.SplitN(po.class, ":", 2)[0]},
		})
	}
	w.Close()
	fmt.Printf("c09: wrote %d cases (hang seen: %v)\n", w.Len(), hung)
}

// be is the reference encoding of an n-octet unsigned field: the n low octets of x, most significant first.
func be(x uint64, n int) []byte {
	out := make([]byte, n)
	for k := n - 1; k >= 0; k-- {
		out[k] = byte(x)
		x >>= 8
	}
	return out
}

// fits: x can be written in n octets (n in 1..8).
func fits(x uint64, n int) bool { return n >= 8 || x>>(8*uint(n)) == 0 }

// widthStream: for EVERY width n = 1..8 of an enum (size:n, maxval:N whose octet count is n: the
// smallest and the largest such N and a random one) and every placement (top level with parameters, a
// struct field between fixed-width neighbours, a selector with its arms, the element of a vector), the
// values around 2^(8n) (tlsgen.WidthEdges: 2^(8n)-1, 2^(8n), 2^(8n)+1, a non-zero top octet of the uint64,
// ...).  The oracle is a hand-written reference, not the codec: a value has an encoding exactly when it
// fits in n octets, the encoding is its n low octets big-endian between the neighbours' octets, and that
// encoding decodes to the value with nothing left over.  A value that does not fit must be refused by
// Marshal: no byte string decodes to it, so an accepted one cannot come back (decode(encode(v)) != v).
// The same is done for length prefixes (maxlen:N of every octet count): the lengths N-1, N, N+1 with real
// bodies where that is affordable (up to 2^16+1 octets; above 300 in the thorough tier), and declared lengths N, N+1, 2^(8n)-1 on the decoding side.
func widthStream(w *lib.Writer, r *rand.Rand, hung *bool) {
	u8, u16, enum := &tlsgen.Ty{Kind: "u8"}, &tlsgen.Ty{Kind: "u16"}, &tlsgen.Ty{Kind: "enum"}
	place := 0
	for n := 1; n <= 8 && !*hung; n++ {
		mask := ^uint64(0)
		if n < 8 {
			mask = uint64(1)<<(8*uint(n)) - 1
		}
		lo := uint64(1)
		if n > 1 {
			lo = uint64(1) << (8 * uint(n-1))
		}
		mid := lo + uint64(r.Int63n(int64((mask-lo)>>1)+1))
		tags := []string{fmt.Sprintf("size:%d", n), fmt.Sprintf("maxval:%d", mask), fmt.Sprintf("maxval:%d", lo), fmt.Sprintf("maxval:%d", mid)}
		for _, etag := range tags {
			fit, over := tlsgen.WidthEdges(n, r)
			for _, x := range append(append([]uint64{}, fit...), over...) {
				if *hung {
					break
				}
				place++
				xin := x & mask // what n octets can say of x: the value that the reference encoding decodes to
				a, b := byte(r.Intn(256)), uint16(r.Intn(65536))
				// build (type, parameters, value holding x, reference encoding of xin, value holding xin)
				var t *tlsgen.Ty
				params, pname := "", ""
				var mk func(x uint64) reflect.Value
				var ref []byte
				switch place % 4 {
				case 0:
					pname, t, params = "top", enum, etag
					mk = func(x uint64) reflect.Value {
						v := reflect.New(t.GoType()).Elem()
						v.SetUint(x)
						return v
					}
					ref = be(xin, n)
				case 1:
					pname = "field"
					t = &tlsgen.Ty{Kind: "struct", Fields: []tlsgen.Field{{Name: "A", T: u8}, {Name: "E", Tag: etag, T: enum}, {Name: "B", T: u16}}}
					mk = func(x uint64) reflect.Value {
						v := reflect.New(t.GoType()).Elem()
						v.Field(0).SetUint(uint64(a))
						v.Field(1).SetUint(x)
						v.Field(2).SetUint(uint64(b))
						return v
					}
					ref = append(append([]byte{a}, be(xin, n)...), be(uint64(b), 2)...)
				case 2:
					// the arm X belongs to what n octets can say of x; when x does not fit, a second arm Y
					// belongs to x itself and is the one the value fills in
					pname = "selector"
					other := xin ^ 1
					if x != xin {
						other = x
					}
					t = &tlsgen.Ty{Kind: "struct", Fields: []tlsgen.Field{{Name: "E", Tag: etag, T: enum},
						{Name: "X", Tag: fmt.Sprintf("selector:E,val:%d", xin), Ptr: true, T: u8},
						{Name: "Y", Tag: fmt.Sprintf("selector:E,val:%d", other), Ptr: true, T: u8}}}
					mk = func(x uint64) reflect.Value {
						v := reflect.New(t.GoType()).Elem()
						v.Field(0).SetUint(x)
						p := reflect.New(u8.GoType())
						p.Elem().SetUint(uint64(a))
						if x == xin {
							v.Field(1).Set(p)
						} else {
							v.Field(2).Set(p)
						}
						return v
					}
					ref = append(be(xin, n), a)
				default:
					pname = "element"
					el := &tlsgen.Ty{Kind: "struct", Fields: []tlsgen.Field{{Name: "E", Tag: etag, T: enum}, {Name: "C", T: u8}}}
					t, params = &tlsgen.Ty{Kind: "vec", Elem: el}, "maxlen:255"
					mk = func(x uint64) reflect.Value {
						v := reflect.MakeSlice(t.GoType(), 2, 2)
						v.Index(0).Field(0).SetUint(uint64(b) & mask)
						v.Index(0).Field(1).SetUint(uint64(a))
						v.Index(1).Field(0).SetUint(x)
						v.Index(1).Field(1).SetUint(uint64(a) ^ 0xff)
						return v
					}
					ref = append([]byte{byte(2 * (n + 1))}, be(uint64(b)&mask, n)...)
					ref = append(append(append(ref, a), be(xin, n)...), a^0xff)
				}
				gt := t.GoType()
				val := mk(x)
				mo := guarded(func() outcome {
					bs, err := tls.MarshalWithParams(val.Interface(), params)
					return outcome{class: classify(err), bytes: bs}
				})
				*hung = *hung || mo.class == "hang"
				obs := coqClass(mo.class)
				pOK, note := true, ""
				desc := fmt.Sprintf("%d (0x%x) in the %d-octet enum `%s` (%s) of type %s", x, x, n, etag, pname, t.String())
				switch {
				case mo.class == "panic" || mo.class == "hang":
					pOK, note = false, "Marshal "+mo.class+" on value "+desc
				case mo.class == "ok":
					obs = "Ok " + lib.Bytes(mo.bytes)
					if !fits(x, n) {
						back := reflect.New(gt)
						po := guarded(func() outcome {
							rest, err := tls.UnmarshalWithParams(mo.bytes, back.Interface(), params)
							return outcome{class: classify(err), rest: rest}
						})
						pOK, note = false, fmt.Sprintf("Marshal accepts value %s, which %d octets cannot hold; decoding the result (%s) gives back a different value: %v", desc, n, po.class, normalize(back.Elem()))
					} else if string(mo.bytes) != string(ref) {
						pOK, note = false, fmt.Sprintf("Marshal of value %s gives %x, the encoding is %x", desc, mo.bytes, ref)
					}
				case fits(x, n):
					pOK, note = false, fmt.Sprintf("Marshal refuses (%s) value %s, which fits", mo.class, desc)
				}
				w.Add(lib.Case{
					Coq:    fmt.Sprintf("CMarshal %s %s %s (%s)", t.Coq(), tlsgen.Clauses(params), tlsgen.ValCoq(t, val), obs),
					Input:  map[string]interface{}{"op": "marshal", "type": t.String(), "params": params, "stream": "width", "width": n, "enum_tag": etag, "placement": pname, "value": fmt.Sprint(x), "fits": fits(x, n)},
					Impl:   map[string]interface{}{"class": mo.class, "bytes": fmt.Sprintf("%x", mo.bytes)},
					PropOK: pOK, Note: note,
					Tags: []string{"marshal:width:" + strings.SplitN(mo.class, ":", 2)[0], fmt.Sprintf("width=%d:fits=%v", n, fits(x, n)), "width:" + pname},
				})
				// decoding side: the reference encoding of xin (a value that fits), with or without an octet after it
				in := append([]byte{}, ref...)
				if place%3 == 0 {
					in = append(in, byte(r.Intn(256)))
				}
				dst := reflect.New(gt)
				po := guarded(func() outcome {
					rest, err := tls.UnmarshalWithParams(in, dst.Interface(), params)
					return outcome{class: classify(err), rest: rest}
				})
				*hung = *hung || po.class == "hang"
				pobs := coqClass(po.class)
				pOK, note = true, ""
				switch {
				case po.class == "panic" || po.class == "hang":
					pOK, note = false, fmt.Sprintf("Unmarshal %s on %x for type %s", po.class, in, t.String())
				case po.class != "ok":
					pOK, note = false, fmt.Sprintf("Unmarshal refuses (%s) %x, the encoding of %d in the %d-octet enum `%s` (%s) of type %s", po.class, in, xin, n, etag, pname, t.String())
				default:
					pobs = fmt.Sprintf("Ok (%s, %s)", tlsgen.ValCoq(t, dst.Elem()), lib.Bytes(po.rest))
					if string(po.rest) != string(in[len(ref):]) || !reflect.DeepEqual(normalize(dst.Elem()), normalize(mk(xin))) {
						pOK, note = false, fmt.Sprintf("Unmarshal of %x, the encoding of %d in the %d-octet enum `%s` (%s) of type %s, gives %v and leaves %x", in, xin, n, etag, pname, t.String(), normalize(dst.Elem()), po.rest)
					}
				}
				w.Add(lib.Case{
					Coq:    fmt.Sprintf("CParse %s %s %s (%s)", t.Coq(), tlsgen.Clauses(params), lib.Bytes(in), pobs),
					Input:  map[string]interface{}{"op": "unmarshal", "type": t.String(), "params": params, "bytes_kind": "width", "width": n, "enum_tag": etag, "placement": pname, "value": fmt.Sprint(xin), "len": len(in)},
					Impl:   map[string]interface{}{"class": po.class, "rest": len(po.rest)},
					PropOK: pOK, Note: note,
					Tags: []string{"parse:width:" + strings.SplitN(po.class, ":", 2)[0], "width:" + pname},
				})
			}
		}
		// length prefixes of n octets: maxlen:N with N the smallest and the largest n-octet number
		for _, max := range []uint64{lo, mask} {
			ltag := fmt.Sprintf("maxlen:%d", max)
			if max > 2 && r.Intn(2) == 0 {
				ltag = fmt.Sprintf("minlen:2,maxlen:%d", max)
			}
			min := uint64(0)
			if strings.HasPrefix(ltag, "minlen:2") {
				min = 2
			}
			asField := r.Intn(2) == 0
			t, params := &tlsgen.Ty{Kind: "bytes"}, ltag
			if asField {
				t = &tlsgen.Ty{Kind: "struct", Fields: []tlsgen.Field{{Name: "A", T: u8}, {Name: "L", Tag: ltag, T: &tlsgen.Ty{Kind: "bytes"}}, {Name: "B", T: u8}}}
				params = ""
			}
			gt := t.GoType()
			// encoding side, with real bodies (up to 2^16+1 octets; the largest ones once per run only)
			lens := []uint64{min, max - 1, max, max + 1}
			if min > 0 {
				lens = append(lens, min-1)
			}
			for _, l := range lens {
				// bodies above 300 octets (the 2-octet boundary) in the thorough tier only: a 64 KiB literal costs
				// the Coq front end some ten seconds
				if l > 1<<16+1 || (l > 300 && lib.Tier() != "thorough") || *hung {
					continue
				}
				body := make([]byte, l)
				fill := byte(r.Intn(256))
				for k := range body {
					body[k] = fill + byte(k)
				}
				val := reflect.New(gt).Elem()
				ref := append(be(l, n), body...)
				if asField {
					val.Field(0).SetUint(7)
					val.Field(1).SetBytes(body)
					val.Field(2).SetUint(9)
					ref = append(append([]byte{7}, ref...), 9)
				} else {
					val.SetBytes(body)
				}
				inRange := l >= min && l <= max
				mo := guarded(func() outcome {
					bs, err := tls.MarshalWithParams(val.Interface(), params)
					return outcome{class: classify(err), bytes: bs}
				})
				*hung = *hung || mo.class == "hang"
				obs := coqClass(mo.class)
				pOK, note := true, ""
				desc := fmt.Sprintf("a vector of %d octets in `%s` (%d-octet length prefix) of type %s", l, ltag, n, t.String())
				switch {
				case mo.class == "panic" || mo.class == "hang":
					pOK, note = false, "Marshal "+mo.class+" on "+desc
				case mo.class == "ok":
					obs = "Ok " + lib.Bytes(mo.bytes)
					if !inRange {
						pOK, note = false, "Marshal accepts "+desc+", outside the declared range"
					} else if string(mo.bytes) != string(ref) {
						pOK, note = false, "Marshal of "+desc+" is not the length prefix followed by the body"
					}
				case inRange:
					pOK, note = false, fmt.Sprintf("Marshal refuses (%s) %s, inside the declared range", mo.class, desc)
				}
				w.Add(lib.Case{
					Coq:    fmt.Sprintf("CMarshal %s %s %s (%s)", t.Coq(), tlsgen.Clauses(params), tlsgen.ValCoq(t, val), obs),
					Input:  map[string]interface{}{"op": "marshal", "type": t.String(), "params": params, "stream": "width-len", "width": n, "len_tag": ltag, "length": l, "in_range": inRange},
					Impl:   map[string]interface{}{"class": mo.class, "len": len(mo.bytes)},
					PropOK: pOK, Note: note,
					Tags: []string{"marshal:width-len:" + strings.SplitN(mo.class, ":", 2)[0], fmt.Sprintf("lenwidth=%d:in_range=%v", n, inRange)},
				})
				if !inRange && l < 1<<(8*uint(n)) {
					// decoding side: the same octets must be refused as well
					dst := reflect.New(gt)
					po := guarded(func() outcome {
						rest, err := tls.UnmarshalWithParams(ref, dst.Interface(), params)
						return outcome{class: classify(err), rest: rest}
					})
					*hung = *hung || po.class == "hang"
					pobs := coqClass(po.class)
					pOK, note = true, ""
					if po.class == "ok" {
						pobs = fmt.Sprintf("Ok (%s, %s)", tlsgen.ValCoq(t, dst.Elem()), lib.Bytes(po.rest))
						pOK, note = false, "Unmarshal accepts "+desc+", outside the declared range"
					} else if po.class == "panic" || po.class == "hang" {
						pOK, note = false, "Unmarshal "+po.class+" on "+desc
					}
					w.Add(lib.Case{
						Coq:    fmt.Sprintf("CParse %s %s %s (%s)", t.Coq(), tlsgen.Clauses(params), lib.Bytes(ref), pobs),
						Input:  map[string]interface{}{"op": "unmarshal", "type": t.String(), "params": params, "bytes_kind": "width-len", "width": n, "len_tag": ltag, "length": l, "len": len(ref)},
						Impl:   map[string]interface{}{"class": po.class, "rest": len(po.rest)},
						PropOK: pOK, Note: note, Tags: []string{"parse:width-len:" + strings.SplitN(po.class, ":", 2)[0]},
					})
				}
			}
			// decoding side, declared lengths around N and at the top of the width over a short body
			for _, declared := range []uint64{max, max + 1, mask, mask - 1} {
				if !fits(declared, n) || *hung {
					continue
				}
				body := make([]byte, 1+r.Intn(4))
				r.Read(body)
				in := append(be(declared, n), body...)
				if asField {
					in = append([]byte{7}, in...)
				}
				dst := reflect.New(gt)
				po := guarded(func() outcome {
					rest, err := tls.UnmarshalWithParams(in, dst.Interface(), params)
					return outcome{class: classify(err), rest: rest}
				})
				*hung = *hung || po.class == "hang"
				pobs := coqClass(po.class)
				pOK, note := true, ""
				// the body holds the declared octets (and, in a struct, the octet of field B after them)
				avail := uint64(len(body))
				if asField {
					avail--
				}
				enough := declared <= avail
				switch {
				case po.class == "panic" || po.class == "hang":
					pOK, note = false, fmt.Sprintf("Unmarshal %s on a %d-octet length prefix declaring %d for `%s` of type %s", po.class, n, declared, ltag, t.String())
				case po.class == "ok":
					pobs = fmt.Sprintf("Ok (%s, %s)", tlsgen.ValCoq(t, dst.Elem()), lib.Bytes(po.rest))
					if declared > max || declared < min || !enough {
						pOK, note = false, fmt.Sprintf("Unmarshal accepts a %d-octet length prefix declaring %d over %d octets for `%s` of type %s", n, declared, len(body), ltag, t.String())
					}
				case declared <= max && declared >= min && enough:
					pOK, note = false, fmt.Sprintf("Unmarshal refuses (%s) a %d-octet length prefix declaring %d over %d octets for `%s` of type %s", po.class, n, declared, len(body), ltag, t.String())
				}
				if pOK && po.alloc > allocBound(len(in)) {
					pOK, note = false, fmt.Sprintf("Unmarshal allocated %d bytes for an input of %d bytes whose length prefix declares %d (type %s)", po.alloc, len(in), declared, t.String())
				}
				w.Add(lib.Case{
					Coq:    fmt.Sprintf("CParse %s %s %s (%s)", t.Coq(), tlsgen.Clauses(params), lib.Bytes(in), pobs),
					Input:  map[string]interface{}{"op": "unmarshal", "type": t.String(), "params": params, "bytes_kind": "width-declared", "width": n, "len_tag": ltag, "declared": fmt.Sprint(declared), "len": len(in)},
					Impl:   map[string]interface{}{"class": po.class, "rest": len(po.rest)},
					PropOK: pOK, Note: note, Tags: []string{"parse:width-declared:" + strings.SplitN(po.class, ":", 2)[0]},
				})
			}
		}
	}
}

// normalize maps nil and empty slices to one form (Unmarshal produces empty non-nil slices).
func normalize(v reflect.Value) interface{} {
	switch v.Kind() {
	case reflect.Slice:
		out := make([]interface{}, v.Len())
		for i := range out {
			out[i] = normalize(v.Index(i))
		}
		return out
	case reflect.Array:
		out := make([]interface{}, v.Len())
		for i := range out {
			out[i] = normalize(v.Index(i))
		}
		return out
	case reflect.Struct:
		out := make([]interface{}, v.NumField())
		for i := range out {
			out[i] = normalize(v.Field(i))
		}
		return out
	case reflect.Ptr:
		if v.IsNil() {
			return nil
		}
		return []interface{}{"ptr", normalize(v.Elem())}
	}
	return v.Uint()
}

// noVectors: the type contains only fixed-width integers, enums, byte arrays, structs and
// variants, for which the generator's notion of an in-range value is exact.
func noVectors(t *tlsgen.Ty) bool {
	switch t.Kind {
	case "bytes", "vec":
		return false
	case "struct":
		for _, f := range t.Fields {
			if !noVectors(f.T) {
				return false
			}
		}
	}
	return true
}
