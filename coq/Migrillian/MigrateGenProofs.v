(* C20 - T1 tie: the comparisons of fetchTail / verifyConsistency / Fetcher.Prepare, translated from the
   Go source on every run (gen/Migrate.v), are the ones the hand-written model uses. *)
From Coq Require Import ZArith Bool List Lia.
From V Require Import Base.GoInt Base.Bytes gen.Migrate Migrillian.MigrateModel.
Import ListNotations.
Open Scope Z_scope.

Lemma generated_conditions_lemma :
  (* `if sth.TreeSize <= begin { return begin, nil }` *)
  (forall n begin, nothing_new n begin = (n <=? begin))
  (* verifyConsistency: `if treeSize == 0 { return nil }` is the only way past the gate without a proof
     (NoConsistencyCheck aside) *)
  /\ (forall (proof : Type) (vcons : Z -> Z -> proof -> bytes -> bytes -> bool) cfg ts droot n r cons,
        gate proof vcons cfg ts droot n r cons =
        if empty_root_needs_no_proof ts then (true, None)
        else if c_nocheck cfg then (true, None)
        else match cons with
             | ConsErr => (false, Some (ts, n))
             | ConsProof pf => (vcons ts n pf droot r, Some (ts, n))
             end)
  (* the resume point: `else if fo.StartIndex < 0`, `if int64(begin) > fo.StartIndex` *)
  /\ (forall cfg ts begin, 0 <= begin <= max_i64 ->
        start_index cfg ts begin =
        let s0 := if c_continuous cfg then ts else if start_is_auto (c_start cfg) then ts else c_start cfg in
        if begin_overrides_start begin s0 then begin else s0)
  (* Fetcher.Prepare: `f.opts.EndIndex == 0 || f.opts.EndIndex > size` *)
  /\ (forall cfg n,
        end_index cfg n =
        let e0 := if c_continuous cfg then 0 else c_end cfg in
        if end_reset_to_sth e0 n then n else e0).
Proof.
  split; [reflexivity|]. split; [reflexivity|]. split; [|reflexivity].
  intros cfg ts begin Hb. unfold start_index, begin_overrides_start, start_is_auto. cbv zeta.
  rewrite wrap64_id by (unfold in_i64; pose proof min_i64_eq; pose proof two63_pos; lia). reflexivity.
Qed.
